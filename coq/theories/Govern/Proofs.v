(* Proofs about Arc.Govern.Model (property C28). *)
From Coq Require Import List ZArith Bool Lia Arith.
From Arc Require Import Govern.Model.
Import ListNotations.
Open Scope Z_scope.

(* ------------------------------------------------------------------------------------ *)
(* clocks, truncation, slots                                                            *)
(* ------------------------------------------------------------------------------------ *)

Fixpoint nondecr (l : list Z) : Prop :=
  match l with
  | [] => True
  | x :: r => match r with [] => True | y :: _ => x <= y end /\ nondecr r
  end.

Lemma nondecrb_spec l : nondecrb l = true <-> nondecr l.
Proof.
  induction l as [|x r IH]; cbn; [tauto|].
  destruct r as [|y r']; [tauto|].
  rewrite andb_true_iff, Z.leb_le, IH. tauto.
Qed.

Lemma nondecr_tail x l : nondecr (x :: l) -> nondecr l.
Proof. cbn. tauto. Qed.

Lemma nondecr_skip x y l : nondecr (x :: y :: l) -> x <= y /\ nondecr (y :: l).
Proof. cbn. tauto. Qed.

(* dropping the second element keeps the list sorted *)
Lemma nondecr_drop x y l : nondecr (x :: y :: l) -> nondecr (x :: l).
Proof.
  destruct l as [|z l']; cbn; [tauto|]. intros [H1 [H2 H3]]. split; [lia|exact H3].
Qed.

Lemma trunc_abs d t : 0 < d -> abs_ns (trunc d t) = d * slot_of d t.
Proof.
  intros Hd. unfold trunc, slot_of. destruct (Z.leb_spec d 0); [lia|].
  unfold abs_ns at 1. pose proof (Z.div_mod (abs_ns t) d ltac:(lia)) as H1.
  unfold abs_ns in *. lia.
Qed.

Lemma slot_mono d t t' : 0 < d -> t <= t' -> slot_of d t <= slot_of d t'.
Proof. intros Hd H. unfold slot_of, abs_ns. apply Z.div_le_mono; lia. Qed.

Lemma slot_trunc d t : 0 < d -> slot_of d (trunc d t) = slot_of d t.
Proof.
  intros Hd. unfold slot_of at 1. rewrite trunc_abs by exact Hd.
  rewrite Z.mul_comm, Z.div_mul by lia. reflexivity.
Qed.

(* elapsed / slotDuration when lastSlotTime is slot c *)
Lemma elapsed_slots d last c now :
  0 < d -> abs_ns last = d * c ->
  trunc d now - last = d * (slot_of d now - c).
Proof.
  intros Hd Hl. pose proof (trunc_abs d now Hd) as H. unfold abs_ns in *. lia.
Qed.

Lemma quot_mul d k : 0 < d -> 0 <= k -> Z.quot (d * k) d = k.
Proof.
  intros Hd Hk. rewrite Z.quot_div_nonneg by nia. rewrite Z.mul_comm, Z.div_mul by lia. reflexivity.
Qed.

(* t in [a, a + n*d) touches at most the n+1 slots slot a .. slot a + n *)
Lemma win_slots d n a t : 0 < d -> 0 <= n -> a <= t < a + n * d ->
  slot_of d a <= slot_of d t <= slot_of d a + n.
Proof.
  intros Hd Hn [H1 H2]. split; [apply slot_mono; assumption|].
  unfold slot_of, abs_ns.
  assert (E : (a + zoff + n * d) / d = (a + zoff) / d + n) by (apply Z.div_add; lia).
  rewrite <- E. apply Z.div_le_mono; lia.
Qed.

(* a slot-aligned instant: times in [a, a+n*d) are exactly slots slot a .. slot a + n - 1 *)
Lemma win_slots_aligned d n a t : 0 < d -> 0 <= n -> (abs_ns a) mod d = 0 ->
  (a <= t < a + n * d <-> slot_of d a <= slot_of d t < slot_of d a + n).
Proof.
  intros Hd Hn Hal. unfold slot_of.
  pose proof (Z.div_mod (abs_ns a) d ltac:(lia)) as Ha. rewrite Hal in Ha.
  set (q := abs_ns a / d) in *.
  assert (Et : abs_ns t = t + zoff) by reflexivity.
  assert (Ea : abs_ns a = a + zoff) by reflexivity.
  split.
  - intros [H1 H2]. split.
    + apply Z.div_le_lower_bound; lia.
    + apply Z.div_lt_upper_bound; [lia|]. nia.
  - intros [H1 H2].
    pose proof (Z.div_mod (abs_ns t) d ltac:(lia)) as Ht.
    pose proof (Z.mod_pos_bound (abs_ns t) d Hd) as Hm.
    split; nia.
Qed.

(* ------------------------------------------------------------------------------------ *)
(* lists: the ring seen as "oldest slot first"                                          *)
(* ------------------------------------------------------------------------------------ *)

Definition view (slots : list Z) (cur : nat) : list Z := skipn (S cur) slots ++ firstn (S cur) slots.

Fixpoint zsum (l : list Z) : Z := match l with [] => 0 | x :: r => x + zsum r end.

Fixpoint zseq (lo : Z) (n : nat) : list Z :=
  match n with O => [] | S m => lo :: zseq (lo + 1) m end.

Lemma zsum_app a b : zsum (a ++ b) = zsum a + zsum b.
Proof. induction a; cbn [zsum app]; lia. Qed.

Lemma zsum_repeat0 k : zsum (repeat 0 k) = 0.
Proof. induction k; cbn [zsum repeat]; lia. Qed.

Lemma zseq_length lo n : length (zseq lo n) = n.
Proof. revert lo; induction n; intros; cbn; [reflexivity|]. now rewrite IHn. Qed.

Lemma zseq_app lo a b : zseq lo (a + b) = zseq lo a ++ zseq (lo + Z.of_nat a) b.
Proof.
  revert lo; induction a as [|a IH]; intros lo.
  - cbn. f_equal. lia.
  - cbn [Nat.add zseq app]. rewrite IH. do 3 f_equal. lia.
Qed.

Lemma skipn_zseq k lo n : skipn k (zseq lo n) = zseq (lo + Z.of_nat k) (n - k).
Proof.
  revert lo n; induction k as [|k IH]; intros lo n.
  - cbn [skipn]. rewrite Nat.sub_0_r. f_equal. lia.
  - destruct n as [|n]; [reflexivity|]. cbn [zseq skipn Nat.sub]. rewrite IH. f_equal. lia.
Qed.

Lemma skipn_app_len {A} (a b : list A) k : length a = k -> skipn k (a ++ b) = b.
Proof.
  intros <-. rewrite skipn_app, Nat.sub_diag, skipn_all. reflexivity.
Qed.

Lemma firstn_app_len {A} (a b : list A) k : length a = k -> firstn k (a ++ b) = a.
Proof.
  intros <-. rewrite firstn_app, Nat.sub_diag, firstn_all. cbn. apply app_nil_r.
Qed.

Lemma skipn_S_app_len {A} (a b : list A) y k : length a = k -> skipn (S k) (a ++ y :: b) = b.
Proof.
  intros H. replace (a ++ y :: b) with ((a ++ [y]) ++ b) by (rewrite <- app_assoc; reflexivity).
  apply skipn_app_len. rewrite app_length; cbn; lia.
Qed.

Lemma firstn_S_app_len {A} (a b : list A) y k : length a = k -> firstn (S k) (a ++ y :: b) = a ++ [y].
Proof.
  intros H. replace (a ++ y :: b) with ((a ++ [y]) ++ b) by (rewrite <- app_assoc; reflexivity).
  apply firstn_app_len. rewrite app_length; cbn; lia.
Qed.

Lemma set_nth_split a y b k x : length a = k -> set_nth k x (a ++ y :: b) = a ++ x :: b.
Proof.
  intros H. unfold set_nth. rewrite (firstn_app_len a (y :: b) k H), (skipn_S_app_len a b y k H). reflexivity.
Qed.

Lemma nth_split_len a (y : Z) b k : length a = k -> nth k (a ++ y :: b) 0 = y.
Proof. intros <-. rewrite app_nth2, Nat.sub_diag by lia. reflexivity. Qed.

Lemma set_nth_length i x l : (i < length l)%nat -> length (set_nth i x l) = length l.
Proof.
  intros H. unfold set_nth. rewrite app_length, firstn_length_le by lia. cbn [length].
  rewrite skipn_length. lia.
Qed.

(* one iteration of the rotation loop drops the oldest slot and opens an empty newest one *)
Lemma loop_step_view slots cur n :
  length slots = n -> (cur < n)%nat ->
  let cur' := Nat.modulo (S cur) n in
  (cur' < n)%nat /\
  exists v, view slots cur = nth cur' slots 0 :: v /\ view (set_nth cur' 0 slots) cur' = v ++ [0].
Proof.
  intros Hlen Hcur cur'. subst cur'.
  destruct (Nat.eq_dec (S cur) n) as [E|NE].
  - rewrite E, Nat.mod_same by lia. split; [lia|].
    destruct slots as [|y b]; [cbn in Hlen; lia|].
    exists b. unfold view. rewrite E, <- Hlen, skipn_all, firstn_all. cbn [app nth]. split; [reflexivity|].
    unfold set_nth. cbn [firstn skipn app]. reflexivity.
  - rewrite Nat.mod_small by lia. split; [lia|].
    destruct (nth_split slots 0 (n := S cur) ltac:(lia)) as [a [b [Hs Ha]]].
    remember (nth (S cur) slots 0) as y eqn:Hy. clear Hy. subst slots.
    exists (b ++ a). unfold view.
    rewrite (skipn_app_len a (y :: b) (S cur) Ha), (firstn_app_len a (y :: b) (S cur) Ha).
    split; [reflexivity|].
    rewrite (set_nth_split a y b (S cur) 0 Ha).
    rewrite (skipn_S_app_len a b 0 (S cur) Ha), (firstn_S_app_len a b 0 (S cur) Ha).
    rewrite app_assoc. reflexivity.
Qed.

Lemma view_length slots cur : length (view slots cur) = length slots.
Proof.
  unfold view. rewrite app_length, Nat.add_comm, <- app_length, firstn_skipn. reflexivity.
Qed.

Lemma adv_loop_view k : forall n slots cur total,
  length slots = n -> (cur < n)%nat -> (k <= n)%nat ->
  forall sl cur' tot, adv_loop k n slots cur total = (sl, cur', tot) ->
  length sl = n /\ (cur' < n)%nat /\
  view sl cur' = skipn k (view slots cur) ++ repeat 0 k /\
  tot = total - zsum (firstn k (view slots cur)).
Proof.
  induction k as [|k IH]; intros n slots cur total Hlen Hcur Hk sl cur' tot H.
  - cbn in H. injection H as <- <- <-. cbn [skipn firstn repeat zsum]. rewrite app_nil_r.
    repeat split; try assumption; lia.
  - cbn [adv_loop] in H.
    destruct (loop_step_view slots cur n Hlen Hcur) as [Hc' [v [Hv Hv']]].
    set (c1 := Nat.modulo (S cur) n) in *.
    assert (Hl1 : length (set_nth c1 0 slots) = n) by (rewrite set_nth_length; lia).
    specialize (IH n _ c1 _ Hl1 Hc' ltac:(lia) sl cur' tot H).
    destruct IH as [A [B [C D]]]. repeat split; try assumption.
    + rewrite C, Hv', Hv. cbn [skipn].
      assert (Hvl : length v = (n - 1)%nat).
      { pose proof (view_length slots cur) as HL. rewrite Hv in HL. cbn in HL. lia. }
      rewrite skipn_app. replace (k - length v)%nat with 0%nat by lia. cbn [skipn].
      rewrite <- app_assoc. reflexivity.
    + rewrite D, Hv', Hv. cbn [firstn zsum].
      assert (Hvl : length v = (n - 1)%nat).
      { pose proof (view_length slots cur) as HL. rewrite Hv in HL. cbn in HL. lia. }
      rewrite firstn_app. replace (k - length v)%nat with 0%nat by lia. cbn [firstn].
      rewrite app_nil_r. lia.
Qed.

(* the current slot is the last element of the view *)
Lemma view_cur slots cur :
  (cur < length slots)%nat ->
  exists v, view slots cur = v ++ [nth cur slots 0] /\
            forall x, view (set_nth cur x slots) cur = v ++ [x].
Proof.
  intros H. destruct (nth_split slots 0 H) as [a [b [Hs Ha]]].
  remember (nth cur slots 0) as y eqn:Hy. clear Hy. subst slots.
  exists (b ++ a). split.
  - unfold view. rewrite (skipn_S_app_len a b y cur Ha), (firstn_S_app_len a b y cur Ha).
    apply app_assoc.
  - intros x. rewrite (set_nth_split a y b cur x Ha). unfold view.
    rewrite (skipn_S_app_len a b x cur Ha), (firstn_S_app_len a b x cur Ha). apply app_assoc.
Qed.

(* ------------------------------------------------------------------------------------ *)
(* counting                                                                             *)
(* ------------------------------------------------------------------------------------ *)

Lemma cnt_app f a b : cnt f (a ++ b) = cnt f a + cnt f b.
Proof. induction a; cbn [cnt app]; lia. Qed.

Lemma cnt_nonneg f l : 0 <= cnt f l.
Proof. induction l; cbn [cnt]; [lia|]. destruct (f a); lia. Qed.

Lemma cnt_mono f g l : (forall x, In x l -> f x = true -> g x = true) -> cnt f l <= cnt g l.
Proof.
  induction l as [|x r IH]; intros H; cbn [cnt]; [lia|].
  assert (IH' : cnt f r <= cnt g r) by (apply IH; intros; apply H; [right|]; assumption).
  destruct (f x) eqn:E; [rewrite (H x (or_introl eq_refl) E); lia|].
  destruct (g x); lia.
Qed.

Lemma cnt_ext f g l : (forall x, In x l -> f x = g x) -> cnt f l = cnt g l.
Proof.
  intros H. apply Z.le_antisymm; apply cnt_mono; intros x Hx E; [rewrite <- (H x Hx)|rewrite (H x Hx)]; exact E.
Qed.

Lemma cnt_false f l : (forall x, In x l -> f x = false) -> cnt f l = 0.
Proof.
  induction l as [|x r IH]; intros H; cbn [cnt]; [reflexivity|].
  rewrite (H x (or_introl eq_refl)), IH; [reflexivity|]. intros; apply H; right; assumption.
Qed.

(* count of a union of two disjoint predicates *)
Lemma cnt_split f g h l :
  (forall x, In x l -> f x = true -> g x = true \/ h x = true) ->
  cnt f l <= cnt g l + cnt h l.
Proof.
  induction l as [|x r IH]; intros H; cbn [cnt]; [lia|].
  assert (IH' : cnt f r <= cnt g r + cnt h r) by (apply IH; intros; apply H; [right|]; assumption).
  destruct (f x) eqn:E.
  - destruct (H x (or_introl eq_refl) E) as [G|G]; rewrite G; destruct (g x), (h x); lia.
  - destruct (g x), (h x); lia.
Qed.

Definition slot_is (d j x : Z) : bool := slot_of d x =? j.

Lemma sum_slots d adm : forall n lo,
  zsum (map (fun j => cnt (slot_is d j) adm) (zseq lo n)) = cnt (in_slots d lo (Z.of_nat n)) adm.
Proof.
  induction n as [|n IH]; intros lo.
  - cbn [zseq map zsum]. symmetry. apply cnt_false. intros x _. unfold in_slots.
    apply andb_false_iff. destruct (Z.leb_spec lo (slot_of d x)); [right|left; reflexivity].
    apply Z.ltb_ge. lia.
  - cbn [zseq map zsum]. rewrite IH. clear IH.
    induction adm as [|x r IHr]; cbn [cnt]; [lia|].
    unfold slot_is at 1, in_slots at 1 3.
    destruct (Z.eqb_spec (slot_of d x) lo), (Z.leb_spec (lo + 1) (slot_of d x)),
      (Z.leb_spec lo (slot_of d x)), (Z.ltb_spec (slot_of d x) (lo + 1 + Z.of_nat n)),
      (Z.ltb_spec (slot_of d x) (lo + Z.of_nat (S n))); cbn [andb]; lia.
Qed.

(* ------------------------------------------------------------------------------------ *)
(* the sliding-window counter                                                           *)
(* ------------------------------------------------------------------------------------ *)

(* [adm] = times of the admissions made so far by this counter; [c] = slot of lastSlotTime *)
Definition sw_inv (d : Z) (n : nat) (s : sw) (adm : list Z) (c : Z) : Prop :=
  sw_d s = d /\ length (sw_slots s) = n /\ 0 < d /\ (0 < n)%nat /\ (sw_cur s < n)%nat /\
  abs_ns (sw_last s) = d * c /\
  (forall x, In x adm -> slot_of d x <= c) /\
  view (sw_slots s) (sw_cur s) =
    map (fun j => cnt (slot_is d j) adm) (zseq (c - Z.of_nat n + 1) n) /\
  sw_total s = zsum (view (sw_slots s) (sw_cur s)).

Lemma sw_inv_total d n s adm c :
  sw_inv d n s adm c -> sw_total s = cnt (in_slots d (c - Z.of_nat n + 1) (Z.of_nat n)) adm.
Proof.
  intros (_ & _ & _ & _ & _ & _ & _ & Hv & Ht). rewrite Ht, Hv. apply sum_slots.
Qed.

Lemma geom_n_pos cnt0 : 0 < geom_n cnt0.
Proof. unfold geom_n. destruct (Z.leb_spec cnt0 0); lia. Qed.

Lemma geom_d_pos w cnt0 : 0 < geom_d w cnt0.
Proof. unfold geom_d, ms. destruct (Z.ltb_spec (Z.quot w (geom_n cnt0)) 1000000); lia. Qed.

Lemma map_zero_repeat (f : Z -> Z) l : (forall j, In j l -> f j = 0) -> map f l = repeat 0 (length l).
Proof.
  induction l as [|x r IH]; intros H; cbn; [reflexivity|].
  rewrite (H x (or_introl eq_refl)), IH; [reflexivity|]. intros; apply H; right; assumption.
Qed.

Lemma zseq_in lo n j : In j (zseq lo n) -> lo <= j < lo + Z.of_nat n.
Proof.
  revert lo; induction n as [|n IH]; intros lo H; cbn in H; [tauto|].
  destruct H as [<-|H]; [lia|]. apply IH in H. lia.
Qed.

Lemma view_repeat0 n cur : (cur < n)%nat -> view (repeat 0 n) cur = repeat 0 n.
Proof.
  intros H. unfold view.
  replace n with (S cur + (n - S cur))%nat at 1 2 by lia.
  rewrite repeat_app.
  rewrite (skipn_app_len _ _ (S cur)) by apply repeat_length.
  rewrite (firstn_app_len _ _ (S cur)) by apply repeat_length.
  rewrite <- repeat_app. f_equal. lia.
Qed.

Lemma sw_new_inv w cnt0 lim now :
  let s := sw_new w cnt0 lim now in
  let d := geom_d w cnt0 in
  sw_inv d (Z.to_nat (geom_n cnt0)) s [] (slot_of d now).
Proof.
  intros s d. pose proof (geom_n_pos cnt0) as Hn. pose proof (geom_d_pos w cnt0) as Hd.
  unfold sw_inv, s, sw_new. cbn [sw_d sw_slots sw_cur sw_last sw_total].
  rewrite repeat_length. repeat split; try lia.
  - apply trunc_abs. exact Hd.
  - intros x [].
  - rewrite view_repeat0 by lia.
    rewrite map_zero_repeat by (intros; reflexivity). now rewrite zseq_length.
  - rewrite view_repeat0 by lia. now rewrite zsum_repeat0.
Qed.

(* advance(): afterwards lastSlotTime is the slot of `now` *)
Lemma sw_advance_inv d n s adm c now :
  sw_inv d n s adm c -> c <= slot_of d now ->
  sw_inv d n (sw_advance now s) adm (slot_of d now) /\ sw_limit (sw_advance now s) = sw_limit s.
Proof.
  intros (Hd & Hn & Hdp & Hnp & Hcur & Hlast & Hadm & Hv & Ht) Hc.
  unfold sw_advance. rewrite Hd, Hn.
  rewrite (elapsed_slots d (sw_last s) c now Hdp Hlast).
  set (k := slot_of d now - c) in *.
  destruct (Z.leb_spec (d * k) 0) as [Hle|Hgt].
  - assert (k = 0) by nia. replace (slot_of d now) with c by lia.
    split; [|reflexivity]. unfold sw_inv. repeat split; assumption.
  - assert (Hk : 0 < k) by nia. rewrite (quot_mul d k Hdp ltac:(lia)).
    destruct (Z.leb_spec (Z.of_nat n) k) as [Hfull|Hpart].
    + split; [|reflexivity]. unfold sw_inv. cbn [sw_d sw_slots sw_cur sw_last sw_total].
      rewrite repeat_length. repeat split; try assumption; try lia.
      * apply trunc_abs. exact Hdp.
      * intros x Hx. specialize (Hadm x Hx). lia.
      * rewrite view_repeat0 by lia. symmetry.
        rewrite map_zero_repeat; [now rewrite zseq_length|].
        intros j Hj. apply zseq_in in Hj. apply cnt_false. intros x Hx. specialize (Hadm x Hx).
        unfold slot_is. apply Z.eqb_neq. lia.
      * rewrite view_repeat0 by lia. now rewrite zsum_repeat0.
    + destruct (adv_loop (Z.to_nat k) n (sw_slots s) (sw_cur s) (sw_total s)) as [[sl cur'] tot] eqn:E.
      destruct (adv_loop_view (Z.to_nat k) n _ _ _ Hn Hcur ltac:(lia) sl cur' tot E) as [A [B [C D]]].
      split; [|reflexivity]. unfold sw_inv. cbn [sw_d sw_slots sw_cur sw_last sw_total].
      repeat split; try assumption.
      * apply trunc_abs. exact Hdp.
      * intros x Hx. specialize (Hadm x Hx). lia.
      * rewrite C, Hv. rewrite skipn_map, skipn_zseq.
        replace (zseq (slot_of d now - Z.of_nat n + 1) n)
          with (zseq (slot_of d now - Z.of_nat n + 1) (n - Z.to_nat k) ++
                zseq (slot_of d now - Z.of_nat n + 1 + Z.of_nat (n - Z.to_nat k)) (Z.to_nat k))
          by (rewrite <- zseq_app; f_equal; lia).
        rewrite map_app. f_equal.
        -- f_equal. f_equal. lia.
        -- rewrite map_zero_repeat; [now rewrite zseq_length|].
           intros j Hj. apply zseq_in in Hj. apply cnt_false. intros x Hx. specialize (Hadm x Hx).
           unfold slot_is. apply Z.eqb_neq. lia.
      * rewrite D, C, zsum_app, zsum_repeat0, Ht.
        rewrite <- (firstn_skipn (Z.to_nat k) (view (sw_slots s) (sw_cur s))) at 1.
        rewrite zsum_app. lia.
Qed.

Lemma map_last_slot d n c adm t :
  (0 < n)%nat -> slot_of d t = c ->
  map (fun j => cnt (slot_is d j) (t :: adm)) (zseq (c - Z.of_nat n + 1) n) =
  map (fun j => cnt (slot_is d j) adm) (zseq (c - Z.of_nat n + 1) (n - 1)) ++ [cnt (slot_is d c) adm + 1].
Proof.
  intros Hn Hs. replace n with ((n - 1) + 1)%nat at 2 by lia.
  rewrite zseq_app, map_app. f_equal.
  - apply map_ext_in. intros j Hj. apply zseq_in in Hj. cbn [cnt]. unfold slot_is at 1.
    destruct (Z.eqb_spec (slot_of d t) j); lia.
  - cbn [zseq map]. replace (c - Z.of_nat n + 1 + Z.of_nat (n - 1)) with c by lia.
    cbn [cnt]. unfold slot_is at 1. rewrite Hs, Z.eqb_refl. f_equal. lia.
Qed.

Lemma map_last_slot' d n c adm :
  (0 < n)%nat ->
  map (fun j => cnt (slot_is d j) adm) (zseq (c - Z.of_nat n + 1) n) =
  map (fun j => cnt (slot_is d j) adm) (zseq (c - Z.of_nat n + 1) (n - 1)) ++ [cnt (slot_is d c) adm].
Proof.
  intros Hn. replace n with ((n - 1) + 1)%nat at 2 by lia.
  rewrite zseq_app, map_app. f_equal.
  cbn [zseq map]. replace (c - Z.of_nat n + 1 + Z.of_nat (n - 1)) with c by lia. reflexivity.
Qed.

Lemma app_inj_last {A} (a b : list A) x y : a ++ [x] = b ++ [y] -> a = b /\ x = y.
Proof. apply app_inj_tail. Qed.

(* Allow() *)
Lemma sw_allow_inv d n s adm c now ok s' :
  sw_inv d n s adm c -> c <= slot_of d now -> sw_allow now s = (ok, s') ->
  sw_inv d n s' (if ok then now :: adm else adm) (slot_of d now) /\
  sw_limit s' = sw_limit s /\
  (ok = true -> 0 < sw_limit s ->
     cnt (in_slots d (slot_of d now - Z.of_nat n + 1) (Z.of_nat n)) adm < sw_limit s) /\
  (ok = false -> 0 < sw_limit s /\
     sw_limit s <= cnt (in_slots d (slot_of d now - Z.of_nat n + 1) (Z.of_nat n)) adm).
Proof.
  intros Hinv Hc H. destruct (sw_advance_inv d n s adm c now Hinv Hc) as [Hi1 Hl1].
  pose proof (sw_inv_total _ _ _ _ _ Hi1) as Htot.
  unfold sw_allow in H. set (s1 := sw_advance now s) in *.
  destruct ((0 <? sw_limit s1) && (sw_limit s1 <=? sw_total s1)) eqn:E; injection H as <- <-.
  - apply andb_true_iff in E. destruct E as [E1 E2]. apply Z.ltb_lt in E1. apply Z.leb_le in E2.
    split; [exact Hi1|split; [exact Hl1|split; [discriminate|intros _; lia]]].
  - destruct Hi1 as (Hd & Hn & Hdp & Hnp & Hcur & Hlast & Hadm & Hv & Ht).
    split; [|split; [exact Hl1|split; [|discriminate]]].
    + unfold sw_inv. cbn [sw_d sw_slots sw_cur sw_last sw_total].
      destruct (view_cur (sw_slots s1) (sw_cur s1) ltac:(lia)) as [v [Hv1 Hv2]].
      rewrite Hv2. rewrite set_nth_length by lia.
      repeat split; try assumption.
      * intros x [<-|Hx]; [lia|apply Hadm; exact Hx].
      * rewrite (map_last_slot d n (slot_of d now) adm now Hnp eq_refl).
        rewrite Hv1, (map_last_slot' d n (slot_of d now) adm Hnp) in Hv.
        apply app_inj_last in Hv. destruct Hv as [-> ->]. reflexivity.
      * rewrite Ht, Hv1, !zsum_app. cbn [zsum]. lia.
    + intros _ Hpos. apply andb_false_iff in E. rewrite <- Htot.
      destruct E as [E|E]; [apply Z.ltb_ge in E|apply Z.leb_gt in E]; lia.
Qed.

Lemma sw_set_limit_inv d n s adm c l : sw_inv d n s adm c -> sw_inv d n (sw_set_limit l s) adm c.
Proof. unfold sw_inv, sw_set_limit. cbn. tauto. Qed.

(* every slot-aligned window of n slots holds at most L admissions *)
Definition W (d : Z) (n : nat) (adm : list Z) (L : Z) : Prop :=
  forall a, cnt (in_slots d a (Z.of_nat n)) adm <= L.

Lemma W_admit d n s adm c now L :
  sw_inv d n s adm c -> (* after advance: *) c = slot_of d now ->
  cnt (in_slots d (c - Z.of_nat n + 1) (Z.of_nat n)) adm < L ->
  W d n adm L -> W d n (now :: adm) L.
Proof.
  intros (_ & _ & _ & _ & _ & _ & Hadm & _ & _) Hc Hlt HW a. cbn [cnt].
  destruct (in_slots d a (Z.of_nat n) now) eqn:E; [|specialize (HW a); lia].
  unfold in_slots in E. apply andb_true_iff in E. destruct E as [E1 E2].
  apply Z.leb_le in E1. apply Z.ltb_lt in E2.
  assert (cnt (in_slots d a (Z.of_nat n)) adm <= cnt (in_slots d (c - Z.of_nat n + 1) (Z.of_nat n)) adm).
  { apply cnt_mono. intros x Hx Hf. specialize (Hadm x Hx). unfold in_slots in *.
    apply andb_true_iff in Hf. destruct Hf as [F1 F2]. apply Z.leb_le in F1. apply Z.ltb_lt in F2.
    apply andb_true_iff. split; [apply Z.leb_le|apply Z.ltb_lt]; lia. }
  lia.
Qed.

Definition swop_ok (L : Z) (o : swop) : Prop :=
  match o with OLimit l => 0 < l <= L | _ => True end.

(* main induction: from any state satisfying the invariant *)
Lemma sw_run_window d n L : forall ops s adm c hi,
  sw_inv d n s adm c -> c <= slot_of d hi ->
  nondecr (hi :: flat_map swop_time ops) ->
  0 < sw_limit s <= L -> Forall (swop_ok L) ops ->
  W d n adm L ->
  forall a, cnt (in_slots d a (Z.of_nat n)) adm + cnt (in_slots d a (Z.of_nat n)) (sw_adm s ops) <= L.
Proof.
  induction ops as [|o r IH]; intros s adm c hi Hinv Hc Hs Hlim Hok HW a.
  - cbn [sw_adm cnt]. specialize (HW a). lia.
  - inversion Hok as [|? ? Ho Hr]; subst.
    assert (Hdp : 0 < d) by (destruct Hinv as (_ & _ & H & _); exact H).
    destruct o as [t|t|l]; cbn [sw_adm sw_step].
    + cbn [flat_map swop_time app] in Hs. apply nondecr_skip in Hs. destruct Hs as [Hle Hs].
      assert (Hc' : c <= slot_of d t) by (pose proof (slot_mono d hi t Hdp Hle); lia).
      destruct (sw_allow t s) as [ok s'] eqn:E.
      destruct (sw_allow_inv d n s adm c t ok s' Hinv Hc' E) as [Hi' [Hl' [Hy Hn']]].
      destruct ok.
      * cbn [Z.eqb Pos.eqb]. cbn [cnt].
        assert (HW' : W d n (t :: adm) L).
        { destruct (sw_advance_inv d n s adm c t Hinv Hc') as [Hi1 _].
          eapply W_admit; [exact Hi1|reflexivity| |exact HW]. specialize (Hy eq_refl ltac:(lia)). lia. }
        specialize (IH s' (t :: adm) (slot_of d t) t Hi' (Z.le_refl _) Hs ltac:(lia) Hr HW' a).
        cbn [cnt] in IH. lia.
      * cbn [Z.eqb]. apply (IH s' adm (slot_of d t) t Hi' (Z.le_refl _) Hs ltac:(lia) Hr HW a).
    + cbn [flat_map swop_time app] in Hs. apply nondecr_skip in Hs. destruct Hs as [Hle Hs].
      assert (Hc' : c <= slot_of d t) by (pose proof (slot_mono d hi t Hdp Hle); lia).
      unfold sw_remaining.
      destruct (sw_advance_inv d n s adm c t Hinv Hc') as [Hi1 Hl1].
      apply (IH _ adm (slot_of d t) t Hi1 (Z.le_refl _) Hs ltac:(lia) Hr HW a).
    + cbn [flat_map swop_time app] in Hs. cbn in Ho.
      apply (IH _ adm c hi (sw_set_limit_inv d n s adm c l Hinv) Hc Hs ltac:(cbn; lia) Hr HW a).
Qed.

Theorem sw_aligned_window w cnt0 lim t0 ops L a :
  nondecr (t0 :: flat_map swop_time ops) ->
  0 < lim <= L -> Forall (swop_ok L) ops ->
  cnt (in_slots (geom_d w cnt0) a (geom_n cnt0)) (sw_adm (sw_new w cnt0 lim t0) ops) <= L.
Proof.
  intros Hs Hl Hok. pose proof (geom_n_pos cnt0) as Hn.
  pose proof (sw_run_window (geom_d w cnt0) (Z.to_nat (geom_n cnt0)) L ops
                (sw_new w cnt0 lim t0) [] _ t0 (sw_new_inv w cnt0 lim t0) (Z.le_refl _) Hs
                ltac:(cbn; lia) Hok ltac:(intros b; cbn; lia) a) as H.
  rewrite Z2Nat.id in H by lia. cbn [cnt] in H. lia.
Qed.

(* any window of n*d nanoseconds overlaps at most n+1 slots: at most 2L admissions *)
Lemma W_any_window d n adm L a :
  0 < d -> W d n adm L ->
  cnt (in_win a (Z.of_nat n * d)) adm <= 2 * L.
Proof.
  intros Hd HW.
  pose proof (HW (slot_of d a)) as H1. pose proof (HW (slot_of d a + Z.of_nat n)) as H2.
  pose proof (cnt_split (in_win a (Z.of_nat n * d)) (in_slots d (slot_of d a) (Z.of_nat n))
                (in_slots d (slot_of d a + Z.of_nat n) (Z.of_nat n)) adm) as H.
  assert (Hn0 : (n = 0)%nat \/ (0 < n)%nat) by lia.
  destruct Hn0 as [->|Hn].
  { change (Z.of_nat 0) with 0 in *.
    rewrite cnt_false; [pose proof (cnt_nonneg (in_slots d (slot_of d a) 0) adm); lia|].
    intros x _. unfold in_win. rewrite Z.mul_0_l. apply andb_false_iff.
    destruct (Z.leb_spec a x); [right; apply Z.ltb_ge; lia|left; reflexivity]. }
  assert (cnt (in_win a (Z.of_nat n * d)) adm <=
          cnt (in_slots d (slot_of d a) (Z.of_nat n)) adm +
          cnt (in_slots d (slot_of d a + Z.of_nat n) (Z.of_nat n)) adm); [|lia].
  apply H. intros x _ Hx. unfold in_win in Hx. apply andb_true_iff in Hx. destruct Hx as [X1 X2].
  apply Z.leb_le in X1. apply Z.ltb_lt in X2.
  pose proof (win_slots d (Z.of_nat n) a x Hd ltac:(lia) (conj X1 X2)) as [S1 S2].
  unfold in_slots.
  destruct (Z_lt_ge_dec (slot_of d x) (slot_of d a + Z.of_nat n)).
  - left. apply andb_true_iff. split; [apply Z.leb_le; lia|apply Z.ltb_lt; lia].
  - right. apply andb_true_iff. split; [apply Z.leb_le; lia|apply Z.ltb_lt; lia].
Qed.

Theorem sw_any_window_twice w cnt0 lim t0 ops L a :
  nondecr (t0 :: flat_map swop_time ops) ->
  0 < lim <= L -> Forall (swop_ok L) ops ->
  cnt (in_win a (geom_n cnt0 * geom_d w cnt0)) (sw_adm (sw_new w cnt0 lim t0) ops) <= 2 * L.
Proof.
  intros Hs Hl Hok. pose proof (geom_n_pos cnt0) as Hn. pose proof (geom_d_pos w cnt0) as Hd.
  rewrite <- (Z2Nat.id (geom_n cnt0)) by lia.
  apply W_any_window; [exact Hd|]. intros b. rewrite Z2Nat.id by lia.
  apply sw_aligned_window; assumption.
Qed.

(* every answer of the counter is the spec answer *)
Lemma sw_run_decisions d n : forall ops s adm c hi,
  sw_inv d n s adm c -> c <= slot_of d hi ->
  nondecr (hi :: flat_map swop_time ops) ->
  dec_ok d (Z.of_nat n) (sw_limit s) adm ops (sw_run s ops) = true.
Proof.
  induction ops as [|o r IH]; intros s adm c hi Hinv Hc Hs; [reflexivity|].
  assert (Hdp : 0 < d) by (destruct Hinv as (_ & _ & H & _); exact H).
  destruct o as [t|t|l]; cbn [sw_run sw_step dec_ok].
  - cbn [flat_map swop_time app] in Hs. apply nondecr_skip in Hs. destruct Hs as [Hle Hs].
    assert (Hc' : c <= slot_of d t) by (pose proof (slot_mono d hi t Hdp Hle); lia).
    destruct (sw_allow t s) as [ok s'] eqn:E.
    destruct (sw_allow_inv d n s adm c t ok s' Hinv Hc' E) as [Hi' [Hl' [Hy Hn']]].
    cbn [dec_ok]. apply andb_true_iff. split.
    + destruct ok.
      * destruct (Z.ltb_spec 0 (sw_limit s)) as [Hp|Hp]; cbn [andb]; [|reflexivity].
        specialize (Hy eq_refl Hp). destruct (Z.leb_spec (sw_limit s) (cnt (in_slots d (slot_of d t - Z.of_nat n + 1) (Z.of_nat n)) adm)); [lia|reflexivity].
      * destruct (Hn' eq_refl) as [Hp Hge].
        destruct (Z.ltb_spec 0 (sw_limit s)); [|lia].
        destruct (Z.leb_spec (sw_limit s) (cnt (in_slots d (slot_of d t - Z.of_nat n + 1) (Z.of_nat n)) adm)); [reflexivity|lia].
    + rewrite <- Hl'. destruct ok; cbn [Z.eqb Pos.eqb];
        apply (IH s' _ (slot_of d t) t Hi' (Z.le_refl _) Hs).
  - cbn [flat_map swop_time app] in Hs. apply nondecr_skip in Hs. destruct Hs as [Hle Hs].
    assert (Hc' : c <= slot_of d t) by (pose proof (slot_mono d hi t Hdp Hle); lia).
    unfold sw_remaining. cbn [dec_ok].
    destruct (sw_advance_inv d n s adm c t Hinv Hc') as [Hi1 Hl1].
    apply andb_true_iff. split.
    + rewrite (sw_inv_total _ _ _ _ _ Hi1), Hl1. apply Z.eqb_refl.
    + rewrite <- Hl1. apply (IH _ adm (slot_of d t) t Hi1 (Z.le_refl _) Hs).
  - cbn [flat_map swop_time app] in Hs.
    apply (IH (sw_set_limit l s) adm c hi (sw_set_limit_inv d n s adm c l Hinv) Hc Hs).
Qed.

Theorem sw_decisions_spec w cnt0 lim t0 ops :
  nondecr (t0 :: flat_map swop_time ops) ->
  dec_ok (geom_d w cnt0) (geom_n cnt0) lim [] ops (sw_run (sw_new w cnt0 lim t0) ops) = true.
Proof.
  intros Hs. pose proof (geom_n_pos cnt0) as Hn.
  pose proof (sw_run_decisions (geom_d w cnt0) (Z.to_nat (geom_n cnt0)) ops (sw_new w cnt0 lim t0) [] _ t0
                (sw_new_inv w cnt0 lim t0) (Z.le_refl _) Hs) as H.
  rewrite Z2Nat.id in H by lia. exact H.
Qed.

(* a limit update decides the very next Allow *)
Theorem sw_limit_update_next l now s :
  fst (sw_allow now (sw_set_limit l s)) =
  negb ((0 <? l) && (l <=? sw_total (sw_advance now s))).
Proof.
  unfold sw_allow.
  assert (H : sw_advance now (sw_set_limit l s) = sw_set_limit l (sw_advance now s)).
  { unfold sw_advance, sw_set_limit. cbn [sw_d sw_last sw_slots sw_cur sw_total sw_limit].
    destruct (trunc (sw_d s) now - sw_last s <=? 0); [reflexivity|].
    destruct (Z.of_nat (length (sw_slots s)) <=? _); [reflexivity|].
    destruct (adv_loop _ _ _ _ _) as [[? ?] ?]. reflexivity. }
  rewrite H. cbn [sw_set_limit sw_limit sw_total].
  destruct ((0 <? l) && (l <=? sw_total (sw_advance now s))); reflexivity.
Qed.

(* ------------------------------------------------------------------------------------ *)
(* the quota tracker: two periodic counters (hour, day) driven together                 *)
(* ------------------------------------------------------------------------------------ *)

Lemma zoff_hour : zoff mod hour = 0.
Proof. vm_compute. reflexivity. Qed.
Lemma zoff_day : zoff mod day = 0.
Proof. vm_compute. reflexivity. Qed.
Lemma hour_pos : 0 < hour.
Proof. vm_compute. reflexivity. Qed.
Lemma day_pos : 0 < day.
Proof. vm_compute. reflexivity. Qed.

(* for periods that divide 24 h, Truncate is truncation of the Unix time *)
Lemma trunc_unix P t : 0 < P -> zoff mod P = 0 -> trunc P t = P * (t / P).
Proof.
  intros HP Hz. unfold trunc. destruct (Z.leb_spec P 0); [lia|].
  unfold abs_ns.
  assert (E : (t + zoff) mod P = t mod P).
  { pose proof (Z.div_mod zoff P ltac:(lia)) as H1. rewrite Hz, Z.add_0_r in H1.
    rewrite H1, Z.mul_comm, Z.mod_add by lia. reflexivity. }
  rewrite E. pose proof (Z.div_mod t P ltac:(lia)). lia.
Qed.

(* [adm] = admissions of this tracker so far, [hq] = clock at its last operation *)
Definition pc_inv (P used reset : Z) (adm : list Z) (hq : Z) : Prop :=
  (exists K, reset = P * K) /\ hq < reset /\ reset - P <= hq /\
  (forall x, In x adm -> x <= hq) /\
  cnt (fun x => reset - P <=? x) adm <= used.

Lemma pc_reset_inv P used reset adm hq now :
  0 < P -> zoff mod P = 0 -> pc_inv P used reset adm hq -> hq <= now ->
  pc_inv P (fst (pc_reset P now used reset)) (snd (pc_reset P now used reset)) adm now.
Proof.
  intros HP Hz ([K HK] & H1 & H2 & H3 & H4) Hle. unfold pc_reset.
  pose proof (Z.div_mod now P ltac:(lia)) as Hdm. pose proof (Z.mod_pos_bound now P HP) as Hmb.
  destruct (Z.leb_spec reset now) as [Hlt|Hge]; cbn [fst snd].
  - rewrite (trunc_unix P now HP Hz). set (q := now / P) in *.
    assert (HKq : K <= q) by (apply Z.div_le_lower_bound; lia).
    assert (HPK : P * K <= P * q) by nia.
    unfold pc_inv. split; [exists (q + 1); lia|]. repeat split; try lia.
    + intros x Hx. specialize (H3 x Hx). lia.
    + rewrite cnt_false; [lia|]. intros x Hx. specialize (H3 x Hx). apply Z.leb_gt. lia.
  - unfold pc_inv. split; [exists K; exact HK|]. repeat split; try lia.
    intros x Hx. specialize (H3 x Hx). lia.
Qed.

Lemma pc_new_inv P now : 0 < P -> zoff mod P = 0 -> pc_inv P 0 (trunc P now + P) [] now.
Proof.
  intros HP Hz. rewrite (trunc_unix P now HP Hz).
  pose proof (Z.div_mod now P ltac:(lia)) as Hdm. pose proof (Z.mod_pos_bound now P HP) as Hmb.
  unfold pc_inv. split; [exists (now / P + 1); lia|]. repeat split; try lia.
  - intros x [].
  - cbn. lia.
Qed.

Lemma pc_admit_inv P used reset adm now :
  pc_inv P used reset adm now -> pc_inv P (used + 1) reset (now :: adm) now.
Proof.
  intros (HK & H1 & H2 & H3 & H4). unfold pc_inv. repeat split; try assumption; try lia.
  - intros x [<-|Hx]; [lia|apply H3; exact Hx].
  - cbn [cnt]. destruct (reset - P <=? now); lia.
Qed.

(* in every whole clock period [H*P, (H+1)*P) at most L admissions *)
Definition Wq (P : Z) (adm : list Z) (L : Z) : Prop := forall H, cnt (in_period P H) adm <= L.

Lemma Wq_admit P used reset adm now L :
  0 < P -> pc_inv P used reset adm now -> used < L -> Wq P adm L -> Wq P (now :: adm) L.
Proof.
  intros HP ([K HK] & H1 & H2 & H3 & H4) Hlt HW H. cbn [cnt].
  destruct (in_period P H now) eqn:E; [|specialize (HW H); lia].
  unfold in_period in E. apply andb_true_iff in E. destruct E as [E1 E2].
  apply Z.leb_le in E1. apply Z.ltb_lt in E2.
  assert (K = H + 1) by nia. subst K.
  assert (cnt (in_period P H) adm <= cnt (fun x => reset - P <=? x) adm).
  { apply cnt_mono. intros x _ Hx. unfold in_period in Hx. apply andb_true_iff in Hx.
    destruct Hx as [X1 _]. apply Z.leb_le in X1. apply Z.leb_le. nia. }
  lia.
Qed.

(* the two counters of a quotaTracker, accessed uniformly *)
Record plens := { pl_P : Z; pl_used : qt -> Z; pl_reset : qt -> Z; pl_max : qt -> Z;
                  pl_pol : policy -> Z; pl_arg : Z -> Z -> Z }.
Definition hour_pl : plens :=
  {| pl_P := hour; pl_used := q_h; pl_reset := q_hreset; pl_max := q_maxh; pl_pol := p_qh;
     pl_arg := fun a _ => a |}.
Definition day_pl : plens :=
  {| pl_P := day; pl_used := q_d; pl_reset := q_dreset; pl_max := q_maxd; pl_pol := p_qd;
     pl_arg := fun _ b => b |}.
Definition is_pl (pl : plens) : Prop := pl = hour_pl \/ pl = day_pl.

Lemma pl_facts pl : is_pl pl -> 0 < pl_P pl /\ zoff mod pl_P pl = 0.
Proof. intros [->| ->]; cbn; split; reflexivity. Qed.

Lemma qt_maybe_reset_pl pl now q : is_pl pl ->
  pl_used pl (qt_maybe_reset now q) = fst (pc_reset (pl_P pl) now (pl_used pl q) (pl_reset pl q)) /\
  pl_reset pl (qt_maybe_reset now q) = snd (pc_reset (pl_P pl) now (pl_used pl q) (pl_reset pl q)) /\
  pl_max pl (qt_maybe_reset now q) = pl_max pl q.
Proof.
  intros [->| ->]; cbn [pl_P pl_used pl_reset pl_max hour_pl day_pl]; unfold qt_maybe_reset;
    destruct (pc_reset hour now (q_h q) (q_hreset q)) as [h hr];
    destruct (pc_reset day now (q_d q) (q_dreset q)) as [dd dr]; cbn; repeat split; reflexivity.
Qed.

Lemma qt_allow_pl pl now q code q' : is_pl pl -> qt_allow now q = (code, q') ->
  let q1 := qt_maybe_reset now q in
  pl_reset pl q' = pl_reset pl q1 /\ pl_max pl q' = pl_max pl q /\
  (code = 0 -> pl_used pl q' = pl_used pl q1 + 1 /\ (0 < pl_max pl q -> pl_used pl q1 < pl_max pl q)) /\
  (code <> 0 -> q' = q1).
Proof.
  intros Hpl H q1. unfold qt_allow in H. fold q1 in H.
  assert (Hm : q_maxh q1 = q_maxh q /\ q_maxd q1 = q_maxd q).
  { unfold q1, qt_maybe_reset. destruct (pc_reset hour now _ _), (pc_reset day now _ _). cbn. auto. }
  destruct Hm as [Hmh Hmd].
  destruct ((0 <? q_maxh q1) && (q_maxh q1 <=? q_h q1)) eqn:E1.
  { injection H as <- <-. destruct Hpl as [->| ->]; cbn; repeat split; auto; try discriminate. }
  destruct ((0 <? q_maxd q1) && (q_maxd q1 <=? q_d q1)) eqn:E2.
  { injection H as <- <-. destruct Hpl as [->| ->]; cbn; repeat split; auto; try discriminate. }
  injection H as <- <-.
  apply andb_false_iff in E1. apply andb_false_iff in E2.
  destruct Hpl as [->| ->]; cbn;
    (split; [reflexivity|split; [assumption|split; [intros _; split; [reflexivity|intros Hpos]|intros C; congruence]]]).
  - destruct E1 as [E|E]; [apply Z.ltb_ge in E|apply Z.leb_gt in E]; lia.
  - destruct E2 as [E|E]; [apply Z.ltb_ge in E|apply Z.leb_gt in E]; lia.
Qed.

Definition pl_inv (pl : plens) (q : qt) (adm : list Z) (hq : Z) : Prop :=
  pc_inv (pl_P pl) (pl_used pl q) (pl_reset pl q) adm hq.

Lemma qt_maybe_reset_inv pl q adm hq now :
  is_pl pl -> pl_inv pl q adm hq -> hq <= now -> pl_inv pl (qt_maybe_reset now q) adm now.
Proof.
  intros Hpl Hinv Hle. destruct (pl_facts pl Hpl) as [HP Hz].
  destruct (qt_maybe_reset_pl pl now q Hpl) as [E1 [E2 _]].
  unfold pl_inv. rewrite E1, E2. apply (pc_reset_inv _ _ _ _ hq); assumption.
Qed.

Lemma qt_new_inv pl mh md now : is_pl pl -> pl_inv pl (qt_new mh md now) [] now.
Proof.
  intros Hpl. destruct (pl_facts pl Hpl) as [HP Hz].
  destruct Hpl as [->| ->]; unfold pl_inv; cbn [pl_P pl_used pl_reset hour_pl day_pl qt_new q_h q_d q_hreset q_dreset];
    apply pc_new_inv; assumption.
Qed.

Lemma qt_allow_inv pl q adm hq now code q' L :
  is_pl pl -> pl_inv pl q adm hq -> hq <= now -> qt_allow now q = (code, q') ->
  0 < pl_max pl q <= L -> Wq (pl_P pl) adm L ->
  pl_inv pl q' (if code =? 0 then now :: adm else adm) now /\
  Wq (pl_P pl) (if code =? 0 then now :: adm else adm) L /\
  pl_max pl q' = pl_max pl q.
Proof.
  intros Hpl Hinv Hle H Hmax HW. destruct (pl_facts pl Hpl) as [HP Hz].
  pose proof (qt_maybe_reset_inv pl q adm hq now Hpl Hinv Hle) as Hi1.
  destruct (qt_allow_pl pl now q code q' Hpl H) as [R1 [R2 [R3 R4]]].
  destruct (Z.eqb_spec code 0) as [->|Hne].
  - destruct (R3 eq_refl) as [U1 U2]. specialize (U2 ltac:(lia)).
    split; [|split; [|exact R2]].
    + unfold pl_inv. rewrite U1, R1. apply pc_admit_inv. exact Hi1.
    + eapply Wq_admit; [exact HP|exact Hi1| |exact HW]. lia.
  - rewrite (R4 Hne). split; [exact Hi1|split; [exact HW|]].
    destruct (qt_maybe_reset_pl pl now q Hpl) as [_ [_ E]]. exact E.
Qed.

Definition qop_ok (pl : plens) (L : Z) (o : qop) : Prop :=
  match o with QLimits a b => 0 < pl_arg pl a b <= L | _ => True end.

Lemma qt_set_limits_pl pl a b q : is_pl pl ->
  pl_used pl (qt_set_limits a b q) = pl_used pl q /\ pl_reset pl (qt_set_limits a b q) = pl_reset pl q /\
  pl_max pl (qt_set_limits a b q) = pl_arg pl a b.
Proof. intros [->| ->]; cbn; auto. Qed.

Lemma qt_run_window pl L : is_pl pl -> forall ops q adm hq,
  pl_inv pl q adm hq -> nondecr (hq :: flat_map qop_time ops) ->
  0 < pl_max pl q <= L -> Forall (qop_ok pl L) ops -> Wq (pl_P pl) adm L ->
  forall H, cnt (in_period (pl_P pl) H) adm + cnt (in_period (pl_P pl) H) (qt_adm q ops) <= L.
Proof.
  intros Hpl. induction ops as [|o r IH]; intros q adm hq Hinv Hs Hmax Hok HW H.
  - cbn [qt_adm cnt]. specialize (HW H). lia.
  - inversion Hok as [|? ? Ho Hr]; subst.
    destruct o as [t|t|a b]; cbn [qt_adm qt_step].
    + cbn [flat_map qop_time app] in Hs. apply nondecr_skip in Hs. destruct Hs as [Hle Hs].
      destruct (qt_allow t q) as [code q'] eqn:E.
      destruct (qt_allow_inv pl q adm hq t code q' L Hpl Hinv Hle E Hmax HW) as [Hi' [HW' Hm']].
      destruct (Z.eqb_spec code 0) as [->|Hne].
      * specialize (IH q' (t :: adm) t Hi' Hs ltac:(lia) Hr HW' H). cbn [cnt] in IH |- *. lia.
      * apply (IH q' adm t Hi' Hs ltac:(lia) Hr HW' H).
    + cbn [flat_map qop_time app] in Hs. apply nondecr_skip in Hs. destruct Hs as [Hle Hs].
      pose proof (qt_maybe_reset_inv pl q adm hq t Hpl Hinv Hle) as Hi1.
      destruct (qt_maybe_reset_pl pl t q Hpl) as [_ [_ E]].
      apply (IH _ adm t Hi1 Hs ltac:(lia) Hr HW H).
    + cbn [flat_map qop_time app] in Hs. cbn in Ho.
      destruct (qt_set_limits_pl pl a b q Hpl) as [E1 [E2 E3]].
      apply (IH (qt_set_limits a b q) adm hq); try assumption; [|lia].
      unfold pl_inv. rewrite E1, E2. exact Hinv.
Qed.

Theorem qt_whole_period pl mh md t0 ops L H :
  is_pl pl -> nondecr (t0 :: flat_map qop_time ops) ->
  0 < pl_arg pl mh md <= L -> Forall (qop_ok pl L) ops ->
  cnt (in_period (pl_P pl) H) (qt_adm (qt_new mh md t0) ops) <= L.
Proof.
  intros Hpl Hs Hl Hok.
  pose proof (qt_run_window pl L Hpl ops (qt_new mh md t0) [] t0 (qt_new_inv pl mh md t0 Hpl) Hs
                ltac:(destruct Hpl as [->| ->]; cbn in *; lia) Hok ltac:(intros b; cbn; lia) H) as X.
  cbn [cnt] in X. lia.
Qed.

(* ------------------------------------------------------------------------------------ *)
(* the manager                                                                          *)
(* ------------------------------------------------------------------------------------ *)

(* the two limiters of a token, accessed uniformly *)
Record lens := { l_get : tok -> option sw; l_pol : policy -> Z; l_w : cfg -> Z; l_n : cfg -> Z }.
Definition min_lens : lens := {| l_get := t_min; l_pol := p_min; l_w := c_min_w; l_n := c_min_n |}.
Definition hr_lens : lens := {| l_get := t_hrl; l_pol := p_hr; l_w := c_hr_w; l_n := c_hr_n |}.
Definition is_lens (ln : lens) : Prop := ln = min_lens \/ ln = hr_lens.

Lemma check_rate_frame c now k ok k' :
  check_rate c now k = (ok, k') -> t_pol k' = t_pol k /\ t_q k' = t_q k.
Proof.
  unfold check_rate. intros H.
  destruct (0 <? p_min (effective c k)).
  - destruct (lim_step _ _ _ _ (t_min k)) as [ok1 m]. destruct ok1; cbn [negb] in H.
    + destruct (0 <? p_hr (effective c k)).
      * cbn [t_hrl t_pol t_min t_q] in H. destruct (lim_step _ _ _ _ (t_hrl k)) as [okh h].
        injection H as <- <-. cbn. auto.
      * injection H as <- <-. cbn. auto.
    + injection H as <- <-. cbn. auto.
  - cbn [negb] in H. destruct (0 <? p_hr (effective c k)).
    + destruct (lim_step _ _ _ _ (t_hrl k)) as [okh h]. injection H as <- <-. cbn. auto.
    + injection H as <- <-. auto.
Qed.

Lemma check_rate_lens ln c now k ok k' :
  is_lens ln -> check_rate c now k = (ok, k') -> 0 < l_pol ln (effective c k) ->
  (l_get ln k' = l_get ln k /\ ok = false) \/
  (exists okl, lim_step (l_w ln c) (l_n ln c) (l_pol ln (effective c k)) now (l_get ln k) = (okl, l_get ln k')
               /\ (ok = true -> okl = true)).
Proof.
  intros Hln H Hpos. unfold check_rate in H.
  destruct Hln as [->| ->]; cbn [l_get l_pol l_w l_n min_lens hr_lens] in *.
  - apply Z.ltb_lt in Hpos. rewrite Hpos in H.
    destruct (lim_step _ _ _ _ (t_min k)) as [ok1 m]. right. exists ok1.
    destruct ok1; cbn [negb] in H.
    + destruct (0 <? p_hr (effective c k)).
      * cbn [t_hrl t_pol t_min t_q] in H. destruct (lim_step _ _ _ _ (t_hrl k)) as [okh h].
        injection H as <- <-. cbn. auto.
      * injection H as <- <-. cbn. auto.
    + injection H as <- <-. cbn. split; [reflexivity|discriminate].
  - apply Z.ltb_lt in Hpos. rewrite Hpos in H.
    destruct (0 <? p_min (effective c k)).
    + destruct (lim_step _ _ _ _ (t_min k)) as [ok1 m]. destruct ok1; cbn [negb] in H.
      * cbn [t_hrl t_pol t_min t_q] in H. destruct (lim_step _ _ _ _ (t_hrl k)) as [okh h] eqn:E.
        injection H as <- <-. right. exists okh. cbn. auto.
      * injection H as <- <-. left. cbn. auto.
    + cbn [negb] in H. destruct (lim_step _ _ _ _ (t_hrl k)) as [okh h] eqn:E.
      injection H as <- <-. right. exists okh. cbn. auto.
Qed.

Lemma check_quota_frame c now k code k' :
  check_quota c now k = (code, k') -> t_pol k' = t_pol k /\ t_min k' = t_min k /\ t_hrl k' = t_hrl k.
Proof.
  unfold check_quota. intros H. destruct ((0 <? p_qh (effective c k)) || (0 <? p_qd (effective c k))).
  - destruct (qt_allow now _) as [cd q']. injection H as <- <-. cbn. auto.
  - injection H as <- <-. auto.
Qed.

Lemma usage_frame c now k u k' :
  usage c now k = (u, k') ->
  t_pol k' = t_pol k /\
  (forall ln, is_lens ln -> l_get ln k' = l_get ln k \/
      exists s, l_get ln k = Some s /\ l_get ln k' = Some (sw_advance now s)) /\
  (t_q k' = t_q k \/ exists q, t_q k = Some q /\ t_q k' = Some (qt_maybe_reset now q)).
Proof.
  unfold usage. intros H.
  destruct (t_q k) as [q|] eqn:Eq;
  destruct (0 <? p_min (effective c k)); destruct (t_min k) as [sm|] eqn:Em;
  destruct (0 <? p_hr (effective c k)); destruct (t_hrl k) as [sh|] eqn:Eh;
  cbn [sw_remaining] in H; injection H as <- <-; cbn [t_pol t_min t_hrl t_q];
  (split; [reflexivity|split; [intros ln [->| ->]; cbn [l_get min_lens hr_lens t_min t_hrl]; rewrite ?Em, ?Eh; eauto|eauto]]).
Qed.

Lemma set_policy_lens ln p k : is_lens ln ->
  l_get ln (set_policy p k) = option_map (sw_set_limit (l_pol ln p)) (l_get ln k).
Proof. intros [->| ->]; reflexivity. Qed.

(* [radm] = times at which the MANAGER's rate check allowed a request; they are among the
   admissions [adm] of the limiter *)
Definition lim_inv (d : Z) (n : nat) (L lim : Z) (o : option sw) (radm : list Z) (hi : Z) : Prop :=
  match o with
  | None => radm = []
  | Some s => exists adm cc, sw_inv d n s adm cc /\ cc <= slot_of d hi /\ sw_limit s = lim /\
                             W d n adm L /\ (forall f, cnt f radm <= cnt f adm)
  end.

Ltac split5 := split; [|split; [|split; [|split]]].

Lemma lim_inv_mono d n L lim o radm hi hi' :
  0 < d -> lim_inv d n L lim o radm hi -> hi <= hi' -> lim_inv d n L lim o radm hi'.
Proof.
  intros Hd H Hle. destruct o as [s|]; [|exact H].
  destruct H as (adm & cc & H1 & H2 & H3 & H4 & H5). exists adm, cc.
  pose proof (slot_mono d hi hi' Hd Hle). split5; try assumption. lia.
Qed.

Lemma lim_step_inv w cn L lim o radm hi now okl o' :
  let d := geom_d w cn in let n := Z.to_nat (geom_n cn) in
  0 < lim <= L -> lim_inv d n L lim o radm hi -> hi <= now ->
  lim_step w cn lim now o = (okl, o') ->
  lim_inv d n L lim o' radm now /\ (okl = true -> lim_inv d n L lim o' (now :: radm) now).
Proof.
  intros d n Hlim Hinv Hle H. pose proof (geom_d_pos w cn) as Hd. fold d in Hd.
  unfold lim_step in H.
  assert (Hex : exists s adm cc, (match o with Some s => s | None => sw_new w cn lim now end) = s /\
            sw_inv d n s adm cc /\ cc <= slot_of d now /\ sw_limit s = lim /\ W d n adm L /\
            (forall f, cnt f radm <= cnt f adm)).
  { destruct o as [s|].
    - destruct Hinv as (adm & cc & H1 & H2 & H3 & H4 & H5). exists s, adm, cc.
      pose proof (slot_mono d hi now Hd Hle). split; [reflexivity|]. split5; try assumption. lia.
    - cbn in Hinv. subst radm. exists (sw_new w cn lim now), [], (slot_of d now).
      split; [reflexivity|]. split5.
      + apply sw_new_inv.
      + lia.
      + reflexivity.
      + intros a. cbn. lia.
      + intros f. cbn. lia. }
  destruct Hex as (s & adm & cc & Es & Hi & Hcc & Hl & HW & Hsub). rewrite Es in H.
  destruct (sw_allow now s) as [ok s'] eqn:E. injection H as <- <-.
  destruct (sw_allow_inv d n s adm cc now ok s' Hi Hcc E) as [Hi' [Hl' [Hy Hn']]].
  destruct ok.
  - assert (HW' : W d n (now :: adm) L).
    { destruct (sw_advance_inv d n s adm cc now Hi Hcc) as [Hi1 _].
      eapply W_admit; [exact Hi1|reflexivity| |exact HW]. specialize (Hy eq_refl ltac:(lia)). lia. }
    split; [|intros _]; cbn [lim_inv]; exists (now :: adm), (slot_of d now);
      (split5; [exact Hi'|lia|lia|exact HW'|]); intros f; specialize (Hsub f); cbn [cnt];
      destruct (f now); lia.
  - split; [|discriminate]. cbn [lim_inv].
    destruct (sw_advance_inv d n s' adm (slot_of d now) now Hi' (Z.le_refl _)) as [Hi2 Hl2].
    exists adm, (slot_of d now). split5; try assumption; lia.
Qed.

Section MgrWindow.
  Variables (ln : lens) (c : cfg) (L : Z).
  Hypothesis Hln : is_lens ln.
  Local Notation d := (geom_d (l_w ln c) (l_n ln c)).
  Local Notation n := (Z.to_nat (geom_n (l_n ln c))).

  Definition rate_inv (k : tok) (radm : list Z) (hi : Z) : Prop :=
    0 < l_pol ln (effective c k) <= L /\
    lim_inv d n L (l_pol ln (effective c k)) (l_get ln k) radm hi.

  (* every policy in force limits this window: the per-token ones (ESet) and the config
     default, which applies before the first ESet and again after every EDel *)
  Hypothesis Hdef : 0 < l_pol ln (c_def c) <= L.
  Definition ev_ok (e : ev) : Prop :=
    match e with ESet p => 0 < l_pol ln p <= L | _ => True end.

  Lemma del_policy_lens k :
    l_get ln (del_policy c k) = option_map (sw_set_limit (l_pol ln (c_def c))) (l_get ln k).
  Proof.
    destruct Hln as [->| ->]; cbn [l_get l_pol min_lens hr_lens del_policy t_min t_hrl] in *;
      destruct Hdef as [Hd _]; apply Z.ltb_lt in Hd; rewrite Hd; reflexivity.
  Qed.

  Lemma d_pos : 0 < d.
  Proof. apply geom_d_pos. Qed.

  Lemma mgr_rate_window : forall evs k passed radm hi,
    rate_inv k radm hi -> nondecr (hi :: flat_map ev_time evs) -> Forall ev_ok evs ->
    forall a, cnt (in_slots d a (Z.of_nat n)) radm +
              cnt (in_slots d a (Z.of_nat n)) (rate_adm c (k, passed) evs) <= L.
  Proof.
    induction evs as [|e r IH]; intros k passed radm hi [Hp Hinv] Hs Hok a.
    - cbn [rate_adm cnt]. destruct (l_get ln k) as [s|]; cbn [lim_inv] in Hinv.
      + destruct Hinv as (adm & cc & _ & _ & _ & HW & Hsub). specialize (HW a). specialize (Hsub (in_slots d a (Z.of_nat n))). lia.
      + subst radm. cbn. lia.
    - inversion Hok as [|? ? He Hr]; subst. pose proof d_pos as Hd.
      destruct e as [rid t|rid t|p| |t]; cbn [rate_adm step].
      + (* ERate *)
        cbn [flat_map ev_time app] in Hs. apply nondecr_skip in Hs. destruct Hs as [Hle Hs].
        destruct (check_rate c t k) as [ok k'] eqn:E.
        destruct (check_rate_frame c t k ok k' E) as [Fp Fq].
        assert (Eeff : effective c k' = effective c k) by (unfold effective; rewrite Fp; reflexivity).
        destruct (check_rate_lens ln c t k ok k' Hln E ltac:(lia)) as [[Hsame Hno]|[okl [Hstep Himp]]].
        * subst ok. cbn [Z.eqb]. apply (IH k' passed radm t); try assumption.
          split; [rewrite Eeff; exact Hp|]. rewrite Eeff, Hsame.
          apply (lim_inv_mono d n L _ _ radm hi t Hd Hinv Hle).
        * destruct (lim_step_inv _ _ L _ _ radm hi t okl _ Hp Hinv Hle Hstep) as [I1 I2].
          destruct ok.
          -- specialize (I2 (Himp eq_refl)).
             assert (X := IH k' (rid :: passed) (t :: radm) t ltac:(split; [rewrite Eeff; exact Hp|rewrite Eeff; exact I2]) Hs Hr a).
             cbn [cnt] in X |- *. lia.
          -- apply (IH k' passed radm t); try assumption.
             split; [rewrite Eeff; exact Hp|rewrite Eeff; exact I1].
      + (* EQuota *)
        cbn [flat_map ev_time app] in Hs. apply nondecr_skip in Hs. destruct Hs as [Hle Hs].
        destruct (mem_n rid passed).
        * destruct (check_quota c t k) as [code k'] eqn:E.
          destruct (check_quota_frame c t k code k' E) as [Fp [Fm Fh]].
          assert (Eeff : effective c k' = effective c k) by (unfold effective; rewrite Fp; reflexivity).
          assert (Eget : l_get ln k' = l_get ln k) by (destruct Hln as [->| ->]; cbn; assumption).
          apply (IH k' (remove_n rid passed) radm t); try assumption.
          split; [rewrite Eeff; exact Hp|]. rewrite Eeff, Eget.
          apply (lim_inv_mono d n L _ _ radm hi t Hd Hinv Hle).
        * apply (IH k passed radm t); try assumption.
          split; [exact Hp|apply (lim_inv_mono d n L _ _ radm hi t Hd Hinv Hle)].
      + (* ESet *)
        cbn [flat_map ev_time app] in Hs. cbn [ev_ok] in He.
        apply (IH (set_policy p k) passed radm hi); try assumption.
        unfold rate_inv. replace (effective c (set_policy p k)) with p by reflexivity.
        split; [exact He|]. rewrite (set_policy_lens ln p k Hln).
        destruct (l_get ln k) as [s|]; cbn [option_map lim_inv] in *; [|exact Hinv].
        destruct Hinv as (adm & cc & H1 & H2 & H3 & H4 & H5). exists adm, cc.
        split5; try assumption; reflexivity.
      + (* EDel *)
        cbn [flat_map ev_time app] in Hs.
        apply (IH (del_policy c k) passed radm hi); try assumption.
        unfold rate_inv. replace (effective c (del_policy c k)) with (c_def c) by reflexivity.
        split; [exact Hdef|]. rewrite del_policy_lens.
        destruct (l_get ln k) as [s|]; cbn [option_map lim_inv] in *; [|exact Hinv].
        destruct Hinv as (adm & cc & H1 & H2 & H3 & H4 & H5). exists adm, cc.
        split5; try assumption; reflexivity.
      + (* EUsage *)
        cbn [flat_map ev_time app] in Hs. apply nondecr_skip in Hs. destruct Hs as [Hle Hs].
        destruct (usage c t k) as [u k'] eqn:E.
        destruct (usage_frame c t k u k' E) as [Fp [Fl _]].
        assert (Eeff : effective c k' = effective c k) by (unfold effective; rewrite Fp; reflexivity).
        apply (IH k' passed radm t); try assumption.
        split; [rewrite Eeff; exact Hp|]. rewrite Eeff.
        destruct (Fl ln Hln) as [Esame|[s [Es Es']]].
        * rewrite Esame. apply (lim_inv_mono d n L _ _ radm hi t Hd Hinv Hle).
        * rewrite Es in Hinv. rewrite Es'. cbn [lim_inv] in *.
          destruct Hinv as (adm & cc & H1 & H2 & H3 & H4 & H5).
          pose proof (slot_mono d hi t Hd Hle) as Hm.
          destruct (sw_advance_inv d n s adm cc t H1 ltac:(lia)) as [Hi1 Hl1].
          exists adm, (slot_of d t). split5; try assumption; lia.
  Qed.
End MgrWindow.

Lemma pl_arg_pol pl p : is_pl pl -> pl_arg pl (p_qh p) (p_qd p) = pl_pol pl p.
Proof. intros [->| ->]; reflexivity. Qed.

Lemma pl_max_new pl mh md now : is_pl pl -> pl_max pl (qt_new mh md now) = pl_arg pl mh md.
Proof. intros [->| ->]; reflexivity. Qed.

Lemma check_quota_spec pl c now k code k' :
  is_pl pl -> check_quota c now k = (code, k') -> 0 < pl_pol pl (effective c k) ->
  exists q', t_q k' = Some q' /\
    qt_allow now (match t_q k with
                  | Some q => q
                  | None => qt_new (p_qh (effective c k)) (p_qd (effective c k)) now
                  end) = (code, q').
Proof.
  intros Hpl H Hpos. unfold check_quota in H.
  assert (G : (0 <? p_qh (effective c k)) || (0 <? p_qd (effective c k)) = true).
  { apply orb_true_iff. destruct Hpl as [->| ->]; cbn in Hpos; [left|right]; apply Z.ltb_lt; exact Hpos. }
  rewrite G in H. destruct (qt_allow now _) as [cd q'] eqn:E. injection H as <- <-.
  exists q'. split; reflexivity.
Qed.

Section MgrQuota.
  Variables (pl : plens) (c : cfg) (L : Z).
  Hypothesis Hpl : is_pl pl.
  Local Notation P := (pl_P pl).

  Definition quota_inv (k : tok) (qadm : list Z) (hi : Z) : Prop :=
    0 < pl_pol pl (effective c k) <= L /\
    match t_q k with
    | None => qadm = []
    | Some q => exists hq, pl_inv pl q qadm hq /\ hq <= hi /\
                           pl_max pl q = pl_pol pl (effective c k) /\ Wq P qadm L
    end.

  Hypothesis Hdef : 0 < pl_pol pl (c_def c) <= L.
  Definition qev_ok (e : ev) : Prop :=
    match e with ESet p => 0 < pl_pol pl p <= L | _ => True end.

  Lemma del_policy_q k :
    t_q (del_policy c k) = option_map (qt_set_limits (p_qh (c_def c)) (p_qd (c_def c))) (t_q k).
  Proof.
    cbn [del_policy t_q].
    assert (G : (0 <? p_qh (c_def c)) || (0 <? p_qd (c_def c)) = true).
    { apply orb_true_iff. destruct Hdef as [Hd _].
      destruct Hpl as [->| ->]; cbn in Hd; [left|right]; apply Z.ltb_lt; exact Hd. }
    rewrite G. reflexivity.
  Qed.

  Lemma quota_inv_mono k k' qadm hi hi' :
    quota_inv k qadm hi -> hi <= hi' -> t_pol k' = t_pol k -> t_q k' = t_q k -> quota_inv k' qadm hi'.
  Proof.
    intros [Hp Hinv] Hle Fp Fq.
    assert (Eeff : effective c k' = effective c k) by (unfold effective; rewrite Fp; reflexivity).
    unfold quota_inv. rewrite Eeff, Fq. split; [exact Hp|].
    destruct (t_q k) as [q|]; [|exact Hinv].
    destruct Hinv as (hq & H1 & H2 & H3 & H4). exists hq. split; [exact H1|split; [lia|split; [exact H3|exact H4]]].
  Qed.

  Lemma mgr_quota_window : forall evs k passed qadm hi,
    quota_inv k qadm hi -> nondecr (hi :: flat_map ev_time evs) -> Forall qev_ok evs ->
    forall H, cnt (in_period P H) qadm + cnt (in_period P H) (quota_adm c (k, passed) evs) <= L.
  Proof.
    induction evs as [|e r IH]; intros k passed qadm hi Hqi Hs Hok H.
    - cbn [quota_adm cnt]. destruct Hqi as [Hp Hinv]. destruct (t_q k) as [q|].
      + destruct Hinv as (hq & _ & _ & _ & HW). specialize (HW H). lia.
      + subst qadm. cbn. lia.
    - inversion Hok as [|? ? He Hr]; subst.
      destruct e as [rid t|rid t|p| |t]; cbn [quota_adm step].
      + (* ERate *)
        cbn [flat_map ev_time app] in Hs. apply nondecr_skip in Hs. destruct Hs as [Hle Hs].
        destruct (check_rate c t k) as [ok k'] eqn:E.
        destruct (check_rate_frame c t k ok k' E) as [Fp Fq].
        apply (IH k' _ qadm t); try assumption.
        apply (quota_inv_mono k k' qadm hi t Hqi Hle Fp Fq).
      + (* EQuota *)
        cbn [flat_map ev_time app] in Hs. apply nondecr_skip in Hs. destruct Hs as [Hle Hs].
        destruct (mem_n rid passed).
        * destruct (check_quota c t k) as [code k'] eqn:E.
          destruct Hqi as [Hp Hinv].
          destruct (check_quota_frame c t k code k' E) as [Fp _].
          assert (Eeff : effective c k' = effective c k) by (unfold effective; rewrite Fp; reflexivity).
          destruct (check_quota_spec pl c t k code k' Hpl E ltac:(lia)) as [q' [Eq' Ea]].
          set (q0 := match t_q k with Some q => q | None => qt_new (p_qh (effective c k)) (p_qd (effective c k)) t end) in *.
          assert (Hq0 : exists hq, pl_inv pl q0 qadm hq /\ hq <= t /\
                                   pl_max pl q0 = pl_pol pl (effective c k) /\ Wq P qadm L).
          { unfold q0. destruct (t_q k) as [q|].
            - destruct Hinv as (hq & H1 & H2 & H3 & H4). exists hq. split; [exact H1|split; [lia|split; [exact H3|exact H4]]].
            - subst qadm. exists t. split; [apply qt_new_inv; exact Hpl|]. split; [lia|]. split.
              + rewrite pl_max_new by exact Hpl. apply pl_arg_pol. exact Hpl.
              + intros b. cbn. lia. }
          destruct Hq0 as (hq & I1 & I2 & I3 & I4).
          destruct (qt_allow_inv pl q0 qadm hq t code q' L Hpl I1 I2 Ea ltac:(lia) I4) as [J1 [J2 J3]].
          assert (Hqi' : quota_inv k' (if code =? 0 then t :: qadm else qadm) t).
          { unfold quota_inv. rewrite Eeff, Eq'. split; [exact Hp|]. exists t.
            split; [exact J1|]. split; [lia|]. split; [lia|exact J2]. }
          destruct code as [|cp|cp]; cbn [Z.eqb] in Hqi'.
          -- specialize (IH k' (remove_n rid passed) (t :: qadm) t Hqi' Hs Hr H). cbn [cnt] in IH |- *. lia.
          -- apply (IH k' (remove_n rid passed) qadm t Hqi' Hs Hr H).
          -- apply (IH k' (remove_n rid passed) qadm t Hqi' Hs Hr H).
        * apply (IH k passed qadm t); try assumption.
          apply (quota_inv_mono k k qadm hi t Hqi Hle eq_refl eq_refl).
      + (* ESet *)
        cbn [flat_map ev_time app] in Hs. cbn [qev_ok] in He.
        apply (IH (set_policy p k) passed qadm hi); try assumption.
        destruct Hqi as [Hp Hinv]. unfold quota_inv.
        replace (effective c (set_policy p k)) with p by reflexivity.
        split; [exact He|]. cbn [set_policy t_q].
        destruct (t_q k) as [q|]; cbn [option_map]; [|exact Hinv].
        destruct Hinv as (hq & H1 & H2 & H3 & H4). exists hq.
        destruct (qt_set_limits_pl pl (p_qh p) (p_qd p) q Hpl) as [E1 [E2 E3]].
        split; [unfold pl_inv; rewrite E1, E2; exact H1|]. split; [exact H2|]. split; [|exact H4].
        rewrite E3. apply pl_arg_pol. exact Hpl.
      + (* EDel *)
        cbn [flat_map ev_time app] in Hs.
        apply (IH (del_policy c k) passed qadm hi); try assumption.
        destruct Hqi as [Hp Hinv]. unfold quota_inv.
        replace (effective c (del_policy c k)) with (c_def c) by reflexivity.
        split; [exact Hdef|]. rewrite del_policy_q.
        destruct (t_q k) as [q|]; cbn [option_map]; [|exact Hinv].
        destruct Hinv as (hq & H1 & H2 & H3 & H4). exists hq.
        destruct (qt_set_limits_pl pl (p_qh (c_def c)) (p_qd (c_def c)) q Hpl) as [E1 [E2 E3]].
        split; [unfold pl_inv; rewrite E1, E2; exact H1|]. split; [exact H2|]. split; [|exact H4].
        rewrite E3. apply pl_arg_pol. exact Hpl.
      + (* EUsage *)
        cbn [flat_map ev_time app] in Hs. apply nondecr_skip in Hs. destruct Hs as [Hle Hs].
        destruct (usage c t k) as [u k'] eqn:E.
        destruct (usage_frame c t k u k' E) as [Fp [_ Fq]].
        apply (IH k' passed qadm t); try assumption.
        destruct Fq as [Fq|[q [Eq Eq']]]; [apply (quota_inv_mono k k' qadm hi t Hqi Hle Fp Fq)|].
        destruct Hqi as [Hp Hinv].
        assert (Eeff : effective c k' = effective c k) by (unfold effective; rewrite Fp; reflexivity).
        unfold quota_inv. rewrite Eeff, Eq'. split; [exact Hp|]. rewrite Eq in Hinv.
        destruct Hinv as (hq & H1 & H2 & H3 & H4). exists t.
        split; [apply (qt_maybe_reset_inv pl q qadm hq t Hpl H1); lia|]. split; [lia|]. split; [|exact H4].
        destruct (qt_maybe_reset_pl pl t q Hpl) as [_ [_ Em]]. rewrite Em. exact H3.
  Qed.
End MgrQuota.

(* ------------------------------------------------------------------------------------ *)
(* whole histories, from the empty manager state                                        *)
(* ------------------------------------------------------------------------------------ *)

Lemma nondecr_hd l : nondecr l -> nondecr (hd 0 l :: l).
Proof. destruct l as [|x r]; cbn; [tauto|]. intros H. split; [lia|exact H]. Qed.

Theorem mgr_window_aligned ln c evs L a :
  is_lens ln -> nondecr (flat_map ev_time evs) ->
  0 < l_pol ln (c_def c) <= L -> Forall (ev_ok ln L) evs ->
  cnt (in_slots (geom_d (l_w ln c) (l_n ln c)) a (geom_n (l_n ln c))) (rate_adm c st0 evs) <= L.
Proof.
  intros Hln Hs Hd Hok. pose proof (geom_n_pos (l_n ln c)) as Hn.
  pose proof (mgr_rate_window ln c L Hln Hd evs tok0 [] [] (hd 0 (flat_map ev_time evs))
                ltac:(split; [exact Hd|destruct Hln as [->| ->]; reflexivity])
                (nondecr_hd _ Hs) Hok a) as H.
  rewrite Z2Nat.id in H by lia. cbn [cnt] in H. unfold st0. lia.
Qed.

Theorem mgr_window_any_twice ln c evs L a :
  is_lens ln -> nondecr (flat_map ev_time evs) ->
  0 < l_pol ln (c_def c) <= L -> Forall (ev_ok ln L) evs ->
  cnt (in_win a (geom_n (l_n ln c) * geom_d (l_w ln c) (l_n ln c))) (rate_adm c st0 evs) <= 2 * L.
Proof.
  intros Hln Hs Hd Hok. pose proof (geom_n_pos (l_n ln c)) as Hn.
  rewrite <- (Z2Nat.id (geom_n (l_n ln c))) by lia.
  apply W_any_window; [apply geom_d_pos|]. intros b. rewrite Z2Nat.id by lia.
  apply mgr_window_aligned; assumption.
Qed.

Theorem mgr_quota_period pl c evs L H :
  is_pl pl -> nondecr (flat_map ev_time evs) ->
  0 < pl_pol pl (c_def c) <= L -> Forall (qev_ok pl L) evs ->
  cnt (in_period (pl_P pl) H) (quota_adm c st0 evs) <= L.
Proof.
  intros Hpl Hs Hd Hok.
  pose proof (mgr_quota_window pl c L Hpl Hd evs tok0 [] [] (hd 0 (flat_map ev_time evs))
                ltac:(split; [exact Hd|reflexivity]) (nondecr_hd _ Hs) Hok H) as X.
  cbn [cnt] in X. unfold st0. lia.
Qed.

(* ------------------------------------------------------------------------------------ *)
(* a rate-limited request consumes no quota                                             *)
(* ------------------------------------------------------------------------------------ *)

Theorem rate_step_leaves_quota c st rid t o st' :
  step c st (ERate rid t) = (o, st') ->
  t_q (fst st') = t_q (fst st) /\ quota_raw st' = quota_raw st /\
  (o = [1; 0] -> snd st' = snd st) /\ (o = [1; 0] \/ o = [1; 1]).
Proof.
  destruct st as [k passed]. cbn [step]. destruct (check_rate c t k) as [ok k'] eqn:E.
  destruct (check_rate_frame c t k ok k' E) as [_ Fq]. intros H. injection H as <- <-.
  unfold quota_raw. cbn [fst snd]. rewrite Fq. repeat split.
  - destruct ok; [discriminate|reflexivity].
  - destruct ok; auto.
Qed.

Theorem quota_skipped c st rid t :
  mem_n rid (snd st) = false -> step c st (EQuota rid t) = ([3], st).
Proof. destruct st as [k passed]. cbn [step snd]. intros ->. reflexivity. Qed.

Lemma mem_remove x y l : mem_n x (remove_n y l) = true -> mem_n x l = true.
Proof.
  induction l as [|z r IH]; cbn; [auto|]. destruct (N.eqb y z).
  - intros H. rewrite (IH H). apply orb_true_r.
  - cbn. intros H. apply orb_true_iff in H. apply orb_true_iff. destruct H; [left|right]; auto.
Qed.

Lemma step_passed c st e o st' rid :
  step c st e = (o, st') -> mem_n rid (snd st') = true ->
  mem_n rid (snd st) = true \/ exists t', e = ERate rid t' /\ o = [1; 1].
Proof.
  destruct st as [k passed]. destruct e as [r0 t|r0 t|p| |t]; cbn [step snd].
  - destruct (check_rate c t k) as [ok k']. intros H. injection H as <- <-. cbn [snd].
    destruct ok; [|auto]. cbn [mem_n]. intros Hm. apply orb_true_iff in Hm. destruct Hm as [Hm|Hm]; [|auto].
    apply N.eqb_eq in Hm. subst r0. right. exists t. auto.
  - destruct (mem_n r0 passed).
    + destruct (check_quota c t k) as [code k']. intros H. injection H as <- <-. cbn [snd].
      intros Hm. left. apply (mem_remove _ _ _ Hm).
    + intros H. injection H as <- <-. auto.
  - intros H. injection H as <- <-. auto.
  - intros H. injection H as <- <-. auto.
  - destruct (usage c t k) as [u k']. intros H. injection H as <- <-. auto.
Qed.

(* every executed quota check belongs to a request whose rate check allowed it *)
Theorem quota_after_rate c : forall evs st i rid t code raw,
  nth_error evs i = Some (EQuota rid t) ->
  nth_error (run c st evs) i = Some ([2; code], raw) ->
  mem_n rid (snd st) = true \/
  exists j t' raw', (j < i)%nat /\ nth_error evs j = Some (ERate rid t') /\
                    nth_error (run c st evs) j = Some ([1; 1], raw').
Proof.
  induction evs as [|e r IH]; intros st i rid t code raw He Ho; [destruct i; discriminate|].
  cbn [run] in *. destruct (step c st e) as [o st'] eqn:E.
  destruct i as [|i]; cbn [nth_error] in *.
  - injection He as ->. injection Ho as Ho _.
    destruct (mem_n rid (snd st)) eqn:M; [auto|].
    rewrite (quota_skipped c st rid t M) in E. injection E as <- _. discriminate.
  - destruct (IH st' i rid t code raw He Ho) as [Hm|(j & t' & raw' & Hj & H1 & H2)].
    + destruct (step_passed c st e o st' rid E Hm) as [Hm0|[t' [-> ->]]]; [auto|].
      right. exists 0%nat, t', (quota_raw st'). cbn [nth_error].
      split; [lia|split; reflexivity].
    + right. exists (S j), t', raw'. cbn [nth_error]. split; [lia|split; assumption].
Qed.

(* ------------------------------------------------------------------------------------ *)
(* a limit change decides the very next request                                         *)
(* ------------------------------------------------------------------------------------ *)

Definition lim_count (now : Z) (o : option sw) : Z :=
  match o with Some s => sw_total (sw_advance now s) | None => 0 end.

Lemma sw_advance_new w cn l now : sw_advance now (sw_new w cn l now) = sw_new w cn l now.
Proof. unfold sw_advance, sw_new. cbn [sw_d sw_last]. rewrite Z.sub_diag. reflexivity. Qed.

Lemma lim_step_fst w cn l now o :
  0 < l -> fst (lim_step w cn l now (option_map (sw_set_limit l) o)) = (lim_count now o <? l).
Proof.
  intros Hl. unfold lim_step. destruct o as [s|]; cbn [option_map lim_count].
  - pose proof (sw_limit_update_next l now s) as H.
    destruct (sw_allow now (sw_set_limit l s)) as [ok s']. cbn [fst] in *. rewrite H.
    destruct (Z.ltb_spec 0 l); [|lia]. cbn [andb]. rewrite Z.ltb_antisym. reflexivity.
  - unfold sw_allow. rewrite sw_advance_new. cbn [sw_new sw_limit sw_total].
    destruct (Z.ltb_spec 0 l), (Z.leb_spec l 0); try lia. reflexivity.
Qed.

Theorem mgr_update_next_rate c p k t :
  fst (check_rate c t (set_policy p k)) =
  (negb (0 <? p_min p) || (lim_count t (t_min k) <? p_min p)) &&
  (negb (0 <? p_hr p) || (lim_count t (t_hrl k) <? p_hr p)).
Proof.
  unfold check_rate. replace (effective c (set_policy p k)) with p by reflexivity.
  cbn [set_policy t_min t_hrl t_pol t_q].
  destruct (Z.ltb_spec 0 (p_min p)) as [Hm|Hm]; cbn [negb orb].
  - pose proof (lim_step_fst (c_min_w c) (c_min_n c) (p_min p) t (t_min k) Hm) as H1.
    destruct (lim_step (c_min_w c) (c_min_n c) (p_min p) t _) as [ok1 m]. cbn [fst] in H1. subst ok1.
    destruct (lim_count t (t_min k) <? p_min p); cbn [negb andb]; [|reflexivity].
    destruct (Z.ltb_spec 0 (p_hr p)) as [Hh|Hh]; cbn [negb orb]; [|reflexivity].
    cbn [t_hrl].
    pose proof (lim_step_fst (c_hr_w c) (c_hr_n c) (p_hr p) t (t_hrl k) Hh) as H2.
    destruct (lim_step (c_hr_w c) (c_hr_n c) (p_hr p) t _) as [ok2 h]. cbn [fst] in *. exact H2.
  - cbn [andb]. destruct (Z.ltb_spec 0 (p_hr p)) as [Hh|Hh]; cbn [negb orb]; [|reflexivity].
    pose proof (lim_step_fst (c_hr_w c) (c_hr_n c) (p_hr p) t (t_hrl k) Hh) as H2.
    destruct (lim_step (c_hr_w c) (c_hr_n c) (p_hr p) t _) as [ok2 h]. cbn [fst] in *. exact H2.
Qed.

Definition qcount (now : Z) (o : option qt) : Z * Z :=
  match o with
  | Some q => (q_h (qt_maybe_reset now q), q_d (qt_maybe_reset now q))
  | None => (0, 0)
  end.

Definition quota_code (mh md h dd : Z) : Z :=
  if (0 <? mh) && (mh <=? h) then 1 else if (0 <? md) && (md <=? dd) then 2 else 0.

Lemma qt_maybe_reset_new mh md now : qt_maybe_reset now (qt_new mh md now) = qt_new mh md now.
Proof.
  unfold qt_maybe_reset, qt_new, pc_reset. cbn [q_h q_d q_hreset q_dreset q_maxh q_maxd].
  rewrite (trunc_unix hour now hour_pos zoff_hour), (trunc_unix day now day_pos zoff_day).
  pose proof (Z.div_mod now hour ltac:(pose proof hour_pos; lia)) as H1.
  pose proof (Z.mod_pos_bound now hour hour_pos) as H2.
  pose proof (Z.div_mod now day ltac:(pose proof day_pos; lia)) as H3.
  pose proof (Z.mod_pos_bound now day day_pos) as H4.
  destruct (Z.leb_spec (hour * (now / hour) + hour) now); [lia|].
  destruct (Z.leb_spec (day * (now / day) + day) now); [lia|]. reflexivity.
Qed.

Lemma qt_maybe_reset_limits mh md now q :
  qt_maybe_reset now (qt_set_limits mh md q) = qt_set_limits mh md (qt_maybe_reset now q).
Proof.
  unfold qt_maybe_reset, qt_set_limits. cbn [q_h q_d q_hreset q_dreset q_maxh q_maxd].
  destruct (pc_reset hour now (q_h q) (q_hreset q)), (pc_reset day now (q_d q) (q_dreset q)). reflexivity.
Qed.

Theorem mgr_update_next_quota c p k t :
  fst (check_quota c t (set_policy p k)) =
  if (0 <? p_qh p) || (0 <? p_qd p)
  then quota_code (p_qh p) (p_qd p) (fst (qcount t (t_q k))) (snd (qcount t (t_q k)))
  else 0.
Proof.
  unfold check_quota. replace (effective c (set_policy p k)) with p by reflexivity.
  destruct ((0 <? p_qh p) || (0 <? p_qd p)); [|reflexivity].
  cbn [set_policy t_q]. unfold qt_allow, quota_code, qcount.
  destruct (t_q k) as [q|]; cbn [option_map].
  - rewrite qt_maybe_reset_limits. cbn [qt_set_limits q_maxh q_maxd q_h q_d fst snd].
    destruct ((0 <? p_qh p) && (p_qh p <=? q_h (qt_maybe_reset t q))); [reflexivity|].
    destruct ((0 <? p_qd p) && (p_qd p <=? q_d (qt_maybe_reset t q))); reflexivity.
  - rewrite qt_maybe_reset_new. cbn [qt_new q_maxh q_maxd q_h q_d fst snd].
    destruct ((0 <? p_qh p) && (p_qh p <=? 0)); [reflexivity|].
    destruct ((0 <? p_qd p) && (p_qd p <=? 0)); reflexivity.
Qed.

(* ------------------------------------------------------------------------------------ *)
(* windows in plain clock time                                                          *)
(* ------------------------------------------------------------------------------------ *)

Lemma in_win_aligned d n a x :
  0 < d -> 0 <= n -> (abs_ns a) mod d = 0 ->
  in_win a (n * d) x = in_slots d (slot_of d a) n x.
Proof.
  intros Hd Hn Ha. apply eq_iff_eq_true. unfold in_win, in_slots.
  rewrite !andb_true_iff, !Z.leb_le, !Z.ltb_lt. apply win_slots_aligned; assumption.
Qed.

Lemma abs_aligned d a : 0 < d -> zoff mod d = 0 -> a mod d = 0 -> (abs_ns a) mod d = 0.
Proof.
  intros Hd Hz Ha. unfold abs_ns. rewrite Z.add_mod by lia. rewrite Hz, Ha. reflexivity.
Qed.

(* ------------------------------------------------------------------------------------ *)
(* DeletePolicy = falling back to the default limits with the counts kept               *)
(* ------------------------------------------------------------------------------------ *)

Lemma check_rate_del c k t :
  fst (check_rate c t (del_policy c k)) = fst (check_rate c t (set_policy (c_def c) k)).
Proof.
  unfold check_rate.
  replace (effective c (del_policy c k)) with (c_def c) by reflexivity.
  replace (effective c (set_policy (c_def c) k)) with (c_def c) by reflexivity.
  destruct (0 <? p_min (c_def c)) eqn:Em; destruct (0 <? p_hr (c_def c)) eqn:Eh;
    cbn [del_policy set_policy t_min t_hrl t_pol t_q]; rewrite ?Em, ?Eh;
    repeat (match goal with
            | |- context [lim_step ?a ?b ?c ?d ?e] => destruct (lim_step a b c d e) as [? ?]
            end; cbn [negb t_min t_hrl t_pol t_q]; rewrite ?Em, ?Eh);
    try reflexivity;
    repeat (match goal with |- context [if negb ?b then _ else _] => destruct b; cbn [negb] end;
            cbn [t_min t_hrl t_pol t_q]; rewrite ?Em, ?Eh;
            repeat match goal with
            | |- context [lim_step ?a ?b ?c ?d ?e] => destruct (lim_step a b c d e) as [? ?]
            end);
    reflexivity.
Qed.

Lemma check_quota_del c k t :
  fst (check_quota c t (del_policy c k)) = fst (check_quota c t (set_policy (c_def c) k)).
Proof.
  unfold check_quota.
  replace (effective c (del_policy c k)) with (c_def c) by reflexivity.
  replace (effective c (set_policy (c_def c) k)) with (c_def c) by reflexivity.
  destruct ((0 <? p_qh (c_def c)) || (0 <? p_qd (c_def c))) eqn:G; [|reflexivity].
  cbn [del_policy set_policy t_q]. rewrite G.
  destruct (qt_allow t _) as [cd q']. reflexivity.
Qed.

(* ------------------------------------------------------------------------------------ *)
(* necessity of `!now.Before`: the periodic counter with the OLD strict comparison        *)
(* ------------------------------------------------------------------------------------ *)

(* a periodic counter parameterised by the reset test: [ge = true] is the code as it is
   (reset when resetAt <= now), [ge = false] the former `now.After(resetAt)` *)
Definition pc_reset_v (ge : bool) (P now used reset : Z) : Z * Z :=
  if (if ge then reset <=? now else reset <? now) then (0, trunc P now + P) else (used, reset).

Fixpoint pc_run_v (ge : bool) (P L used reset : Z) (ts : list Z) : list Z :=
  match ts with
  | [] => []
  | t :: r => let '(u, rs) := pc_reset_v ge P t used reset in
              if u <? L then t :: pc_run_v ge P L (u + 1) rs r else pc_run_v ge P L u rs r
  end.

Lemma pc_reset_v_true P now used reset : pc_reset_v true P now used reset = pc_reset P now used reset.
Proof. reflexivity. Qed.

(* for every quota L >= 1 and every boundary H: one query just after the previous boundary, one
   exactly at H*hour, then L just after it are ALL admitted by the old test: L+1 in the
   clock hour starting at H*hour *)
Lemma nondecr_cons_repeat n : forall y x, y <= x -> nondecr (y :: repeat x n).
Proof.
  induction n as [|n IH]; intros y x H; cbn [repeat nondecr]; [tauto|].
  split; [exact H|apply IH; lia].
Qed.

Lemma old_after_admits_extra L H :
  1 <= L ->
  let ts := (H * hour - hour + 1) :: (H * hour) :: repeat (H * hour + 1) (Z.to_nat L) in
  nondecr ts /\
  cnt (in_period hour H) (pc_run_v false hour (L + 1) 0 (trunc hour (H * hour - hour + 1) + hour) ts) = L + 1.
Proof.
  intros HL ts. pose proof hour_pos as HP. assert (Hbig : 1 < hour) by (vm_compute; reflexivity).
  assert (Etr : trunc hour (H * hour - hour + 1) + hour = H * hour).
  { rewrite (trunc_unix hour _ HP zoff_hour).
    replace ((H * hour - hour + 1) / hour) with (H - 1); [lia|].
    apply Z.div_unique with (r := 1); unfold hour, sec in *; lia. }
  split.
  - subst ts. cbn [nondecr]. split; [lia|]. apply nondecr_cons_repeat. lia.
  - rewrite Etr. subst ts. cbn [pc_run_v]. unfold pc_reset_v at 1.
    destruct (Z.ltb_spec (H * hour) (H * hour - hour + 1)) as [C|_]; [lia|].
    destruct (Z.ltb_spec 0 (L + 1)) as [_|C]; [|lia]. cbn [cnt].
    unfold pc_reset_v at 1. destruct (Z.ltb_spec (H * hour) (H * hour)) as [C|_]; [lia|].
    destruct (Z.ltb_spec (0 + 1) (L + 1)) as [_|C]; [|lia]. cbn [cnt].
    (* first query after the boundary resets; then L admissions with counts 0..L-1 *)
    assert (Etr2 : trunc hour (H * hour + 1) + hour = (H + 1) * hour).
    { rewrite (trunc_unix hour _ HP zoff_hour).
      replace ((H * hour + 1) / hour) with H; [lia|].
      apply Z.div_unique with (r := 1); unfold hour, sec in *; lia. }
    assert (Gen : forall n u, 0 <= u -> u + Z.of_nat n <= L + 1 ->
              cnt (in_period hour H)
                (pc_run_v false hour (L + 1) u ((H + 1) * hour) (repeat (H * hour + 1) n)) = Z.of_nat n).
    { induction n as [|n IH]; intros u Hu Hb; [reflexivity|].
      cbn [repeat pc_run_v]. unfold pc_reset_v.
      destruct (Z.ltb_spec ((H + 1) * hour) (H * hour + 1)) as [C|_]; [lia|].
      destruct (Z.ltb_spec u (L + 1)) as [_|C]; [|lia]. cbn [cnt].
      rewrite IH by lia.
      unfold in_period. destruct (Z.leb_spec (H * hour) (H * hour + 1)); [|lia].
      destruct (Z.ltb_spec (H * hour + 1) ((H + 1) * hour)); [cbn [andb]; lia|unfold hour, sec in *; lia]. }
    destruct (Z.to_nat L) as [|n] eqn:En; [lia|].
    cbn [repeat pc_run_v]. unfold pc_reset_v at 1.
    destruct (Z.ltb_spec (H * hour) (H * hour + 1)) as [_|C]; [|lia].
    destruct (Z.ltb_spec 0 (L + 1)) as [_|C]; [|lia]. cbn [cnt]. rewrite Etr2.
    rewrite (Gen n (0 + 1)) by lia.
    unfold in_period.
    destruct (Z.leb_spec (H * hour) (H * hour - hour + 1)) as [C|_]; [lia|].
    destruct (Z.leb_spec (H * hour) (H * hour)) as [_|C]; [|lia].
    destruct (Z.ltb_spec (H * hour) ((H + 1) * hour)) as [_|C]; [|lia].
    destruct (Z.leb_spec (H * hour) (H * hour + 1)) as [_|C]; [|lia].
    destruct (Z.ltb_spec (H * hour + 1) ((H + 1) * hour)) as [_|C]; [|unfold hour, sec in *; lia].
    cbn [andb]. lia.
Qed.

(* ------------------------------------------------------------------------------------ *)
(* concurrent FIRST requests of a token: get-or-create as two critical sections           *)
(* ------------------------------------------------------------------------------------ *)

(* all interleavings of any number of request threads *)
Inductive greach (recheck : bool) (limit : Z) : gstate * list gpc -> Prop :=
| gr_init : greach recheck limit (g_init, [])
| gr_spawn s ts : greach recheck limit (s, ts) -> greach recheck limit (s, ts ++ [GStart])
| gr_step s ts i p s' p' :
    greach recheck limit (s, ts) -> nth_error ts i = Some p ->
    gstep recheck limit s p = Some (s', p') -> greach recheck limit (s', gupd i p' ts).

Lemma grun_reach recheck limit : forall sched s ts,
  greach recheck limit (s, ts) -> greach recheck limit (grun recheck limit s ts sched).
Proof.
  induction sched as [|i r IH]; intros s ts H; cbn [grun]; [exact H|].
  destruct (nth_error ts i) as [p|] eqn:E; [|apply IH; exact H].
  destruct (gstep recheck limit s p) as [[s' p']|] eqn:G; [|apply IH; exact H].
  apply IH. eapply gr_step; eassumption.
Qed.

Definition gval (p : gpc) : Z := match p with GDone true => 1 | _ => 0 end.

Lemma gadm_app a b : gadm (a ++ b) = gadm a + gadm b.
Proof.
  induction a as [|x r IH]; cbn [app gadm]; [lia|]. destruct x as [| |i|[|]]; cbn [gadm]; rewrite ?IH; lia.
Qed.

Lemma gadm_cons p r : gadm (p :: r) = gval p + gadm r.
Proof. destruct p as [| |i|[|]]; cbn; lia. Qed.

Lemma gupd_split (ts : list gpc) i p :
  nth_error ts i = Some p -> exists a b, ts = a ++ p :: b /\ forall q, gupd i q ts = a ++ q :: b.
Proof.
  intros H. destruct (nth_error_split ts i H) as (a & b & -> & Hl). exists a, b. split; [reflexivity|].
  intros q. unfold gupd. rewrite (firstn_app_len a (p :: b) i Hl), (skipn_S_app_len a b p i Hl). reflexivity.
Qed.

(* with the re-check there is at most ONE counter object and every thread that holds a counter
   holds that one; its count is the number of admitted requests *)
Definition ginv (limit : Z) (c : gstate * list gpc) : Prop :=
  let '(s, ts) := c in
  match g_objs s with
  | [] => g_slot s = None /\ Forall (fun p => p = GStart \/ p = GMiss) ts /\ gadm ts = 0
  | [k] => g_slot s = Some 0%nat /\ Forall (fun p => match p with GHave i => i = 0%nat | _ => True end) ts /\
           gadm ts = k /\ 0 <= k <= limit
  | _ => False
  end.

Lemma greach_inv limit : 0 < limit -> forall c, greach true limit c -> ginv limit c.
Proof.
  intros Hl c H. induction H as [|s ts H IH|s ts i p s' p' H IH Hn Hs].
  - cbn. repeat split; constructor.
  - unfold ginv in *. destruct (g_objs s) as [|k [|? ?]]; [| |exact IH].
    + destruct IH as (A & B & C). split; [exact A|]. split.
      * apply Forall_app. split; [exact B|]. constructor; [left; reflexivity|constructor].
      * rewrite gadm_app, C. reflexivity.
    + destruct IH as (A & B & C & D). split; [exact A|]. split.
      * apply Forall_app. split; [exact B|]. constructor; [exact I|constructor].
      * split; [rewrite gadm_app, C; cbn; lia|exact D].
  - destruct (gupd_split ts i p Hn) as (a & b & -> & Hu). rewrite Hu.
    unfold ginv in IH |- *.
    destruct p as [| |j|ok]; cbn [gstep] in Hs.
    + (* read-locked lookup *)
      injection Hs as <- <-.
      destruct (g_objs s) as [|k [|? ?]]; [| |exact IH].
      * destruct IH as (A & B & C). rewrite A. split; [reflexivity|].
        apply Forall_app in B. destruct B as [B1 B2]. apply Forall_cons_iff in B2. destruct B2 as [Bh Bt]. split.
        -- apply Forall_app. split; [exact B1|]. constructor; [right; reflexivity|assumption].
        -- rewrite gadm_app, gadm_cons in *. cbn [gval] in *. exact C.
      * destruct IH as (A & B & C & D). rewrite A. split; [reflexivity|].
        apply Forall_app in B. destruct B as [B1 B2]. apply Forall_cons_iff in B2. destruct B2 as [Bh Bt]. split.
        -- apply Forall_app. split; [exact B1|]. constructor; [reflexivity|assumption].
        -- split; [|exact D]. rewrite gadm_app, gadm_cons in *. cbn [gval] in *. exact C.
    + (* write-locked section with re-check *)
      destruct (g_objs s) as [|k [|? ?]] eqn:Eo; [| |destruct IH].
      * destruct IH as (A & B & C). rewrite A in Hs. cbn in Hs. injection Hs as <- <-.
        cbn [g_objs g_slot app]. split; [reflexivity|].
        apply Forall_app in B. destruct B as [B1 B2]. apply Forall_cons_iff in B2. destruct B2 as [Bh Bt]. split.
        -- apply Forall_app. split.
           ++ eapply Forall_impl; [|exact B1]. intros q [->| ->]; exact I.
           ++ constructor; [reflexivity|]. eapply Forall_impl; [|eassumption]. intros q [->| ->]; exact I.
        -- rewrite gadm_app, gadm_cons in *. cbn [gval] in *. split; [exact C|lia].
      * destruct IH as (A & B & C & D). rewrite A in Hs. injection Hs as <- <-. rewrite Eo.
        split; [exact A|].
        apply Forall_app in B. destruct B as [B1 B2]. apply Forall_cons_iff in B2. destruct B2 as [Bh Bt]. split.
        -- apply Forall_app. split; [exact B1|]. constructor; [reflexivity|assumption].
        -- split; [|exact D]. rewrite gadm_app, gadm_cons in *. cbn [gval] in *. exact C.
    + (* Allow on the counter held *)
      destruct (g_objs s) as [|k [|? ?]] eqn:Eo; [| |destruct IH].
      * destruct IH as (_ & B & _). apply Forall_app in B. destruct B as [_ B2]. apply Forall_cons_iff in B2. destruct B2 as [[Bh|Bh] _]; discriminate.
      * destruct IH as (A & B & C & D).
        apply Forall_app in B. destruct B as [B1 B2]. apply Forall_cons_iff in B2. destruct B2 as [Hj B3]. cbn in Hj. subst j.
        cbn [nth] in Hs.
        destruct ((0 <? limit) && (limit <=? k)) eqn:E; injection Hs as <- <-.
        -- rewrite Eo. split; [exact A|]. split.
           ++ apply Forall_app. split; [exact B1|]. constructor; [exact I|exact B3].
           ++ split; [|exact D]. rewrite gadm_app, gadm_cons in *. cbn [gval] in *. exact C.
        -- cbn [g_objs g_slot]. unfold set_nth. cbn [firstn skipn app].
           apply andb_false_iff in E. assert (k < limit) by (destruct E as [E|E]; [apply Z.ltb_ge in E|apply Z.leb_gt in E]; lia).
           split; [exact A|]. split.
           ++ apply Forall_app. split; [exact B1|]. constructor; [exact I|exact B3].
           ++ rewrite gadm_app, gadm_cons in *. cbn [gval] in *. split; lia.
    + discriminate.
Qed.

Theorem first_requests_bounded limit s ts :
  0 < limit -> greach true limit (s, ts) -> gadm ts <= limit /\ (length (g_objs s) <= 1)%nat.
Proof.
  intros Hl H. pose proof (greach_inv limit Hl _ H) as I. unfold ginv in I.
  destruct (g_objs s) as [|k [|? ?]]; [| |destruct I].
  - destruct I as (_ & _ & C). cbn. lia.
  - destruct I as (_ & _ & C & D). cbn. lia.
Qed.
