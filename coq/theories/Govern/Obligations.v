(* C28 obligations on the parameters regenerated from /repo on every run
   (coq/gen/Params_Govern.v, written by tools/props/C28.py through tools/goast):
   the geometry of the two newSlidingWindowCounter construction sites of governance.Manager,
   the order of the governance calls in the query handler, and the lock discipline of the
   counter methods.  With them the theorems of Props.v are restated for the deployed
   configuration in plain clock time. *)
From Coq Require Import List ZArith Bool Lia String.
From Arc Require Import Govern.Model Govern.Proofs.
From ArcGen Require Import Params_Govern.
Import ListNotations.
Open Scope Z_scope.

(* the Manager as deployed, with config defaults p *)
Definition deployed (p : policy) : cfg :=
  {| c_min_w := minute_window_ns; c_min_n := minute_slots;
     c_hr_w := hour_window_ns; c_hr_n := hour_slots; c_def := p |}.

(* slots * slotDuration = window at both sites (else a window of the configured length is not
   a whole number of slots and C28_aligned_window says nothing about it), and slot boundaries
   fall on multiples of the slot duration of the Unix clock *)
Theorem C28_geometry :
  geom_n minute_slots * geom_d minute_window_ns minute_slots = minute_window_ns /\
  geom_n hour_slots * geom_d hour_window_ns hour_slots = hour_window_ns /\
  zoff mod geom_d minute_window_ns minute_slots = 0 /\
  zoff mod geom_d hour_window_ns hour_slots = 0.
Proof. vm_compute. repeat split. Qed.
Print Assumptions C28_geometry.

(* every query handler that consults governance calls CheckRateLimit, returns on rejection,
   and only then CheckQuota (the composition modelled by Model.step); every counter method
   is one critical section reading the clock inside it *)
Theorem C28_call_sites :
  handler_checks = ["CheckRateLimit"; "CheckQuota"]%string /\
  rate_reject_returns_before_quota = true /\
  critical_sections <> [] /\ forallb snd critical_sections = true.
Proof. vm_compute. repeat split; intro; discriminate. Qed.
Print Assumptions C28_call_sites.

(* every get-or-create helper of the Manager that stores a new counter in a map does so in a
   write-locked section that first re-checks the map (the hypothesis [recheck = true] of
   C28_first_requests_share_counter; without it C28_no_recheck_refuted applies) *)
Theorem C28_get_or_create_rechecks :
  get_or_create_recheck <> [] /\ forallb snd get_or_create_recheck = true.
Proof. vm_compute. split; [intro; discriminate|reflexivity]. Qed.
Print Assumptions C28_get_or_create_rechecks.

Lemma deployed_window ln p evs L a :
  is_lens ln -> nondecr (flat_map ev_time evs) ->
  0 < l_pol ln p <= L -> Forall (ev_ok ln L) evs ->
  geom_n (l_n ln (deployed p)) * geom_d (l_w ln (deployed p)) (l_n ln (deployed p)) = l_w ln (deployed p) ->
  zoff mod geom_d (l_w ln (deployed p)) (l_n ln (deployed p)) = 0 ->
  a mod geom_d (l_w ln (deployed p)) (l_n ln (deployed p)) = 0 ->
  cnt (in_win a (l_w ln (deployed p))) (rate_adm (deployed p) st0 evs) <= L.
Proof.
  intros Hln Hs Hl Hok Hg Hz Ha.
  set (d := geom_d (l_w ln (deployed p)) (l_n ln (deployed p))) in *.
  set (n := geom_n (l_n ln (deployed p))) in *.
  assert (Hd : 0 < d) by apply geom_d_pos. assert (Hn : 0 < n) by apply geom_n_pos.
  rewrite <- Hg.
  rewrite (cnt_ext _ (in_slots d (slot_of d a) n)).
  - apply (mgr_window_aligned ln (deployed p) evs L (slot_of d a) Hln Hs Hl Hok).
  - intros x _. apply in_win_aligned; [exact Hd|lia|]. apply abs_aligned; assumption.
Qed.

(* Deployed per-minute limiter: every window [a, a + 1 min) that starts on a slot boundary
   of the Unix clock holds at most L admissions. *)
Theorem C28_deployed_minute_window : forall p evs L a,
  nondecr (flat_map ev_time evs) -> 0 < p_min p <= L -> Forall (ev_ok min_lens L) evs ->
  a mod geom_d minute_window_ns minute_slots = 0 ->
  cnt (in_win a minute_window_ns) (rate_adm (deployed p) st0 evs) <= L.
Proof.
  intros p evs L a Hs Hl Hok Ha. destruct C28_geometry as [G1 [_ [Z1 _]]].
  apply (deployed_window min_lens p evs L a (or_introl eq_refl) Hs Hl Hok G1 Z1 Ha).
Qed.
Print Assumptions C28_deployed_minute_window.

Theorem C28_deployed_hour_window : forall p evs L a,
  nondecr (flat_map ev_time evs) -> 0 < p_hr p <= L -> Forall (ev_ok hr_lens L) evs ->
  a mod geom_d hour_window_ns hour_slots = 0 ->
  cnt (in_win a hour_window_ns) (rate_adm (deployed p) st0 evs) <= L.
Proof.
  intros p evs L a Hs Hl Hok Ha. destruct C28_geometry as [_ [G2 [_ Z2]]].
  apply (deployed_window hr_lens p evs L a (or_intror eq_refl) Hs Hl Hok G2 Z2 Ha).
Qed.
Print Assumptions C28_deployed_hour_window.

(* Deployed limiters, ANY window position: at most twice the limit. *)
Theorem C28_deployed_any_window_twice : forall p evs L a,
  nondecr (flat_map ev_time evs) ->
  (0 < p_min p <= L -> Forall (ev_ok min_lens L) evs ->
     cnt (in_win a minute_window_ns) (rate_adm (deployed p) st0 evs) <= 2 * L) /\
  (0 < p_hr p <= L -> Forall (ev_ok hr_lens L) evs ->
     cnt (in_win a hour_window_ns) (rate_adm (deployed p) st0 evs) <= 2 * L).
Proof.
  intros p evs L a Hs. destruct C28_geometry as [G1 [G2 _]]. split; intros Hl Hok.
  - rewrite <- G1. apply (mgr_window_any_twice min_lens (deployed p) evs L a (or_introl eq_refl) Hs Hl Hok).
  - rewrite <- G2. apply (mgr_window_any_twice hr_lens (deployed p) evs L a (or_intror eq_refl) Hs Hl Hok).
Qed.
Print Assumptions C28_deployed_any_window_twice.
