(* C28 - Query rate limits and quotas are never exceeded.
   Only property statements live here; proofs are in Proofs.v.

   Vocabulary (Model.v): a history is a list of events [ev] at the granularity of the calls the
   query handler makes - ERate rid t (Manager.CheckRateLimit of request rid at clock t),
   EQuota rid t (Manager.CheckQuota of request rid; executed only if rid's rate check allowed
   it, as in api.executeQuery), ESet p (CreatePolicy/UpdatePolicy), EDel (DeletePolicy: fall back to the config defaults, counts kept),
   EUsage t (GetTokenUsage) - in ANY interleaving of different requests.
   [rate_adm c st0 evs] / [quota_adm c st0 evs] are the clock values at which the rate check /
   the quota check admitted a request, [cnt f l] counts the elements of l satisfying f.
   [lens] selects the per-minute or the per-hour limiter, [plens] the hourly or the daily
   quota counter. *)
From Coq Require Import List ZArith Bool Lia.
From Arc Require Import Govern.Model Govern.Proofs.
Import ListNotations.
Open Scope Z_scope.

(* ---- 1. rate limit: slot-aligned windows ------------------------------------------ *)

(* For every history with a non-decreasing clock - policy creations, updates AND deletions
   included - in which every limit in force (per-token policies and the config default) is in
   (0, L]: every window made of [slot count] consecutive slots
   (= the configured window length when slots*slotDuration = window, see Obligations.v)
   contains at most L requests admitted by CheckRateLimit. *)
Theorem C28_aligned_window : forall ln c evs L a,
  is_lens ln -> nondecr (flat_map ev_time evs) ->
  0 < l_pol ln (c_def c) <= L -> Forall (ev_ok ln L) evs ->
  cnt (in_slots (geom_d (l_w ln c) (l_n ln c)) a (geom_n (l_n ln c))) (rate_adm c st0 evs) <= L.
Proof. exact mgr_window_aligned. Qed.
Print Assumptions C28_aligned_window.

(* ---- 2. rate limit: ANY window of the configured length ---------------------------- *)

(* The claim "never exceeds the limit in any window" is false for the slotted counter (3.);
   what holds for every window position [a, a + slots*slotDuration) is twice the limit. *)
Theorem C28_any_window_twice : forall ln c evs L a,
  is_lens ln -> nondecr (flat_map ev_time evs) ->
  0 < l_pol ln (c_def c) <= L -> Forall (ev_ok ln L) evs ->
  cnt (in_win a (geom_n (l_n ln c) * geom_d (l_w ln c) (l_n ln c))) (rate_adm c st0 evs) <= 2 * L.
Proof. exact mgr_window_any_twice. Qed.
Print Assumptions C28_any_window_twice.

Definition cfg_of (p : policy) : cfg :=
  {| c_min_w := 60 * sec; c_min_n := 60; c_hr_w := hour; c_hr_n := 60; c_def := p |}.
Definition pol (a b c d : Z) : policy := {| p_min := a; p_hr := b; p_qh := c; p_qd := d |}.
(* n whole requests (rate check, then quota check) at clock t, request ids r0, r0+1, ... *)
Fixpoint reqs (r0 : N) (n : nat) (t : Z) : list ev :=
  match n with O => [] | S m => ERate r0 t :: EQuota r0 t :: reqs (r0 + 1) m t end.

(* 3. The strict claim is refuted and the bound 2L is reached: limit 3 per minute, a burst in
   the last nanosecond of one 1-second slot and a burst at the start of the slot 60 slots
   later: 6 admissions inside one window of 60 s (in fact inside 59.000000001 s). *)
Theorem C28_any_window_refuted :
  exists (c : cfg) (evs : list ev) (L a : Z),
    nondecr (flat_map ev_time evs) /\ 0 < p_min (c_def c) <= L /\ Forall (ev_ok min_lens L) evs /\
    geom_n (c_min_n c) * geom_d (c_min_w c) (c_min_n c) = 60 * sec /\
    cnt (in_win a (60 * sec)) (rate_adm c st0 evs) = 2 * L /\ L < 2 * L.
Proof.
  exists (cfg_of (pol 3 0 0 0)),
         (reqs 1 4 (1699999200 * sec + sec - 1) ++ reqs 11 4 (1699999200 * sec + 60 * sec)),
         3, (1699999200 * sec + sec - 1).
  split; [vm_compute; intuition discriminate|].
  split; [vm_compute; intuition discriminate|].
  split; [repeat constructor|].
  vm_compute. intuition discriminate.
Qed.
Print Assumptions C28_any_window_refuted.

(* ---- 4. quotas ---------------------------------------------------------------------- *)

(* In every whole clock hour [H*1h, (H+1)*1h) (pl = hour_pl) / UTC day (pl = day_pl) at most L
   queries pass CheckQuota, for every history with a non-decreasing clock (policy deletions
   included) and every quota in force in (0, L].  No guard on the boundary instant: the
   tracker resets when resetAt <= now. *)
Theorem C28_quota_period : forall pl c evs L H,
  is_pl pl -> nondecr (flat_map ev_time evs) ->
  0 < pl_pol pl (c_def c) <= L -> Forall (qev_ok pl L) evs ->
  cnt (in_period (pl_P pl) H) (quota_adm c st0 evs) <= L.
Proof. exact mgr_quota_period. Qed.
Print Assumptions C28_quota_period.

(* Necessity of `!now.Before(resetAt)` (the repair 920d856): the same periodic counter with the
   former strict test `now.After(resetAt)` ([pc_run_v false]) admits, for EVERY quota L >= 1 and
   every hour boundary H, L+1 queries inside the clock hour starting at H*1h: one exactly at the
   boundary (charged to the finished hour) and L right after it.  [pc_run_v true] is the code
   as it is (pc_reset_v true = Model.pc_reset). *)
Theorem C28_strict_after_exceeds_quota : forall L H,
  1 <= L ->
  let ts := (H * hour - hour + 1) :: (H * hour) :: repeat (H * hour + 1) (Z.to_nat L) in
  nondecr ts /\
  cnt (in_period hour H)
      (pc_run_v false hour (L + 1) 0 (trunc hour (H * hour - hour + 1) + hour) ts) = L + 1.
Proof. exact old_after_admits_extra. Qed.
Print Assumptions C28_strict_after_exceeds_quota.

(* ---- 5. a rate-limited request consumes no quota ------------------------------------ *)

(* In every state, a CheckRateLimit call leaves the quota tracker (and its raw counters)
   untouched whatever it answers; when it rejects, the request is not recorded as passed, and
   the CheckQuota of a request that is not recorded as passed is skipped without any effect. *)
Theorem C28_reject_consumes_no_quota : forall c st rid t o st',
  step c st (ERate rid t) = (o, st') ->
  t_q (fst st') = t_q (fst st) /\ quota_raw st' = quota_raw st /\
  (o = [1; 0] -> snd st' = snd st /\
                 (mem_n rid (snd st) = false -> forall t2, step c st' (EQuota rid t2) = ([3], st'))).
Proof.
  intros c st rid t o st' H.
  destruct (rate_step_leaves_quota c st rid t o st' H) as [A [B [C _]]].
  split; [exact A|split; [exact B|]]. intros Ho. split; [exact (C Ho)|].
  intros Hm t2. apply quota_skipped. rewrite (C Ho). exact Hm.
Qed.
Print Assumptions C28_reject_consumes_no_quota.

(* In every history, every executed quota check (hence every quota consumption) belongs to a
   request whose rate check was answered "allowed" earlier in the history. *)
Theorem C28_quota_only_after_rate_allowed : forall c evs i rid t code raw,
  nth_error evs i = Some (EQuota rid t) ->
  nth_error (run c st0 evs) i = Some ([2; code], raw) ->
  exists j t' raw', (j < i)%nat /\ nth_error evs j = Some (ERate rid t') /\
                    nth_error (run c st0 evs) j = Some ([1; 1], raw').
Proof.
  intros c evs i rid t code raw He Ho.
  destruct (quota_after_rate c evs st0 i rid t code raw He Ho) as [Hm|H]; [discriminate|exact H].
Qed.
Print Assumptions C28_quota_only_after_rate_allowed.

(* ---- 6. a limit change applies to the next request ---------------------------------- *)

(* In every state k, right after a policy update the next rate check is decided by the NEW
   limits against the current window counts, and the next quota check by the NEW quotas
   against the current period counts (lim_count / qcount = the counts at clock t). *)
Theorem C28_limit_update_next_request : forall c p k t,
  fst (check_rate c t (set_policy p k)) =
    ((negb (0 <? p_min p) || (lim_count t (t_min k) <? p_min p)) &&
     (negb (0 <? p_hr p) || (lim_count t (t_hrl k) <? p_hr p))) /\
  fst (check_quota c t (set_policy p k)) =
    (if (0 <? p_qh p) || (0 <? p_qd p)
     then quota_code (p_qh p) (p_qd p) (fst (qcount t (t_q k))) (snd (qcount t (t_q k)))
     else 0).
Proof. intros. split; [apply mgr_update_next_rate|apply mgr_update_next_quota]. Qed.
Print Assumptions C28_limit_update_next_request.

(* DeletePolicy is the limit change "back to the config defaults": the next request is decided
   exactly as after an update to the default limits, i.e. against the counts kept so far. *)
Theorem C28_delete_applies_defaults_next_request : forall c k t,
  fst (check_rate c t (del_policy c k)) = fst (check_rate c t (set_policy (c_def c) k)) /\
  fst (check_quota c t (del_policy c k)) = fst (check_quota c t (set_policy (c_def c) k)).
Proof. intros. split; [apply check_rate_del|apply check_quota_del]. Qed.
Print Assumptions C28_delete_applies_defaults_next_request.

(* ---- 7. concurrent FIRST requests of a token ------------------------------------------ *)

(* get-or-create of the token's counter is two critical sections (read-locked lookup, then on
   a miss a write-locked section).  For ANY number of concurrent requests in ANY interleaving
   of their steps (lookup / write-locked section / Allow), starting with no counter in the
   map: because the write-locked section RE-CHECKS the map, at most one counter object is ever
   created and at most `limit` requests are admitted in total. *)
Theorem C28_first_requests_share_counter : forall limit s ts,
  0 < limit -> greach true limit (s, ts) ->
  gadm ts <= limit /\ (length (g_objs s) <= 1)%nat.
Proof. exact first_requests_bounded. Qed.
Print Assumptions C28_first_requests_share_counter.

(* The re-check is necessary: without it (a counter built and stored unconditionally after a
   missed lookup) two requests that both miss get a counter each, the second store overwrites
   the first, and with limit 1 both are admitted.  Schedule: both look up (miss); request 0
   creates counter 0 and is admitted on it; request 1 creates counter 1 and is admitted on it. *)
Theorem C28_no_recheck_refuted :
  exists c, greach false 1 c /\ gadm (snd c) = 2 /\ length (g_objs (fst c)) = 2%nat.
Proof.
  exists (grun false 1 g_init [GStart; GStart] [0; 1; 0; 0; 1; 1]%nat).
  split; [|vm_compute; split; reflexivity].
  apply grun_reach. apply (gr_spawn false 1 g_init [GStart]). apply (gr_spawn false 1 g_init []). apply gr_init.
Qed.
Print Assumptions C28_no_recheck_refuted.

(* the same schedule under the code as it is: one counter, one admission *)
Example C28_recheck_same_schedule :
  let c := grun true 1 g_init [GStart; GStart] [0; 1; 0; 0; 1; 1]%nat in
  gadm (snd c) = 1 /\ g_objs (fst c) = [1] /\ snd c = [GDone true; GDone false].
Proof. vm_compute. repeat split. Qed.

(* ---- 8. the counters on their own (any geometry, any op sequence) -------------------- *)

Theorem C28_counter_aligned_window : forall w cnt0 lim t0 ops L a,
  nondecr (t0 :: flat_map swop_time ops) ->
  0 < lim <= L -> Forall (swop_ok L) ops ->
  cnt (in_slots (geom_d w cnt0) a (geom_n cnt0)) (sw_adm (sw_new w cnt0 lim t0) ops) <= L.
Proof. exact sw_aligned_window. Qed.
Print Assumptions C28_counter_aligned_window.

Theorem C28_counter_any_window_twice : forall w cnt0 lim t0 ops L a,
  nondecr (t0 :: flat_map swop_time ops) ->
  0 < lim <= L -> Forall (swop_ok L) ops ->
  cnt (in_win a (geom_n cnt0 * geom_d w cnt0)) (sw_adm (sw_new w cnt0 lim t0) ops) <= 2 * L.
Proof. exact sw_any_window_twice. Qed.
Print Assumptions C28_counter_any_window_twice.

(* Complete characterisation of the counter: for every op sequence with a non-decreasing
   clock, Allow answers yes iff the limit in force (after the latest UpdateLimit) is <= 0 or
   fewer than `limit` admissions fall in the last [slot count] slots; Remaining reports the
   difference.  (dec_ok is also the decision oracle run on the implementation's answers.) *)
Theorem C28_counter_decision_spec : forall w cnt0 lim t0 ops,
  nondecr (t0 :: flat_map swop_time ops) ->
  dec_ok (geom_d w cnt0) (geom_n cnt0) lim [] ops (sw_run (sw_new w cnt0 lim t0) ops) = true.
Proof. exact sw_decisions_spec. Qed.
Print Assumptions C28_counter_decision_spec.

Theorem C28_counter_limit_update : forall l now s,
  fst (sw_allow now (sw_set_limit l s)) = negb ((0 <? l) && (l <=? sw_total (sw_advance now s))).
Proof. exact sw_limit_update_next. Qed.
Print Assumptions C28_counter_limit_update.

Theorem C28_tracker_period : forall pl mh md t0 ops L H,
  is_pl pl -> nondecr (t0 :: flat_map qop_time ops) ->
  0 < pl_arg pl mh md <= L -> Forall (qop_ok pl L) ops ->
  cnt (in_period (pl_P pl) H) (qt_adm (qt_new mh md t0) ops) <= L.
Proof. exact qt_whole_period. Qed.
Print Assumptions C28_tracker_period.

(* ---- non-vacuity ----------------------------------------------------------------------- *)

(* A history meeting every hypothesis of C28_aligned_window / C28_quota_period in which the
   limits are reached, requests are rejected, the policy is updated and DELETED, a query arrives
   exactly at an hour boundary and the window slides: default 2/min and 4/hour, policy 3/min. *)
Example C28_nonvacuous :
  let c := cfg_of (pol 2 0 4 0) in
  let t := 472222 * hour + 5 * sec in
  let b := 472223 * hour in
  let evs := reqs 1 3 t ++ [ESet (pol 3 0 4 0)] ++ reqs 11 2 (t + sec) ++ [EDel] ++ reqs 21 1 (t + 2 * sec) ++
             [EUsage (t + 2 * sec)] ++ reqs 31 1 (b - 1) ++ reqs 41 3 b ++ reqs 51 3 (b + 1) in
  nondecr (flat_map ev_time evs) /\ Forall (ev_ok min_lens 3) evs /\ Forall (qev_ok hour_pl 4) evs /\
  is_lens min_lens /\ is_pl hour_pl /\
  map fst (run c st0 evs) =
    [[1; 1]; [2; 0]; [1; 1]; [2; 0]; [1; 0]; [3]; [0]; [1; 1]; [2; 0]; [1; 0]; [3]; [0]; [1; 0]; [3];
     [4; 3; 3; 0; 0]; [1; 1]; [2; 0]; [1; 1]; [2; 0]; [1; 0]; [3]; [1; 0]; [3];
     [1; 0]; [3]; [1; 0]; [3]; [1; 0]; [3]] /\
  quota_adm c st0 evs = [t; t; t + sec; b - 1; b].
Proof.
  cbv zeta. split; [vm_compute; intuition discriminate|].
  split; [repeat constructor; vm_compute; intuition discriminate|].
  split; [repeat constructor; vm_compute; intuition discriminate|].
  split; [left; reflexivity|]. split; [left; reflexivity|]. vm_compute. split; reflexivity.
Qed.
