(* Model of internal/governance: sliding_window.go (slidingWindowCounter), quota_tracker.go
   (quotaTracker) and the enforcement half of manager.go (getEffectivePolicy, CheckRateLimit,
   CheckQuota, updateTrackersForToken, DeletePolicy, GetTokenUsage), composed the way
   internal/api/query.go:executeQuery composes them (CheckRateLimit, return on rejection,
   then CheckQuota).

   Times are nanoseconds since the Unix epoch (Z).  time.Time.Truncate(d) rounds down to a
   multiple of d counted from the ZERO time (0001-01-01 UTC), which is [zoff] ns before the
   epoch; for d dividing 24 h this coincides with truncation of the Unix time.  Go `int`
   counters are unbounded Z.  Each method of the two counter types runs under the counter's
   mutex and reads the clock inside the critical section, so one method call = one atomic
   step of the model.

   Executable definitions only; proofs are in Proofs.v. *)
From Coq Require Import List ZArith Bool.
Import ListNotations.
Open Scope Z_scope.

Definition ms : Z := 1000000.
Definition sec : Z := 1000000000.
Definition hour : Z := 3600 * sec.
Definition day : Z := 24 * hour.
Definition zoff : Z := 62135596800 * sec.
Definition abs_ns (t : Z) : Z := t + zoff.

(* time.Time.Truncate *)
Definition trunc (d t : Z) : Z := if d <=? 0 then t else t - (abs_ns t) mod d.
(* index of the slot of width d that contains t *)
Definition slot_of (d t : Z) : Z := abs_ns t / d.

(* ---------------------------------------------------------------------------------- *)
(* sliding_window.go                                                                   *)
(* ---------------------------------------------------------------------------------- *)

Record sw := { sw_d : Z;               (* slotDuration *)
               sw_slots : list Z;      (* slots; slotCount = len(slots) *)
               sw_cur : nat;           (* currentSlot *)
               sw_last : Z;            (* lastSlotTime *)
               sw_total : Z;
               sw_limit : Z }.

(* newSlidingWindowCounter: slotCount <= 0 -> 60; slotDuration floored at 1 ms *)
Definition geom_n (cnt : Z) : Z := if cnt <=? 0 then 60 else cnt.
Definition geom_d (wsz cnt : Z) : Z :=
  let d0 := Z.quot wsz (geom_n cnt) in if d0 <? ms then ms else d0.

Definition sw_new (wsz cnt lim now : Z) : sw :=
  let d := geom_d wsz cnt in
  {| sw_d := d; sw_slots := repeat 0 (Z.to_nat (geom_n cnt)); sw_cur := 0%nat;
     sw_last := trunc d now; sw_total := 0; sw_limit := lim |}.

(* s.slots[i] = x (i is always in range, see Proofs.sw_inv) *)
Definition set_nth (i : nat) (x : Z) (l : list Z) : list Z := firstn i l ++ x :: skipn (S i) l.

(* the rotation loop of advance() *)
Fixpoint adv_loop (k n : nat) (slots : list Z) (cur : nat) (total : Z) : list Z * nat * Z :=
  match k with
  | O => (slots, cur, total)
  | S k' => let cur' := Nat.modulo (S cur) n in
            adv_loop k' n (set_nth cur' 0 slots) cur' (total - nth cur' slots 0)
  end.

Definition sw_advance (now : Z) (s : sw) : sw :=
  let d := sw_d s in
  let nowt := trunc d now in
  let elapsed := nowt - sw_last s in
  if elapsed <=? 0 then s
  else
    let k := Z.quot elapsed d in
    let n := length (sw_slots s) in
    if Z.of_nat n <=? k
    then {| sw_d := d; sw_slots := repeat 0 n; sw_cur := 0%nat; sw_last := nowt;
            sw_total := 0; sw_limit := sw_limit s |}
    else
      let '(sl, cur, tot) := adv_loop (Z.to_nat k) n (sw_slots s) (sw_cur s) (sw_total s) in
      {| sw_d := d; sw_slots := sl; sw_cur := cur; sw_last := nowt;
         sw_total := tot; sw_limit := sw_limit s |}.

Definition sw_allow (now : Z) (s : sw) : bool * sw :=
  let s1 := sw_advance now s in
  if (0 <? sw_limit s1) && (sw_limit s1 <=? sw_total s1) then (false, s1)
  else (true, {| sw_d := sw_d s1;
                 sw_slots := set_nth (sw_cur s1) (nth (sw_cur s1) (sw_slots s1) 0 + 1) (sw_slots s1);
                 sw_cur := sw_cur s1; sw_last := sw_last s1;
                 sw_total := sw_total s1 + 1; sw_limit := sw_limit s1 |}).

Definition sw_remaining (now : Z) (s : sw) : Z * sw :=
  let s1 := sw_advance now s in (Z.max 0 (sw_limit s1 - sw_total s1), s1).

Definition sw_set_limit (l : Z) (s : sw) : sw :=
  {| sw_d := sw_d s; sw_slots := sw_slots s; sw_cur := sw_cur s; sw_last := sw_last s;
     sw_total := sw_total s; sw_limit := l |}.

(* operations on one counter; every op is one critical section *)
Inductive swop := OAllow (t : Z) | OPeek (t : Z) | OLimit (l : Z).

Definition swop_time (o : swop) : list Z :=
  match o with OAllow t => [t] | OPeek t => [t] | OLimit _ => [] end.

(* observation of an op: Allow -> 1/0, Remaining -> the value, UpdateLimit -> -1 *)
Definition sw_step (s : sw) (o : swop) : Z * sw :=
  match o with
  | OAllow t => let '(ok, s') := sw_allow t s in ((if ok then 1 else 0), s')
  | OPeek t => sw_remaining t s
  | OLimit l => (-1, sw_set_limit l s)
  end.

Fixpoint sw_run (s : sw) (ops : list swop) : list Z :=
  match ops with
  | [] => []
  | o :: r => let '(v, s') := sw_step s o in v :: sw_run s' r
  end.

(* times of the admitted Allow calls *)
Fixpoint sw_adm (s : sw) (ops : list swop) : list Z :=
  match ops with
  | [] => []
  | o :: r => let '(v, s') := sw_step s o in
              match o with
              | OAllow t => if v =? 1 then t :: sw_adm s' r else sw_adm s' r
              | _ => sw_adm s' r
              end
  end.

(* ---------------------------------------------------------------------------------- *)
(* quota_tracker.go                                                                    *)
(* ---------------------------------------------------------------------------------- *)

Record qt := { q_h : Z; q_d : Z; q_hreset : Z; q_dreset : Z; q_maxh : Z; q_maxd : Z }.

Definition qt_new (mh md now : Z) : qt :=
  {| q_h := 0; q_d := 0; q_hreset := trunc hour now + hour; q_dreset := trunc day now + day;
     q_maxh := mh; q_maxd := md |}.

(* one `if !now.Before(resetAt) { used = 0; resetAt = now.Truncate(P).Add(P) }` block: the
   boundary instant itself belongs to the new period *)
Definition pc_reset (P now used reset : Z) : Z * Z :=
  if reset <=? now then (0, trunc P now + P) else (used, reset).

Definition qt_maybe_reset (now : Z) (q : qt) : qt :=
  let '(h, hr) := pc_reset hour now (q_h q) (q_hreset q) in
  let '(d, dr) := pc_reset day now (q_d q) (q_dreset q) in
  {| q_h := h; q_d := d; q_hreset := hr; q_dreset := dr; q_maxh := q_maxh q; q_maxd := q_maxd q |}.

(* AllowQuery: 0 = allowed, 1 = "Hourly query quota exceeded", 2 = "Daily query quota exceeded" *)
Definition qt_allow (now : Z) (q : qt) : Z * qt :=
  let q1 := qt_maybe_reset now q in
  if (0 <? q_maxh q1) && (q_maxh q1 <=? q_h q1) then (1, q1)
  else if (0 <? q_maxd q1) && (q_maxd q1 <=? q_d q1) then (2, q1)
  else (0, {| q_h := q_h q1 + 1; q_d := q_d q1 + 1; q_hreset := q_hreset q1; q_dreset := q_dreset q1;
              q_maxh := q_maxh q1; q_maxd := q_maxd q1 |}).

Definition qt_set_limits (mh md : Z) (q : qt) : qt :=
  {| q_h := q_h q; q_d := q_d q; q_hreset := q_hreset q; q_dreset := q_dreset q;
     q_maxh := mh; q_maxd := md |}.

Inductive qop := QAllow (t : Z) | QUsage (t : Z) | QLimits (mh md : Z).

Definition qop_time (o : qop) : list Z :=
  match o with QAllow t => [t] | QUsage t => [t] | QLimits _ _ => [] end.

(* observation: (code, hour used, day used, hour reset, day reset) after the op *)
Definition qt_step (q : qt) (o : qop) : Z * qt :=
  match o with
  | QAllow t => qt_allow t q
  | QUsage t => (-1, qt_maybe_reset t q)
  | QLimits mh md => (-1, qt_set_limits mh md q)
  end.

Definition qt_snap (q : qt) : list Z := [q_h q; q_d q; q_hreset q; q_dreset q].

Fixpoint qt_run (q : qt) (ops : list qop) : list (Z * list Z) :=
  match ops with
  | [] => []
  | o :: r => let '(v, q') := qt_step q o in (v, qt_snap q') :: qt_run q' r
  end.

Fixpoint qt_adm (q : qt) (ops : list qop) : list Z :=
  match ops with
  | [] => []
  | o :: r => let '(v, q') := qt_step q o in
              match o with
              | QAllow t => if v =? 0 then t :: qt_adm q' r else qt_adm q' r
              | _ => qt_adm q' r
              end
  end.

(* ---------------------------------------------------------------------------------- *)
(* manager.go (one token; tokens have disjoint map entries)                            *)
(* ---------------------------------------------------------------------------------- *)

Record policy := { p_min : Z; p_hr : Z; p_qh : Z; p_qd : Z }.

(* geometry of the two newSlidingWindowCounter call sites + config defaults *)
Record cfg := { c_min_w : Z; c_min_n : Z; c_hr_w : Z; c_hr_n : Z; c_def : policy }.

Record tok := { t_pol : option policy; t_min : option sw; t_hrl : option sw; t_q : option qt }.

Definition tok0 : tok := {| t_pol := None; t_min := None; t_hrl := None; t_q := None |}.

(* getEffectivePolicy; a nil policy behaves like the all-zero policy *)
Definition effective (c : cfg) (k : tok) : policy :=
  match t_pol k with Some p => p | None => c_def c end.

(* getOrCreate*Limiter + Allow (+ RetryAfterSec's advance on rejection) *)
Definition lim_step (w n lim now : Z) (o : option sw) : bool * option sw :=
  let s := match o with Some s => s | None => sw_new w n lim now end in
  let '(ok, s') := sw_allow now s in
  (ok, Some (if ok then s' else sw_advance now s')).

Definition check_rate (c : cfg) (now : Z) (k : tok) : bool * tok :=
  let p := effective c k in
  let '(ok1, k1) :=
    if 0 <? p_min p
    then let '(ok, m) := lim_step (c_min_w c) (c_min_n c) (p_min p) now (t_min k) in
         (ok, {| t_pol := t_pol k; t_min := m; t_hrl := t_hrl k; t_q := t_q k |})
    else (true, k) in
  if negb ok1 then (false, k1)
  else if 0 <? p_hr p
       then let '(ok, h) := lim_step (c_hr_w c) (c_hr_n c) (p_hr p) now (t_hrl k1) in
            (ok, {| t_pol := t_pol k1; t_min := t_min k1; t_hrl := h; t_q := t_q k1 |})
       else (true, k1).

Definition check_quota (c : cfg) (now : Z) (k : tok) : Z * tok :=
  let p := effective c k in
  if (0 <? p_qh p) || (0 <? p_qd p)
  then let q := match t_q k with Some q => q | None => qt_new (p_qh p) (p_qd p) now end in
       let '(code, q') := qt_allow now q in
       (code, {| t_pol := t_pol k; t_min := t_min k; t_hrl := t_hrl k; t_q := Some q' |})
  else (0, k).

(* CreatePolicy / UpdatePolicy: cache the policy, updateTrackersForToken *)
Definition set_policy (p : policy) (k : tok) : tok :=
  {| t_pol := Some p;
     t_min := option_map (sw_set_limit (p_min p)) (t_min k);
     t_hrl := option_map (sw_set_limit (p_hr p)) (t_hrl k);
     t_q := option_map (qt_set_limits (p_qh p) (p_qd p)) (t_q k) |}.

(* DeletePolicy drops the cached policy; the token falls back to the config defaults and every
   tracker whose default limit still applies KEEPS its counts and is retargeted to the default
   limit; trackers whose limit no longer applies are removed (a nil default policy behaves
   like the all-zero one) *)
Definition del_policy (c : cfg) (k : tok) : tok :=
  let p := c_def c in
  {| t_pol := None;
     t_min := if 0 <? p_min p then option_map (sw_set_limit (p_min p)) (t_min k) else None;
     t_hrl := if 0 <? p_hr p then option_map (sw_set_limit (p_hr p)) (t_hrl k) else None;
     t_q := if (0 <? p_qh p) || (0 <? p_qd p)
            then option_map (qt_set_limits (p_qh p) (p_qd p)) (t_q k) else None |}.

(* GetTokenUsage: (hour used, day used, remaining per minute, remaining per hour) *)
Definition usage (c : cfg) (now : Z) (k : tok) : list Z * tok :=
  let p := effective c k in
  let '(qh, qd, q') := match t_q k with
                       | Some q => let q1 := qt_maybe_reset now q in (q_h q1, q_d q1, Some q1)
                       | None => (0, 0, None)
                       end in
  let '(rm, m') := if 0 <? p_min p
                   then match t_min k with
                        | Some s => let '(r, s') := sw_remaining now s in (r, Some s')
                        | None => (p_min p, None)
                        end
                   else (0, t_min k) in
  let '(rh, h') := if 0 <? p_hr p
                   then match t_hrl k with
                        | Some s => let '(r, s') := sw_remaining now s in (r, Some s')
                        | None => (p_hr p, None)
                        end
                   else (0, t_hrl k) in
  ([qh; qd; rm; rh], {| t_pol := t_pol k; t_min := m'; t_hrl := h'; t_q := q' |}).

(* Events at the granularity of the calls made by the query handler.  A request [rid] is
   ERate followed - only when the rate check allowed it - by EQuota; events of different
   requests, policy changes and usage reads may interleave arbitrarily. *)
Inductive ev :=
| ERate (rid : N) (t : Z)
| EQuota (rid : N) (t : Z)
| ESet (p : policy)
| EDel
| EUsage (t : Z).

Definition ev_time (e : ev) : list Z :=
  match e with ERate _ t => [t] | EQuota _ t => [t] | EUsage t => [t] | _ => [] end.

(* observation of an event: a tag and values
     ERate: [1; allowed]   EQuota executed: [2; code]   EQuota skipped (handler already
     returned 429): [3]    ESet/EDel: [0]    EUsage: [4; qh; qd; rem_min; rem_hr]          *)
Definition mstate := (tok * list N)%type.

Fixpoint mem_n (x : N) (l : list N) : bool :=
  match l with [] => false | y :: r => N.eqb x y || mem_n x r end.
Fixpoint remove_n (x : N) (l : list N) : list N :=
  match l with [] => [] | y :: r => if N.eqb x y then remove_n x r else y :: remove_n x r end.

Definition step (c : cfg) (st : mstate) (e : ev) : list Z * mstate :=
  let '(k, passed) := st in
  match e with
  | ERate rid t => let '(ok, k') := check_rate c t k in
                   ([1; if ok then 1 else 0], (k', if ok then rid :: passed else passed))
  | EQuota rid t => if mem_n rid passed
                    then let '(code, k') := check_quota c t k in ([2; code], (k', remove_n rid passed))
                    else ([3], st)
  | ESet p => ([0], (set_policy p k, passed))
  | EDel => ([0], (del_policy c k, passed))
  | EUsage t => let '(u, k') := usage c t k in (4 :: u, (k', passed))
  end.

(* raw quota counters (queriesThisHour, queriesThisDay), -1 when no tracker exists *)
Definition quota_raw (st : mstate) : list Z :=
  match t_q (fst st) with Some q => [q_h q; q_d q] | None => [-1; -1] end.

Fixpoint run (c : cfg) (st : mstate) (evs : list ev) : list (list Z * list Z) :=
  match evs with
  | [] => []
  | e :: r => let '(o, st') := step c st e in (o, quota_raw st') :: run c st' r
  end.

Definition st0 : mstate := (tok0, []).

(* times at which CheckRateLimit allowed / CheckQuota allowed *)
Fixpoint rate_adm (c : cfg) (st : mstate) (evs : list ev) : list Z :=
  match evs with
  | [] => []
  | e :: r => let '(o, st') := step c st e in
              match e, o with
              | ERate _ t, [_; 1] => t :: rate_adm c st' r
              | _, _ => rate_adm c st' r
              end
  end.

Fixpoint quota_adm (c : cfg) (st : mstate) (evs : list ev) : list Z :=
  match evs with
  | [] => []
  | e :: r => let '(o, st') := step c st e in
              match e, o with
              | EQuota _ t, [2; 0] => t :: quota_adm c st' r
              | _, _ => quota_adm c st' r
              end
  end.

(* ---------------------------------------------------------------------------------- *)
(* get-or-create of a token's counter, as the two critical sections it really is        *)
(* ---------------------------------------------------------------------------------- *)

(* Manager.getOrCreate{Minute,Hour}Limiter / getOrCreateQuotaTracker: a lookup under the read
   lock; on a miss a second critical section under the write lock which RE-CHECKS the map
   before creating and storing a new counter ([recheck = true], the code as it is) - or, in
   the variant without the double-check ([recheck = false]), stores a freshly built counter
   unconditionally, overwriting whatever another request stored in between.  Then Allow on
   the counter obtained (one critical section of that counter).  The clock is held inside one
   window, so a counter is just its number of admissions. *)
Inductive gpc :=
| GStart                (* before the read-locked lookup *)
| GMiss                 (* lookup missed; before the write-locked section *)
| GHave (i : nat)       (* holds counter object i; before its Allow *)
| GDone (ok : bool).

Record gstate := { g_slot : option nat;     (* the map entry of the token *)
                   g_objs : list Z }.       (* admissions counted by every counter object created *)

Definition g_init : gstate := {| g_slot := None; g_objs := [] |}.

Definition gstep (recheck : bool) (limit : Z) (s : gstate) (p : gpc) : option (gstate * gpc) :=
  match p with
  | GStart => Some (s, match g_slot s with Some i => GHave i | None => GMiss end)
  | GMiss =>
      match (if recheck then g_slot s else None) with
      | Some i => Some (s, GHave i)
      | None => let i := length (g_objs s) in
                Some ({| g_slot := Some i; g_objs := g_objs s ++ [0] |}, GHave i)
      end
  | GHave i =>
      let c := nth i (g_objs s) 0 in
      if (0 <? limit) && (limit <=? c) then Some (s, GDone false)
      else Some ({| g_slot := g_slot s; g_objs := set_nth i (c + 1) (g_objs s) |}, GDone true)
  | GDone _ => None
  end.

Definition gupd (i : nat) (p : gpc) (ts : list gpc) : list gpc := firstn i ts ++ p :: skipn (S i) ts.

Fixpoint gadm (ts : list gpc) : Z :=
  match ts with [] => 0 | GDone true :: r => 1 + gadm r | _ :: r => gadm r end.

(* run a schedule (thread indices) from n threads at GStart; used by the refutation witness *)
Fixpoint grun (recheck : bool) (limit : Z) (s : gstate) (ts : list gpc) (sched : list nat) : gstate * list gpc :=
  match sched with
  | [] => (s, ts)
  | i :: r => match nth_error ts i with
              | Some p => match gstep recheck limit s p with
                          | Some (s', p') => grun recheck limit s' (gupd i p' ts) r
                          | None => grun recheck limit s ts r
                          end
              | None => grun recheck limit s ts r
              end
  end.

(* ---------------------------------------------------------------------------------- *)
(* counting and window predicates used by the theorems and by the oracles              *)
(* ---------------------------------------------------------------------------------- *)

Fixpoint cnt (f : Z -> bool) (l : list Z) : Z :=
  match l with [] => 0 | x :: r => (if f x then 1 else 0) + cnt f r end.

(* slot index in [a, a+n) *)
Definition in_slots (d a n : Z) (x : Z) : bool := (a <=? slot_of d x) && (slot_of d x <? a + n).
(* time in [a, a+w) *)
Definition in_win (a w : Z) (x : Z) : bool := (a <=? x) && (x <? a + w).
(* time strictly inside clock period number H of length P: H*P < x < (H+1)*P *)
Definition in_open (P H : Z) (x : Z) : bool := (H * P <? x) && (x <? (H + 1) * P).

(* ---------------------------------------------------------------------------------- *)
(* correspondence cases and oracles                                                    *)
(* ---------------------------------------------------------------------------------- *)

Fixpoint list_z_eqb (a b : list Z) : bool :=
  match a, b with
  | [], [] => true
  | x :: a', y :: b' => (x =? y) && list_z_eqb a' b'
  | _, _ => false
  end.

Fixpoint list_zz_eqb (a b : list (list Z * list Z)) : bool :=
  match a, b with
  | [], [] => true
  | (x1, x2) :: a', (y1, y2) :: b' => list_z_eqb x1 y1 && list_z_eqb x2 y2 && list_zz_eqb a' b'
  | _, _ => false
  end.

Fixpoint list_zl_eqb (a b : list (Z * list Z)) : bool :=
  match a, b with
  | [], [] => true
  | (x1, x2) :: a', (y1, y2) :: b' => (x1 =? y1) && list_z_eqb x2 y2 && list_zl_eqb a' b'
  | _, _ => false
  end.

Fixpoint zmax_list (l : list Z) : Z := match l with [] => 0 | x :: r => Z.max x (zmax_list r) end.
Fixpoint zmin_list (d : Z) (l : list Z) : Z := match l with [] => d | x :: r => Z.min x (zmin_list d r) end.

(* -- sliding window counter, driven directly ---------------------------------------- *)
Record swcase := { sc_w : Z; sc_n : Z; sc_lim : Z; sc_t0 : Z; sc_ops : list swop; sc_obs : list Z }.

Definition swcase_agrees (c : swcase) : bool :=
  list_z_eqb (sw_run (sw_new (sc_w c) (sc_n c) (sc_lim c) (sc_t0 c)) (sc_ops c)) (sc_obs c).

(* admitted times according to the OBSERVED decisions *)
Fixpoint obs_adm_sw (ops : list swop) (obs : list Z) : list Z :=
  match ops, obs with
  | OAllow t :: r, v :: ro => if v =? 1 then t :: obs_adm_sw r ro else obs_adm_sw r ro
  | _ :: r, _ :: ro => obs_adm_sw r ro
  | _, _ => []
  end.

Definition sw_limits (lim : Z) (ops : list swop) : list Z :=
  lim :: flat_map (fun o => match o with OLimit l => [l] | _ => [] end) ops.

(* every limit in force is positive; L = the largest one *)
Definition sw_case_L (c : swcase) : option Z :=
  let ls := sw_limits (sc_lim c) (sc_ops c) in
  if 0 <? zmin_list 1 ls then Some (zmax_list ls) else None.

(* guarded oracle: every slot-aligned window of n slots starting at an admission holds <= L *)
Definition swcase_oracle_aligned (c : swcase) : bool :=
  match sw_case_L c with
  | None => true
  | Some L =>
      let adm := obs_adm_sw (sc_ops c) (sc_obs c) in
      let d := geom_d (sc_w c) (sc_n c) in let n := geom_n (sc_n c) in
      forallb (fun x => cnt (in_slots d (slot_of d x) n) adm <=? L) adm
  end.

(* strict oracle (the property as stated): every window of n*d ns starting at an admission *)
Definition swcase_oracle_any (c : swcase) : bool :=
  match sw_case_L c with
  | None => true
  | Some L =>
      let adm := obs_adm_sw (sc_ops c) (sc_obs c) in
      let d := geom_d (sc_w c) (sc_n c) in let n := geom_n (sc_n c) in
      forallb (fun x => cnt (in_win x (n * d)) adm <=? L) adm
  end.

(* proven bound: any window holds <= 2L *)
Definition swcase_oracle_twice (c : swcase) : bool :=
  match sw_case_L c with
  | None => true
  | Some L =>
      let adm := obs_adm_sw (sc_ops c) (sc_obs c) in
      let d := geom_d (sc_w c) (sc_n c) in let n := geom_n (sc_n c) in
      forallb (fun x => cnt (in_win x (n * d)) adm <=? 2 * L) adm
  end.

(* complete functional spec of the counter on the OBSERVED decisions (non-decreasing clock):
   Allow answers yes iff the limit in force is <= 0 or fewer than `limit` admissions fall in
   the last n slots (the slot of `now` included); Remaining reports limit - that count.
   In particular a limit update decides the very next call. *)
Fixpoint dec_ok (d n lim : Z) (adm : list Z) (ops : list swop) (obs : list Z) : bool :=
  match ops, obs with
  | OAllow t :: r, v :: ro =>
      let c := cnt (in_slots d (slot_of d t - n + 1) n) adm in
      (v =? (if (0 <? lim) && (lim <=? c) then 0 else 1)) &&
      dec_ok d n lim (if v =? 1 then t :: adm else adm) r ro
  | OPeek t :: r, v :: ro =>
      (v =? Z.max 0 (lim - cnt (in_slots d (slot_of d t - n + 1) n) adm)) && dec_ok d n lim adm r ro
  | OLimit l :: r, _ :: ro => dec_ok d n l adm r ro
  | _, _ => true
  end.

Definition swcase_oracle_decisions (c : swcase) : bool :=
  dec_ok (geom_d (sc_w c) (sc_n c)) (geom_n (sc_n c)) (sc_lim c) [] (sc_ops c) (sc_obs c).

Fixpoint nondecrb (l : list Z) : bool :=
  match l with
  | [] => true
  | x :: r => match r with [] => true | y :: _ => (x <=? y) && nondecrb r end
  end.

Definition swcase_sorted (c : swcase) : bool := nondecrb (sc_t0 c :: flat_map swop_time (sc_ops c)).

(* -- quota tracker, driven directly --------------------------------------------------- *)
Record qtcase := { qc_mh : Z; qc_md : Z; qc_t0 : Z; qc_ops : list qop; qc_obs : list (Z * list Z) }.

Definition qtcase_agrees (c : qtcase) : bool :=
  list_zl_eqb (qt_run (qt_new (qc_mh c) (qc_md c) (qc_t0 c)) (qc_ops c)) (qc_obs c).

Fixpoint obs_adm_qt (ops : list qop) (obs : list (Z * list Z)) : list Z :=
  match ops, obs with
  | QAllow t :: r, (v, _) :: ro => if v =? 0 then t :: obs_adm_qt r ro else obs_adm_qt r ro
  | _ :: r, _ :: ro => obs_adm_qt r ro
  | _, _ => []
  end.

Definition qt_limits_h (mh : Z) (ops : list qop) : list Z :=
  mh :: flat_map (fun o => match o with QLimits a _ => [a] | _ => [] end) ops.
Definition qt_limits_d (md : Z) (ops : list qop) : list Z :=
  md :: flat_map (fun o => match o with QLimits _ b => [b] | _ => [] end) ops.

Definition bound_of (ls : list Z) : option Z :=
  if 0 <? zmin_list 1 ls then Some (zmax_list ls) else None.

Definition in_period (P H : Z) (x : Z) : bool := (H * P <=? x) && (x <? (H + 1) * P).

Definition period_oracle (strict : bool) (P : Z) (L : option Z) (adm : list Z) : bool :=
  match L with
  | None => true
  | Some L => forallb (fun x => cnt ((if strict then in_period else in_open) P (x / P)) adm <=? L) adm
  end.

(* open: strictly inside every clock hour / UTC day (weaker, kept for diagnosis);
   strict = the property as stated and as proved: the whole clock hour / UTC day *)
Definition qtcase_oracle_open (c : qtcase) : bool :=
  let adm := obs_adm_qt (qc_ops c) (qc_obs c) in
  period_oracle false hour (bound_of (qt_limits_h (qc_mh c) (qc_ops c))) adm &&
  period_oracle false day (bound_of (qt_limits_d (qc_md c) (qc_ops c))) adm.
Definition qtcase_oracle_strict (c : qtcase) : bool :=
  let adm := obs_adm_qt (qc_ops c) (qc_obs c) in
  period_oracle true hour (bound_of (qt_limits_h (qc_mh c) (qc_ops c))) adm &&
  period_oracle true day (bound_of (qt_limits_d (qc_md c) (qc_ops c))) adm.

Definition qtcase_sorted (c : qtcase) : bool := nondecrb (qc_t0 c :: flat_map qop_time (qc_ops c)).

(* -- manager -------------------------------------------------------------------------- *)
(* an item is an event with its observation, or a burst of n whole requests issued
   concurrently at one clock value, observed as (rate-allowed count, quota-allowed count) *)
Inductive item :=
| IEv (e : ev) (o : list Z) (raw : list Z)
| IBurst (t : Z) (n : nat) (ra qa : Z) (raw : list Z).

Record mcase := { mc_cfg : cfg; mc_items : list item }.

Fixpoint burst (c : cfg) (st : mstate) (t : Z) (n : nat) (ra qa : Z) : Z * Z * mstate :=
  match n with
  | O => (ra, qa, st)
  | S n' =>
      let rid := 4000000000%N in
      let '(o1, st1) := step c st (ERate rid t) in
      let '(o2, st2) := step c st1 (EQuota rid t) in
      burst c st2 t n' (ra + (if list_z_eqb o1 [1; 1] then 1 else 0))
            (qa + (if list_z_eqb o2 [2; 0] then 1 else 0))
  end.

Fixpoint items_agree (c : cfg) (st : mstate) (its : list item) : bool :=
  match its with
  | [] => true
  | IEv e o raw :: r =>
      let '(o', st') := step c st e in
      list_z_eqb o o' && list_z_eqb raw (quota_raw st') && items_agree c st' r
  | IBurst t n ra qa raw :: r =>
      let '(ra', qa', st') := burst c st t n 0 0 in
      (ra =? ra') && (qa =? qa') && list_z_eqb raw (quota_raw st') && items_agree c st' r
  end.

Definition mcase_agrees (m : mcase) : bool := items_agree (mc_cfg m) st0 (mc_items m).

(* observed admissions; a burst contributes its counts at its instant *)
Fixpoint obs_rate_adm (its : list item) : list Z :=
  match its with
  | [] => []
  | IEv (ERate _ t) [_; 1] _ :: r => t :: obs_rate_adm r
  | IBurst t _ ra _ _ :: r => repeat t (Z.to_nat ra) ++ obs_rate_adm r
  | _ :: r => obs_rate_adm r
  end.
Fixpoint obs_quota_adm (its : list item) : list Z :=
  match its with
  | [] => []
  | IEv (EQuota _ t) [2; 0] _ :: r => t :: obs_quota_adm r
  | IBurst t _ _ qa _ :: r => repeat t (Z.to_nat qa) ++ obs_quota_adm r
  | _ :: r => obs_quota_adm r
  end.

Definition item_policies (its : list item) : list policy :=
  flat_map (fun i => match i with IEv (ESet p) _ _ => [p] | _ => [] end) its.
Definition item_has_del (its : list item) : bool :=
  existsb (fun i => match i with IEv EDel _ _ => true | _ => false end) its.
Definition item_times (its : list item) : list Z :=
  flat_map (fun i => match i with IEv e _ _ => ev_time e | IBurst t _ _ _ _ => [t] end) its.

Definition mcase_sorted (m : mcase) : bool := nondecrb (item_times (mc_items m)).

Definition field_bound (f : policy -> Z) (m : mcase) : option Z :=
  bound_of (f (c_def (mc_cfg m)) :: map f (item_policies (mc_items m))).

Definition window_oracle (strict : bool) (m : mcase) (adm : list Z) : bool :=
  let c := mc_cfg m in
  let chk (w cn : Z) (L : option Z) :=
    match L with
    | None => true
    | Some L =>
        let d := geom_d w cn in let n := geom_n cn in
        forallb (fun x => cnt (if strict then in_win x (n * d) else in_slots d (slot_of d x) n) adm <=? L) adm
    end in
  chk (c_min_w c) (c_min_n c) (field_bound p_min m) && chk (c_hr_w c) (c_hr_n c) (field_bound p_hr m).

Definition quota_oracle (strict : bool) (m : mcase) (adm : list Z) : bool :=
  period_oracle strict hour (field_bound p_qh m) adm && period_oracle strict day (field_bound p_qd m) adm.

(* a CheckRateLimit call never changes the raw quota counters, whatever its outcome, and
   a skipped EQuota (request already rejected) changes nothing either *)
Fixpoint rate_leaves_quota (prev : list Z) (its : list item) : bool :=
  match its with
  | [] => true
  | IEv (ERate _ _) _ raw :: r => list_z_eqb prev raw && rate_leaves_quota raw r
  | IEv (EQuota _ _) [3] raw :: r => list_z_eqb prev raw && rate_leaves_quota raw r
  | IEv _ _ raw :: r => rate_leaves_quota raw r
  | IBurst _ _ _ _ raw :: r => rate_leaves_quota raw r
  end.

(* decision oracle for the Manager's per-minute limiter: when no
   per-hour rate limit is configured and every per-minute limit in force is positive, the
   rate decisions of the manager are exactly the decisions of one counter (dec_ok) whose limit
   follows the policy updates and deletions (a deletion retargets it to the default limit) -
   in particular a limit change decides the very next request *)
Fixpoint proj_min (dflt : Z) (its : list item) : list swop * list Z :=
  match its with
  | [] => ([], [])
  | IEv (ERate _ t) [_; v] _ :: r => let '(a, b) := proj_min dflt r in (OAllow t :: a, v :: b)
  | IEv (ESet p) _ _ :: r => let '(a, b) := proj_min dflt r in (OLimit (p_min p) :: a, (-1) :: b)
  | IEv EDel _ _ :: r => let '(a, b) := proj_min dflt r in (OLimit dflt :: a, (-1) :: b)
  | IEv (EUsage t) [_; _; _; rm; _] _ :: r => let '(a, b) := proj_min dflt r in (OPeek t :: a, rm :: b)
  | IBurst t n ra _ _ :: r =>
      let '(a, b) := proj_min dflt r in
      (repeat (OAllow t) n ++ a, repeat 1 (Z.to_nat ra) ++ repeat 0 (n - Z.to_nat ra) ++ b)
  | _ :: r => proj_min dflt r
  end.

Definition mcase_oracle_decisions (m : mcase) : bool :=
  let its := mc_items m in
  let pols := c_def (mc_cfg m) :: item_policies its in
  if forallb (fun p => (p_hr p <=? 0) && (0 <? p_min p)) pols
  then let '(ops, obs) := proj_min (p_min (c_def (mc_cfg m))) its in
       dec_ok (geom_d (c_min_w (mc_cfg m)) (c_min_n (mc_cfg m))) (geom_n (c_min_n (mc_cfg m)))
              (p_min (c_def (mc_cfg m))) [] ops obs
  else true.

(* guarded oracle = what the theorems prove, over the whole history (policy deletions
   included): slot-aligned windows, whole clock hours / UTC days, rate checks never touch the
   quota counters, per-minute decisions follow the limit in force *)
Definition mcase_oracle_guarded (m : mcase) : bool :=
  rate_leaves_quota [-1; -1] (mc_items m) && mcase_oracle_decisions m &&
  window_oracle false m (obs_rate_adm (mc_items m)) && quota_oracle true m (obs_quota_adm (mc_items m)).

(* strict oracle = the property as stated: ANY window of the configured length *)
Definition mcase_oracle_strict (m : mcase) : bool :=
  mcase_oracle_guarded m && window_oracle true m (obs_rate_adm (mc_items m)).
