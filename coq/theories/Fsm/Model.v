(* Executable model of internal/cluster/raft/{fsm.go, fsm_rbac.go, path_validation.go}:
   the replicated state of ClusterFSM (primary maps AND every secondary index), every one
   of the 29 commands dispatched by ClusterFSM.Apply, the batch pre-validation, Snapshot,
   and Restore (validation / quarantine / index rebuild).  Definitions only.

   What is abstracted (see also Key.v):
   - error values are a boolean (true = Apply returned nil);
   - the monotone reject counters, log lines and callbacks are not state;
   - a command whose JSON envelope or payload does not decode, or whose type is unknown,
     is CBad (BBad inside a batch): an error and no state change;
   - time.Time is its instant in ns since the Unix epoch, time_zero = time.Time{};
   - encoding/json is assumed to round-trip a snapshot (exercised, not modelled: the
     harness goes through the real Persist and Restore);
   - tokensByPrefix[p] (a Go slice) is the set of its ids.

   The five booleans of [cfg] select, for each defect found in the code, between the
   code as it is (false) and the repaired behaviour of /verif/fixes (true); the
   correspondence run determines which variant the source tree implements. *)
From Coq Require Import List ZArith Bool String Ascii.
From RecordUpdate Require Import RecordSet.
From Arc Require Import Fsm.Key.
Import ListNotations RecordSetNotations.
Open Scope string_scope.
Open Scope Z_scope.

(* ---- entries ------------------------------------------------------------------------ *)

Record node := mkNode { n_id : string; n_name : string; n_role : string; n_cluster : string;
  n_addr : string; n_api : string; n_state : string; n_version : string; n_ws : string; n_cores : Z }.
Record file := mkFile { f_path : string; f_sha : string; f_size : Z; f_db : string; f_meas : string;
  f_ptime : Z; f_origin : string; f_tier : string; f_created : Z; f_lsn : Z }.
Record token := mkTok { t_id : Z; t_name : string; t_desc : string; t_perms : string; t_hash : string;
  t_prefix : string; t_created : Z; t_expires : Z; t_enabled : bool; t_lsn : Z }.
Record org := mkOrg { o_id : Z; o_name : string; o_desc : string; o_created : Z; o_updated : Z;
  o_enabled : bool; o_lsn : Z }.
Record team := mkTeam { tm_id : Z; tm_org : Z; tm_name : string; tm_desc : string; tm_created : Z;
  tm_updated : Z; tm_enabled : bool; tm_lsn : Z }.
Record role := mkRole { r_id : Z; r_team : Z; r_pat : string; r_perms : string; r_created : Z; r_lsn : Z }.
Record mperm := mkMP { mp_id : Z; mp_role : Z; mp_pat : string; mp_perms : string; mp_created : Z; mp_lsn : Z }.
Record mem := mkMem { m_id : Z; m_token : Z; m_team : Z; m_created : Z; m_lsn : Z }.

#[export] Instance eta_node : Settable _ := settable! mkNode <n_id; n_name; n_role; n_cluster; n_addr; n_api; n_state; n_version; n_ws; n_cores>.
#[export] Instance eta_file : Settable _ := settable! mkFile <f_path; f_sha; f_size; f_db; f_meas; f_ptime; f_origin; f_tier; f_created; f_lsn>.
#[export] Instance eta_token : Settable _ := settable! mkTok <t_id; t_name; t_desc; t_perms; t_hash; t_prefix; t_created; t_expires; t_enabled; t_lsn>.
#[export] Instance eta_org : Settable _ := settable! mkOrg <o_id; o_name; o_desc; o_created; o_updated; o_enabled; o_lsn>.
#[export] Instance eta_team : Settable _ := settable! mkTeam <tm_id; tm_org; tm_name; tm_desc; tm_created; tm_updated; tm_enabled; tm_lsn>.
#[export] Instance eta_role : Settable _ := settable! mkRole <r_id; r_team; r_pat; r_perms; r_created; r_lsn>.
#[export] Instance eta_mperm : Settable _ := settable! mkMP <mp_id; mp_role; mp_pat; mp_perms; mp_created; mp_lsn>.
#[export] Instance eta_mem : Settable _ := settable! mkMem <m_id; m_token; m_team; m_created; m_lsn>.

(* ---- state -------------------------------------------------------------------------- *)

Record state := mkState {
  nodes : smap node;                 (* KS id *)
  primary : string;                  (* primaryWriterID *)
  compactor : string;                (* activeCompactorID *)
  files : smap file;                 (* KS path *)
  filesByDB : smap unit;             (* KP (KS db) (KS path) *)
  tokens : smap token;               (* KZ id *)
  tokByPrefix : smap unit;           (* KP (KS prefix) (KZ id) *)
  tokByName : smap key;              (* KS name |-> KZ id *)
  orgs : smap org;                   (* KZ id *)
  orgByName : smap key;              (* KS name |-> KZ id *)
  teams : smap team;
  teamsByOrg : smap key;             (* KP (KZ org) (KS name) |-> KZ id *)
  roles : smap role;
  rolesByTeam : smap unit;           (* KP (KZ team) (KZ id) *)
  mperms : smap mperm;
  mpByRole : smap unit;              (* KP (KZ role) (KZ id) *)
  mems : smap mem;
  memByPair : smap key;              (* KP (KZ token) (KZ team) |-> KZ id *)
  memByToken : smap unit;            (* KP (KZ token) (KZ id) *)
  memByTeam : smap unit              (* KP (KZ team) (KZ id) *)
}.
#[export] Instance eta_state : Settable _ := settable! mkState
  <nodes; primary; compactor; files; filesByDB; tokens; tokByPrefix; tokByName; orgs; orgByName;
   teams; teamsByOrg; roles; rolesByTeam; mperms; mpByRole; mems; memByPair; memByToken; memByTeam>.

Definition empty_state : state :=
  mkState [] "" "" [] [] [] [] [] [] [] [] [] [] [] [] [] [] [] [] [].

(* FSMSnapshot: the primary maps only *)
Record snap := mkSnap {
  sn_nodes : smap node; sn_primary : string; sn_compactor : string; sn_files : smap file;
  sn_tokens : smap token; sn_orgs : smap org; sn_teams : smap team; sn_roles : smap role;
  sn_mperms : smap mperm; sn_mems : smap mem }.

(* ---- commands ----------------------------------------------------------------------- *)

Inductive bop :=
| BRegister (f : file) | BDelete (path reason : string) | BUpdate (f : file) | BBad.

Inductive cmd :=
| CAddNode (n : node) | CRemoveNode (id : string) | CUpdateNode (n : node)
| CUpdateNodeState (id st : string) | CPromote (id old : string) | CDemote (id : string)
| CRegisterFile (f : file) | CDeleteFile (path reason : string) | CAssignCompactor (id old : string)
| CBatch (ops : list bop) | CUpdateFile (f : file)
| CCreateToken (t : token)
| CUpdateToken (id : Z) (name desc perms : string) (expires : Z) (changed : list string)
| CRevokeToken (id : Z) | CDeleteToken (id : Z) | CRotateToken (id : Z) (hash prefix : string)
| CCreateOrg (o : org)
| CUpdateOrg (id : Z) (name desc : string) (enabled : bool) (updated : Z) (changed : list string)
| CDeleteOrg (id : Z)
| CCreateTeam (t : team)
| CUpdateTeam (id : Z) (name desc : string) (enabled : bool) (updated : Z) (changed : list string)
| CDeleteTeam (id : Z)
| CCreateRole (r : role) | CUpdateRole (id : Z) (pat perms : string) (changed : list string) | CDeleteRole (id : Z)
| CCreateMPerm (p : mperm) | CDeleteMPerm (id : Z)
| CAddMember (m : mem) | CRemoveMember (tok tm : Z)
| CBad.

Record cfg := mkCfg {
  fx_promote : bool;   (* applyPromoteWriter refuses an unknown node before touching state *)
  fx_tokname : bool;   (* applyUpdateToken validates a new name like validateTokenEntry *)
  fx_filedb : bool;    (* applyUpdateFile indexes an entry with an empty database *)
  fx_remove : bool;    (* applyRemoveNode clears primaryWriterID when it names the removed node *)
  fx_addws : bool      (* applyAddNode/applyUpdateNode keep the recorded writer_state *)
}.

(* ---- validators --------------------------------------------------------------------- *)

Definition time_zero : Z := -62135596800000000000.   (* time.Time{} in ns since 1970 *)

Definition c_nul := ascii_of_nat 0.
Definition c_tab := ascii_of_nat 9.
Definition c_space := " "%char.
Definition c_comma := ","%char.
Definition c_colon := ":"%char.
Definition c_slash := "/"%char.
Definition c_bslash := "\"%char.
Definition c_dot := "."%char.

Definition aeqb (a b : ascii) : bool := Ascii.eqb a b.

Fixpoint index_of (c : ascii) (l : list ascii) (i : nat) : option nat :=
  match l with [] => None | x :: r => if aeqb x c then Some i else index_of c r (S i) end.

Definition is_alpha (c : ascii) : bool :=
  let n := nat_of_ascii c in
  ((Nat.leb 65 n && Nat.leb n 90) || (Nat.leb 97 n && Nat.leb n 122))%bool.

(* isAbsolutePath *)
Definition is_abs (l : list ascii) : bool :=
  match l with
  | [] => false
  | c0 :: r =>
      if (aeqb c0 c_slash || aeqb c0 c_bslash)%bool then true
      else match r with
           | c1 :: c2 :: _ => (aeqb c1 c_colon && is_alpha c0 && (aeqb c2 c_bslash || aeqb c2 c_slash))%bool
           | _ => false
           end
  end.

(* strings.FieldsFunc(path, r == '/' || r == '\\'): maximal runs of non-separators *)
Fixpoint segments (l cur : list ascii) : list (list ascii) :=
  match l with
  | [] => match cur with [] => [] | _ => [rev cur] end
  | c :: r =>
      if (aeqb c c_slash || aeqb c c_bslash)%bool
      then match cur with [] => segments r [] | _ => rev cur :: segments r [] end
      else segments r (c :: cur)
  end.

Definition is_dotdot (l : list ascii) : bool :=
  match l with [a; b] => (aeqb a c_dot && aeqb b c_dot)%bool | _ => false end.

(* hasParentTraversalSegment *)
Definition has_dotdot (l : list ascii) : bool := existsb is_dotdot (segments l []).

(* ValidateManifestPath = nil *)
Definition valid_path (p : string) : bool :=
  let l := list_ascii_of_string p in
  negb (sempty p)
  && Nat.leb (slen p) 4096
  && negb (existsb (aeqb c_nul) l)
  && match index_of c_colon l O with
     | Some i => (Nat.eqb i 1 && is_abs l)%bool   (* a colon survives only as a drive letter ... *)
     | None => true
     end
  && negb (is_abs l)                               (* ... which is then rejected as absolute *)
  && negb (has_dotdot l).

(* trimASCIISpace *)
Fixpoint trim_left (l : list ascii) : list ascii :=
  match l with c :: r => if (aeqb c c_space || aeqb c c_tab)%bool then trim_left r else l | [] => [] end.
Definition trim (l : list ascii) : list ascii := rev (trim_left (rev (trim_left l))).

(* splitCSV on a non-empty string *)
Fixpoint split_comma (l cur : list ascii) : list (list ascii) :=
  match l with
  | [] => [trim (rev cur)]
  | c :: r => if aeqb c c_comma then trim (rev cur) :: split_comma r [] else split_comma r (c :: cur)
  end.

Definition allowed_perm (l : list ascii) : bool :=
  let s := string_of_list_ascii l in
  (seqb s "read" || seqb s "write" || seqb s "delete" || seqb s "admin")%bool.

(* validatePermissionString = nil *)
Definition valid_perms (p : string) : bool :=
  if sempty p then true else forallb allowed_perm (split_comma (list_ascii_of_string p) []).

(* validateTokenHashAndPrefix = nil *)
Definition valid_hash_prefix (h p : string) : bool :=
  negb (sempty h) && Nat.leb (slen h) 512 && negb (sempty p) && Nat.leb (slen p) 256.

Definition valid_name (s : string) : bool := negb (sempty s) && Nat.leb (slen s) 256.
Definition valid_desc (s : string) : bool := Nat.leb (slen s) 1024.

(* validateTokenEntry = nil *)
Definition valid_token (t : token) : bool :=
  valid_name (t_name t) && valid_hash_prefix (t_hash t) (t_prefix t) && valid_perms (t_perms t).
Definition valid_org (o : org) : bool := valid_name (o_name o) && valid_desc (o_desc o).
Definition valid_team (t : team) : bool := (0 <? tm_org t) && valid_name (tm_name t) && valid_desc (tm_desc t).
Definition valid_role (r : role) : bool := (0 <? r_team r) && valid_name (r_pat r) && valid_perms (r_perms r).
Definition valid_mperm (p : mperm) : bool := (0 <? mp_role p) && valid_name (mp_pat p) && valid_perms (mp_perms p).
Definition valid_mem (m : mem) : bool := (0 <? m_token m) && (0 <? m_team m).

Definition inb (x : string) (l : list string) : bool := existsb (seqb x) l.

(* ---- node / writer / compactor commands -------------------------------------------- *)

Section WithCfg.
Variable c : cfg.

(* applyAddNode and applyUpdateNode: f.nodes[p.Node.ID] = &p.Node *)
Definition apply_put_node (s : state) (n : node) : state * bool :=
  let n' := if fx_addws c
            then n <| n_ws := match get (KS (n_id n)) (nodes s) with Some old => n_ws old | None => "" end |>
            else n in
  (s <| nodes := put (KS (n_id n')) n' (nodes s) |>, true).

Definition apply_remove_node (s : state) (id : string) : state * bool :=
  let s1 := s <| nodes := del (KS id) (nodes s) |> in
  (if (fx_remove c && seqb (primary s) id)%bool then s1 <| primary := "" |> else s1, true).

Definition apply_update_node_state (s : state) (id st : string) : state * bool :=
  match get (KS id) (nodes s) with
  | Some n => (s <| nodes := put (KS id) (n <| n_state := st |>) (nodes s) |>, true)
  | None => (s, false)
  end.

Definition apply_promote (s : state) (id old : string) : state * bool :=
  if sempty id then (s, false) else
  match get (KS id) (nodes s) with
  | Some n => if negb (seqb (n_role n) "writer") then (s, false) else
      let oldp := primary s in
      let ns1 := if (negb (sempty oldp) && negb (seqb oldp id))%bool
                 then match get (KS oldp) (nodes s) with
                      | Some on => put (KS oldp) (on <| n_ws := "standby" |>) (nodes s)
                      | None => nodes s
                      end
                 else nodes s in
      let ns2 := match get (KS id) ns1 with
                 | Some nn => put (KS id) (nn <| n_ws := "primary" |>) ns1
                 | None => ns1
                 end in
      (s <| nodes := ns2 |> <| primary := id |>, true)
  | None =>
      if fx_promote c then (s, false) else
      let oldp := primary s in
      let ns1 := if (negb (sempty oldp) && negb (seqb oldp id))%bool
                 then match get (KS oldp) (nodes s) with
                      | Some on => put (KS oldp) (on <| n_ws := "standby" |>) (nodes s)
                      | None => nodes s
                      end
                 else nodes s in
      (s <| nodes := ns1 |> <| primary := id |>, false)
  end.

Definition apply_demote (s : state) (id : string) : state * bool :=
  if sempty id then (s, false) else
  let '(ns, ex) := match get (KS id) (nodes s) with
                   | Some n => (put (KS id) (n <| n_ws := "standby" |>) (nodes s), true)
                   | None => (nodes s, false)
                   end in
  let s1 := s <| nodes := ns |> in
  (if seqb (primary s) id then s1 <| primary := "" |> else s1, ex).

Definition apply_assign_compactor (s : state) (id old : string) : state * bool :=
  if sempty id then (s, false) else (s <| compactor := id |>, true).

(* ---- file manifest ------------------------------------------------------------------ *)

Definition fkey (f : file) : key := KP (KS (f_db f)) (KS (f_path f)).

(* drop the old index entry when the database changes *)
Definition unindex_old (s : state) (f : file) : smap unit :=
  match get (KS (f_path f)) (files s) with
  | Some old => if negb (seqb (f_db old) (f_db f)) then del (fkey old) (filesByDB s) else filesByDB s
  | None => filesByDB s
  end.

Definition file_payload_ok (f : file) : bool := valid_path (f_path f) && negb (f_created f =? time_zero).

Definition apply_register_file (s : state) (idx : Z) (f : file) : state * bool :=
  if negb (valid_path (f_path f)) then (s, false) else
  if f_created f =? time_zero then (s, false) else
  let e := f <| f_lsn := idx |> in
  (s <| filesByDB := put (fkey e) tt (unindex_old s e) |> <| files := put (KS (f_path e)) e (files s) |>, true).

Definition apply_update_file (s : state) (idx : Z) (f : file) : state * bool :=
  if negb (valid_path (f_path f)) then (s, false) else
  if f_created f =? time_zero then (s, false) else
  let e := f <| f_lsn := idx |> in
  let ix := unindex_old s e in
  let ix' := if (negb (sempty (f_db e)) || fx_filedb c)%bool then put (fkey e) tt ix else ix in
  (s <| filesByDB := ix' |> <| files := put (KS (f_path e)) e (files s) |>, true).

Definition apply_delete_file (s : state) (path reason : string) : state * bool :=
  if sempty path then (s, false) else
  match get (KS path) (files s) with
  | Some old => (s <| filesByDB := del (KP (KS (f_db old)) (KS path)) (filesByDB s) |>
                   <| files := del (KS path) (files s) |>, true)
  | None => (s, true)
  end.

(* applyBatchFileOps: pre-pass over every op, then the apply loop *)
Definition bop_prevalid (o : bop) : bool :=
  match o with
  | BRegister f => file_payload_ok f
  | BUpdate f => file_payload_ok f
  | BDelete p _ => negb (sempty p)
  | BBad => false
  end.

Definition apply_bop (s : state) (idx : Z) (o : bop) : state * bool :=
  match o with
  | BRegister f => apply_register_file s idx f
  | BUpdate f => apply_update_file s idx f
  | BDelete p r => apply_delete_file s p r
  | BBad => (s, false)
  end.

Fixpoint batch_loop (s : state) (idx : Z) (ops : list bop) : state * bool :=
  match ops with
  | [] => (s, true)
  | o :: r => let '(s1, ok) := apply_bop s idx o in
              if ok then batch_loop s1 idx r else (s1, false)   (* an error mid-loop leaves the earlier ops applied *)
  end.

Definition apply_batch (s : state) (idx : Z) (ops : list bop) : state * bool :=
  if forallb bop_prevalid ops then batch_loop s idx ops else (s, false).

(* ---- tokens ------------------------------------------------------------------------- *)

Definition pkey (prefix : string) (id : key) : key := KP (KS prefix) id.

Definition apply_create_token (s : state) (idx : Z) (t : token) : state * bool :=
  if negb (valid_token t) then (s, false) else
  if t_created t =? 0 then (s, false) else
  let e := t <| t_id := idx |> <| t_lsn := idx |> <| t_enabled := true |> in
  if has (KS (t_name e)) (tokByName s) then (s, false) else
  (s <| tokens := put (KZ idx) e (tokens s) |>
     <| tokByPrefix := put (pkey (t_prefix e) (KZ idx)) tt (tokByPrefix s) |>
     <| tokByName := put (KS (t_name e)) (KZ idx) (tokByName s) |>, true).

(* the field assignments of applyUpdateToken *)
Definition upd_tok (e : token) (idx : Z) (name desc perms : string) (expires : Z) (changed : list string) : token :=
  let e1 := if inb "name" changed then e <| t_name := name |> else e in
  let e2 := if inb "description" changed then e1 <| t_desc := desc |> else e1 in
  let e3 := if inb "permissions" changed then e2 <| t_perms := perms |> else e2 in
  let e4 := if inb "expires_at" changed then e3 <| t_expires := expires |> else e3 in
  e4 <| t_lsn := idx |>.

Definition apply_update_token (s : state) (idx id : Z) (name desc perms : string) (expires : Z)
    (changed : list string) : state * bool :=
  if id =? 0 then (s, false) else
  if (inb "permissions" changed && negb (valid_perms perms))%bool then (s, false) else
  if (fx_tokname c && inb "name" changed && negb (valid_name name))%bool then (s, false) else
  match get (KZ id) (tokens s) with
  | None => (s, true)
  | Some e =>
      let renamed := inb "name" changed in
      let clash := match get (KS name) (tokByName s) with
                   | Some other => negb (keqb other (KZ id))
                   | None => false
                   end in
      if (renamed && clash)%bool then (s, false) else
      let byname := if renamed then put (KS name) (KZ (t_id e)) (del (KS (t_name e)) (tokByName s))
                    else tokByName s in
      (s <| tokens := put (KZ id) (upd_tok e idx name desc perms expires changed) (tokens s) |>
         <| tokByName := byname |>, true)
  end.

Definition apply_revoke_token (s : state) (idx id : Z) : state * bool :=
  if id =? 0 then (s, false) else
  match get (KZ id) (tokens s) with
  | None => (s, true)
  | Some e => (s <| tokens := put (KZ id) (e <| t_enabled := false |> <| t_lsn := idx |>) (tokens s) |>, true)
  end.

(* one membership dropped while cascading from a token / a team *)
Definition drop_mem_of_token (st : smap mem * smap key * smap unit) (mid : key) : smap mem * smap key * smap unit :=
  let '(ms, bypair, byteam) := st in
  match get mid ms with
  | None => st
  | Some m => (del mid ms, del (KP (KZ (m_token m)) (KZ (m_team m))) bypair, del (KP (KZ (m_team m)) mid) byteam)
  end.

Definition apply_delete_token (s : state) (idx id : Z) : state * bool :=
  if id =? 0 then (s, false) else
  match get (KZ id) (tokens s) with
  | None => (s, true)
  | Some e =>
      let mids := map fst (sel1 (KZ id) (memByToken s)) in
      let '(ms, bypair, byteam) := fold_left drop_mem_of_token mids (mems s, memByPair s, memByTeam s) in
      (s <| tokens := del (KZ id) (tokens s) |>
         <| tokByPrefix := del (pkey (t_prefix e) (KZ id)) (tokByPrefix s) |>
         <| tokByName := del (KS (t_name e)) (tokByName s) |>
         <| mems := ms |> <| memByPair := bypair |> <| memByTeam := byteam |>
         <| memByToken := del1 (KZ id) (memByToken s) |>, true)
  end.

Definition apply_rotate_token (s : state) (idx id : Z) (hash prefix : string) : state * bool :=
  if id =? 0 then (s, false) else
  if negb (valid_hash_prefix hash prefix) then (s, false) else
  match get (KZ id) (tokens s) with
  | None => (s, true)
  | Some e =>
      let e' := e <| t_hash := hash |> <| t_prefix := prefix |> <| t_lsn := idx |> in
      let ix := if negb (seqb (t_prefix e) prefix)
                then put (pkey prefix (KZ id)) tt (del (pkey (t_prefix e) (KZ id)) (tokByPrefix s))
                else tokByPrefix s in
      (s <| tokens := put (KZ id) e' (tokens s) |> <| tokByPrefix := ix |>, true)
  end.

(* ---- RBAC --------------------------------------------------------------------------- *)

Definition apply_create_org (s : state) (idx : Z) (o : org) : state * bool :=
  if negb (valid_org o) then (s, false) else
  if o_created o =? 0 then (s, false) else
  let e := o <| o_id := idx |> <| o_lsn := idx |>
             <| o_updated := if o_updated o =? 0 then o_created o else o_updated o |>
             <| o_enabled := true |> in
  if has (KS (o_name e)) (orgByName s) then (s, false) else
  (s <| orgs := put (KZ idx) e (orgs s) |> <| orgByName := put (KS (o_name e)) (KZ idx) (orgByName s) |>, true).

(* pre-validation loop shared by UpdateOrganization / UpdateTeam *)
Definition upd_named_prevalid (name desc : string) (changed : list string) : bool :=
  forallb (fun f => (if seqb f "name" then valid_name name else true)
                    && (if seqb f "description" then valid_desc desc else true))%bool changed.

(* the ChangedFields loop of applyUpdateOrganization / applyUpdateTeam over the staged copy:
   [taken n] = the unique index already binds the new name n *)
Section UpdLoop.
  Context {E : Type} (get_name : E -> string) (set_name : string -> E -> E)
          (set_desc : string -> E -> E) (set_enabled : bool -> E -> E) (taken : string -> bool).
  Fixpoint upd_named_loop (existing : E) (name desc : string) (enabled : bool)
      (fields : list string) (upd : E) (nc : bool) : option (E * bool) :=
    match fields with
    | [] => Some (upd, nc)
    | f :: r =>
        if seqb f "name" then
          if (negb (seqb name (get_name existing)) && negb nc)%bool then
            if taken name then None
            else upd_named_loop existing name desc enabled r (set_name name upd) true
          else upd_named_loop existing name desc enabled r upd nc
        else if seqb f "description" then upd_named_loop existing name desc enabled r (set_desc desc upd) nc
        else if seqb f "enabled" then upd_named_loop existing name desc enabled r (set_enabled enabled upd) nc
        else upd_named_loop existing name desc enabled r upd nc
    end.
End UpdLoop.

Definition apply_update_org (s : state) (idx id : Z) (name desc : string) (enabled : bool) (updated : Z)
    (changed : list string) : state * bool :=
  if id =? 0 then (s, false) else
  if negb (upd_named_prevalid name desc changed) then (s, false) else
  match get (KZ id) (orgs s) with
  | None => (s, false)
  | Some ex =>
      match upd_named_loop o_name (fun v e => e <| o_name := v |>) (fun v e => e <| o_desc := v |>)
              (fun v e => e <| o_enabled := v |>) (fun n => has (KS n) (orgByName s))
              ex name desc enabled changed ex false with
      | None => (s, false)
      | Some (u, nc) =>
          let u1 := if updated =? 0 then u else u <| o_updated := updated |> in
          let u2 := u1 <| o_lsn := idx |> in
          let ix := if nc then put (KS (o_name u2)) (KZ id) (del (KS (o_name ex)) (orgByName s)) else orgByName s in
          (s <| orgs := put (KZ id) u2 (orgs s) |> <| orgByName := ix |>, true)
      end
  end.

(* cascadeDeleteRoleLocked *)
Definition cascade_role (st : smap mperm * smap unit) (rid : key) : smap mperm * smap unit :=
  let '(mps, byrole) := st in
  (dels (map fst (sel1 rid byrole)) mps, del1 rid byrole).

Definition drop_mem_of_team (st : smap mem * smap key * smap unit) (mid : key) : smap mem * smap key * smap unit :=
  let '(ms, bypair, bytoken) := st in
  match get mid ms with
  | None => st
  | Some m => (del mid ms, del (KP (KZ (m_token m)) (KZ (m_team m))) bypair, del (KP (KZ (m_token m)) mid) bytoken)
  end.

(* the RBAC maps touched by the cascades *)
Record rb := mkRb { rb_roles : smap role; rb_rolesByTeam : smap unit; rb_mperms : smap mperm; rb_mpByRole : smap unit;
                    rb_mems : smap mem; rb_byPair : smap key; rb_byToken : smap unit; rb_byTeam : smap unit }.

(* cascadeDeleteTeamLocked *)
Definition cascade_team (x : rb) (tid : key) : rb :=
  let rids := map fst (sel1 tid (rb_rolesByTeam x)) in
  let '(mps, byrole) := fold_left cascade_role rids (rb_mperms x, rb_mpByRole x) in
  let rs := dels rids (rb_roles x) in
  let mids := map fst (sel1 tid (rb_byTeam x)) in
  let '(ms, bypair, bytoken) := fold_left drop_mem_of_team mids (rb_mems x, rb_byPair x, rb_byToken x) in
  mkRb rs (del1 tid (rb_rolesByTeam x)) mps byrole ms bypair bytoken (del1 tid (rb_byTeam x)).

Definition rb_of (s : state) : rb :=
  mkRb (roles s) (rolesByTeam s) (mperms s) (mpByRole s) (mems s) (memByPair s) (memByToken s) (memByTeam s).
Definition with_rb (s : state) (x : rb) : state :=
  s <| roles := rb_roles x |> <| rolesByTeam := rb_rolesByTeam x |> <| mperms := rb_mperms x |>
    <| mpByRole := rb_mpByRole x |> <| mems := rb_mems x |> <| memByPair := rb_byPair x |>
    <| memByToken := rb_byToken x |> <| memByTeam := rb_byTeam x |>.

(* cascadeDeleteOrgLocked: every team of the org (ids taken from teamsByOrg[org]) *)
Definition cascade_org_step (st : rb * smap team) (tid : key) : rb * smap team :=
  (cascade_team (fst st) tid, del tid (snd st)).

Definition apply_delete_org (s : state) (idx id : Z) : state * bool :=
  if id =? 0 then (s, false) else
  match get (KZ id) (orgs s) with
  | None => (s, true)
  | Some ex =>
      let tids := map snd (sel1 (KZ id) (teamsByOrg s)) in
      let '(x, tms) := fold_left cascade_org_step tids (rb_of s, teams s) in
      (with_rb s x <| teams := tms |> <| orgs := del (KZ id) (orgs s) |>
         <| orgByName := del (KS (o_name ex)) (orgByName s) |>
         <| teamsByOrg := del1 (KZ id) (teamsByOrg s) |>, true)
  end.

Definition tkey (t : team) : key := KP (KZ (tm_org t)) (KS (tm_name t)).

Definition apply_create_team (s : state) (idx : Z) (t : team) : state * bool :=
  if negb (valid_team t) then (s, false) else
  if tm_created t =? 0 then (s, false) else
  let e := t <| tm_id := idx |> <| tm_lsn := idx |>
             <| tm_updated := if tm_updated t =? 0 then tm_created t else tm_updated t |>
             <| tm_enabled := true |> in
  if negb (has (KZ (tm_org e)) (orgs s)) then (s, false) else
  if has (tkey e) (teamsByOrg s) then (s, false) else
  (s <| teams := put (KZ idx) e (teams s) |> <| teamsByOrg := put (tkey e) (KZ idx) (teamsByOrg s) |>, true).

Definition apply_update_team (s : state) (idx id : Z) (name desc : string) (enabled : bool) (updated : Z)
    (changed : list string) : state * bool :=
  if id =? 0 then (s, false) else
  if negb (upd_named_prevalid name desc changed) then (s, false) else
  match get (KZ id) (teams s) with
  | None => (s, false)
  | Some ex =>
      match upd_named_loop tm_name (fun v e => e <| tm_name := v |>) (fun v e => e <| tm_desc := v |>)
              (fun v e => e <| tm_enabled := v |>) (fun n => has (KP (KZ (tm_org ex)) (KS n)) (teamsByOrg s))
              ex name desc enabled changed ex false with
      | None => (s, false)
      | Some (u, nc) =>
          let u1 := if updated =? 0 then u else u <| tm_updated := updated |> in
          let u2 := u1 <| tm_lsn := idx |> in
          let ix := if nc then put (KP (KZ (tm_org ex)) (KS (tm_name u2))) (KZ id) (del (tkey ex) (teamsByOrg s))
                    else teamsByOrg s in
          (s <| teams := put (KZ id) u2 (teams s) |> <| teamsByOrg := ix |>, true)
      end
  end.

Definition apply_delete_team (s : state) (idx id : Z) : state * bool :=
  if id =? 0 then (s, false) else
  match get (KZ id) (teams s) with
  | None => (s, true)
  | Some ex =>
      let x := cascade_team (rb_of s) (KZ id) in
      (with_rb s x <| teams := del (KZ id) (teams s) |> <| teamsByOrg := del (tkey ex) (teamsByOrg s) |>, true)
  end.

Definition apply_create_role (s : state) (idx : Z) (r : role) : state * bool :=
  if negb (valid_role r) then (s, false) else
  if r_created r =? 0 then (s, false) else
  let e := r <| r_id := idx |> <| r_lsn := idx |> in
  if negb (has (KZ (r_team e)) (teams s)) then (s, false) else
  (s <| roles := put (KZ idx) e (roles s) |>
     <| rolesByTeam := put (KP (KZ (r_team e)) (KZ idx)) tt (rolesByTeam s) |>, true).

Definition upd_role_prevalid (pat perms : string) (changed : list string) : bool :=
  forallb (fun f => (if seqb f "database_pattern" then valid_name pat else true)
                    && (if seqb f "permissions" then valid_perms perms else true))%bool changed.

Definition apply_update_role (s : state) (idx id : Z) (pat perms : string) (changed : list string) : state * bool :=
  if id =? 0 then (s, false) else
  if negb (upd_role_prevalid pat perms changed) then (s, false) else
  match get (KZ id) (roles s) with
  | None => (s, false)
  | Some ex =>
      let u1 := if inb "database_pattern" changed then ex <| r_pat := pat |> else ex in
      let u2 := if inb "permissions" changed then u1 <| r_perms := perms |> else u1 in
      (s <| roles := put (KZ id) (u2 <| r_lsn := idx |>) (roles s) |>, true)
  end.

Definition apply_delete_role (s : state) (idx id : Z) : state * bool :=
  if id =? 0 then (s, false) else
  match get (KZ id) (roles s) with
  | None => (s, true)
  | Some ex =>
      let '(mps, byrole) := cascade_role (mperms s, mpByRole s) (KZ id) in
      (s <| mperms := mps |> <| mpByRole := byrole |> <| roles := del (KZ id) (roles s) |>
         <| rolesByTeam := del (KP (KZ (r_team ex)) (KZ id)) (rolesByTeam s) |>, true)
  end.

Definition apply_create_mperm (s : state) (idx : Z) (p : mperm) : state * bool :=
  if negb (valid_mperm p) then (s, false) else
  if mp_created p =? 0 then (s, false) else
  let e := p <| mp_id := idx |> <| mp_lsn := idx |> in
  if negb (has (KZ (mp_role e)) (roles s)) then (s, false) else
  (s <| mperms := put (KZ idx) e (mperms s) |>
     <| mpByRole := put (KP (KZ (mp_role e)) (KZ idx)) tt (mpByRole s) |>, true).

Definition apply_delete_mperm (s : state) (idx id : Z) : state * bool :=
  if id =? 0 then (s, false) else
  match get (KZ id) (mperms s) with
  | None => (s, true)
  | Some ex => (s <| mperms := del (KZ id) (mperms s) |>
                  <| mpByRole := del (KP (KZ (mp_role ex)) (KZ id)) (mpByRole s) |>, true)
  end.

Definition apply_add_member (s : state) (idx : Z) (m : mem) : state * bool :=
  if negb (valid_mem m) then (s, false) else
  if m_created m =? 0 then (s, false) else
  let e := m <| m_id := idx |> <| m_lsn := idx |> in
  if negb (has (KZ (m_token e)) (tokens s)) then (s, false) else
  if negb (has (KZ (m_team e)) (teams s)) then (s, false) else
  let pk := KP (KZ (m_token e)) (KZ (m_team e)) in
  if has pk (memByPair s) then (s, false) else
  (s <| mems := put (KZ idx) e (mems s) |> <| memByPair := put pk (KZ idx) (memByPair s) |>
     <| memByToken := put (KP (KZ (m_token e)) (KZ idx)) tt (memByToken s) |>
     <| memByTeam := put (KP (KZ (m_team e)) (KZ idx)) tt (memByTeam s) |>, true).

Definition apply_remove_member (s : state) (idx tok tm : Z) : state * bool :=
  if ((tok =? 0) || (tm =? 0))%bool then (s, false) else
  match get (KP (KZ tok) (KZ tm)) (memByPair s) with
  | None => (s, true)
  | Some mid =>
      (s <| memByPair := del (KP (KZ tok) (KZ tm)) (memByPair s) |>
         <| memByToken := del (KP (KZ tok) mid) (memByToken s) |>
         <| memByTeam := del (KP (KZ tm) mid) (memByTeam s) |>
         <| mems := del mid (mems s) |>, true)
  end.

(* ---- ClusterFSM.Apply --------------------------------------------------------------- *)

Definition apply (s : state) (idx : Z) (cm : cmd) : state * bool :=
  match cm with
  | CAddNode n => apply_put_node s n
  | CRemoveNode id => apply_remove_node s id
  | CUpdateNode n => apply_put_node s n
  | CUpdateNodeState id st => apply_update_node_state s id st
  | CPromote id old => apply_promote s id old
  | CDemote id => apply_demote s id
  | CRegisterFile f => apply_register_file s idx f
  | CDeleteFile p r => apply_delete_file s p r
  | CAssignCompactor id old => apply_assign_compactor s id old
  | CBatch ops => apply_batch s idx ops
  | CUpdateFile f => apply_update_file s idx f
  | CCreateToken t => apply_create_token s idx t
  | CUpdateToken id name desc perms ex ch => apply_update_token s idx id name desc perms ex ch
  | CRevokeToken id => apply_revoke_token s idx id
  | CDeleteToken id => apply_delete_token s idx id
  | CRotateToken id h p => apply_rotate_token s idx id h p
  | CCreateOrg o => apply_create_org s idx o
  | CUpdateOrg id n d e u ch => apply_update_org s idx id n d e u ch
  | CDeleteOrg id => apply_delete_org s idx id
  | CCreateTeam t => apply_create_team s idx t
  | CUpdateTeam id n d e u ch => apply_update_team s idx id n d e u ch
  | CDeleteTeam id => apply_delete_team s idx id
  | CCreateRole r => apply_create_role s idx r
  | CUpdateRole id p pm ch => apply_update_role s idx id p pm ch
  | CDeleteRole id => apply_delete_role s idx id
  | CCreateMPerm p => apply_create_mperm s idx p
  | CDeleteMPerm id => apply_delete_mperm s idx id
  | CAddMember m => apply_add_member s idx m
  | CRemoveMember tok tm => apply_remove_member s idx tok tm
  | CBad => (s, false)
  end.

End WithCfg.

(* ---- Snapshot / Restore -------------------------------------------------------------- *)

Definition snapshot (s : state) : snap :=
  mkSnap (nodes s) (primary s) (compactor s) (files s) (tokens s) (orgs s) (teams s) (roles s) (mperms s) (mems s).

(* the index a Restore rebuilds: one binding per primary entry, later entries overwrite *)
Definition build {E V} (kf : key -> E -> key) (vf : key -> E -> V) (m : smap E) : smap V :=
  fold_left (fun acc kv => put (kf (fst kv) (snd kv)) (vf (fst kv) (snd kv)) acc) m [].

Definition ix_filesByDB (m : smap file) := build (fun k f => KP (KS (f_db f)) k) (fun _ _ => tt) m.
Definition ix_tokByPrefix (m : smap token) := build (fun k t => KP (KS (t_prefix t)) k) (fun _ _ => tt) m.
Definition ix_tokByName (m : smap token) := build (fun k t => KS (t_name t)) (fun k _ => k) m.
Definition ix_orgByName (m : smap org) := build (fun k o => KS (o_name o)) (fun k _ => k) m.
Definition ix_teamsByOrg (m : smap team) := build (fun k t => tkey t) (fun k _ => k) m.
Definition ix_rolesByTeam (m : smap role) := build (fun k r => KP (KZ (r_team r)) k) (fun _ _ => tt) m.
Definition ix_mpByRole (m : smap mperm) := build (fun k p => KP (KZ (mp_role p)) k) (fun _ _ => tt) m.
Definition ix_memByPair (m : smap mem) := build (fun k e => KP (KZ (m_token e)) (KZ (m_team e))) (fun k _ => k) m.
Definition ix_memByToken (m : smap mem) := build (fun k e => KP (KZ (m_token e)) k) (fun _ _ => tt) m.
Definition ix_memByTeam (m : smap mem) := build (fun k e => KP (KZ (m_team e)) k) (fun _ _ => tt) m.

(* quarantine filters of Restore.  Entries are visited in ascending key order (Go: map
   order; the order only matters for snapshots with duplicate unique keys, which
   Snapshot never produces from a reachable state). *)
Definition key_path_ok (k : key) : bool := match k with KS p => valid_path p | _ => false end.

Definition restore_files (m : smap file) : smap file := filter (fun kv => key_path_ok (fst kv)) m.
Definition restore_tokens (m : smap token) : smap token := filter (fun kv => valid_token (snd kv)) m.

(* keep entries that pass [ok] and whose unique key [uk] was not seen before *)
Fixpoint keep_unique {E} (ok : key -> E -> bool) (uk : E -> key) (m : smap E) (seen : smap key) : smap E :=
  match m with
  | [] => []
  | (k, e) :: r =>
      if (ok k e && negb (has (uk e) seen))%bool
      then (k, e) :: keep_unique ok uk r (put (uk e) k seen)
      else keep_unique ok uk r seen
  end.

Definition restore_orgs (m : smap org) : smap org :=
  keep_unique (fun _ o => valid_org o) (fun o => KS (o_name o)) m [].
Definition restore_teams (os : smap org) (m : smap team) : smap team :=
  keep_unique (fun _ t => valid_team t && has (KZ (tm_org t)) os)%bool tkey m [].
Definition restore_roles (ts : smap team) (m : smap role) : smap role :=
  filter (fun kv => valid_role (snd kv) && has (KZ (r_team (snd kv))) ts)%bool m.
Definition restore_mperms (rs : smap role) (m : smap mperm) : smap mperm :=
  filter (fun kv => valid_mperm (snd kv) && has (KZ (mp_role (snd kv))) rs)%bool m.
Definition restore_mems (tks : smap token) (ts : smap team) (m : smap mem) : smap mem :=
  keep_unique (fun _ e => valid_mem e && has (KZ (m_token e)) tks && has (KZ (m_team e)) ts)%bool
              (fun e => KP (KZ (m_token e)) (KZ (m_team e))) m [].

Definition restore (sn : snap) : state :=
  let fs := restore_files (sn_files sn) in
  let tks := restore_tokens (sn_tokens sn) in
  let os := restore_orgs (sn_orgs sn) in
  let ts := restore_teams os (sn_teams sn) in
  let rs := restore_roles ts (sn_roles sn) in
  let mps := restore_mperms rs (sn_mperms sn) in
  let ms := restore_mems tks ts (sn_mems sn) in
  mkState (sn_nodes sn) (sn_primary sn) (sn_compactor sn)
    fs (ix_filesByDB fs)
    tks (ix_tokByPrefix tks) (ix_tokByName tks)
    os (ix_orgByName os)
    ts (ix_teamsByOrg ts)
    rs (ix_rolesByTeam rs)
    mps (ix_mpByRole mps)
    ms (ix_memByPair ms) (ix_memByToken ms) (ix_memByTeam ms).

(* ---- histories ---------------------------------------------------------------------- *)

Inductive step :=
| SCmd (idx : Z) (cm : cmd)        (* a committed log entry *)
| SSnap                            (* the node snapshots, restarts and restores *)
| SRestore (sn : snap).            (* InstallSnapshot of an arbitrary snapshot (correspondence only) *)

Definition do_step (c : cfg) (s : state) (st : step) : state * bool :=
  match st with
  | SCmd idx cm => apply c s idx cm
  | SSnap => (restore (snapshot s), true)
  | SRestore sn => (restore sn, true)
  end.

Fixpoint run (c : cfg) (s : state) (h : list step) : state :=
  match h with [] => s | st :: r => run c (fst (do_step c s st)) r end.

(* states and results after every step *)
Fixpoint trace (c : cfg) (s : state) (h : list step) : list (state * bool) :=
  match h with
  | [] => []
  | st :: r => let x := do_step c s st in x :: trace c (fst x) r
  end.

(* ---- executable specification predicates (used by the theorems AND by the oracles) ---- *)

Fixpoint smap_eqb {V} (veqb : V -> V -> bool) (a b : smap V) : bool :=
  match a, b with
  | [], [] => true
  | (k, v) :: a', (k', v') :: b' => keqb k k' && veqb v v' && smap_eqb veqb a' b'
  | _, _ => false
  end.
Definition unit_eqb (_ _ : unit) : bool := true.

Definition node_eqb (a b : node) : bool :=
  seqb (n_id a) (n_id b) && seqb (n_name a) (n_name b) && seqb (n_role a) (n_role b)
  && seqb (n_cluster a) (n_cluster b) && seqb (n_addr a) (n_addr b) && seqb (n_api a) (n_api b)
  && seqb (n_state a) (n_state b) && seqb (n_version a) (n_version b) && seqb (n_ws a) (n_ws b)
  && (n_cores a =? n_cores b).
Definition file_eqb (a b : file) : bool :=
  seqb (f_path a) (f_path b) && seqb (f_sha a) (f_sha b) && (f_size a =? f_size b) && seqb (f_db a) (f_db b)
  && seqb (f_meas a) (f_meas b) && (f_ptime a =? f_ptime b) && seqb (f_origin a) (f_origin b)
  && seqb (f_tier a) (f_tier b) && (f_created a =? f_created b) && (f_lsn a =? f_lsn b).
Definition token_eqb (a b : token) : bool :=
  (t_id a =? t_id b) && seqb (t_name a) (t_name b) && seqb (t_desc a) (t_desc b) && seqb (t_perms a) (t_perms b)
  && seqb (t_hash a) (t_hash b) && seqb (t_prefix a) (t_prefix b) && (t_created a =? t_created b)
  && (t_expires a =? t_expires b) && Bool.eqb (t_enabled a) (t_enabled b) && (t_lsn a =? t_lsn b).
Definition org_eqb (a b : org) : bool :=
  (o_id a =? o_id b) && seqb (o_name a) (o_name b) && seqb (o_desc a) (o_desc b) && (o_created a =? o_created b)
  && (o_updated a =? o_updated b) && Bool.eqb (o_enabled a) (o_enabled b) && (o_lsn a =? o_lsn b).
Definition team_eqb (a b : team) : bool :=
  (tm_id a =? tm_id b) && (tm_org a =? tm_org b) && seqb (tm_name a) (tm_name b) && seqb (tm_desc a) (tm_desc b)
  && (tm_created a =? tm_created b) && (tm_updated a =? tm_updated b) && Bool.eqb (tm_enabled a) (tm_enabled b)
  && (tm_lsn a =? tm_lsn b).
Definition role_eqb (a b : role) : bool :=
  (r_id a =? r_id b) && (r_team a =? r_team b) && seqb (r_pat a) (r_pat b) && seqb (r_perms a) (r_perms b)
  && (r_created a =? r_created b) && (r_lsn a =? r_lsn b).
Definition mperm_eqb (a b : mperm) : bool :=
  (mp_id a =? mp_id b) && (mp_role a =? mp_role b) && seqb (mp_pat a) (mp_pat b) && seqb (mp_perms a) (mp_perms b)
  && (mp_created a =? mp_created b) && (mp_lsn a =? mp_lsn b).
Definition mem_eqb (a b : mem) : bool :=
  (m_id a =? m_id b) && (m_token a =? m_token b) && (m_team a =? m_team b) && (m_created a =? m_created b)
  && (m_lsn a =? m_lsn b).

Definition state_eqb (a b : state) : bool :=
  smap_eqb node_eqb (nodes a) (nodes b) && seqb (primary a) (primary b) && seqb (compactor a) (compactor b)
  && smap_eqb file_eqb (files a) (files b) && smap_eqb unit_eqb (filesByDB a) (filesByDB b)
  && smap_eqb token_eqb (tokens a) (tokens b) && smap_eqb unit_eqb (tokByPrefix a) (tokByPrefix b)
  && smap_eqb keqb (tokByName a) (tokByName b)
  && smap_eqb org_eqb (orgs a) (orgs b) && smap_eqb keqb (orgByName a) (orgByName b)
  && smap_eqb team_eqb (teams a) (teams b) && smap_eqb keqb (teamsByOrg a) (teamsByOrg b)
  && smap_eqb role_eqb (roles a) (roles b) && smap_eqb unit_eqb (rolesByTeam a) (rolesByTeam b)
  && smap_eqb mperm_eqb (mperms a) (mperms b) && smap_eqb unit_eqb (mpByRole a) (mpByRole b)
  && smap_eqb mem_eqb (mems a) (mems b) && smap_eqb keqb (memByPair a) (memByPair b)
  && smap_eqb unit_eqb (memByToken a) (memByToken b) && smap_eqb unit_eqb (memByTeam a) (memByTeam b).

(* C22 clause 3: every lookup index is the function of its primary map that Restore computes *)
Definition file_index_agrees (s : state) : bool := smap_eqb unit_eqb (filesByDB s) (ix_filesByDB (files s)).
Definition auth_indexes_agree (s : state) : bool :=
  smap_eqb unit_eqb (tokByPrefix s) (ix_tokByPrefix (tokens s))
  && smap_eqb keqb (tokByName s) (ix_tokByName (tokens s))
  && smap_eqb keqb (orgByName s) (ix_orgByName (orgs s))
  && smap_eqb keqb (teamsByOrg s) (ix_teamsByOrg (teams s))
  && smap_eqb unit_eqb (rolesByTeam s) (ix_rolesByTeam (roles s))
  && smap_eqb unit_eqb (mpByRole s) (ix_mpByRole (mperms s))
  && smap_eqb keqb (memByPair s) (ix_memByPair (mems s))
  && smap_eqb unit_eqb (memByToken s) (ix_memByToken (mems s))
  && smap_eqb unit_eqb (memByTeam s) (ix_memByTeam (mems s)).
Definition indexes_agree (s : state) : bool := file_index_agrees s && auth_indexes_agree s.

(* C23: writer bookkeeping *)
Definition is_primary (n : node) : bool := seqb (n_ws n) "primary".
Definition writer_consistent (s : state) : bool :=
  forallb (fun kv => if is_primary (snd kv)
                     then keqb (fst kv) (KS (primary s)) && negb (sempty (primary s)) else true) (nodes s)
  && (if sempty (primary s) then true
      else match get (KS (primary s)) (nodes s) with Some n => is_primary n | None => false end).

(* C23: referential integrity of the RBAC hierarchy *)
Definition rbac_refs_ok (s : state) : bool :=
  forallb (fun kv => has (KZ (tm_org (snd kv))) (orgs s)) (teams s)
  && forallb (fun kv => has (KZ (r_team (snd kv))) (teams s)) (roles s)
  && forallb (fun kv => has (KZ (mp_role (snd kv))) (roles s)) (mperms s)
  && forallb (fun kv => has (KZ (m_token (snd kv))) (tokens s) && has (KZ (m_team (snd kv))) (teams s)) (mems s).

(* Guards of the guarded theorems: the command classes on which the code as it is
   misbehaves (each vacuous when the corresponding repair is in place). *)
Definition file_db_ok (c : cfg) (f : file) : bool := fx_filedb c || negb (sempty (f_db f)).
Definition cmd_file_guard (c : cfg) (cm : cmd) : bool :=
  match cm with
  | CUpdateFile f => file_db_ok c f
  | CBatch ops => forallb (fun o => match o with BUpdate f => file_db_ok c f | _ => true end) ops
  | _ => true
  end.
Definition cmd_token_guard (c : cfg) (cm : cmd) : bool :=
  match cm with
  | CUpdateToken _ name _ _ _ changed => fx_tokname c || negb (inb "name" changed) || valid_name name
  | _ => true
  end.
(* node commands, relative to the state they are applied to *)
Definition cmd_node_guard (c : cfg) (s : state) (cm : cmd) : bool :=
  match cm with
  | CAddNode n | CUpdateNode n =>
      fx_addws c || match get (KS (n_id n)) (nodes s) with
                    | Some old => seqb (n_ws n) (n_ws old)
                    | None => negb (is_primary n)
                    end
  | CRemoveNode id => fx_remove c || negb (seqb id (primary s)) || sempty (primary s)
  | CPromote id _ => fx_promote c || has (KS id) (nodes s)
  | _ => true
  end.

(* Histories in the domain of a guarded theorem: every command satisfies the guard in the
   state it is applied to; snapshot-restarts are allowed anywhere; installing an arbitrary
   snapshot is outside the domain. *)
Fixpoint hist_ok (c : cfg) (g : state -> cmd -> bool) (s : state) (h : list step) : bool :=
  match h with
  | [] => true
  | st :: r =>
      (match st with SCmd _ cm => g s cm | SSnap => true | SRestore _ => false end)
      && hist_ok c g (fst (do_step c s st)) r
  end.

(* raft hands Apply strictly increasing log indices, all >= n *)
Fixpoint idx_incr (n : Z) (h : list step) : Prop :=
  match h with
  | [] => True
  | SCmd i _ :: r => n <= i /\ idx_incr (i + 1) r
  | _ :: r => idx_incr n r
  end.

Definition no_guard (_ : state) (_ : cmd) : bool := true.

(* every token passes validateTokenEntry (what Restore demands of a snapshot entry) *)
Definition tokens_valid (s : state) : bool := forallb (fun kv => valid_token (snd kv)) (tokens s).

(* batch semantics used by the atomicity statement: the ops applied one after the other,
   and "each op is accepted in the state its predecessors left" *)
Fixpoint ops_applied (c : cfg) (s : state) (idx : Z) (ops : list bop) : state :=
  match ops with [] => s | o :: r => ops_applied c (fst (apply_bop c s idx o)) idx r end.
Fixpoint ops_all_ok (c : cfg) (s : state) (idx : Z) (ops : list bop) : Prop :=
  match ops with
  | [] => True
  | o :: r => snd (apply_bop c s idx o) = true /\ ops_all_ok c (fst (apply_bop c s idx o)) idx r
  end.

Definition cfg_as_is : cfg := mkCfg false false false false false.
Definition cfg_repaired : cfg := mkCfg true true true true true.
