(* C23 - Cluster role assignments stay consistent.
   Only property statements live here; the proofs are in ProofsNode.v / Proofs.v. *)
From Coq Require Import List ZArith Bool String.
From Arc Require Import Fsm.Key Fsm.KeyFacts Fsm.Model Fsm.ProofsNode Fsm.Proofs.
Import ListNotations.
Open Scope string_scope.
Open Scope Z_scope.

(* ==== PRIMARY STATEMENTS: the code as it is now ([cfg_repaired]), EVERY history, no guard. ==== *)

(* Only the node named by primaryWriterID is marked primary, and that node exists and is
   marked primary (see C23_writer_consistent_meaning: at most one primary). *)
Theorem C23_writer_consistent : forall h,
  hist_ok cfg_repaired no_guard empty_state h = true ->
  writer_consistent (run cfg_repaired empty_state h) = true.
Proof. exact (writer_repaired cfg_repaired eq_refl eq_refl eq_refl). Qed.
Print Assumptions C23_writer_consistent.

(* Re-registering an existing node - whatever record is proposed - keeps the writer state the
   cluster recorded for it (in any state). *)
Theorem C23_readd_keeps_writer_state : forall s n old,
  get (KS (n_id n)) (nodes s) = Some old ->
  exists new, get (KS (n_id n)) (nodes (fst (apply_put_node cfg_repaired s n))) = Some new /\ n_ws new = n_ws old.
Proof. exact (readd_repaired cfg_repaired eq_refl eq_refl eq_refl). Qed.
Print Assumptions C23_readd_keeps_writer_state.

(* (C23_rbac_refs_ok below is unguarded and holds for every variant.) *)

(* ==== The variant-generic results ============================================================ *)

(* In every state reached by a history whose node commands respect [cmd_node_guard]
   (re-registration proposes the recorded writer_state, the primary is not removed, only
   registered nodes are promoted - each clause vacuous once the function is repaired):
   only the node named by primaryWriterID is marked primary, and that node exists and is
   marked primary. *)
Theorem C23_writer_consistent_guarded : forall c h,
  hist_ok c (cmd_node_guard c) empty_state h = true ->
  writer_consistent (run c empty_state h) = true.
Proof. exact writer_guarded. Qed.
Print Assumptions C23_writer_consistent_guarded.

(* what writer_consistent says *)
Theorem C23_writer_consistent_meaning : forall s, sorted (nodes s) -> writer_consistent s = true ->
  (forall k1 k2 n1 n2, get k1 (nodes s) = Some n1 -> get k2 (nodes s) = Some n2 ->
     is_primary n1 = true -> is_primary n2 = true -> k1 = k2)
  /\ (primary s <> "" -> exists n, get (KS (primary s)) (nodes s) = Some n /\ is_primary n = true).
Proof.
  intros s S H. apply (writer_consistent_spec s S) in H. destruct H as [W1 W2]. split.
  - intros k1 k2 n1 n2 H1 H2 P1 P2. destruct (W1 _ _ H1 P1) as [-> _]. destruct (W1 _ _ H2 P2) as [-> _]. reflexivity.
  - intros Hne. apply W2. apply Tactics.sempty_false. exact Hne.
Qed.
Print Assumptions C23_writer_consistent_meaning.

(* Re-registering an existing node (AddNode and UpdateNode run the same code) keeps the
   writer state the cluster recorded for it. *)
Theorem C23_readd_keeps_writer_state_guarded : forall c s n old,
  get (KS (n_id n)) (nodes s) = Some old -> cmd_node_guard c s (CAddNode n) = true ->
  exists new, get (KS (n_id n)) (nodes (fst (apply_put_node c s n))) = Some new /\ n_ws new = n_ws old.
Proof. exact readd_keeps. Qed.
Print Assumptions C23_readd_keeps_writer_state_guarded.

(* Every team, role, measurement permission and membership refers to parents that exist -
   after EVERY history (no guard), snapshot-restarts included. *)
Theorem C23_rbac_refs_ok : forall c h,
  idx_incr 1 h -> hist_ok c no_guard empty_state h = true ->
  rbac_refs_ok (run c empty_state h) = true.
Proof. exact rbac_all. Qed.
Print Assumptions C23_rbac_refs_ok.

(* ---- the code as it is violates the unguarded statements --------------------------------- *)

Definition w_node (id ws : string) : node := mkNode id "n" "writer" "c" "x" "y" "healthy" "v" ws 4.

(* promoting an unknown id returns an error, yet demotes the primary and records the ghost *)
Theorem C23_promote_unknown_refuted : forall c, fx_promote c = false ->
  let h := [SCmd 1 (CAddNode (w_node "a" "")); SCmd 2 (CPromote "a" "")] in
  let s := run c empty_state h in
  snd (apply c s 3 (CPromote "ghost" "a")) = false /\
  primary (fst (apply c s 3 (CPromote "ghost" "a"))) = "ghost" /\
  writer_consistent (fst (apply c s 3 (CPromote "ghost" "a"))) = false.
Proof. intros [p t f r a] H. cbn in H. subst p. destruct a; vm_compute; auto. Qed.
Print Assumptions C23_promote_unknown_refuted.

(* re-adding b with writer_state=primary: two primaries *)
Theorem C23_two_primaries_refuted : forall c, fx_addws c = false ->
  let s := run c empty_state [SCmd 1 (CAddNode (w_node "a" "")); SCmd 2 (CAddNode (w_node "b" ""));
                              SCmd 3 (CPromote "a" ""); SCmd 4 (CAddNode (w_node "b" "primary"))] in
  writer_consistent s = false /\
  List.length (filter (fun kv => is_primary (snd kv)) (nodes s)) = 2%nat.
Proof. intros [p t f r a] H. cbn in H. subst a. vm_compute. auto. Qed.
Print Assumptions C23_two_primaries_refuted.

(* re-adding the primary with the join payload (no writer_state) clears its mark *)
Theorem C23_readd_primary_refuted : forall c, fx_addws c = false ->
  let s := run c empty_state [SCmd 1 (CAddNode (w_node "a" "")); SCmd 2 (CPromote "a" ""); SCmd 3 (CAddNode (w_node "a" ""))] in
  writer_consistent s = false /\ primary s = "a" /\
  get (KS "a") (nodes s) = Some (w_node "a" "").
Proof. intros [p t f r a] H. cbn in H. subst a. vm_compute. auto. Qed.
Print Assumptions C23_readd_primary_refuted.

(* removing the primary leaves primaryWriterID dangling *)
Theorem C23_remove_primary_refuted : forall c, fx_remove c = false ->
  let s := run c empty_state [SCmd 1 (CAddNode (w_node "a" "")); SCmd 2 (CPromote "a" ""); SCmd 3 (CRemoveNode "a")] in
  writer_consistent s = false /\ primary s = "a" /\ nodes s = [].
Proof. intros [p t f r a] H. cbn in H. subst r. destruct a; vm_compute; auto. Qed.
Print Assumptions C23_remove_primary_refuted.

(* ---- non-vacuity --------------------------------------------------------------------------- *)

Definition ex_nodes : list step :=
  [ SCmd 1 (CAddNode (w_node "a" "")); SCmd 2 (CAddNode (w_node "b" ""));
    SCmd 3 (CPromote "a" ""); SCmd 4 (CPromote "b" "a"); SSnap;
    SCmd 6 (CAddNode (w_node "b" "primary"));      (* re-registration carrying the recorded state *)
    SCmd 7 (CRemoveNode "a"); SCmd 8 (CDemote "b"); SCmd 9 (CPromote "ghost2" "") ].

Example C23_guard_satisfiable :
  hist_ok cfg_repaired (cmd_node_guard cfg_repaired) empty_state ex_nodes = true /\
  hist_ok cfg_as_is (cmd_node_guard cfg_as_is) empty_state (firstn 8 ex_nodes) = true /\
  primary (run cfg_as_is empty_state (firstn 7 ex_nodes)) = "b" /\
  hist_ok cfg_as_is (cmd_node_guard cfg_as_is) empty_state ex_nodes = false.
Proof. vm_compute. auto. Qed.
