(* C23, writer bookkeeping: the invariant "only the node named by primaryWriterID is marked
   primary, and that node exists and is marked primary" over all histories whose node
   commands satisfy [cmd_node_guard]. *)
From Coq Require Import List ZArith Bool String Lia.
From RecordUpdate Require Import RecordSet.
From Arc Require Import Fsm.Key Fsm.KeyFacts Fsm.Model Fsm.Tactics.
Import ListNotations RecordSetNotations.
Open Scope string_scope.
Open Scope Z_scope.

Definition WriterOK (s : state) : Prop :=
  (forall k n, get k (nodes s) = Some n -> is_primary n = true -> k = KS (primary s) /\ sempty (primary s) = false)
  /\ (sempty (primary s) = false -> exists n, get (KS (primary s)) (nodes s) = Some n /\ is_primary n = true).

Lemma forallb_get {V} (p : key * V -> bool) (m : smap V) :
  sorted m -> (forallb p m = true <-> forall k v, get k m = Some v -> p (k, v) = true).
Proof.
  intros S. rewrite forallb_forall. split.
  - intros H k v Hg. apply H. apply get_in. exact Hg.
  - intros H [k v] Hin. apply H. apply in_get; assumption.
Qed.

Lemma writer_consistent_spec s : sorted (nodes s) -> (writer_consistent s = true <-> WriterOK s).
Proof.
  intros S. unfold writer_consistent, WriterOK. rewrite andb_true_iff, (forallb_get _ _ S). split.
  - intros [H1 H2]. split.
    + intros k n Hg Hp. specialize (H1 k n Hg). cbn in H1. rewrite Hp in H1.
      apply andb_true_iff in H1. destruct H1 as [Hk He]. apply keqb_eq in Hk.
      split; [exact Hk|]. destruct (sempty (primary s)); [discriminate|reflexivity].
    + intros He. rewrite He in H2. destruct (get (KS (primary s)) (nodes s)) as [n|]; [eauto|discriminate].
  - intros [H1 H2]. split.
    + intros k n Hg. cbn. destruct (is_primary n) eqn:Hp; [|reflexivity].
      destruct (H1 k n Hg Hp) as [-> He]. rewrite keqb_refl, He. reflexivity.
    + destruct (sempty (primary s)) eqn:He; [reflexivity|].
      destruct (H2 eq_refl) as [n [Hg Hp]]. rewrite Hg. exact Hp.
Qed.

Lemma is_primary_standby n : is_primary (n <| n_ws := "standby" |>) = false.
Proof. reflexivity. Qed.
Lemma is_primary_primary n : is_primary (n <| n_ws := "primary" |>) = true.
Proof. reflexivity. Qed.
Lemma is_primary_empty n : is_primary (n <| n_ws := "" |>) = false.
Proof. reflexivity. Qed.

Section Node.
Variable c : cfg.

(* AddNode / UpdateNode *)
Lemma put_node_shape s n :
  cmd_node_guard c s (CAddNode n) = true ->
  exists n', fst (apply_put_node c s n) = s <| nodes := put (KS (n_id n)) n' (nodes s) |> /\
             match get (KS (n_id n)) (nodes s) with
             | Some old => n_ws n' = n_ws old
             | None => is_primary n' = false
             end.
Proof.
  unfold cmd_node_guard, apply_put_node. destruct (fx_addws c); cbn [orb fst].
  - intros _. eexists. split; [reflexivity|]. cbn. destruct (get (KS (n_id n)) (nodes s)); reflexivity.
  - intros G. exists n. split; [reflexivity|].
    destruct (get (KS (n_id n)) (nodes s)) as [old|].
    + apply seqb_eq. exact G.
    + apply negb_true_iff. exact G.
Qed.

Lemma put_node_writer s n :
  WriterOK s -> cmd_node_guard c s (CAddNode n) = true -> WriterOK (fst (apply_put_node c s n)).
Proof.
  intros [W1 W2] G. destruct (put_node_shape s n G) as (n' & -> & Hws).
  unfold WriterOK; cbn. split.
  - intros k n0. rewrite get_put. destruct (keqb_spec k (KS (n_id n))) as [->|Ek].
    + intros [= <-] Hp. destruct (get (KS (n_id n)) (nodes s)) as [old|] eqn:Eo; [|congruence].
      apply (W1 _ old Eo). unfold is_primary in *. rewrite <- Hws. exact Hp.
    + apply W1.
  - intros He. destruct (W2 He) as [np [Hg Hp]]. rewrite get_put.
    destruct (keqb_spec (KS (primary s)) (KS (n_id n))) as [Ek|Ek]; [|eauto].
    exists n'. split; [reflexivity|]. rewrite <- Ek, Hg in Hws.
    unfold is_primary in *. rewrite Hws. exact Hp.
Qed.

Lemma remove_node_writer s id :
  WriterOK s -> cmd_node_guard c s (CRemoveNode id) = true -> WriterOK (fst (apply_remove_node c s id)).
Proof.
  intros [W1 W2] G. unfold apply_remove_node, cmd_node_guard in *. cbn [fst].
  destruct (fx_remove c) eqn:Fx; cbn [andb orb] in *.
  - destruct (seqb (primary s) id) eqn:Ep.
    + apply seqb_eq in Ep. unfold WriterOK; cbn. split.
      * intros k n0. rewrite get_del. destruct (keqb_spec k (KS id)) as [->|Ek]; [discriminate|].
        intros Hg Hp. destruct (W1 _ _ Hg Hp) as [-> _]. congruence.
      * intros He. discriminate.
    + apply seqb_neq in Ep. unfold WriterOK; cbn. split.
      * intros k n0. rewrite get_del. destruct (keqb_spec k (KS id)) as [->|Ek]; [discriminate|]. apply W1.
      * intros He. destruct (W2 He) as [np [Hg Hp]]. exists np. rewrite get_del_other; [auto|congruence].
  - unfold WriterOK; cbn. split.
    + intros k n0. rewrite get_del. destruct (keqb_spec k (KS id)) as [->|Ek]; [discriminate|]. apply W1.
    + intros He. destruct (W2 He) as [np [Hg Hp]]. exists np. rewrite get_del_other; [auto|].
      intros Hk. apply KS_inj in Hk. apply orb_true_iff in G. destruct G as [G|G].
      * apply negb_true_iff, seqb_neq in G. congruence.
      * congruence.
Qed.

Lemma update_node_state_writer s id st :
  WriterOK s -> WriterOK (fst (apply_update_node_state s id st)).
Proof.
  intros [W1 W2]. unfold apply_update_node_state. destruct (get (KS id) (nodes s)) as [n|] eqn:Eg; cbn [fst]; [|split; assumption].
  unfold WriterOK; cbn. split.
  - intros k n0. rewrite get_put. destruct (keqb_spec k (KS id)) as [->|Ek]; [|apply W1].
    intros [= <-] Hp. apply (W1 _ n Eg). exact Hp.
  - intros He. destruct (W2 He) as [np [Hg Hp]]. rewrite get_put.
    destruct (keqb_spec (KS (primary s)) (KS id)) as [Ek|Ek]; [|eauto].
    rewrite Ek, Eg in Hg. inversion Hg; subst np. eexists. split; [reflexivity|exact Hp].
Qed.

(* the demotion of the old primary inside applyPromoteWriter *)
Definition demote_old (s : state) (id : string) : smap node :=
  if (negb (sempty (primary s)) && negb (seqb (primary s) id))%bool
  then match get (KS (primary s)) (nodes s) with
       | Some on => put (KS (primary s)) (on <| n_ws := "standby" |>) (nodes s)
       | None => nodes s
       end
  else nodes s.

Lemma demote_old_primary s id k n0 :
  WriterOK s -> k <> KS id -> get k (demote_old s id) = Some n0 -> is_primary n0 = true -> False.
Proof.
  intros [W1 W2] Hk. unfold demote_old.
  destruct (sempty (primary s)) eqn:He; cbn [negb andb].
  - intros Hg Hp. destruct (W1 _ _ Hg Hp). congruence.
  - destruct (seqb (primary s) id) eqn:Ep; cbn [negb].
    + apply seqb_eq in Ep. intros Hg Hp. destruct (W1 _ _ Hg Hp). congruence.
    + destruct (W2 eq_refl) as [np [Hg Hp]]. rewrite Hg. rewrite get_put.
      destruct (keqb_spec k (KS (primary s))) as [->|Ek].
      * intros [= <-]. rewrite is_primary_standby. discriminate.
      * intros Hg' Hp'. destruct (W1 _ _ Hg' Hp'). congruence.
Qed.

Lemma demote_old_get s id n : get (KS id) (nodes s) = Some n ->
  exists n1, get (KS id) (demote_old s id) = Some n1.
Proof.
  intros Hg. unfold demote_old. destruct (negb (sempty (primary s)) && negb (seqb (primary s) id))%bool eqn:Eb; [|eauto].
  destruct (get (KS (primary s)) (nodes s)); [|eauto]. rewrite get_put.
  destruct (keqb (KS id) (KS (primary s))); eauto.
Qed.

Lemma promote_writer s id old :
  WriterOK s -> cmd_node_guard c s (CPromote id old) = true -> WriterOK (fst (apply_promote c s id old)).
Proof.
  intros W G. unfold apply_promote. destruct (sempty id) eqn:Eid; [exact W|].
  destruct (get (KS id) (nodes s)) as [n|] eqn:Eg.
  - destruct (negb (seqb (n_role n) "writer")); [exact W|].
    fold (demote_old s id). destruct (demote_old_get s id n Eg) as [n1 Hn1]. rewrite Hn1. cbn [fst].
    unfold WriterOK; cbn. split.
    + intros k n0. rewrite get_put. destruct (keqb_spec k (KS id)) as [->|Ek]; [auto|].
      intros Hg Hp. exfalso. eapply demote_old_primary; eassumption.
    + intros _. exists (n1 <| n_ws := "primary" |>). rewrite get_put_same. split; reflexivity.
  - unfold cmd_node_guard in G. destruct (fx_promote c); [exact W|]. cbn [orb] in G.
    apply has_true in G. destruct G as [v Hv]. congruence.
Qed.

Lemma demote_writer s id : WriterOK s -> WriterOK (fst (apply_demote s id)).
Proof.
  intros [W1 W2]. unfold apply_demote. destruct (sempty id) eqn:Eid; [split; assumption|].
  destruct (get (KS id) (nodes s)) as [n|] eqn:Eg.
  - destruct (seqb (primary s) id) eqn:Ep; cbn [fst]; unfold WriterOK; cbn.
    + apply seqb_eq in Ep. split; [|discriminate].
      intros k n0. rewrite get_put. destruct (keqb_spec k (KS id)) as [->|Ek].
      * intros [= <-]. rewrite is_primary_standby. discriminate.
      * intros Hg Hp. destruct (W1 _ _ Hg Hp). congruence.
    + apply seqb_neq in Ep. split.
      * intros k n0. rewrite get_put. destruct (keqb_spec k (KS id)) as [->|Ek]; [|apply W1].
        intros [= <-]. rewrite is_primary_standby. discriminate.
      * intros He. destruct (W2 He) as [np [Hg Hp]]. exists np. rewrite get_put_other; [auto|congruence].
  - destruct (seqb (primary s) id) eqn:Ep; cbn [fst]; unfold WriterOK; cbn.
    + apply seqb_eq in Ep. split; [|discriminate].
      intros k n0 Hg Hp. destruct (W1 _ _ Hg Hp) as [-> _]. congruence.
    + split; assumption.
Qed.

End Node.
