(* RBAC commands without cascade: Create* / Update* / DeleteMeasurementPermission /
   AddTokenToTeam / RemoveTokenFromTeam preserve the invariant. *)
From Coq Require Import List ZArith Bool String Lia.
From RecordUpdate Require Import RecordSet.
From Arc Require Import Fsm.Key Fsm.KeyFacts Fsm.Model Fsm.Tactics Fsm.IdxFacts Fsm.InvDefs Fsm.InvTok.
Import ListNotations RecordSetNotations.
Open Scope string_scope.
Open Scope Z_scope.

Lemma fkmono_put_same {A} (m : smap A) k v : FKmono (put k v m) (put k v m).
Proof. apply fkmono_refl. Qed.

Lemma inv_set_org n n' s os bn :
  Inv n s -> n <= n' -> GOrg os bn -> below n' os -> FKmono (orgs s) os ->
  Inv n' (s <| orgs := os |> <| orgByName := bn |>).
Proof.
  intros [ ] Hle G B M. constructor; cbn; try assumption; try (eapply below_mono; eassumption).
  eapply gteam_mono; eassumption.
Qed.

Lemma inv_set_team n n' s ts ix :
  Inv n s -> n <= n' -> GTeam (orgs s) ts ix -> below n' ts -> FKmono (teams s) ts ->
  Inv n' (s <| teams := ts |> <| teamsByOrg := ix |>).
Proof.
  intros [ ] Hle G B M. constructor; cbn; try assumption; try (eapply below_mono; eassumption).
  - eapply grole_mono; eassumption.
  - eapply gmem_mono; [eassumption|apply fkmono_refl|exact M].
Qed.

Lemma inv_set_role n n' s rs ix :
  Inv n s -> n <= n' -> GRole (teams s) rs ix -> below n' rs -> FKmono (roles s) rs ->
  Inv n' (s <| roles := rs |> <| rolesByTeam := ix |>).
Proof.
  intros [ ] Hle G B M. constructor; cbn; try assumption; try (eapply below_mono; eassumption).
  eapply gmp_mono; eassumption.
Qed.

Lemma inv_set_mp n n' s mps ix :
  Inv n s -> n <= n' -> GMp (roles s) mps ix -> below n' mps ->
  Inv n' (s <| mperms := mps |> <| mpByRole := ix |>).
Proof.
  intros [ ] Hle G B. constructor; cbn; try assumption; try (eapply below_mono; eassumption).
Qed.

Lemma inv_set_mem n n' s ms bp bt bm :
  Inv n s -> n <= n' -> GMem (tokens s) (teams s) ms bp bt bm -> below n' ms ->
  Inv n' (s <| mems := ms |> <| memByPair := bp |> <| memByToken := bt |> <| memByTeam := bm |>).
Proof.
  intros [ ] Hle G B. constructor; cbn; try assumption; try (eapply below_mono; eassumption).
Qed.

Lemma below_key_lt {V} n (m : smap V) id v : below n m -> get (KZ id) m = Some v -> id < n.
Proof. intros B Hg. destruct (B _ _ Hg) as [z [Hz1 Hz2]]. inversion Hz1. lia. Qed.

(* ---- organizations ------------------------------------------------------------------- *)

Lemma create_org_inv n s idx o : Inv n s -> n <= idx -> Inv (idx + 1) (fst (apply_create_org s idx o)).
Proof.
  intros HI Hle. assert (Hm : Inv (idx + 1) s) by (eapply inv_mono; [eassumption|lia]).
  unfold apply_create_org.
  destruct (negb (valid_org o)) eqn:Ev; [exact Hm|]. destruct (o_created o =? 0); [exact Hm|].
  set (e := o <| o_id := idx |> <| o_lsn := idx |> <| o_updated := _ |> <| o_enabled := true |>).
  destruct (has (KS (o_name e)) (orgByName s)) eqn:Hh; [exact Hm|]. cbn [fst].
  apply has_false in Hh. destruct (i_org _ _ HI) as (S & Hv & In_).
  pose proof (below_fresh _ _ _ (i_borg _ _ HI) Hle) as Hfresh.
  eapply inv_set_org; [exact HI|lia| |apply (below_put_new n); [apply (i_borg _ _ HI)|exact Hle]|apply fkmono_put].
  split; [apply sorted_put; exact S|]. split.
  - intros k o0. rewrite get_put. destruct (keqb k (KZ idx)); [|apply Hv].
    intros [= <-]. apply negb_false_iff in Ev. exact Ev.
  - apply (idx_insert kf_oname id_of _ _ (KZ idx) e); [exact Hfresh|exact Hh|exact In_].
Qed.

Lemma prevalid_named name desc ch :
  upd_named_prevalid name desc ch = true ->
  (In "name" ch -> valid_name name = true) /\ (In "description" ch -> valid_desc desc = true).
Proof.
  unfold upd_named_prevalid. rewrite forallb_forall. intros H. split; intros Hin; specialize (H _ Hin); cbn in H.
  - rewrite seqb_refl in H. apply andb_true_iff in H. tauto.
  - rewrite seqb_refl in H. apply andb_true_iff in H. tauto.
Qed.

Section LoopFacts.
  Context {E : Type} (get_name : E -> string) (set_name : string -> E -> E)
          (set_desc : string -> E -> E) (set_enabled : bool -> E -> E) (taken : string -> bool).
  Variables (existing : E) (name desc : string) (enabled : bool).
  Variable P : E -> bool -> Prop.
  Variables Qn Qd : Prop.
  Hypothesis Hdesc : forall u b, Qd -> P u b -> P (set_desc desc u) b.
  Hypothesis Hen : forall u b, P u b -> P (set_enabled enabled u) b.
  Hypothesis Hname : forall u, Qn -> P u false -> seqb name (get_name existing) = false -> taken name = false ->
                               P (set_name name u) true.

  Lemma upd_loop_inv fields : forall upd nc res,
    (In "name" fields -> Qn) -> (In "description" fields -> Qd) -> P upd nc ->
    upd_named_loop get_name set_name set_desc set_enabled taken existing name desc enabled fields upd nc = Some res ->
    P (fst res) (snd res).
  Proof.
    induction fields as [|f r IH]; intros upd nc res Hn Hd HP; cbn [upd_named_loop].
    - intros [= <-]. exact HP.
    - assert (Hn' : In "name" r -> Qn) by (intros; apply Hn; right; assumption).
      assert (Hd' : In "description" r -> Qd) by (intros; apply Hd; right; assumption).
      destruct (seqb f "name") eqn:Ef.
      + apply seqb_eq in Ef. subst f.
        destruct (seqb name (get_name existing)) eqn:En; cbn [negb andb].
        * apply IH; assumption.
        * destruct nc; cbn [negb].
          -- apply IH; assumption.
          -- destruct (taken name) eqn:Et; [discriminate|].
             apply IH; try assumption. apply Hname; try assumption; try reflexivity. apply Hn. left; reflexivity.
      + destruct (seqb f "description") eqn:Ef2.
        * apply seqb_eq in Ef2. subst f. apply IH; try assumption. apply Hdesc; [apply Hd; left; reflexivity|assumption].
        * destruct (seqb f "enabled"); apply IH; try assumption. apply Hen. assumption.
  Qed.
End LoopFacts.

Lemma update_org_inv n s idx id name desc en upd ch :
  Inv n s -> n <= idx -> Inv (idx + 1) (fst (apply_update_org s idx id name desc en upd ch)).
Proof.
  intros HI Hle. assert (Hm : Inv (idx + 1) s) by (eapply inv_mono; [eassumption|lia]).
  unfold apply_update_org. destruct (id =? 0); [exact Hm|].
  destruct (negb (upd_named_prevalid name desc ch)) eqn:Epv; [exact Hm|].
  apply negb_false_iff, prevalid_named in Epv. destruct Epv as [Qn Qd].
  destruct (get (KZ id) (orgs s)) as [ex|] eqn:Eg; [|exact Hm].
  destruct (i_org _ _ HI) as (S & Hv & In_).
  destruct (upd_named_loop _ _ _ _ _ ex name desc en ch ex false) as [[u nc]|] eqn:El; [|exact Hm].
  pose (P := fun (u : org) (b : bool) =>
     valid_desc (o_desc u) = true /\ valid_name (o_name u) = true /\
     (if b then o_name u = name /\ has (KS name) (orgByName s) = false else o_name u = o_name ex)).
  assert (HP : P u nc).
  { change u with (fst (u, nc)). change nc with (snd (u, nc)) at 2.
    eapply (upd_loop_inv o_name _ _ _ _ ex name desc en P (valid_name name = true) (valid_desc desc = true)); try eassumption.
    - intros u0 b Hq (H1 & H2 & H3). split; [exact Hq|]. split; [exact H2|]. destruct b; exact H3.
    - intros u0 b (H1 & H2 & H3). split; [exact H1|]. split; [exact H2|]. destruct b; exact H3.
    - intros u0 Hq (H1 & H2 & H3) _ Ht. split; [exact H1|]. split; [exact Hq|]. split; [reflexivity|exact Ht].
    - specialize (Hv _ _ Eg). unfold valid_org in Hv. apply andb_true_iff in Hv. destruct Hv. repeat split; assumption. }
  destruct HP as (Pd & Pn & Pc). cbn [fst].
  set (u2 := (if upd =? 0 then u else u <| o_updated := upd |>) <| o_lsn := idx |>).
  assert (Fn : o_name u2 = o_name u) by (unfold u2; destruct (upd =? 0); reflexivity).
  assert (Fd : o_desc u2 = o_desc u) by (unfold u2; destruct (upd =? 0); reflexivity).
  eapply inv_set_org; [exact HI|lia| | |apply fkmono_put].
  - split; [apply sorted_put; exact S|]. split.
    + intros k o0. rewrite get_put. destruct (keqb k (KZ id)); [|apply Hv].
      intros [= <-]. unfold valid_org. rewrite Fn, Fd, Pn, Pd. reflexivity.
    + destruct nc.
      * destruct Pc as [Pc1 Pc2].
        change (KS (o_name u2)) with (kf_oname (KZ id) u2). change (KS (o_name ex)) with (kf_oname (KZ id) ex).
        change (KZ id) with (id_of (KZ id) u2) at 2.
        apply (idx_rekey kf_oname id_of); [exact S|exact Eg|eapply kinj_id_of; exact In_|exact In_|].
        right. unfold kf_oname. rewrite Fn, Pc1. apply has_false. exact Pc2.
      * eapply (idx_update_same kf_oname id_of); [exact Eg| |reflexivity|exact In_].
        unfold kf_oname. rewrite Fn, Pc. reflexivity.
  - apply below_put; [eapply below_mono; [apply (i_borg _ _ HI)|lia]|].
    pose proof (below_key_lt _ _ _ _ (i_borg _ _ HI) Eg). lia.
Qed.

(* ---- teams --------------------------------------------------------------------------- *)

Lemma create_team_inv n s idx t : Inv n s -> n <= idx -> Inv (idx + 1) (fst (apply_create_team s idx t)).
Proof.
  intros HI Hle. assert (Hm : Inv (idx + 1) s) by (eapply inv_mono; [eassumption|lia]).
  unfold apply_create_team.
  destruct (negb (valid_team t)) eqn:Ev; [exact Hm|]. destruct (tm_created t =? 0); [exact Hm|].
  set (e := t <| tm_id := idx |> <| tm_lsn := idx |> <| tm_updated := _ |> <| tm_enabled := true |>).
  destruct (negb (has (KZ (tm_org e)) (orgs s))) eqn:Ho; [exact Hm|].
  destruct (has (tkey e) (teamsByOrg s)) eqn:Hh; [exact Hm|]. cbn [fst].
  apply has_false in Hh. apply negb_false_iff in Ho. destruct (i_team _ _ HI) as (S & Hv & In_).
  pose proof (below_fresh _ _ _ (i_bteam _ _ HI) Hle) as Hfresh.
  eapply inv_set_team; [exact HI|lia| |apply (below_put_new n); [apply (i_bteam _ _ HI)|exact Hle]|apply fkmono_put].
  split; [apply sorted_put; exact S|]. split.
  - intros k t0. rewrite get_put. destruct (keqb k (KZ idx)); [|apply Hv].
    intros [= <-]. apply negb_false_iff in Ev. split; [exact Ev|exact Ho].
  - apply (idx_insert kf_team id_of _ _ (KZ idx) e); [exact Hfresh|exact Hh|exact In_].
Qed.

Lemma update_team_inv n s idx id name desc en upd ch :
  Inv n s -> n <= idx -> Inv (idx + 1) (fst (apply_update_team s idx id name desc en upd ch)).
Proof.
  intros HI Hle. assert (Hm : Inv (idx + 1) s) by (eapply inv_mono; [eassumption|lia]).
  unfold apply_update_team. destruct (id =? 0); [exact Hm|].
  destruct (negb (upd_named_prevalid name desc ch)) eqn:Epv; [exact Hm|].
  apply negb_false_iff, prevalid_named in Epv. destruct Epv as [Qn Qd].
  destruct (get (KZ id) (teams s)) as [ex|] eqn:Eg; [|exact Hm].
  destruct (i_team _ _ HI) as (S & Hv & In_).
  destruct (upd_named_loop _ _ _ _ _ ex name desc en ch ex false) as [[u nc]|] eqn:El; [|exact Hm].
  pose (P := fun (u : team) (b : bool) =>
     valid_desc (tm_desc u) = true /\ valid_name (tm_name u) = true /\ tm_org u = tm_org ex /\
     (if b then tm_name u = name /\ has (KP (KZ (tm_org ex)) (KS name)) (teamsByOrg s) = false else tm_name u = tm_name ex)).
  destruct (Hv _ _ Eg) as [Hvx Hox].
  assert (HP : P u nc).
  { change u with (fst (u, nc)). change nc with (snd (u, nc)) at 2.
    eapply (upd_loop_inv tm_name _ _ _ _ ex name desc en P (valid_name name = true) (valid_desc desc = true)); try eassumption.
    - intros u0 b Hq (H1 & H2 & H3 & H4). split; [exact Hq|]. split; [exact H2|]. split; [exact H3|]. destruct b; exact H4.
    - intros u0 b (H1 & H2 & H3 & H4). split; [exact H1|]. split; [exact H2|]. split; [exact H3|]. destruct b; exact H4.
    - intros u0 Hq (H1 & H2 & H3 & H4) _ Ht. split; [exact H1|]. split; [exact Hq|]. split; [exact H3|]. split; [reflexivity|exact Ht].
    - unfold valid_team in Hvx. apply andb_true_iff in Hvx. destruct Hvx as [Hv12 Hv3].
      apply andb_true_iff in Hv12. destruct Hv12. repeat split; assumption. }
  destruct HP as (Pd & Pn & Po & Pc). cbn [fst].
  set (u2 := (if upd =? 0 then u else u <| tm_updated := upd |>) <| tm_lsn := idx |>).
  assert (Fn : tm_name u2 = tm_name u) by (unfold u2; destruct (upd =? 0); reflexivity).
  assert (Fd : tm_desc u2 = tm_desc u) by (unfold u2; destruct (upd =? 0); reflexivity).
  assert (Fo : tm_org u2 = tm_org ex) by (unfold u2; destruct (upd =? 0); cbn; exact Po).
  eapply inv_set_team; [exact HI|lia| | |apply fkmono_put].
  - split; [apply sorted_put; exact S|]. split.
    + intros k t0. rewrite get_put. destruct (keqb k (KZ id)); [|apply Hv].
      intros [= <-]. rewrite Fo. split; [|exact Hox].
      unfold valid_team in *. rewrite Fo, Fn, Fd, Pn, Pd.
      apply andb_true_iff in Hvx. destruct Hvx as [Hv12 _]. apply andb_true_iff in Hv12. destruct Hv12 as [Hv1 _].
      rewrite Hv1. reflexivity.
    + destruct nc.
      * destruct Pc as [Pc1 Pc2].
        replace (KP (KZ (tm_org ex)) (KS (tm_name u2))) with (kf_team (KZ id) u2) by (unfold kf_team, tkey; rewrite Fo; reflexivity).
        change (tkey ex) with (kf_team (KZ id) ex).
        change (KZ id) with (id_of (KZ id) u2) at 2.
        apply (idx_rekey kf_team id_of); [exact S|exact Eg|eapply kinj_id_of; exact In_|exact In_|].
        right. unfold kf_team, tkey. rewrite Fo, Fn, Pc1. apply has_false. exact Pc2.
      * eapply (idx_update_same kf_team id_of); [exact Eg| |reflexivity|exact In_].
        unfold kf_team, tkey. rewrite Fo, Fn, Pc. reflexivity.
  - apply below_put; [eapply below_mono; [apply (i_bteam _ _ HI)|lia]|].
    pose proof (below_key_lt _ _ _ _ (i_bteam _ _ HI) Eg). lia.
Qed.

(* ---- roles --------------------------------------------------------------------------- *)

Lemma create_role_inv n s idx r : Inv n s -> n <= idx -> Inv (idx + 1) (fst (apply_create_role s idx r)).
Proof.
  intros HI Hle. assert (Hm : Inv (idx + 1) s) by (eapply inv_mono; [eassumption|lia]).
  unfold apply_create_role.
  destruct (negb (valid_role r)) eqn:Ev; [exact Hm|]. destruct (r_created r =? 0); [exact Hm|].
  set (e := r <| r_id := idx |> <| r_lsn := idx |>).
  destruct (negb (has (KZ (r_team e)) (teams s))) eqn:Ho; [exact Hm|]. cbn [fst].
  apply negb_false_iff in Ho. destruct (i_role _ _ HI) as (S & Hv & In_).
  pose proof (below_fresh _ _ _ (i_brole _ _ HI) Hle) as Hfresh.
  eapply inv_set_role; [exact HI|lia| |apply (below_put_new n); [apply (i_brole _ _ HI)|exact Hle]|apply fkmono_put].
  split; [apply sorted_put; exact S|]. split.
  - intros k t0. rewrite get_put. destruct (keqb k (KZ idx)); [|apply Hv].
    intros [= <-]. apply negb_false_iff in Ev. split; [exact Ev|exact Ho].
  - apply (idx_insert kf_rteam tt_of _ _ (KZ idx) e); [exact Hfresh| |exact In_].
    eapply (idx_fresh_free kf_rteam tt_of); [unfold kf_rteam; congruence|exact Hfresh|exact In_].
Qed.

Lemma prevalid_role pat perms ch :
  upd_role_prevalid pat perms ch = true ->
  (In "database_pattern" ch -> valid_name pat = true) /\ (In "permissions" ch -> valid_perms perms = true).
Proof.
  unfold upd_role_prevalid. rewrite forallb_forall. intros H. split; intros Hin; specialize (H _ Hin); cbn in H.
  - rewrite seqb_refl in H. apply andb_true_iff in H. tauto.
  - rewrite seqb_refl in H. apply andb_true_iff in H. tauto.
Qed.

Lemma inb_in x l : inb x l = true <-> In x l.
Proof.
  unfold inb. rewrite existsb_exists. split.
  - intros [y [H1 H2]]. apply seqb_eq in H2. subst. exact H1.
  - intros H. exists x. split; [exact H|apply seqb_refl].
Qed.

Lemma update_role_inv n s idx id pat perms ch :
  Inv n s -> n <= idx -> Inv (idx + 1) (fst (apply_update_role s idx id pat perms ch)).
Proof.
  intros HI Hle. assert (Hm : Inv (idx + 1) s) by (eapply inv_mono; [eassumption|lia]).
  unfold apply_update_role. destruct (id =? 0); [exact Hm|].
  destruct (negb (upd_role_prevalid pat perms ch)) eqn:Epv; [exact Hm|].
  apply negb_false_iff, prevalid_role in Epv. destruct Epv as [Qp Qm].
  destruct (get (KZ id) (roles s)) as [ex|] eqn:Eg; [|exact Hm]. cbn [fst].
  destruct (i_role _ _ HI) as (S & Hv & In_). destruct (Hv _ _ Eg) as [Hvx Hox].
  set (u := (if inb "permissions" ch then _ else _) <| r_lsn := idx |>).
  assert (Ft : r_team u = r_team ex) by (unfold u; destruct (inb "permissions" ch), (inb "database_pattern" ch); reflexivity).
  assert (Fv : valid_role u = true).
  { unfold valid_role in *. rewrite Ft.
    apply andb_true_iff in Hvx. destruct Hvx as [Hv12 Hv3]. apply andb_true_iff in Hv12. destruct Hv12 as [Hv1 Hv2].
    rewrite Hv1. unfold u.
    destruct (inb "permissions" ch) eqn:E1, (inb "database_pattern" ch) eqn:E2; cbn;
      try rewrite (Qp (proj1 (inb_in _ _) E2)); try rewrite (Qm (proj1 (inb_in _ _) E1)); try rewrite Hv2; try rewrite Hv3; reflexivity. }
  replace (s <| roles := put (KZ id) u (roles s) |>) with (s <| roles := put (KZ id) u (roles s) |> <| rolesByTeam := rolesByTeam s |>)
    by (destruct s; reflexivity).
  eapply inv_set_role; [exact HI|lia| | |apply fkmono_put].
  - split; [apply sorted_put; exact S|]. split.
    + intros k t0. rewrite get_put. destruct (keqb k (KZ id)); [|apply Hv].
      intros [= <-]. rewrite Ft. split; assumption.
    + eapply (idx_update_same kf_rteam tt_of); [exact Eg| |reflexivity|exact In_].
      unfold kf_rteam. rewrite Ft. reflexivity.
  - apply below_put; [eapply below_mono; [apply (i_brole _ _ HI)|lia]|].
    pose proof (below_key_lt _ _ _ _ (i_brole _ _ HI) Eg). lia.
Qed.

(* ---- measurement permissions ---------------------------------------------------------- *)

Lemma create_mperm_inv n s idx p : Inv n s -> n <= idx -> Inv (idx + 1) (fst (apply_create_mperm s idx p)).
Proof.
  intros HI Hle. assert (Hm : Inv (idx + 1) s) by (eapply inv_mono; [eassumption|lia]).
  unfold apply_create_mperm.
  destruct (negb (valid_mperm p)) eqn:Ev; [exact Hm|]. destruct (mp_created p =? 0); [exact Hm|].
  set (e := p <| mp_id := idx |> <| mp_lsn := idx |>).
  destruct (negb (has (KZ (mp_role e)) (roles s))) eqn:Ho; [exact Hm|]. cbn [fst].
  apply negb_false_iff in Ho. destruct (i_mp _ _ HI) as (S & Hv & In_).
  pose proof (below_fresh _ _ _ (i_bmp _ _ HI) Hle) as Hfresh.
  eapply inv_set_mp; [exact HI|lia| |apply (below_put_new n); [apply (i_bmp _ _ HI)|exact Hle]].
  split; [apply sorted_put; exact S|]. split.
  - intros k t0. rewrite get_put. destruct (keqb k (KZ idx)); [|apply Hv].
    intros [= <-]. apply negb_false_iff in Ev. split; [exact Ev|exact Ho].
  - apply (idx_insert kf_mrole tt_of _ _ (KZ idx) e); [exact Hfresh| |exact In_].
    eapply (idx_fresh_free kf_mrole tt_of); [unfold kf_mrole; congruence|exact Hfresh|exact In_].
Qed.

Lemma delete_mperm_inv n s idx id : Inv n s -> n <= idx -> Inv (idx + 1) (fst (apply_delete_mperm s idx id)).
Proof.
  intros HI Hle. assert (Hm : Inv (idx + 1) s) by (eapply inv_mono; [eassumption|lia]).
  unfold apply_delete_mperm. destruct (id =? 0); [exact Hm|].
  destruct (get (KZ id) (mperms s)) as [ex|] eqn:Eg; [|exact Hm]. cbn [fst].
  destruct (i_mp _ _ HI) as (S & Hv & In_).
  eapply inv_set_mp; [exact HI|lia| |apply below_del; eapply below_mono; [apply (i_bmp _ _ HI)|lia]].
  split; [apply sorted_del; exact S|]. split.
  - intros k t0. rewrite get_del. destruct (keqb k (KZ id)); [discriminate|apply Hv].
  - change (KP (KZ (mp_role ex)) (KZ id)) with (kf_mrole (KZ id) ex).
    apply (idx_delete kf_mrole tt_of); [exact Eg|apply kinj_mrole|exact In_].
Qed.

(* ---- memberships ----------------------------------------------------------------------- *)

Lemma add_member_inv n s idx m : Inv n s -> n <= idx -> Inv (idx + 1) (fst (apply_add_member s idx m)).
Proof.
  intros HI Hle. assert (Hm : Inv (idx + 1) s) by (eapply inv_mono; [eassumption|lia]).
  unfold apply_add_member.
  destruct (negb (valid_mem m)) eqn:Ev; [exact Hm|]. destruct (m_created m =? 0); [exact Hm|].
  set (e := m <| m_id := idx |> <| m_lsn := idx |>).
  destruct (negb (has (KZ (m_token e)) (tokens s))) eqn:Ht; [exact Hm|].
  destruct (negb (has (KZ (m_team e)) (teams s))) eqn:Hteam; [exact Hm|].
  destruct (has (KP (KZ (m_token e)) (KZ (m_team e))) (memByPair s)) eqn:Hh; [exact Hm|]. cbn [fst].
  apply has_false in Hh. apply negb_false_iff in Ht, Hteam, Ev.
  destruct (i_mem _ _ HI) as (S & Hv & Ipair & Itok & Iteam).
  pose proof (below_fresh _ _ _ (i_bmem _ _ HI) Hle) as Hfresh.
  eapply inv_set_mem; [exact HI|lia| |apply (below_put_new n); [apply (i_bmem _ _ HI)|exact Hle]].
  split; [apply sorted_put; exact S|]. split; [|split; [|split]].
  - intros k t0. rewrite get_put. destruct (keqb k (KZ idx)); [|apply Hv].
    intros [= <-]. repeat split; assumption.
  - apply (idx_insert kf_pair id_of _ _ (KZ idx) e); [exact Hfresh|exact Hh|exact Ipair].
  - apply (idx_insert kf_mtoken tt_of _ _ (KZ idx) e); [exact Hfresh| |exact Itok].
    eapply (idx_fresh_free kf_mtoken tt_of); [unfold kf_mtoken; congruence|exact Hfresh|exact Itok].
  - apply (idx_insert kf_mteam tt_of _ _ (KZ idx) e); [exact Hfresh| |exact Iteam].
    eapply (idx_fresh_free kf_mteam tt_of); [unfold kf_mteam; congruence|exact Hfresh|exact Iteam].
Qed.

Lemma remove_member_inv n s idx tok tm : Inv n s -> n <= idx -> Inv (idx + 1) (fst (apply_remove_member s idx tok tm)).
Proof.
  intros HI Hle. assert (Hm : Inv (idx + 1) s) by (eapply inv_mono; [eassumption|lia]).
  unfold apply_remove_member. destruct ((tok =? 0) || (tm =? 0))%bool; [exact Hm|].
  destruct (get (KP (KZ tok) (KZ tm)) (memByPair s)) as [mid|] eqn:Eg; [|exact Hm]. cbn [fst].
  destruct (i_mem _ _ HI) as (S & Hv & Ipair & Itok & Iteam).
  apply (proj2 Ipair) in Eg. destruct Eg as (id' & e & Hg & Hk & Hid). unfold id_of in Hid. subst id'.
  unfold kf_pair in Hk. inversion Hk as [[Ht Hteam]]. clear Hk.
  assert (Hs : forall (s : state) a b c d,
             s <| memByPair := a |> <| memByToken := b |> <| memByTeam := c |> <| mems := d |>
             = s <| mems := d |> <| memByPair := a |> <| memByToken := b |> <| memByTeam := c |>)
    by (intros [] *; reflexivity).
  rewrite Hs. clear Hs.
  eapply inv_set_mem; [exact HI|lia| |apply below_del; eapply below_mono; [apply (i_bmem _ _ HI)|lia]].
  split; [apply sorted_del; exact S|]. split; [|split; [|split]].
  - intros k t0. rewrite get_del. destruct (keqb k mid); [discriminate|apply Hv].
  - exact (idx_delete kf_pair id_of _ _ mid e Hg (kinj_id_of _ _ _ Ipair) Ipair).
  - exact (idx_delete kf_mtoken tt_of _ _ mid e Hg (kinj_mtoken _) Itok).
  - exact (idx_delete kf_mteam tt_of _ _ mid e Hg (kinj_mteam _) Iteam).
Qed.
