(* Secondary indexes as functions of a primary map: the specification [IdxOK], how the
   incremental maintenance steps of the apply functions preserve it, and that it pins the
   index to the one Restore rebuilds ([build]). *)
From Coq Require Import List ZArith Bool String Lia.
From Arc Require Import Fsm.Key Fsm.KeyFacts Fsm.Model.
Import ListNotations.
Open Scope Z_scope.

Section Idx.
  Context {E V : Type} (kf : key -> E -> key) (vf : key -> E -> V).

  (* idx binds exactly the keys of the entries of m, to the values vf prescribes *)
  Definition IdxOK (m : smap E) (idx : smap V) : Prop :=
    sorted idx /\
    forall k v, get k idx = Some v <-> exists id e, get id m = Some e /\ kf id e = k /\ vf id e = v.

  (* no two entries of m share an index key *)
  Definition kinj (m : smap E) : Prop :=
    forall id e id' e', get id m = Some e -> get id' m = Some e' -> kf id e = kf id' e' -> id = id'.

  Lemma idx_get_intro m idx id e : IdxOK m idx -> get id m = Some e -> get (kf id e) idx = Some (vf id e).
  Proof. intros [_ H] Hg. apply H. eauto. Qed.

  Lemma idx_get_none m idx k : IdxOK m idx ->
    (get k idx = None <-> forall id e, get id m = Some e -> kf id e <> k).
  Proof.
    intros [_ H]. split.
    - intros Hn id e Hg Hk. rewrite (proj2 (H k (vf id e))) in Hn by eauto. discriminate.
    - intros Hall. destruct (get k idx) as [v|] eqn:Eg; [|reflexivity].
      apply H in Eg. destruct Eg as (id & e & Hg & Hk & _). exfalso. eapply Hall; eassumption.
  Qed.

  Lemma idx_insert m idx id e :
    get id m = None -> get (kf id e) idx = None -> IdxOK m idx ->
    IdxOK (put id e m) (put (kf id e) (vf id e) idx).
  Proof.
    intros Hfresh Hfree [S H]. split; [apply sorted_put; exact S|].
    intros k v. rewrite get_put. split.
    - destruct (keqb_spec k (kf id e)) as [Ek|Ek].
      + intros [= <-]. exists id, e. rewrite get_put_same. auto.
      + intros Hg. apply H in Hg. destruct Hg as (id' & e' & Hg & Hk & Hv).
        exists id', e'. rewrite get_put_other; [auto|]. intros ->. congruence.
    - intros (id' & e' & Hg & Hk & Hv). rewrite get_put in Hg.
      destruct (keqb_spec id' id) as [Ei|Ei].
      + inversion Hg; subst e' id'. rewrite <- Hk, keqb_refl. congruence.
      + assert (Hi : get k idx = Some v) by (apply H; eauto).
        destruct (keqb_spec k (kf id e)) as [Ek|Ek]; [congruence|exact Hi].
  Qed.

  Lemma idx_delete m idx id e :
    get id m = Some e -> kinj m -> IdxOK m idx -> IdxOK (del id m) (del (kf id e) idx).
  Proof.
    intros Hg Hinj [S H]. split; [apply sorted_del; exact S|].
    intros k v. rewrite get_del. split.
    - destruct (keqb_spec k (kf id e)) as [Ek|Ek]; [discriminate|].
      intros Hi. apply H in Hi. destruct Hi as (id' & e' & Hg' & Hk & Hv).
      exists id', e'. rewrite get_del_other; [auto|]. intros ->. congruence.
    - intros (id' & e' & Hg' & Hk & Hv). rewrite get_del in Hg'.
      destruct (keqb_spec id' id) as [Ei|Ei]; [discriminate|].
      destruct (keqb_spec k (kf id e)) as [Ek|Ek].
      + exfalso. apply Ei. eapply Hinj; try eassumption. congruence.
      + apply H. eauto.
  Qed.

  Lemma idx_update_same m idx id e0 e :
    get id m = Some e0 -> kf id e = kf id e0 -> vf id e = vf id e0 -> IdxOK m idx -> IdxOK (put id e m) idx.
  Proof.
    intros Hg Hk Hv [S H]. split; [exact S|].
    intros k v. rewrite H. split; intros (id' & e' & Hg' & Hk' & Hv').
    - destruct (keqb_spec id' id) as [Ei|Ei].
      + subst id'. exists id, e. rewrite get_put_same. rewrite Hg in Hg'. inversion Hg'; subst e'. rewrite Hk, Hv. auto.
      + exists id', e'. rewrite get_put_other by assumption. auto.
    - rewrite get_put in Hg'. destruct (keqb_spec id' id) as [Ei|Ei].
      + subst id'. inversion Hg'; subst e'. exists id, e0. rewrite <- Hk, <- Hv. auto.
      + exists id', e'. auto.
  Qed.

  (* change of the index key of one entry: the new key must be free (or be the old one) *)
  Lemma idx_rekey m idx id e0 e :
    sorted m -> get id m = Some e0 -> kinj m -> IdxOK m idx ->
    (kf id e = kf id e0 \/ get (kf id e) idx = None) ->
    IdxOK (put id e m) (put (kf id e) (vf id e) (del (kf id e0) idx)).
  Proof.
    intros Sm Hg Hinj Hok Hfree.
    rewrite <- (put_del_same id e m Sm).
    apply idx_insert.
    - apply get_del_same.
    - rewrite get_del. destruct Hfree as [-> | Hn]; [rewrite keqb_refl; reflexivity|].
      rewrite Hn. destruct (keqb _ _); reflexivity.
    - apply idx_delete; assumption.
  Qed.

  Lemma idxok_kinj_val m idx :
    (forall id e id' e', vf id e = vf id' e' -> id = id') -> IdxOK m idx -> kinj m.
  Proof.
    intros Hv Hok id e id' e' Hg Hg' Hk.
    pose proof (idx_get_intro _ _ _ _ Hok Hg) as H1. pose proof (idx_get_intro _ _ _ _ Hok Hg') as H2.
    rewrite Hk in H1. rewrite H1 in H2. inversion H2. eapply Hv; eassumption.
  Qed.

  Lemma kinj_key m : (forall id e id' e', kf id e = kf id' e' -> id = id') -> kinj m.
  Proof. intros H id e id' e' _ _. apply H. Qed.

  Lemma idx_fresh_free m idx id e :
    (forall id e id' e', kf id e = kf id' e' -> id = id') -> get id m = None -> IdxOK m idx -> get (kf id e) idx = None.
  Proof.
    intros Hk Hn Hok. apply (idx_get_none _ _ _ Hok). intros id' e' Hg Heq.
    apply Hk in Heq. subst id'. congruence.
  Qed.

  (* ---- the rebuilt index ------------------------------------------------------------ *)

  Definition bstep (acc : smap V) (kv : key * E) : smap V := put (kf (fst kv) (snd kv)) (vf (fst kv) (snd kv)) acc.
  Definition ostep (k : key) (r : option V) (kv : key * E) : option V :=
    if keqb k (kf (fst kv) (snd kv)) then Some (vf (fst kv) (snd kv)) else r.

  Lemma build_unfold m : build kf vf m = fold_left bstep m [].
  Proof. reflexivity. Qed.

  Lemma fold_bstep_sorted l : forall acc, sorted acc -> sorted (fold_left bstep l acc).
  Proof. induction l; cbn; intros; [assumption|]. apply IHl. apply sorted_put. assumption. Qed.

  Lemma build_sorted m : sorted (build kf vf m).
  Proof. rewrite build_unfold. apply fold_bstep_sorted. exact I. Qed.

  Lemma fold_bstep_get l : forall acc k, get k (fold_left bstep l acc) = fold_left (ostep k) l (get k acc).
  Proof.
    induction l as [|x l IH]; cbn [fold_left]; intros; [reflexivity|].
    rewrite IH. f_equal. unfold bstep, ostep. apply get_put.
  Qed.

  Lemma ostep_pair k r id e : ostep k r (id, e) = if keqb k (kf id e) then Some (vf id e) else r.
  Proof. reflexivity. Qed.

  Lemma fold_ostep_none k l : forall init,
    (forall id e, In (id, e) l -> kf id e <> k) -> fold_left (ostep k) l init = init.
  Proof.
    induction l as [|[id e] l IH]; cbn [fold_left]; intros init H; [reflexivity|].
    rewrite IH by (intros; eapply H; right; eassumption).
    rewrite ostep_pair. rewrite keqb_neq; [reflexivity|]. intros Heq. eapply (H id e); [left; reflexivity|]. auto.
  Qed.

  Lemma fold_ostep_const k l v0 :
    (forall id e, In (id, e) l -> kf id e = k -> vf id e = v0) -> fold_left (ostep k) l (Some v0) = Some v0.
  Proof.
    induction l as [|[id e] l IH]; cbn [fold_left]; intros H; [reflexivity|].
    rewrite ostep_pair. destruct (keqb_spec k (kf id e)) as [Ek|Ek].
    - rewrite (H id e) by (auto; left; reflexivity). apply IH. intros; eapply H; eauto; right; assumption.
    - apply IH. intros; eapply H; eauto; right; assumption.
  Qed.

  Lemma fold_ostep_some k l id e : forall init,
    In (id, e) l -> kf id e = k ->
    (forall id' e', In (id', e') l -> kf id' e' = k -> vf id' e' = vf id e) ->
    fold_left (ostep k) l init = Some (vf id e).
  Proof.
    induction l as [|[id1 e1] l IH]; cbn [fold_left]; intros init Hin Hk Hall; [contradiction|].
    destruct Hin as [Heq|Hin].
    - inversion Heq; subst id1 e1. rewrite ostep_pair, Hk, keqb_refl.
      apply fold_ostep_const. intros; eapply Hall; eauto; right; assumption.
    - apply IH; [assumption|assumption|]. intros; eapply Hall; eauto; right; assumption.
  Qed.

  Lemma build_ok m :
    sorted m ->
    (forall id e id' e', get id m = Some e -> get id' m = Some e' -> kf id e = kf id' e' -> vf id e = vf id' e') ->
    IdxOK m (build kf vf m).
  Proof.
    intros S Hfun. split; [apply build_sorted|].
    intros k v. rewrite build_unfold, fold_bstep_get. cbn [get]. split.
    - intros Hf.
      destruct (existsb (fun kv => keqb k (kf (fst kv) (snd kv))) m) eqn:Ex.
      + apply existsb_exists in Ex. destruct Ex as [[id e] [Hin Hk]]. cbn in Hk. apply keqb_eq in Hk.
        exists id, e. split; [apply in_get; assumption|]. split; [congruence|].
        rewrite (fold_ostep_some k m id e) in Hf; [congruence|assumption|congruence|].
        intros id' e' Hin' Hk'. symmetry. eapply Hfun; try (apply in_get; eassumption). congruence.
      + rewrite fold_ostep_none in Hf; [discriminate|].
        intros id e Hin Hk. assert (existsb (fun kv => keqb k (kf (fst kv) (snd kv))) m = true); [|congruence].
        apply existsb_exists. exists (id, e). cbn. split; [assumption|]. rewrite Hk. apply keqb_refl.
    - intros (id & e & Hg & Hk & Hv). rewrite <- Hv.
      apply fold_ostep_some; [apply get_in; assumption|assumption|].
      intros id' e' Hin' Hk'. symmetry. eapply Hfun; try eassumption; [apply in_get; eassumption|congruence].
  Qed.

  Lemma idxok_fun m idx : IdxOK m idx ->
    forall id e id' e', get id m = Some e -> get id' m = Some e' -> kf id e = kf id' e' -> vf id e = vf id' e'.
  Proof.
    intros Hok id e id' e' Hg Hg' Hk.
    pose proof (idx_get_intro _ _ _ _ Hok Hg) as H1. pose proof (idx_get_intro _ _ _ _ Hok Hg') as H2.
    rewrite Hk in H1. congruence.
  Qed.

  (* the specification determines the index: it is the one Restore would rebuild *)
  Lemma idxok_is_build m idx : sorted m -> IdxOK m idx -> idx = build kf vf m.
  Proof.
    intros S Hok. pose proof (build_ok m S (idxok_fun _ _ Hok)) as Hb.
    apply smap_ext; [apply Hok|apply Hb|].
    intros k. apply option_ext. intros v. rewrite (proj2 Hok), (proj2 Hb). reflexivity.
  Qed.
End Idx.
