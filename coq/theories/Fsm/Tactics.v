(* Proof engineering shared by the Fsm proofs: which definitions stay folded, case-splitting
   tactics, string facts. *)
From Coq Require Import List ZArith Bool String.
From RecordUpdate Require Import RecordSet.
From Arc Require Import Fsm.Key Fsm.KeyFacts Fsm.Model.
Import ListNotations.
Open Scope string_scope.
Open Scope Z_scope.

Arguments valid_path : simpl never.
Arguments valid_perms : simpl never.
Arguments valid_hash_prefix : simpl never.
Arguments valid_name : simpl never.
Arguments valid_desc : simpl never.
Arguments valid_token : simpl never.
Arguments valid_org : simpl never.
Arguments valid_team : simpl never.
Arguments valid_role : simpl never.
Arguments valid_mperm : simpl never.
Arguments valid_mem : simpl never.
Arguments inb : simpl never.
Arguments seqb : simpl never.
Arguments sempty : simpl never.
Arguments has : simpl never.
Arguments keqb : simpl never.
Arguments get : simpl never.
Arguments put : simpl never.
Arguments del : simpl never.
Arguments dels : simpl never.
Arguments sel1 : simpl never.
Arguments del1 : simpl never.
Arguments build : simpl never.
Arguments time_zero : simpl never.
Arguments upd_named_prevalid : simpl never.
Arguments upd_role_prevalid : simpl never.
Arguments file_payload_ok : simpl never.

Ltac break_if := match goal with |- context [if ?b then _ else _] => destruct b eqn:? end.
Ltac break_match := match goal with |- context [match ?x with _ => _ end] => destruct x eqn:? end.
Ltac break_match_hyp :=
  match goal with H : context [match ?x with _ => _ end] |- _ => destruct x eqn:? end.

Lemma seqb_eq a b : seqb a b = true <-> a = b.
Proof. apply String.eqb_eq. Qed.
Lemma seqb_neq a b : seqb a b = false <-> a <> b.
Proof. apply String.eqb_neq. Qed.
Lemma seqb_refl a : seqb a a = true.
Proof. apply String.eqb_refl. Qed.
Lemma sempty_true s : sempty s = true <-> s = "".
Proof. destruct s; unfold sempty; split; congruence. Qed.
Lemma sempty_false s : sempty s = false <-> s <> "".
Proof. destruct s; unfold sempty; split; congruence. Qed.

Lemma KS_inj a b : KS a = KS b -> a = b.
Proof. congruence. Qed.
Lemma KZ_inj a b : KZ a = KZ b -> a = b.
Proof. congruence. Qed.
