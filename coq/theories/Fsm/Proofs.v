(* Assembly: every command preserves the invariant; histories; the lemmas behind the
   C22 / C23 theorems of PropsC22.v and PropsC23.v. *)
From Coq Require Import List ZArith Bool String Lia.
From RecordUpdate Require Import RecordSet.
From Arc Require Import Fsm.Key Fsm.KeyFacts Fsm.Model Fsm.Tactics Fsm.IdxFacts Fsm.InvDefs Fsm.InvFile
  Fsm.InvTok Fsm.InvRbac Fsm.InvCascade Fsm.RestoreFacts Fsm.ProofsNode.
Import ListNotations RecordSetNotations.
Open Scope string_scope.
Open Scope Z_scope.

(* ---- frames --------------------------------------------------------------------------- *)

Definition same_nodes (s s' : state) : Prop := nodes s' = nodes s /\ primary s' = primary s.
Definition same_files (s s' : state) : Prop := files s' = files s /\ filesByDB s' = filesByDB s.
Definition same_tokens (s s' : state) : Prop := tokens s' = tokens s.
Definition same_auth (s s' : state) : Prop :=
  files s' = files s /\ filesByDB s' = filesByDB s /\ tokens s' = tokens s /\ tokByPrefix s' = tokByPrefix s
  /\ tokByName s' = tokByName s /\ orgs s' = orgs s /\ orgByName s' = orgByName s /\ teams s' = teams s
  /\ teamsByOrg s' = teamsByOrg s /\ roles s' = roles s /\ rolesByTeam s' = rolesByTeam s /\ mperms s' = mperms s
  /\ mpByRole s' = mpByRole s /\ mems s' = mems s /\ memByPair s' = memByPair s /\ memByToken s' = memByToken s
  /\ memByTeam s' = memByTeam s.

Ltac frame := repeat break_match; cbn; repeat split; reflexivity.

Definition is_node_cmd (cm : cmd) : bool :=
  match cm with
  | CAddNode _ | CRemoveNode _ | CUpdateNode _ | CUpdateNodeState _ _ | CPromote _ _ | CDemote _ | CAssignCompactor _ _ => true
  | _ => false
  end.
Definition is_file_cmd (cm : cmd) : bool :=
  match cm with CRegisterFile _ | CDeleteFile _ _ | CBatch _ | CUpdateFile _ => true | _ => false end.
Definition is_token_cmd (cm : cmd) : bool :=
  match cm with
  | CCreateToken _ | CUpdateToken _ _ _ _ _ _ | CRevokeToken _ | CDeleteToken _ | CRotateToken _ _ _ => true
  | _ => false
  end.

Section Cmd.
Variable c : cfg.

Lemma filestep_fields g s s' : FileStep g s s' ->
  same_nodes s s' /\ same_tokens s s'.
Proof. intros (fs & ix & -> & _). cbn. repeat split. Qed.

Lemma file_cmd_step s idx cm : is_file_cmd cm = true ->
  FileStep (cmd_file_guard c cm) s (fst (apply c s idx cm)).
Proof.
  destruct cm; try discriminate; intros _; cbn [apply cmd_file_guard].
  - apply register_step.
  - apply delete_step.
  - exact (batch_step c s idx ops).
  - apply update_step.
Qed.

Lemma frame_nodes s idx cm : is_node_cmd cm = false -> same_nodes s (fst (apply c s idx cm)).
Proof.
  intros Hn. destruct (is_file_cmd cm) eqn:Hf.
  - apply (filestep_fields _ _ _ (file_cmd_step s idx cm Hf)).
  - destruct cm; try discriminate; unfold same_nodes; cbn [apply];
      try (unfold apply_create_token, apply_update_token, apply_revoke_token, apply_delete_token, apply_rotate_token,
             apply_create_org, apply_update_org, apply_delete_org, apply_create_team, apply_update_team, apply_delete_team,
             apply_create_role, apply_update_role, apply_delete_role, apply_create_mperm, apply_delete_mperm,
             apply_add_member, apply_remove_member; frame).
Qed.

Lemma frame_files s idx cm : is_file_cmd cm = false -> same_files s (fst (apply c s idx cm)).
Proof.
  intros Hn. destruct cm; try discriminate; unfold same_files; cbn [apply];
    try (unfold apply_put_node, apply_remove_node, apply_update_node_state, apply_promote, apply_demote, apply_assign_compactor,
           apply_create_token, apply_update_token, apply_revoke_token, apply_delete_token, apply_rotate_token,
           apply_create_org, apply_update_org, apply_delete_org, apply_create_team, apply_update_team, apply_delete_team,
           apply_create_role, apply_update_role, apply_delete_role, apply_create_mperm, apply_delete_mperm,
           apply_add_member, apply_remove_member; frame).
Qed.

Lemma frame_tokens s idx cm : is_token_cmd cm = false -> same_tokens s (fst (apply c s idx cm)).
Proof.
  intros Hn. destruct (is_file_cmd cm) eqn:Hf.
  - apply (filestep_fields _ _ _ (file_cmd_step s idx cm Hf)).
  - destruct cm; try discriminate; unfold same_tokens; cbn [apply];
      try (unfold apply_put_node, apply_remove_node, apply_update_node_state, apply_promote, apply_demote, apply_assign_compactor,
             apply_create_org, apply_update_org, apply_delete_org, apply_create_team, apply_update_team, apply_delete_team,
             apply_create_role, apply_update_role, apply_delete_role, apply_create_mperm, apply_delete_mperm,
             apply_add_member, apply_remove_member; frame).
Qed.

Lemma frame_auth s idx cm : is_node_cmd cm = true -> same_auth s (fst (apply c s idx cm)).
Proof.
  intros Hn. destruct cm; try discriminate; unfold same_auth; cbn [apply];
    unfold apply_put_node, apply_remove_node, apply_update_node_state, apply_promote, apply_demote, apply_assign_compactor; frame.
Qed.

Lemma inv_same_auth n s s' : Inv n s -> same_auth s s' -> sorted (nodes s') -> Inv n s'.
Proof.
  intros HI H S. unfold same_auth in H. destruct s', s. cbn in *.
  destruct H as (-> & -> & -> & -> & -> & -> & -> & -> & -> & -> & -> & -> & -> & -> & -> & -> & ->).
  destruct HI. constructor; cbn in *; assumption.
Qed.

Lemma node_cmd_sorted s idx cm : is_node_cmd cm = true -> sorted (nodes s) -> sorted (nodes (fst (apply c s idx cm))).
Proof.
  intros Hn S. destruct cm; try discriminate; cbn [apply];
    try (unfold apply_put_node, apply_remove_node, apply_update_node_state, apply_promote, apply_assign_compactor;
         repeat break_match; cbn; repeat (apply sorted_put || apply sorted_del); exact S).
  unfold apply_demote. destruct (sempty id); [exact S|].
  destruct (get (KS id) (nodes s)); destruct (seqb (primary s) id); cbn; try apply sorted_put; exact S.
Qed.

(* ---- every command preserves the invariant ---------------------------------------------- *)

Lemma inv_set_files n s fs ix : Inv n s -> GFile fs -> Inv n (s <| filesByDB := ix |> <| files := fs |>).
Proof. intros [ ] G. constructor; cbn; assumption. Qed.

Lemma apply_inv n s idx cm : Inv n s -> n <= idx -> Inv (idx + 1) (fst (apply c s idx cm)).
Proof.
  intros HI Hle. assert (Hm : Inv (idx + 1) s) by (eapply inv_mono; [eassumption|lia]).
  destruct (is_node_cmd cm) eqn:Hn.
  { eapply inv_same_auth; [exact Hm|apply frame_auth; exact Hn|apply node_cmd_sorted; [exact Hn|apply (i_nodes _ _ Hm)]]. }
  destruct (is_file_cmd cm) eqn:Hf.
  { destruct (file_cmd_step s idx cm Hf) as (fs & ix & -> & G & _). apply inv_set_files; [exact Hm|]. apply G. apply (i_file _ _ Hm). }
  destruct cm; try discriminate; cbn [apply].
  - apply (create_token_inv n); assumption.
  - apply (update_token_inv c n); assumption.
  - apply (revoke_token_inv n); assumption.
  - apply (delete_token_inv n); assumption.
  - apply (rotate_token_inv n); assumption.
  - apply (create_org_inv n); assumption.
  - apply (update_org_inv n); assumption.
  - apply (delete_org_inv n); assumption.
  - apply (create_team_inv n); assumption.
  - apply (update_team_inv n); assumption.
  - apply (delete_team_inv n); assumption.
  - apply (create_role_inv n); assumption.
  - apply (update_role_inv n); assumption.
  - apply (delete_role_inv n); assumption.
  - apply (create_mperm_inv n); assumption.
  - apply (delete_mperm_inv n); assumption.
  - apply (add_member_inv n); assumption.
  - apply (remove_member_inv n); assumption.
  - exact Hm.
Qed.

Lemma apply_fileidx n s idx cm :
  Inv n s -> FileIdx (files s) (filesByDB s) -> cmd_file_guard c cm = true ->
  FileIdx (files (fst (apply c s idx cm))) (filesByDB (fst (apply c s idx cm))).
Proof.
  intros HI FI G. destruct (is_file_cmd cm) eqn:Hf.
  - destruct (file_cmd_step s idx cm Hf) as (fs & ix & -> & _ & H). cbn. apply H; [exact G|apply (i_file _ _ HI)|exact FI].
  - destruct (frame_files s idx cm Hf) as [-> ->]. exact FI.
Qed.

Lemma apply_tokvalid s idx cm :
  TokValid (tokens s) -> cmd_token_guard c cm = true -> TokValid (tokens (fst (apply c s idx cm))).
Proof.
  intros TV G. destruct (is_token_cmd cm) eqn:Ht.
  - destruct cm; try discriminate; cbn [apply].
    + apply create_token_valid; exact TV.
    + apply update_token_valid; assumption.
    + apply revoke_token_valid; exact TV.
    + apply delete_token_valid; exact TV.
    + apply rotate_token_valid; exact TV.
  - rewrite (frame_tokens s idx cm Ht). exact TV.
Qed.

Lemma apply_writer s idx cm :
  WriterOK s -> cmd_node_guard c s cm = true -> WriterOK (fst (apply c s idx cm)).
Proof.
  intros W G. destruct (is_node_cmd cm) eqn:Hn.
  - destruct cm; try discriminate; cbn [apply].
    + apply put_node_writer; assumption.
    + apply remove_node_writer; assumption.
    + apply put_node_writer; assumption.
    + apply update_node_state_writer; assumption.
    + apply promote_writer; assumption.
    + apply demote_writer; assumption.
    + unfold apply_assign_compactor. destruct (sempty id); exact W.
  - destruct (frame_nodes s idx cm Hn) as [H1 H2]. unfold WriterOK. rewrite H1, H2. exact W.
Qed.

(* ---- histories ---------------------------------------------------------------------------- *)


Lemma idx_incr_mono h : forall n n', n' <= n -> idx_incr n h -> idx_incr n' h.
Proof.
  induction h as [|[i cm| |sn] r IH]; cbn; intros n n' Hle H; auto.
  - destruct H. split; [lia|assumption].
  - eapply IH; eassumption.
  - eapply IH; eassumption.
Qed.

(* Inv is preserved along any history without arbitrary-snapshot installs *)
Lemma run_inv h : forall n s,
  Inv n s -> idx_incr n h -> hist_ok c no_guard s h = true -> exists n', Inv n' (run c s h).
Proof.
  induction h as [|st r IH]; intros n s HI Hinc Hok; cbn [run]; [eauto|].
  cbn [hist_ok] in Hok. apply andb_true_iff in Hok. destruct Hok as [Hst Hok].
  destruct st as [i cm| |sn]; cbn [do_step] in *; try discriminate.
  - destruct Hinc as [Hle Hinc]. eapply IH; [apply (apply_inv n); assumption|exact Hinc|exact Hok].
  - eapply IH; [apply (restore_snapshot_inv n s HI)|exact Hinc|exact Hok].
Qed.

(* weakening the guard *)
Lemma hist_ok_weaken (g g' : state -> cmd -> bool) h : forall s,
  (forall s cm, g s cm = true -> g' s cm = true) -> hist_ok c g s h = true -> hist_ok c g' s h = true.
Proof.
  induction h as [|st r IH]; intros s Hgg; cbn [hist_ok]; [auto|].
  intros H. apply andb_true_iff in H. destruct H as [H1 H2]. apply andb_true_iff. split.
  - destruct st; auto.
  - apply IH; assumption.
Qed.

(* the full package under both C22 guards *)
Definition c22_guard (_ : state) (cm : cmd) : bool := (cmd_file_guard c cm && cmd_token_guard c cm)%bool.

Definition Good (n : Z) (s : state) : Prop :=
  Inv n s /\ FileIdx (files s) (filesByDB s) /\ TokValid (tokens s).

Lemma step_good n s st :
  Good n s ->
  (match st with SCmd i cm => n <= i /\ c22_guard s cm = true | SSnap => True | SRestore _ => False end) ->
  Good (match st with SCmd i _ => i + 1 | _ => n end) (fst (do_step c s st)).
Proof.
  intros (HI & FI & TV) H. destruct st as [i cm| |sn]; cbn [do_step fst]; [|rewrite (restore_snapshot_id n s HI FI TV); exact (conj HI (conj FI TV))|contradiction].
  destruct H as [Hle G]. unfold c22_guard in G. apply andb_true_iff in G. destruct G as [G1 G2].
  split; [apply (apply_inv n); assumption|]. split; [eapply apply_fileidx; eassumption|apply apply_tokvalid; assumption].
Qed.

Lemma run_good h : forall n s,
  Good n s -> idx_incr n h -> hist_ok c c22_guard s h = true -> exists n', Good n' (run c s h).
Proof.
  induction h as [|st r IH]; intros n s HG Hinc Hok; cbn [run]; [eauto|].
  cbn [hist_ok] in Hok. apply andb_true_iff in Hok. destruct Hok as [Hst Hok].
  destruct st as [i cm| |sn]; try discriminate.
  - destruct Hinc as [Hle Hinc]. eapply IH; [apply (step_good n s (SCmd i cm) HG); auto|exact Hinc|exact Hok].
  - eapply IH; [apply (step_good n s SSnap HG); exact I|exact Hinc|exact Hok].
Qed.

(* only the file guard: the filesByDB index stays right (a snapshot-restart re-establishes it anyway) *)
Definition file_guard (_ : state) (cm : cmd) : bool := cmd_file_guard c cm.
Definition token_guard (_ : state) (cm : cmd) : bool := cmd_token_guard c cm.

Lemma run_fileidx h : forall n s,
  Inv n s -> FileIdx (files s) (filesByDB s) -> idx_incr n h -> hist_ok c file_guard s h = true ->
  exists n', Inv n' (run c s h) /\ FileIdx (files (run c s h)) (filesByDB (run c s h)).
Proof.
  induction h as [|st r IH]; intros n s HI FI Hinc Hok; cbn [run]; [eauto|].
  cbn [hist_ok] in Hok. apply andb_true_iff in Hok. destruct Hok as [Hst Hok].
  destruct st as [i cm| |sn]; cbn [do_step fst] in *; try discriminate.
  - destruct Hinc as [Hle Hinc]. eapply IH; [apply (apply_inv n); assumption|eapply apply_fileidx; eassumption|exact Hinc|exact Hok].
  - destruct (restore_snapshot_inv n s HI) as (HI' & FI' & _). eapply IH; eassumption.
Qed.

Lemma run_tokvalid h : forall n s,
  Inv n s -> TokValid (tokens s) -> idx_incr n h -> hist_ok c token_guard s h = true ->
  TokValid (tokens (run c s h)).
Proof.
  induction h as [|st r IH]; intros n s HI TV Hinc Hok; cbn [run]; [exact TV|].
  cbn [hist_ok] in Hok. apply andb_true_iff in Hok. destruct Hok as [Hst Hok].
  destruct st as [i cm| |sn]; cbn [do_step fst] in *; try discriminate.
  - destruct Hinc as [Hle Hinc]. eapply IH; [apply (apply_inv n); assumption|apply apply_tokvalid; assumption|exact Hinc|exact Hok].
  - destruct (restore_snapshot_inv n s HI) as (HI' & _ & TV'). eapply IH; eassumption.
Qed.

Lemma run_writer h : forall s,
  WriterOK s -> hist_ok c (cmd_node_guard c) s h = true -> WriterOK (run c s h).
Proof.
  induction h as [|st r IH]; intros s W Hok; cbn [run]; [exact W|].
  cbn [hist_ok] in Hok. apply andb_true_iff in Hok. destruct Hok as [Hst Hok].
  destruct st as [i cm| |sn]; cbn [do_step fst] in *; try discriminate.
  - apply IH; [apply apply_writer; assumption|exact Hok].
  - apply IH; [|exact Hok]. exact W.
Qed.

Lemma run_app h1 : forall s h2, run c s (h1 ++ h2) = run c (run c s h1) h2.
Proof. induction h1; intros; cbn; [reflexivity|apply IHh1]. Qed.

Lemma hist_ok_app g h1 : forall s h2,
  hist_ok c g s (h1 ++ h2) = (hist_ok c g s h1 && hist_ok c g (run c s h1) h2)%bool.
Proof.
  induction h1 as [|st r IH]; intros; cbn [app hist_ok run]; [reflexivity|].
  rewrite IH. rewrite andb_assoc. reflexivity.
Qed.

Lemma idx_incr_app h1 : forall n h2, idx_incr n (h1 ++ h2) -> idx_incr n h1 /\ exists n', idx_incr n' h2.
Proof.
  induction h1 as [|[i cm| |sn] r IH]; intros n h2; cbn [app idx_incr].
  - intros H. split; [exact I|eauto].
  - intros [Hle H]. destruct (IH _ _ H) as [H1 H2]. auto.
  - apply IH.
  - apply IH.
Qed.

End Cmd.

(* ---- executable predicates vs. the invariant ---------------------------------------------- *)

Lemma smap_eqb_refl {V} (veqb : V -> V -> bool) (m : smap V) : (forall v, veqb v v = true) -> smap_eqb veqb m m = true.
Proof. intros H. induction m as [|[k v] r IH]; cbn; [reflexivity|]. rewrite keqb_refl, H, IH. reflexivity. Qed.

Lemma indexes_agree_of_inv n s : Inv n s -> FileIdx (files s) (filesByDB s) -> indexes_agree s = true.
Proof.
  intros HI FI. unfold indexes_agree, file_index_agrees, auth_indexes_agree.
  pose proof HI as [ Sn GF [Stk [Kid [Ipre Iname]]] [So [Vo Io]] [St [Vt It]] [Sr [Vr Ir]] [Sp [Vp Ip]]
                     [Sm [Vm [Ipair [Itok Iteam]]]] B1 B2 B3 B4 B5 B6 ].
  rewrite <- (idxok_is_build kf_db tt_of _ _ (proj1 GF) FI : filesByDB s = ix_filesByDB (files s)).
  rewrite <- (idxok_is_build kf_prefix tt_of _ _ Stk Ipre : tokByPrefix s = ix_tokByPrefix (tokens s)).
  rewrite <- (idxok_is_build kf_tname id_of _ _ Stk Iname : tokByName s = ix_tokByName (tokens s)).
  rewrite <- (idxok_is_build kf_oname id_of _ _ So Io : orgByName s = ix_orgByName (orgs s)).
  rewrite <- (idxok_is_build kf_team id_of _ _ St It : teamsByOrg s = ix_teamsByOrg (teams s)).
  rewrite <- (idxok_is_build kf_rteam tt_of _ _ Sr Ir : rolesByTeam s = ix_rolesByTeam (roles s)).
  rewrite <- (idxok_is_build kf_mrole tt_of _ _ Sp Ip : mpByRole s = ix_mpByRole (mperms s)).
  rewrite <- (idxok_is_build kf_pair id_of _ _ Sm Ipair : memByPair s = ix_memByPair (mems s)).
  rewrite <- (idxok_is_build kf_mtoken tt_of _ _ Sm Itok : memByToken s = ix_memByToken (mems s)).
  rewrite <- (idxok_is_build kf_mteam tt_of _ _ Sm Iteam : memByTeam s = ix_memByTeam (mems s)).
  rewrite !smap_eqb_refl; try reflexivity; try apply keqb_refl.
Qed.

Lemma auth_indexes_agree_of_inv n s : Inv n s -> auth_indexes_agree s = true.
Proof.
  intros HI. unfold auth_indexes_agree.
  pose proof HI as [ Sn GF [Stk [Kid [Ipre Iname]]] [So [Vo Io]] [St [Vt It]] [Sr [Vr Ir]] [Sp [Vp Ip]]
                     [Sm [Vm [Ipair [Itok Iteam]]]] B1 B2 B3 B4 B5 B6 ].
  rewrite <- (idxok_is_build kf_prefix tt_of _ _ Stk Ipre : tokByPrefix s = ix_tokByPrefix (tokens s)).
  rewrite <- (idxok_is_build kf_tname id_of _ _ Stk Iname : tokByName s = ix_tokByName (tokens s)).
  rewrite <- (idxok_is_build kf_oname id_of _ _ So Io : orgByName s = ix_orgByName (orgs s)).
  rewrite <- (idxok_is_build kf_team id_of _ _ St It : teamsByOrg s = ix_teamsByOrg (teams s)).
  rewrite <- (idxok_is_build kf_rteam tt_of _ _ Sr Ir : rolesByTeam s = ix_rolesByTeam (roles s)).
  rewrite <- (idxok_is_build kf_mrole tt_of _ _ Sp Ip : mpByRole s = ix_mpByRole (mperms s)).
  rewrite <- (idxok_is_build kf_pair id_of _ _ Sm Ipair : memByPair s = ix_memByPair (mems s)).
  rewrite <- (idxok_is_build kf_mtoken tt_of _ _ Sm Itok : memByToken s = ix_memByToken (mems s)).
  rewrite <- (idxok_is_build kf_mteam tt_of _ _ Sm Iteam : memByTeam s = ix_memByTeam (mems s)).
  rewrite !smap_eqb_refl; try reflexivity; try apply keqb_refl.
Qed.

Lemma rbac_refs_ok_of_inv n s : Inv n s -> rbac_refs_ok s = true.
Proof.
  intros HI. unfold rbac_refs_ok.
  pose proof HI as [ Sn GF GT GO [St [Vt It]] [Sr [Vr Ir]] [Sp [Vp Ip]] [Sm [Vm _]] B1 B2 B3 B4 B5 B6 ].
  rewrite !andb_true_iff. repeat split.
  - apply (forallb_get _ _ St). intros k t Hg. apply (Vt _ _ Hg).
  - apply (forallb_get _ _ Sr). intros k t Hg. apply (Vr _ _ Hg).
  - apply (forallb_get _ _ Sp). intros k t Hg. apply (Vp _ _ Hg).
  - apply (forallb_get _ _ Sm). intros k t Hg. cbn. destruct (Vm _ _ Hg) as (_ & -> & ->). reflexivity.
Qed.

Lemma good_empty : forall c : cfg, Good 1 empty_state.
Proof.
  intros c. split; [apply inv_empty|]. split.
  - split; [exact I|]. intros k v. cbn. split; [discriminate|]. intros (id & e & H & _). discriminate.
  - intros k t H. discriminate.
Qed.

Lemma writer_empty : WriterOK empty_state.
Proof. split; [intros k n H; discriminate|intros H; discriminate]. Qed.

(* ---- final forms --------------------------------------------------------------------------- *)

Lemma smap_eqb_eq {V} (veqb : V -> V -> bool) : (forall x y, veqb x y = true -> x = y) ->
  forall a b : smap V, smap_eqb veqb a b = true -> a = b.
Proof.
  intros Hv. induction a as [|[k v] a IH]; intros [|[k' v'] b]; cbn; try discriminate; [reflexivity|].
  intros H. apply andb_true_iff in H. destruct H as [H12 H3]. apply andb_true_iff in H12. destruct H12 as [H1 H2].
  apply keqb_eq in H1. apply Hv in H2. subst. f_equal. apply IH. exact H3.
Qed.

Lemma fileidx_of_agrees n s : Inv n s -> file_index_agrees s = true -> FileIdx (files s) (filesByDB s).
Proof.
  intros HI H. unfold file_index_agrees in H. apply (smap_eqb_eq unit_eqb) in H; [|intros [] []; reflexivity].
  unfold FileIdx. rewrite H. apply build_ok_inj; [apply (i_file _ _ HI)|apply kinj_db].
Qed.

Lemma tokvalid_of_b n s : Inv n s -> tokens_valid s = true -> TokValid (tokens s).
Proof.
  intros HI H. unfold tokens_valid in H. destruct (i_tok _ _ HI) as (S & _).
  intros k t Hg. apply (proj1 (forallb_get _ _ S) H k t Hg).
Qed.

Lemma tokvalid_b n s : Inv n s -> TokValid (tokens s) -> tokens_valid s = true.
Proof.
  intros HI TV. destruct (i_tok _ _ HI) as (S & _). apply (forallb_get _ _ S). intros k t Hg. cbn. exact (TV k t Hg).
Qed.

Section Final.
Variable c : cfg.

Lemma reach_inv h : idx_incr 1 h -> hist_ok c no_guard empty_state h = true -> exists n, Inv n (run c empty_state h).
Proof. intros Hi Hok. eapply run_inv; [apply inv_empty|exact Hi|exact Hok]. Qed.

Lemma restore_iff h : idx_incr 1 h -> hist_ok c no_guard empty_state h = true ->
  let s := run c empty_state h in
  restore (snapshot s) = s <-> (file_index_agrees s = true /\ tokens_valid s = true).
Proof.
  intros Hi Hok s. destruct (reach_inv h Hi Hok) as [n HI]. fold s in HI. split.
  - intros Heq. destruct (restore_snapshot_inv n s HI) as (HI' & FI' & TV'). rewrite Heq in *.
    split; [|eapply tokvalid_b; eassumption].
    pose proof (indexes_agree_of_inv n s HI FI') as H. unfold indexes_agree in H. apply andb_true_iff in H. apply H.
  - intros [H1 H2]. apply (restore_snapshot_id n s HI); [eapply fileidx_of_agrees; eassumption|eapply tokvalid_of_b; eassumption].
Qed.

Lemma guard_c22_no h s : hist_ok c (c22_guard c) s h = true -> hist_ok c no_guard s h = true.
Proof. apply hist_ok_weaken. reflexivity. Qed.

Lemma good_reach h : idx_incr 1 h -> hist_ok c (c22_guard c) empty_state h = true ->
  exists n, Good n (run c empty_state h).
Proof. intros Hi Hok. eapply run_good; [apply (good_empty c)|exact Hi|exact Hok]. Qed.

Lemma restore_guarded h : idx_incr 1 h -> hist_ok c (c22_guard c) empty_state h = true ->
  restore (snapshot (run c empty_state h)) = run c empty_state h.
Proof.
  intros Hi Hok. destruct (good_reach h Hi Hok) as [n (HI & FI & TV)]. apply (restore_snapshot_id n _ HI FI TV).
Qed.

Lemma prefix_replay p q : idx_incr 1 (p ++ q) -> hist_ok c (c22_guard c) empty_state (p ++ q) = true ->
  run c (restore (snapshot (run c empty_state p))) q = run c empty_state (p ++ q).
Proof.
  intros Hi Hok. rewrite run_app. f_equal. apply restore_guarded.
  - apply (idx_incr_app p 1 q Hi).
  - rewrite hist_ok_app in Hok. apply andb_true_iff in Hok. apply Hok.
Qed.

Lemma indexes_guarded h : idx_incr 1 h -> hist_ok c (file_guard c) empty_state h = true ->
  indexes_agree (run c empty_state h) = true.
Proof.
  intros Hi Hok. destruct (run_fileidx c h 1 empty_state inv_empty (proj1 (proj2 (good_empty c))) Hi Hok) as [n [HI FI]].
  eapply indexes_agree_of_inv; eassumption.
Qed.

Lemma auth_indexes_all h : idx_incr 1 h -> hist_ok c no_guard empty_state h = true ->
  auth_indexes_agree (run c empty_state h) = true.
Proof. intros Hi Hok. destruct (reach_inv h Hi Hok) as [n HI]. eapply auth_indexes_agree_of_inv; exact HI. Qed.

Lemma rbac_all h : idx_incr 1 h -> hist_ok c no_guard empty_state h = true ->
  rbac_refs_ok (run c empty_state h) = true.
Proof. intros Hi Hok. destruct (reach_inv h Hi Hok) as [n HI]. eapply rbac_refs_ok_of_inv; exact HI. Qed.

Lemma tokens_valid_guarded h : idx_incr 1 h -> hist_ok c (token_guard c) empty_state h = true ->
  tokens_valid (run c empty_state h) = true.
Proof.
  intros Hi Hok.
  assert (Hno : hist_ok c no_guard empty_state h = true) by (eapply hist_ok_weaken; [|exact Hok]; reflexivity).
  destruct (reach_inv h Hi Hno) as [n HI]. eapply tokvalid_b; [exact HI|].
  eapply run_tokvalid; [apply inv_empty|apply (good_empty c)|exact Hi|exact Hok].
Qed.

(* nodes stay sorted along any history without raw restore, whatever the indices *)
Lemma run_nodes_sorted h : forall s, sorted (nodes s) -> hist_ok c no_guard s h = true -> sorted (nodes (run c s h)).
Proof.
  induction h as [|st r IH]; intros s S Hok; cbn [run]; [exact S|].
  cbn [hist_ok] in Hok. apply andb_true_iff in Hok. destruct Hok as [Hst Hok].
  destruct st as [i cm| |sn]; cbn [do_step fst] in *; try discriminate.
  - apply IH; [|exact Hok]. destruct (is_node_cmd cm) eqn:Hn.
    + apply node_cmd_sorted; assumption.
    + destruct (frame_nodes c s i cm Hn) as [-> _]. exact S.
  - apply IH; [exact S|exact Hok].
Qed.

Lemma writer_guarded h : hist_ok c (cmd_node_guard c) empty_state h = true ->
  writer_consistent (run c empty_state h) = true.
Proof.
  intros Hok. apply writer_consistent_spec.
  - apply run_nodes_sorted; [exact I|]. eapply hist_ok_weaken; [|exact Hok]. reflexivity.
  - apply run_writer; [apply writer_empty|exact Hok].
Qed.

Lemma readd_keeps s n old :
  get (KS (n_id n)) (nodes s) = Some old -> cmd_node_guard c s (CAddNode n) = true ->
  exists new, get (KS (n_id n)) (nodes (fst (apply_put_node c s n))) = Some new /\ n_ws new = n_ws old.
Proof.
  intros Hg G. destruct (put_node_shape c s n G) as (n' & -> & Hws). rewrite Hg in Hws.
  exists n'. cbn. rewrite get_put_same. auto.
Qed.

End Final.

(* ---- the repaired code: every guard is vacuous ---------------------------------------------- *)

Lemma file_guard_repaired c cm : fx_filedb c = true -> cmd_file_guard c cm = true.
Proof.
  intros H. destruct cm; try reflexivity; cbn [cmd_file_guard].
  - induction ops as [|o r IH]; cbn [forallb]; [reflexivity|]. rewrite IH.
    destruct o; try reflexivity. unfold file_db_ok. rewrite H. reflexivity.
  - unfold file_db_ok. rewrite H. reflexivity.
Qed.

Lemma token_guard_repaired c cm : fx_tokname c = true -> cmd_token_guard c cm = true.
Proof. intros H. destruct cm; try reflexivity. cbn. rewrite H. reflexivity. Qed.

Lemma node_guard_repaired c s cm :
  fx_promote c = true -> fx_addws c = true -> fx_remove c = true -> cmd_node_guard c s cm = true.
Proof. intros H1 H2 H3. destruct cm; try reflexivity; cbn; rewrite ?H1, ?H2, ?H3; reflexivity. Qed.

Section Repaired.
Variable c : cfg.
Hypothesis Hf : fx_filedb c = true.
Hypothesis Ht : fx_tokname c = true.

Lemma hist_c22_of_no h s : hist_ok c no_guard s h = true -> hist_ok c (c22_guard c) s h = true.
Proof.
  apply hist_ok_weaken. intros s0 cm _. unfold c22_guard.
  rewrite file_guard_repaired, token_guard_repaired by assumption. reflexivity.
Qed.

Lemma restore_repaired h : idx_incr 1 h -> hist_ok c no_guard empty_state h = true ->
  restore (snapshot (run c empty_state h)) = run c empty_state h.
Proof. intros Hi Hok. apply restore_guarded; [exact Hi|apply hist_c22_of_no; exact Hok]. Qed.

Lemma prefix_replay_repaired p q : idx_incr 1 (p ++ q) -> hist_ok c no_guard empty_state (p ++ q) = true ->
  run c (restore (snapshot (run c empty_state p))) q = run c empty_state (p ++ q).
Proof. intros Hi Hok. apply prefix_replay; [exact Hi|apply hist_c22_of_no; exact Hok]. Qed.

Lemma indexes_repaired h : idx_incr 1 h -> hist_ok c no_guard empty_state h = true ->
  indexes_agree (run c empty_state h) = true.
Proof.
  intros Hi Hok. apply indexes_guarded; [exact Hi|]. eapply hist_ok_weaken; [|exact Hok].
  intros s0 cm _. apply file_guard_repaired. exact Hf.
Qed.
End Repaired.

Section RepairedNode.
Variable c : cfg.
Hypothesis H1 : fx_promote c = true.
Hypothesis H2 : fx_addws c = true.
Hypothesis H3 : fx_remove c = true.

Lemma writer_repaired h : hist_ok c no_guard empty_state h = true -> writer_consistent (run c empty_state h) = true.
Proof.
  intros Hok. apply writer_guarded. eapply hist_ok_weaken; [|exact Hok].
  intros s0 cm _. apply node_guard_repaired; assumption.
Qed.

Lemma readd_repaired s n old : get (KS (n_id n)) (nodes s) = Some old ->
  exists new, get (KS (n_id n)) (nodes (fst (apply_put_node c s n))) = Some new /\ n_ws new = n_ws old.
Proof. intros Hg. apply readd_keeps; [exact Hg|]. apply node_guard_repaired; assumption. Qed.
End RepairedNode.
