(* Restore after Snapshot: on a state satisfying the invariant the quarantine filters keep
   every entry except tokens with an invalid name (and their memberships), the rebuilt
   indexes satisfy their specification, and when the filesByDB index and the token names
   are in order the restored state IS the state. *)
From Coq Require Import List ZArith Bool String Lia.
From RecordUpdate Require Import RecordSet.
From Arc Require Import Fsm.Key Fsm.KeyFacts Fsm.Model Fsm.Tactics Fsm.IdxFacts Fsm.InvDefs.
Import ListNotations RecordSetNotations.
Open Scope string_scope.
Open Scope Z_scope.

Lemma filter_all {A} (p : A -> bool) l : (forall x, In x l -> p x = true) -> filter p l = l.
Proof.
  induction l as [|x l IH]; cbn; intros H; [reflexivity|].
  rewrite (H x) by (left; reflexivity). f_equal. apply IH. intros; apply H; right; assumption.
Qed.

Lemma sorted_keys_distinct {V} k (r : smap V) k' v' : lt_all k r -> In (k', v') r -> k <> k'.
Proof.
  intros L Hin ->. pose proof (lt_all_in _ _ _ _ L Hin) as H. rewrite kcmp_refl in H. discriminate.
Qed.

Lemma keep_unique_filter {E} (ok : key -> E -> bool) (uk : E -> key) (m : smap E) : forall seen,
  sorted m ->
  (forall k e k' e', In (k, e) m -> In (k', e') m -> uk e = uk e' -> k = k') ->
  (forall k e, In (k, e) m -> has (uk e) seen = false) ->
  keep_unique ok uk m seen = filter (fun kv => ok (fst kv) (snd kv)) m.
Proof.
  induction m as [|[k e] r IH]; intros seen S U H; cbn [keep_unique filter fst snd]; [reflexivity|].
  destruct S as [L S].
  rewrite (H k e) by (left; reflexivity). cbn [negb]. rewrite andb_true_r.
  assert (Ur : forall k0 e0 k' e', In (k0, e0) r -> In (k', e') r -> uk e0 = uk e' -> k0 = k')
    by (intros; eapply U; try eassumption; right; assumption).
  destruct (ok k e).
  - f_equal. apply IH; [exact S|exact Ur|].
    intros k' e' Hin. rewrite has_put.
    rewrite (H k' e') by (right; assumption). rewrite orb_false_r.
    apply keqb_neq. intros Heq.
    assert (k = k') by (eapply U; [left; reflexivity|right; exact Hin|congruence]).
    eapply sorted_keys_distinct; eassumption.
  - apply IH; [exact S|exact Ur|]. intros k' e' Hin. apply (H k' e'). right; assumption.
Qed.

Lemma has_nil {V} k : has k (@nil (key * V)) = false.
Proof. reflexivity. Qed.

Lemma get_filter_some {V} (p : key * V -> bool) k v (m : smap V) :
  sorted m -> get k (filter p m) = Some v -> get k m = Some v /\ p (k, v) = true.
Proof.
  intros S. rewrite (get_filter p k m S). destruct (get k m) as [v0|]; [|discriminate].
  destruct (p (k, v0)) eqn:Ep; [|discriminate]. intros [= <-]. auto.
Qed.

Lemma below_filter {V} n (p : key * V -> bool) (m : smap V) : sorted m -> below n m -> below n (filter p m).
Proof. intros S B k v Hg. apply (get_filter_some p k v m S) in Hg. eapply B. apply Hg. Qed.

(* the rebuilt index of any duplicate-free map satisfies the specification *)
Lemma build_ok_inj {E V} (kf : key -> E -> key) (vf : key -> E -> V) m :
  sorted m -> kinj kf m -> IdxOK kf vf m (build kf vf m).
Proof.
  intros S Hinj. apply build_ok; [exact S|].
  intros id e id' e' Hg Hg' Hk. assert (id = id') by (eapply Hinj; eassumption). subst id'.
  rewrite Hg in Hg'. inversion Hg'. reflexivity.
Qed.

Lemma kinj_filter {E} (kf : key -> E -> key) (p : key * E -> bool) m : sorted m -> kinj kf m -> kinj kf (filter p m).
Proof.
  intros S Hinj id e id' e' Hg Hg' Hk.
  apply (get_filter_some p _ _ _ S) in Hg. apply (get_filter_some p _ _ _ S) in Hg'.
  eapply Hinj; [apply Hg|apply Hg'|exact Hk].
Qed.

Lemma in_uniq_of_kinj {E} (kf : key -> E -> key) (uk : E -> key) (m : smap E) :
  sorted m -> (forall k e, kf k e = uk e) -> kinj kf m ->
  forall k e k' e', In (k, e) m -> In (k', e') m -> uk e = uk e' -> k = k'.
Proof.
  intros S Hkf Hinj k e k' e' H1 H2 Hu.
  eapply Hinj; [apply in_get; eassumption|apply in_get; eassumption|]. rewrite !Hkf. exact Hu.
Qed.

Section Restore.
Variable n : Z.
Variable s : state.
Hypothesis HI : Inv n s.

Lemma restore_files_id : restore_files (files s) = files s.
Proof.
  destruct (i_file _ _ HI) as [S H]. apply filter_all. intros [k f] Hin. cbn.
  destruct (H _ _ (in_get _ _ _ S Hin)) as [-> Hv]. exact Hv.
Qed.

Lemma restore_orgs_id : restore_orgs (orgs s) = orgs s.
Proof.
  destruct (i_org _ _ HI) as (S & V & Ix). unfold restore_orgs.
  rewrite keep_unique_filter; [|exact S| |intros; apply has_nil].
  - apply filter_all. intros [k o] Hin. cbn. apply (V k). apply in_get; assumption.
  - apply (in_uniq_of_kinj kf_oname); [exact S|reflexivity|eapply kinj_id_of; exact Ix].
Qed.

Lemma restore_teams_id : restore_teams (orgs s) (teams s) = teams s.
Proof.
  destruct (i_team _ _ HI) as (S & V & Ix). unfold restore_teams.
  rewrite keep_unique_filter; [|exact S| |intros; apply has_nil].
  - apply filter_all. intros [k t] Hin. cbn. destruct (V k t (in_get _ _ _ S Hin)) as [-> ->]. reflexivity.
  - apply (in_uniq_of_kinj kf_team); [exact S|reflexivity|eapply kinj_id_of; exact Ix].
Qed.

Lemma restore_roles_id : restore_roles (teams s) (roles s) = roles s.
Proof.
  destruct (i_role _ _ HI) as (S & V & Ix). apply filter_all. intros [k r] Hin. cbn.
  destruct (V k r (in_get _ _ _ S Hin)) as [-> ->]. reflexivity.
Qed.

Lemma restore_mperms_id : restore_mperms (roles s) (mperms s) = mperms s.
Proof.
  destruct (i_mp _ _ HI) as (S & V & Ix). apply filter_all. intros [k r] Hin. cbn.
  destruct (V k r (in_get _ _ _ S Hin)) as [-> ->]. reflexivity.
Qed.

Definition mem_keep (tks : smap token) (kv : key * mem) : bool :=
  (valid_mem (snd kv) && has (KZ (m_token (snd kv))) tks && has (KZ (m_team (snd kv))) (teams s))%bool.

Lemma restore_mems_filter tks : restore_mems tks (teams s) (mems s) = filter (mem_keep tks) (mems s).
Proof.
  destruct (i_mem _ _ HI) as (S & V & Ip & It & Im). unfold restore_mems.
  rewrite keep_unique_filter; [reflexivity|exact S| |intros; apply has_nil].
  apply (in_uniq_of_kinj kf_pair); [exact S|reflexivity|eapply kinj_id_of; exact Ip].
Qed.

Lemma restore_mems_id : TokValid (tokens s) -> restore_mems (restore_tokens (tokens s)) (teams s) (mems s) = mems s.
Proof.
  intros TV. destruct (i_mem _ _ HI) as (S & V & _). destruct (i_tok _ _ HI) as (St & _).
  assert (Ht : restore_tokens (tokens s) = tokens s).
  { apply filter_all. intros [k t] Hin. cbn. apply (TV k). apply in_get; assumption. }
  rewrite Ht, restore_mems_filter. apply filter_all. intros [k m] Hin. unfold mem_keep. cbn.
  destruct (V k m (in_get _ _ _ S Hin)) as (-> & -> & ->). reflexivity.
Qed.

Lemma restore_tokens_id : TokValid (tokens s) -> restore_tokens (tokens s) = tokens s.
Proof.
  intros TV. destruct (i_tok _ _ HI) as (St & _).
  apply filter_all. intros [k t] Hin. cbn. apply (TV k). apply in_get; assumption.
Qed.

(* ---- the restored state in general ---------------------------------------------------- *)

Definition rtks : smap token := restore_tokens (tokens s).
Definition rmems : smap mem := filter (mem_keep rtks) (mems s).

Lemma restore_snapshot_shape :
  restore (snapshot s) =
  mkState (nodes s) (primary s) (compactor s)
    (files s) (ix_filesByDB (files s))
    rtks (ix_tokByPrefix rtks) (ix_tokByName rtks)
    (orgs s) (ix_orgByName (orgs s))
    (teams s) (ix_teamsByOrg (teams s))
    (roles s) (ix_rolesByTeam (roles s))
    (mperms s) (ix_mpByRole (mperms s))
    rmems (ix_memByPair rmems) (ix_memByToken rmems) (ix_memByTeam rmems).
Proof.
  unfold restore, snapshot. cbn [sn_nodes sn_primary sn_compactor sn_files sn_tokens sn_orgs sn_teams sn_roles sn_mperms sn_mems].
  rewrite restore_files_id, restore_orgs_id, restore_teams_id, restore_roles_id, restore_mperms_id.
  fold rtks. rewrite (restore_mems_filter rtks). reflexivity.
Qed.

Lemma restore_snapshot_inv :
  Inv n (restore (snapshot s)) /\
  FileIdx (files (restore (snapshot s))) (filesByDB (restore (snapshot s))) /\
  TokValid (tokens (restore (snapshot s))).
Proof.
  rewrite restore_snapshot_shape. cbn [files filesByDB tokens].
  pose proof HI as [ Sn GF [Stk [Kid [Ipre Iname]]] [So [Vo Io]] [St [Vt It]] [Sr [Vr Ir]] [Sp [Vp Ip]]
                     [Sm [Vm [Ipair [Itok Iteam]]]] B1 B2 B3 B4 B5 B6 ].
  pose proof GF as [Sf Vf].
  assert (Srt : sorted rtks) by (apply sorted_filter; exact Stk).
  assert (Srm : sorted rmems) by (apply sorted_filter; exact Sm).
  split; [|split].
  - constructor; cbn; try assumption.
    + split; [exact Srt|]. split; [|split].
      * intros k t Hg. apply (get_filter_some _ _ _ _ Stk) in Hg. apply Kid. apply Hg.
      * apply build_ok_inj; [exact Srt|apply kinj_prefix].
      * apply build_ok_inj; [exact Srt|]. apply kinj_filter; [exact Stk|eapply kinj_id_of; exact Iname].
    + split; [exact So|]. split; [exact Vo|]. apply build_ok_inj; [exact So|eapply kinj_id_of; exact Io].
    + split; [exact St|]. split; [exact Vt|]. apply build_ok_inj; [exact St|eapply kinj_id_of; exact It].
    + split; [exact Sr|]. split; [exact Vr|]. apply build_ok_inj; [exact Sr|apply kinj_rteam].
    + split; [exact Sp|]. split; [exact Vp|]. apply build_ok_inj; [exact Sp|apply kinj_mrole].
    + split; [exact Srm|]. split; [|split; [|split]].
      * intros k m Hg. apply (get_filter_some _ _ _ _ Sm) in Hg. destruct Hg as [Hg Hk].
        unfold mem_keep in Hk. cbn in Hk. apply andb_true_iff in Hk. destruct Hk as [Hk12 Hk3].
        apply andb_true_iff in Hk12. destruct Hk12 as [Hk1 Hk2]. auto.
      * apply build_ok_inj; [exact Srm|]. apply kinj_filter; [exact Sm|eapply kinj_id_of; exact Ipair].
      * apply build_ok_inj; [exact Srm|apply kinj_mtoken].
      * apply build_ok_inj; [exact Srm|apply kinj_mteam].
    + apply below_filter; assumption.
    + apply below_filter; assumption.
  - unfold FileIdx. apply build_ok_inj; [exact Sf|apply kinj_db].
  - intros k t Hg. apply (get_filter_some _ _ _ _ Stk) in Hg. apply Hg.
Qed.

(* ---- ... and when nothing is quarantined ---------------------------------------------- *)

Lemma restore_snapshot_id :
  FileIdx (files s) (filesByDB s) -> TokValid (tokens s) -> restore (snapshot s) = s.
Proof.
  intros FI TV. rewrite restore_snapshot_shape.
  assert (Ht : rtks = tokens s) by (apply restore_tokens_id; exact TV).
  assert (Hm : rmems = mems s).
  { unfold rmems. rewrite <- restore_mems_filter, Ht. rewrite <- (restore_tokens_id TV) at 1. apply restore_mems_id. exact TV. }
  rewrite Ht, Hm.
  pose proof HI as [ Sn GF [Stk [Kid [Ipre Iname]]] [So [Vo Io]] [St [Vt It]] [Sr [Vr Ir]] [Sp [Vp Ip]]
                     [Sm [Vm [Ipair [Itok Iteam]]]] B1 B2 B3 B4 B5 B6 ].
  rewrite <- (idxok_is_build kf_db tt_of _ _ (proj1 GF) FI : filesByDB s = ix_filesByDB (files s)).
  rewrite <- (idxok_is_build kf_prefix tt_of _ _ Stk Ipre : tokByPrefix s = ix_tokByPrefix (tokens s)).
  rewrite <- (idxok_is_build kf_tname id_of _ _ Stk Iname : tokByName s = ix_tokByName (tokens s)).
  rewrite <- (idxok_is_build kf_oname id_of _ _ So Io : orgByName s = ix_orgByName (orgs s)).
  rewrite <- (idxok_is_build kf_team id_of _ _ St It : teamsByOrg s = ix_teamsByOrg (teams s)).
  rewrite <- (idxok_is_build kf_rteam tt_of _ _ Sr Ir : rolesByTeam s = ix_rolesByTeam (roles s)).
  rewrite <- (idxok_is_build kf_mrole tt_of _ _ Sp Ip : mpByRole s = ix_mpByRole (mperms s)).
  rewrite <- (idxok_is_build kf_pair id_of _ _ Sm Ipair : memByPair s = ix_memByPair (mems s)).
  rewrite <- (idxok_is_build kf_mtoken tt_of _ _ Sm Itok : memByToken s = ix_memByToken (mems s)).
  rewrite <- (idxok_is_build kf_mteam tt_of _ _ Sm Iteam : memByTeam s = ix_memByTeam (mems s)).
  destruct s; reflexivity.
Qed.

End Restore.
