(* Correspondence cases of C22/C23 (definitions only): a case is a step list together with
   what the harness observed on the real ClusterFSM; [case_agrees] replays the steps on the
   model and compares every observation, the oracles evaluate the property on the
   observations alone, the guards tell whether the case lies in the domain of the
   guarded theorems. *)
From Coq Require Import List ZArith Bool String.
From Arc Require Import Fsm.Key Fsm.Model.
Import ListNotations.
Open Scope string_scope.
Open Scope Z_scope.

Record ccase := mkCase {
  c_steps : list step;
  c_res : list bool;                 (* per step: Apply / Restore returned nil *)
  c_dumps : list (nat * state);      (* (step index, dump of the live FSM after that step) *)
  c_clean : bool;                    (* no empty inner index map and no nil entry in any dump *)
  c_prefix : bool;                   (* the snapshot/restore/replay experiment was run at every prefix *)
  c_snap_eq : list bool;             (* per step k: dump (restore (snapshot state_k)) = dump state_k *)
  c_snap_dumps : list (nat * state); (* the restored dump where it differs *)
  c_replay_eq : list bool;           (* per step k: remaining steps replayed from the restored copy reach the final state *)
  c_late_eq : list bool              (* per step k: the Snapshot() object of prefix k persisted only after ALL later steps were
                                        applied restores to the same state as when persisted at once (Persist is asynchronous
                                        in raft; the model's snapshot is a value, so the model predicts: always) *)
}.

Fixpoint list_bool_eqb (a b : list bool) : bool :=
  match a, b with
  | [], [] => true
  | x :: a', y :: b' => Bool.eqb x y && list_bool_eqb a' b'
  | _, _ => false
  end.

Definition state_at (tr : list (state * bool)) (i : nat) : option state :=
  match nth_error tr i with Some x => Some (fst x) | None => None end.

Definition final_state (tr : list (state * bool)) : state := fst (last tr (empty_state, true)).

(* replay of the remaining steps from the restored copy; when the copy equals the state the
   replay trivially reaches the same final state (run is a function), so it is only computed
   where they differ *)
Fixpoint replay_flags (c : cfg) (final : state) (states restored : list state) (steps : list step) : list bool :=
  match states, restored, steps with
  | s :: rs, r :: rr, _ :: rest =>
      (if state_eqb r s then true else state_eqb (run c r rest) final) :: replay_flags c final rs rr rest
  | _, _, _ => []
  end.

Fixpoint zip_eqb (a b : list state) : list bool :=
  match a, b with x :: a', y :: b' => state_eqb x y :: zip_eqb a' b' | _, _ => [] end.

Definition case_agrees (c : cfg) (cs : ccase) : bool :=
  let tr := trace c empty_state (c_steps cs) in
  let sts := map fst tr in
  c_clean cs
  && list_bool_eqb (map snd tr) (c_res cs)
  && forallb (fun id => match nth_error sts (fst id) with Some s => state_eqb s (snd id) | None => false end) (c_dumps cs)
  && (if c_prefix cs then
        let rs := map (fun s => restore (snapshot s)) sts in
        list_bool_eqb (zip_eqb rs sts) (c_snap_eq cs)
        && forallb (fun id => match nth_error rs (fst id) with
                              | Some r => state_eqb r (snd id)
                              | None => false end) (c_snap_dumps cs)
        && list_bool_eqb (replay_flags c (final_state tr) sts rs (c_steps cs)) (c_replay_eq cs)
        && forallb (fun b => b) (c_late_eq cs)
      else true).

(* ---- oracles: the property evaluated on the implementation's observations only -------- *)

Definition dump_at (cs : ccase) (i : nat) : option state :=
  match find (fun id => Nat.eqb (fst id) i) (c_dumps cs) with Some id => Some (snd id) | None => None end.
Definition dump_before (cs : ccase) (i : nat) : option state :=
  match i with O => Some empty_state | S j => dump_at cs j end.

Definition has_raw_restore (cs : ccase) : bool :=
  existsb (fun st => match st with SRestore _ => true | _ => false end) (c_steps cs).

Fixpoint index_steps {A} (n : nat) (l : list A) : list (nat * A) :=
  match l with [] => [] | x :: r => (n, x) :: index_steps (S n) r end.

(* a refused batch leaves the state unchanged (checked wherever both dumps were taken) *)
Definition batch_atomic_obs (cs : ccase) : bool :=
  forallb (fun ist =>
    match snd ist with
    | SCmd _ (CBatch _) =>
        match nth_error (c_res cs) (fst ist), dump_before cs (fst ist), dump_at cs (fst ist) with
        | Some false, Some a, Some b => state_eqb a b
        | _, _, _ => true
        end
    | _ => true
    end) (index_steps O (c_steps cs)).

Definition oracle_c22 (cs : ccase) : bool :=
  has_raw_restore cs ||
  (c_clean cs && forallb (fun b => b) (c_snap_eq cs) && forallb (fun b => b) (c_replay_eq cs) && forallb (fun b => b) (c_late_eq cs)
   && forallb (fun id => indexes_agree (snd id)) (c_dumps cs) && batch_atomic_obs cs).

(* re-registering an existing node keeps the writer state the cluster recorded for it *)
Definition readd_keeps_obs (cs : ccase) : bool :=
  forallb (fun ist =>
    match snd ist with
    | SCmd _ (CAddNode n) | SCmd _ (CUpdateNode n) =>
        match dump_before cs (fst ist), dump_at cs (fst ist) with
        | Some a, Some b =>
            match get (KS (n_id n)) (nodes a), get (KS (n_id n)) (nodes b) with
            | Some old, Some new => seqb (n_ws old) (n_ws new)
            | _, _ => true
            end
        | _, _ => true
        end
    | _ => true
    end) (index_steps O (c_steps cs)).

Definition oracle_c23 (cs : ccase) : bool :=
  has_raw_restore cs ||
  (forallb (fun id => writer_consistent (snd id) && rbac_refs_ok (snd id)) (c_dumps cs) && readd_keeps_obs cs).

(* ---- guards: is the case inside the domain of the guarded theorems?  (Cases with an
   SRestore step are outside every domain; the oracles do not judge them.) ------------- *)

Definition guard_file (c : cfg) (cs : ccase) : bool := hist_ok c (fun _ => cmd_file_guard c) empty_state (c_steps cs).
Definition guard_token (c : cfg) (cs : ccase) : bool := hist_ok c (fun _ => cmd_token_guard c) empty_state (c_steps cs).

Definition only_add (g : state -> cmd -> bool) (s : state) (cm : cmd) : bool :=
  match cm with CAddNode _ | CUpdateNode _ => g s cm | _ => true end.
Definition only_remove (g : state -> cmd -> bool) (s : state) (cm : cmd) : bool :=
  match cm with CRemoveNode _ => g s cm | _ => true end.
Definition only_promote (g : state -> cmd -> bool) (s : state) (cm : cmd) : bool :=
  match cm with CPromote _ _ => g s cm | _ => true end.

Definition guard_add (c : cfg) (cs : ccase) : bool := hist_ok c (only_add (cmd_node_guard c)) empty_state (c_steps cs).
Definition guard_remove (c : cfg) (cs : ccase) : bool := hist_ok c (only_remove (cmd_node_guard c)) empty_state (c_steps cs).
Definition guard_promote (c : cfg) (cs : ccase) : bool := hist_ok c (only_promote (cmd_node_guard c)) empty_state (c_steps cs).

(* all predicates of a case in one number (bit i set = predicate i holds), so that the
   correspondence run evaluates every case once *)
Definition bit (b : bool) (n : N) : N := if b then n else 0%N.
Definition case_flags (c : cfg) (cs : ccase) : N :=
  (bit (case_agrees c cs) 1 + bit (oracle_c22 cs) 2 + bit (oracle_c23 cs) 4 + bit (guard_file c cs) 8
   + bit (guard_token c cs) 16 + bit (guard_add c cs) 32 + bit (guard_remove c cs) 64 + bit (guard_promote c cs) 128)%N.
