(* The cascading deletes (DeleteRole, DeleteTeam, DeleteOrganization, DeleteToken):
   the descendants are enumerated through the secondary indexes; under the index
   specification this removes exactly the entries whose parent is deleted, and the
   invariant (indexes, validity, referential integrity) is re-established. *)
From Coq Require Import List ZArith Bool String Lia.
From RecordUpdate Require Import RecordSet.
From Arc Require Import Fsm.Key Fsm.KeyFacts Fsm.Model Fsm.Tactics Fsm.IdxFacts Fsm.InvDefs Fsm.InvTok Fsm.InvRbac.
Import ListNotations RecordSetNotations.
Open Scope string_scope.
Open Scope Z_scope.

(* ---- purge: delete every entry of a group, found through a grouped index --------------- *)

Section Purge.
  Context {E V : Type} (g : E -> key) (h : key -> E -> key) (vf : key -> E -> V) (ex : key * V -> key).
  Hypothesis ex_spec : forall id e, ex (h id e, vf id e) = id.
  Let kf (id : key) (e : E) : key := KP (g e) (h id e).

  Definition purge_ids (a : key) (ix : smap V) : list key := map ex (sel1 a ix).

  Lemma purge_ids_spec m ix a id :
    IdxOK kf vf m ix -> (In id (purge_ids a ix) <-> exists e, get id m = Some e /\ g e = a).
  Proof.
    intros [S H]. unfold purge_ids. rewrite in_map_iff. split.
    - intros [[y v] [Hex Hin]]. apply (sel1_get a y v ix S) in Hin. apply H in Hin.
      destruct Hin as (id' & e & Hg & Hk & Hv). unfold kf in Hk. inversion Hk; subst.
      rewrite ex_spec. eauto.
    - intros (e & Hg & Ha). exists (h id e, vf id e). split; [apply ex_spec|].
      apply (sel1_get a _ _ ix S). apply H. exists id, e. unfold kf. rewrite Ha. auto.
  Qed.

  Lemma get_purge m ix a id :
    IdxOK kf vf m ix ->
    get id (dels (purge_ids a ix) m) =
    match get id m with Some e => if keqb (g e) a then None else Some e | None => None end.
  Proof.
    intros Hok. rewrite get_dels.
    destruct (existsb (keqb id) (purge_ids a ix)) eqn:Ex.
    - apply existsb_keqb in Ex. apply (purge_ids_spec _ _ _ _ Hok) in Ex. destruct Ex as (e & Hg & Ha).
      rewrite Hg, Ha, keqb_refl. reflexivity.
    - destruct (get id m) as [e|] eqn:Hg; [|reflexivity].
      destruct (keqb_spec (g e) a) as [Ha|Ha]; [|reflexivity].
      assert (existsb (keqb id) (purge_ids a ix) = true); [|congruence].
      apply existsb_keqb. apply (purge_ids_spec _ _ _ _ Hok). eauto.
  Qed.

  Lemma purge_idx m ix a : IdxOK kf vf m ix -> IdxOK kf vf (dels (purge_ids a ix) m) (del1 a ix).
  Proof.
    intros Hok. pose proof Hok as [S H]. split; [apply del1_sorted; exact S|].
    intros k v. rewrite get_del1. split.
    - intros Hg.
      assert (Hk : get k ix = Some v).
      { destruct k; try exact Hg. destruct (keqb a k1); [discriminate|exact Hg]. }
      apply H in Hk. destruct Hk as (id & e & Hge & Hk & Hv). exists id, e.
      split; [|auto]. rewrite (get_purge _ _ _ _ Hok), Hge.
      unfold kf in Hk. subst k. destruct (keqb_spec a (g e)) as [Ea|Ea]; [discriminate|].
      rewrite keqb_neq by congruence. reflexivity.
    - intros (id & e & Hge & Hk & Hv). rewrite (get_purge _ _ _ _ Hok) in Hge.
      destruct (get id m) as [e0|] eqn:Hg0; [|discriminate].
      destruct (keqb_spec (g e0) a) as [Ea|Ea]; [discriminate|]. inversion Hge; subst e0.
      unfold kf in Hk. subst k. rewrite keqb_neq by congruence. apply H. exists id, e. auto.
  Qed.
End Purge.

Definition g_rteam (r : role) : key := KZ (r_team r).
Definition g_mrole (p : mperm) : key := KZ (mp_role p).
Definition g_mtoken (m : mem) : key := KZ (m_token m).
Definition g_mteam (m : mem) : key := KZ (m_team m).
Definition g_torg (t : team) : key := KZ (tm_org t).

Lemma fst_spec {E} (id : key) (e : E) : fst (id_of id e, tt_of id e) = id.
Proof. reflexivity. Qed.

(* set indexes: purge_ids = map fst (sel1 ...) *)
Definition pids (a : key) (ix : smap unit) : list key := map fst (sel1 a ix).

Section SetPurge.
  Context {E : Type} (g : E -> key).
  Let kf (id : key) (e : E) : key := KP (g e) id.

  Lemma pids_spec m ix a id : IdxOK kf tt_of m ix -> (In id (pids a ix) <-> exists e, get id m = Some e /\ g e = a).
  Proof. exact (purge_ids_spec g id_of tt_of fst (fun _ _ => eq_refl) m ix a id). Qed.
  Lemma get_pids m ix a id : IdxOK kf tt_of m ix ->
    get id (dels (pids a ix) m) = match get id m with Some e => if keqb (g e) a then None else Some e | None => None end.
  Proof. exact (get_purge g id_of tt_of fst (fun _ _ => eq_refl) m ix a id). Qed.
  Lemma pids_idx m ix a : IdxOK kf tt_of m ix -> IdxOK kf tt_of (dels (pids a ix) m) (del1 a ix).
  Proof. exact (purge_idx g id_of tt_of fst (fun _ _ => eq_refl) m ix a). Qed.
End SetPurge.

(* ---- cascadeDeleteRoleLocked ----------------------------------------------------------- *)

Lemma cascade_role_eq mps ix rid : cascade_role (mps, ix) rid = (dels (pids rid ix) mps, del1 rid ix).
Proof. reflexivity. Qed.

Lemma fold_cascade_role rids : forall mps ix,
  sorted mps -> IdxOK kf_mrole tt_of mps ix ->
  let r := fold_left cascade_role rids (mps, ix) in
  sorted (fst r) /\ IdxOK kf_mrole tt_of (fst r) (snd r) /\
  forall k, get k (fst r) = match get k mps with
                            | Some p => if existsb (keqb (g_mrole p)) rids then None else Some p
                            | None => None
                            end.
Proof.
  induction rids as [|rid rest IH]; intros mps ix S Hok; cbn [fold_left].
  - cbn [fst snd existsb]. split; [exact S|]. split; [exact Hok|]. intros k. destruct (get k mps); reflexivity.
  - rewrite cascade_role_eq.
    pose proof (pids_idx g_mrole mps ix rid Hok) as Hok1.
    pose proof (sorted_dels (pids rid ix) mps S) as S1.
    destruct (IH _ _ S1 Hok1) as (S2 & Hok2 & Hget). split; [exact S2|]. split; [exact Hok2|].
    intros k. rewrite Hget, (get_pids g_mrole mps ix rid k Hok). cbn [existsb].
    destruct (get k mps) as [p|]; [|reflexivity].
    rewrite (keqb_sym (g_mrole p) rid). destruct (keqb rid (g_mrole p)); reflexivity.
Qed.

(* ---- membership cascades ---------------------------------------------------------------- *)

Lemma drop_team_eq ms bp bt mid :
  drop_mem_of_team (ms, bp, bt) mid =
  match get mid ms with
  | None => (ms, bp, bt)
  | Some m => (del mid ms, del (kf_pair mid m) bp, del (kf_mtoken mid m) bt)
  end.
Proof. reflexivity. Qed.
Lemma drop_token_eq ms bp bm mid :
  drop_mem_of_token (ms, bp, bm) mid =
  match get mid ms with
  | None => (ms, bp, bm)
  | Some m => (del mid ms, del (kf_pair mid m) bp, del (kf_mteam mid m) bm)
  end.
Proof. reflexivity. Qed.
Lemma dels_cons {V} k ks (m : smap V) : dels (k :: ks) m = dels ks (del k m).
Proof. reflexivity. Qed.

Lemma fold_drop_mem_team mids : forall ms bp bt,
  sorted ms -> IdxOK kf_pair id_of ms bp -> IdxOK kf_mtoken tt_of ms bt ->
  let r := fold_left drop_mem_of_team mids (ms, bp, bt) in
  fst (fst r) = dels mids ms /\ IdxOK kf_pair id_of (fst (fst r)) (snd (fst r)) /\ IdxOK kf_mtoken tt_of (fst (fst r)) (snd r).
Proof.
  induction mids as [|mid rest IH]; intros ms bp bt S Ip It; cbn [fold_left].
  - cbn. auto.
  - rewrite drop_team_eq, dels_cons. destruct (get mid ms) as [m|] eqn:Eg.
    + exact (IH (del mid ms) (del (kf_pair mid m) bp) (del (kf_mtoken mid m) bt) (sorted_del _ _ S)
                     (idx_delete kf_pair id_of _ _ mid m Eg (kinj_id_of _ _ _ Ip) Ip)
                     (idx_delete kf_mtoken tt_of _ _ mid m Eg (kinj_mtoken _) It)).
    + rewrite (del_absent mid ms Eg). exact (IH ms bp bt S Ip It).
Qed.

Lemma fold_drop_mem_token mids : forall ms bp bm,
  sorted ms -> IdxOK kf_pair id_of ms bp -> IdxOK kf_mteam tt_of ms bm ->
  let r := fold_left drop_mem_of_token mids (ms, bp, bm) in
  fst (fst r) = dels mids ms /\ IdxOK kf_pair id_of (fst (fst r)) (snd (fst r)) /\ IdxOK kf_mteam tt_of (fst (fst r)) (snd r).
Proof.
  induction mids as [|mid rest IH]; intros ms bp bm S Ip It; cbn [fold_left].
  - cbn. auto.
  - rewrite drop_token_eq, dels_cons. destruct (get mid ms) as [m|] eqn:Eg.
    + exact (IH (del mid ms) (del (kf_pair mid m) bp) (del (kf_mteam mid m) bm) (sorted_del _ _ S)
                     (idx_delete kf_pair id_of _ _ mid m Eg (kinj_id_of _ _ _ Ip) Ip)
                     (idx_delete kf_mteam tt_of _ _ mid m Eg (kinj_mteam _) It)).
    + rewrite (del_absent mid ms Eg). exact (IH ms bp bm S Ip It).
Qed.

(* ---- the RBAC maps below the teams ------------------------------------------------------ *)

Record RB (n : Z) (tks : smap token) (ts : smap team) (x : rb) : Prop := mkRB {
  rb_role : GRole ts (rb_roles x) (rb_rolesByTeam x);
  rb_mp : GMp (rb_roles x) (rb_mperms x) (rb_mpByRole x);
  rb_mem : GMem tks ts (rb_mems x) (rb_byPair x) (rb_byToken x) (rb_byTeam x);
  rb_b1 : below n (rb_roles x); rb_b2 : below n (rb_mperms x); rb_b3 : below n (rb_mems x) }.

Lemma rb_of_inv n s : Inv n s -> RB n (tokens s) (teams s) (rb_of s).
Proof. intros [ ]. constructor; cbn; assumption. Qed.

Lemma inv_of_rb n n' s x ts ix :
  Inv n s -> n <= n' -> RB n' (tokens s) ts x -> GTeam (orgs s) ts ix -> below n' ts ->
  Inv n' (with_rb s x <| teams := ts |> <| teamsByOrg := ix |>).
Proof.
  intros [ ] Hle [ ] G B. constructor; cbn; try assumption; try (eapply below_mono; eassumption).
Qed.

Lemma with_rb_eta s x : with_rb s x = with_rb s x <| teams := teams s |> <| teamsByOrg := teamsByOrg s |>.
Proof. destruct s; reflexivity. Qed.

Lemma has_del_keep {V} k k' (m : smap V) : has k m = true -> keqb k k' = false -> has k (del k' m) = true.
Proof. intros H E. rewrite has_del, H, E. reflexivity. Qed.

Lemma cascade_team_ok n tks ts x tid : RB n tks ts x -> RB n tks (del tid ts) (cascade_team x tid).
Proof.
  intros [ [Sr [Vr Ir]] [Sp [Vp Ip]] [Sm [Vm [Ipair [Itok Iteam]]]] B1 B2 B3 ].
  unfold cascade_team. fold (pids tid (rb_rolesByTeam x)). fold (pids tid (rb_byTeam x)).
  set (rids := pids tid (rb_rolesByTeam x)). set (mids := pids tid (rb_byTeam x)).
  destruct (fold_cascade_role rids _ _ Sp Ip) as (Sp' & Ip' & Hgp).
  destruct (fold_left cascade_role rids (rb_mperms x, rb_mpByRole x)) as [mps byrole]. cbn [fst snd] in *.
  destruct (fold_drop_mem_team mids _ _ _ Sm Ipair Itok) as (Hms & Ipair' & Itok').
  destruct (fold_left drop_mem_of_team mids (rb_mems x, rb_byPair x, rb_byToken x)) as [[ms bypair] bytoken]. cbn [fst snd] in *.
  subst ms.
  assert (Hgr : forall k, get k (dels rids (rb_roles x)) =
            match get k (rb_roles x) with Some r => if keqb (g_rteam r) tid then None else Some r | None => None end)
    by (intros k; apply (get_pids g_rteam _ _ _ _ Ir)).
  assert (Hgm : forall k, get k (dels mids (rb_mems x)) =
            match get k (rb_mems x) with Some m => if keqb (g_mteam m) tid then None else Some m | None => None end)
    by (intros k; apply (get_pids g_mteam _ _ _ _ Iteam)).
  constructor; cbn.
  - split; [apply sorted_dels; exact Sr|]. split.
    + intros k r. rewrite Hgr. destruct (get k (rb_roles x)) as [r0|] eqn:Eg; [|discriminate].
      destruct (keqb (g_rteam r0) tid) eqn:Ek; [discriminate|]. intros [= <-].
      destruct (Vr _ _ Eg) as [V1 V2]. split; [exact V1|]. apply has_del_keep; assumption.
    + apply (pids_idx g_rteam _ _ _ Ir).
  - split; [exact Sp'|]. split; [|exact Ip'].
    intros k p. rewrite Hgp. destruct (get k (rb_mperms x)) as [p0|] eqn:Eg; [|discriminate].
    destruct (existsb (keqb (g_mrole p0)) rids) eqn:Ex; [discriminate|]. intros [= <-].
    destruct (Vp _ _ Eg) as [V1 V2]. split; [exact V1|].
    unfold has in *. rewrite get_dels. unfold g_mrole in Ex. rewrite Ex. exact V2.
  - split; [apply sorted_dels; exact Sm|]. split; [|split; [exact Ipair'|split; [exact Itok'|]]].
    + intros k m. rewrite Hgm. destruct (get k (rb_mems x)) as [m0|] eqn:Eg; [|discriminate].
      destruct (keqb (g_mteam m0) tid) eqn:Ek; [discriminate|]. intros [= <-].
      destruct (Vm _ _ Eg) as (V1 & V2 & V3). split; [exact V1|]. split; [exact V2|]. apply has_del_keep; assumption.
    + apply (pids_idx g_mteam _ _ _ Iteam).
  - apply below_dels. exact B1.
  - intros k p. rewrite Hgp. destruct (get k (rb_mperms x)) as [p0|] eqn:Eg; [|discriminate]. intros _. eapply B2. exact Eg.
  - apply below_dels. exact B3.
Qed.

(* ---- DeleteRole ---------------------------------------------------------------------- *)

Lemma delete_role_inv n s idx id : Inv n s -> n <= idx -> Inv (idx + 1) (fst (apply_delete_role s idx id)).
Proof.
  intros HI Hle. assert (Hm : Inv (idx + 1) s) by (eapply inv_mono; [eassumption|lia]).
  unfold apply_delete_role. destruct (id =? 0); [exact Hm|].
  destruct (get (KZ id) (roles s)) as [ex|] eqn:Eg; [|exact Hm].
  rewrite cascade_role_eq. cbn [fst].
  destruct Hm as [ ? ? ? ? ? [Sr [Vr Ir]] [Sp [Vp Ip]] ? ? ? ? ? ? ? ].
  assert (Hgp : forall k, get k (dels (pids (KZ id) (mpByRole s)) (mperms s)) =
            match get k (mperms s) with Some p => if keqb (g_mrole p) (KZ id) then None else Some p | None => None end)
    by (intros k; apply (get_pids g_mrole _ _ _ _ Ip)).
  constructor; cbn; try assumption.
  - split; [apply sorted_del; exact Sr|]. split.
    + intros k r. rewrite get_del. destruct (keqb k (KZ id)); [discriminate|apply Vr].
    + change (KP (KZ (r_team ex)) (KZ id)) with (kf_rteam (KZ id) ex).
      apply (idx_delete kf_rteam tt_of); [exact Eg|apply kinj_rteam|exact Ir].
  - split; [apply sorted_dels; exact Sp|]. split.
    + intros k p. rewrite Hgp. destruct (get k (mperms s)) as [p0|] eqn:Egp; [|discriminate].
      destruct (keqb (g_mrole p0) (KZ id)) eqn:Ek; [discriminate|]. intros [= <-].
      destruct (Vp _ _ Egp) as [V1 V2]. split; [exact V1|]. apply has_del_keep; assumption.
    + apply (pids_idx g_mrole _ _ _ Ip).
  - apply below_del. assumption.
  - apply below_dels. assumption.
Qed.

(* ---- DeleteTeam ---------------------------------------------------------------------- *)

Lemma delete_team_inv n s idx id : Inv n s -> n <= idx -> Inv (idx + 1) (fst (apply_delete_team s idx id)).
Proof.
  intros HI Hle. assert (Hm : Inv (idx + 1) s) by (eapply inv_mono; [eassumption|lia]).
  unfold apply_delete_team. destruct (id =? 0); [exact Hm|].
  destruct (get (KZ id) (teams s)) as [ex|] eqn:Eg; [|exact Hm]. cbn [fst].
  destruct (i_team _ _ Hm) as (St & Vt & It).
  eapply inv_of_rb; [exact Hm|lia|apply cascade_team_ok; apply rb_of_inv; exact Hm| |apply below_del; apply (i_bteam _ _ Hm)].
  split; [apply sorted_del; exact St|]. split.
  - intros k t. rewrite get_del. destruct (keqb k (KZ id)); [discriminate|apply Vt].
  - change (tkey ex) with (kf_team (KZ id) ex).
    apply (idx_delete kf_team id_of); [exact Eg|eapply kinj_id_of; exact It|exact It].
Qed.

(* ---- DeleteOrganization ---------------------------------------------------------------- *)

Lemma fold_org_ok n tks tids : forall x tms,
  RB n tks tms x ->
  let r := fold_left cascade_org_step tids (x, tms) in
  RB n tks (snd r) (fst r) /\ snd r = dels tids tms.
Proof.
  induction tids as [|tid rest IH]; intros x tms H; cbn [fold_left].
  - cbn. auto.
  - unfold cascade_org_step at 2. cbn [fst snd]. rewrite dels_cons. apply IH. apply cascade_team_ok. exact H.
Qed.

Lemma inv_of_rb_org n n' s x ts ix os bn :
  Inv n s -> n <= n' -> RB n' (tokens s) ts x -> GOrg os bn -> GTeam os ts ix -> below n' ts -> below n' os ->
  Inv n' (with_rb s x <| teams := ts |> <| orgs := os |> <| orgByName := bn |> <| teamsByOrg := ix |>).
Proof.
  intros [ ] Hle [ ] GO GT B B'. constructor; cbn; try assumption; try (eapply below_mono; eassumption).
Qed.

Lemma delete_org_inv n s idx id : Inv n s -> n <= idx -> Inv (idx + 1) (fst (apply_delete_org s idx id)).
Proof.
  intros HI Hle. assert (Hm : Inv (idx + 1) s) by (eapply inv_mono; [eassumption|lia]).
  unfold apply_delete_org. destruct (id =? 0); [exact Hm|].
  destruct (get (KZ id) (orgs s)) as [ex|] eqn:Eg; [|exact Hm].
  pose proof (fold_org_ok (idx + 1) (tokens s) (map snd (sel1 (KZ id) (teamsByOrg s))) (rb_of s) (teams s) (rb_of_inv _ _ Hm)) as Hf.
  destruct (fold_left cascade_org_step (map snd (sel1 (KZ id) (teamsByOrg s))) (rb_of s, teams s)) as [x tms].
  destruct Hf as [Hrb Htm]. cbn [fst snd] in Hrb, Htm. cbn [fst]. subst tms.
  destruct (i_team _ _ Hm) as (St & Vt & It). destruct (i_org _ _ Hm) as (So & Vo & Io).
  assert (ex_spec : forall (k : key) (t : team), snd (KS (tm_name t), id_of k t) = k) by reflexivity.
  pose proof (fun k => get_purge g_torg (fun _ t => KS (tm_name t)) id_of snd ex_spec _ _ (KZ id) k It) as Hgt.
  pose proof (purge_idx g_torg (fun _ t => KS (tm_name t)) id_of snd ex_spec _ _ (KZ id) It) as Hix.
  unfold purge_ids in Hgt, Hix.
  apply (inv_of_rb_org (idx + 1)); [exact Hm|lia|exact Hrb| | |apply below_dels; apply (i_bteam _ _ Hm)|apply below_del; apply (i_borg _ _ Hm)].
  - split; [apply sorted_del; exact So|]. split.
    + intros k o. rewrite get_del. destruct (keqb k (KZ id)); [discriminate|apply Vo].
    + exact (idx_delete kf_oname id_of _ _ (KZ id) ex Eg (kinj_id_of _ _ _ Io) Io).
  - split; [apply sorted_dels; exact St|]. split; [|exact Hix].
    intros k t. rewrite Hgt. destruct (get k (teams s)) as [t0|] eqn:Egt; [|discriminate].
    destruct (keqb (g_torg t0) (KZ id)) eqn:Ek; [discriminate|]. intros [= <-].
    destruct (Vt _ _ Egt) as [V1 V2]. split; [exact V1|]. apply has_del_keep; assumption.
Qed.

(* ---- DeleteToken ---------------------------------------------------------------------- *)

Lemma delete_token_inv n s idx id : Inv n s -> n <= idx -> Inv (idx + 1) (fst (apply_delete_token s idx id)).
Proof.
  intros HI Hle. assert (Hm : Inv (idx + 1) s) by (eapply inv_mono; [eassumption|lia]).
  unfold apply_delete_token. destruct (id =? 0); [exact Hm|].
  destruct (get (KZ id) (tokens s)) as [e|] eqn:Eg; [|exact Hm].
  fold (pids (KZ id) (memByToken s)). set (mids := pids (KZ id) (memByToken s)).
  destruct Hm as [ ? ? [Stk [Kid [Ipre Iname]]] ? ? ? ? [Sm [Vm [Ipair [Itok Iteam]]]] ? ? ? ? ? ? ].
  destruct (fold_drop_mem_token mids _ _ _ Sm Ipair Iteam) as (Hms & Ipair' & Iteam').
  destruct (fold_left drop_mem_of_token mids (mems s, memByPair s, memByTeam s)) as [[ms bypair] byteam]. cbn [fst snd] in *.
  subst ms.
  assert (Hgm : forall k, get k (dels mids (mems s)) =
            match get k (mems s) with Some m => if keqb (g_mtoken m) (KZ id) then None else Some m | None => None end)
    by (intros k; apply (get_pids g_mtoken _ _ _ _ Itok)).
  constructor; cbn; try assumption.
  - split; [apply sorted_del; exact Stk|]. split; [|split].
    + intros k t. rewrite get_del. destruct (keqb k (KZ id)); [discriminate|apply Kid].
    + change (pkey (t_prefix e) (KZ id)) with (kf_prefix (KZ id) e).
      apply (idx_delete kf_prefix tt_of); [exact Eg|apply kinj_prefix|exact Ipre].
    + change (KS (t_name e)) with (kf_tname (KZ id) e).
      apply (idx_delete kf_tname id_of); [exact Eg|eapply kinj_id_of; exact Iname|exact Iname].
  - split; [apply sorted_dels; exact Sm|]. split; [|split; [exact Ipair'|split; [|exact Iteam']]].
    + intros k m. rewrite Hgm. destruct (get k (mems s)) as [m0|] eqn:Egm; [|discriminate].
      destruct (keqb (g_mtoken m0) (KZ id)) eqn:Ek; [discriminate|]. intros [= <-].
      destruct (Vm _ _ Egm) as (V1 & V2 & V3). split; [exact V1|]. split; [|exact V3]. apply has_del_keep; assumption.
    + apply (pids_idx g_mtoken _ _ _ Itok).
  - apply below_del. assumption.
  - apply below_dels. assumption.
Qed.

Lemma delete_token_valid s idx id : TokValid (tokens s) -> TokValid (tokens (fst (apply_delete_token s idx id))).
Proof.
  intros V. unfold apply_delete_token. destruct (id =? 0); [exact V|].
  destruct (get (KZ id) (tokens s)) as [e|] eqn:Eg; [|exact V].
  destruct (fold_left _ _ _) as [[ms bypair] byteam]. cbn.
  intros k t. rewrite get_del. destruct (keqb k (KZ id)); [discriminate|apply V].
Qed.
