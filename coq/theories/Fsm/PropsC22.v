(* C22 - Cluster state machine: replay determinism and snapshot fidelity.
   Only property statements live here; the proofs are in Proofs.v and the files it imports.

   A history is a list of steps: SCmd i cm (the committed log entry with raft index i),
   SSnap (the node snapshots, restarts and restores) - SRestore (installing an arbitrary
   snapshot) is excluded by every [hist_ok].  [idx_incr 1 h]: indices strictly increase.
   [c : cfg] selects, per known defect, the code as it is or its repair; every theorem
   holds for all 32 variants, the guards are vacuous for a repaired function. *)
From Coq Require Import List ZArith Bool String.
From Arc Require Import Fsm.Key Fsm.Model Fsm.Proofs.
Import ListNotations.
Open Scope string_scope.
Open Scope Z_scope.

(* ==== PRIMARY STATEMENTS: the code as it is now (all five repairs in place, [cfg_repaired];
   the correspondence run determines each time that this is the variant the tree implements).
   No guard: EVERY history of commands and snapshot-restarts. ================================= *)

(* Restoring a snapshot reproduces exactly the state it was taken from. *)
Theorem C22_restore_snapshot : forall h,
  idx_incr 1 h -> hist_ok cfg_repaired no_guard empty_state h = true ->
  restore (snapshot (run cfg_repaired empty_state h)) = run cfg_repaired empty_state h.
Proof. exact (restore_repaired cfg_repaired eq_refl eq_refl). Qed.
Print Assumptions C22_restore_snapshot.

(* A node that restores the snapshot taken after any prefix and replays the rest ends in the
   state of a node that applied the whole log. *)
Theorem C22_prefix_replay : forall p q,
  idx_incr 1 (p ++ q) -> hist_ok cfg_repaired no_guard empty_state (p ++ q) = true ->
  run cfg_repaired (restore (snapshot (run cfg_repaired empty_state p))) q = run cfg_repaired empty_state (p ++ q).
Proof. exact (prefix_replay_repaired cfg_repaired eq_refl eq_refl). Qed.
Print Assumptions C22_prefix_replay.

(* Every lookup index (filesByDB, tokens by prefix / name, the seven RBAC indexes) is the
   function of its primary map that Restore computes. *)
Theorem C22_indexes_agree : forall h,
  idx_incr 1 h -> hist_ok cfg_repaired no_guard empty_state h = true ->
  indexes_agree (run cfg_repaired empty_state h) = true.
Proof. exact (indexes_repaired cfg_repaired eq_refl). Qed.
Print Assumptions C22_indexes_agree.

(* (C22_batch_atomic below is unguarded and holds for every variant.) *)

(* ==== The variant-generic results (any combination of repaired / unrepaired functions): the
   guards name exactly the command classes on which an UNREPAIRED function misbehaves. ======== *)

(* Restoring a snapshot reproduces exactly the state it was taken from - for every history
   that contains no UpdateFile with an empty database and no UpdateToken to an invalid name. *)
Theorem C22_restore_snapshot_guarded : forall c h,
  idx_incr 1 h ->
  hist_ok c (fun _ cm => cmd_file_guard c cm && cmd_token_guard c cm) empty_state h = true ->
  restore (snapshot (run c empty_state h)) = run c empty_state h.
Proof. exact restore_guarded. Qed.
Print Assumptions C22_restore_snapshot_guarded.

(* The strongest form, for EVERY history: the snapshot round-trip is the identity exactly
   when the filesByDB index agrees with the manifest and every token is valid. *)
Theorem C22_restore_snapshot_iff : forall c h,
  idx_incr 1 h -> hist_ok c no_guard empty_state h = true ->
  let s := run c empty_state h in
  restore (snapshot s) = s <-> (file_index_agrees s = true /\ tokens_valid s = true).
Proof. exact restore_iff. Qed.
Print Assumptions C22_restore_snapshot_iff.

(* A node that restores the snapshot taken after any prefix p and replays the rest ends in
   the state of a node that applied the whole log (snapshot-restarts inside p and q included). *)
Theorem C22_prefix_replay_guarded : forall c p q,
  idx_incr 1 (p ++ q) ->
  hist_ok c (fun _ cm => cmd_file_guard c cm && cmd_token_guard c cm) empty_state (p ++ q) = true ->
  run c (restore (snapshot (run c empty_state p))) q = run c empty_state (p ++ q).
Proof. exact prefix_replay. Qed.
Print Assumptions C22_prefix_replay_guarded.

(* Batched file operations are all-or-nothing, in every state. *)
Theorem C22_batch_atomic : forall c s idx ops,
  (snd (apply c s idx (CBatch ops)) = false /\ fst (apply c s idx (CBatch ops)) = s)
  \/ (snd (apply c s idx (CBatch ops)) = true
      /\ fst (apply c s idx (CBatch ops)) = ops_applied c s idx ops
      /\ ops_all_ok c s idx ops).
Proof. exact InvFile.batch_atomic. Qed.
Print Assumptions C22_batch_atomic.

(* Every lookup index is the function of its primary map that Restore computes ... *)
Theorem C22_indexes_agree_guarded : forall c h,
  idx_incr 1 h -> hist_ok c (fun _ cm => cmd_file_guard c cm) empty_state h = true ->
  indexes_agree (run c empty_state h) = true.
Proof. exact indexes_guarded. Qed.
Print Assumptions C22_indexes_agree_guarded.

(* ... and the token and RBAC indexes are, after EVERY history (no guard). *)
Theorem C22_auth_indexes_agree : forall c h,
  idx_incr 1 h -> hist_ok c no_guard empty_state h = true ->
  auth_indexes_agree (run c empty_state h) = true.
Proof. exact auth_indexes_all. Qed.
Print Assumptions C22_auth_indexes_agree.

(* Token validity is what the UpdateToken guard protects. *)
Theorem C22_tokens_valid_guarded : forall c h,
  idx_incr 1 h -> hist_ok c (fun _ cm => cmd_token_guard c cm) empty_state h = true ->
  tokens_valid (run c empty_state h) = true.
Proof. exact tokens_valid_guarded. Qed.
Print Assumptions C22_tokens_valid_guarded.

(* ---- the code as it is violates the unguarded statements --------------------------------- *)

Definition w_tok (name : string) : token := mkTok 0 name "" "read" "h" "p1" 5 0 false 0.
Definition w_file (db : string) : file := mkFile "db1/cpu/f1.parquet" "ab" 10 db "cpu" 1 "a" "hot" 1 0.

(* UpdateToken to an empty name is accepted; the token is gone after snapshot+restore *)
Theorem C22_restore_token_refuted : forall c, fx_tokname c = false ->
  exists h, idx_incr 1 h /\ hist_ok c no_guard empty_state h = true /\
    List.length (tokens (run c empty_state h)) = 1%nat /\
    List.length (tokens (restore (snapshot (run c empty_state h)))) = 0%nat.
Proof.
  intros [p t f r a] H. cbn in H. subst t.
  exists [SCmd 1 (CCreateToken (w_tok "t1")); SCmd 2 (CUpdateToken 1 "" "" "" 0 ["name"])].
  vm_compute. repeat split; intro; discriminate.
Qed.
Print Assumptions C22_restore_token_refuted.

(* UpdateFile with an empty database leaves the entry unindexed; Restore indexes it *)
Theorem C22_file_index_refuted : forall c, fx_filedb c = false ->
  exists h, idx_incr 1 h /\ hist_ok c no_guard empty_state h = true /\
    indexes_agree (run c empty_state h) = false /\
    filesByDB (run c empty_state h) = [] /\
    filesByDB (restore (snapshot (run c empty_state h))) = [(KP (KS "") (KS "db1/cpu/f1.parquet"), tt)].
Proof.
  intros [p t f r a] H. cbn in H. subst f.
  exists [SCmd 1 (CRegisterFile (w_file "db1")); SCmd 2 (CUpdateFile (w_file ""))].
  vm_compute. repeat split; intro; discriminate.
Qed.
Print Assumptions C22_file_index_refuted.

(* ... so a replica restarted from the snapshot and one that replayed the log diverge *)
Theorem C22_prefix_replay_refuted : forall c, fx_tokname c = false ->
  exists p q, idx_incr 1 (p ++ q) /\ hist_ok c no_guard empty_state (p ++ q) = true /\
    state_eqb (run c (restore (snapshot (run c empty_state p))) q) (run c empty_state (p ++ q)) = false.
Proof.
  intros [p t f r a] H. cbn in H. subst t.
  exists [SCmd 1 (CCreateToken (w_tok "t1")); SCmd 2 (CUpdateToken 1 "" "" "" 0 ["name"])], [SCmd 3 (CRevokeToken 1)].
  vm_compute. repeat split; intro; discriminate.
Qed.
Print Assumptions C22_prefix_replay_refuted.

(* ---- non-vacuity --------------------------------------------------------------------------- *)

(* a history inside every guard, with accepted and rejected commands of all families, a
   snapshot-restart in the middle, whose final state is not trivial *)
Definition ex_history : list step :=
  [ SCmd 1 (CAddNode (mkNode "a" "n" "writer" "c" "x" "y" "healthy" "v" "" 4));
    SCmd 2 (CRegisterFile (w_file "db1"));
    SCmd 3 (CCreateToken (w_tok "t1"));
    SCmd 4 (CCreateOrg (mkOrg 0 "o1" "" 5 0 false 0));
    SCmd 5 (CCreateTeam (mkTeam 0 4 "tm" "" 5 0 false 0));
    SSnap;
    SCmd 7 (CAddMember (mkMem 0 3 5 5 0));
    SCmd 8 (CBatch [BUpdate (w_file "db2"); BDelete "" "x"]);
    SCmd 9 (CUpdateToken 3 "t2" "" "" 0 ["name"]);
    SCmd 10 (CDeleteOrg 4) ].

Example C22_guards_satisfiable :
  idx_incr 1 ex_history /\
  hist_ok cfg_as_is (fun _ cm => cmd_file_guard cfg_as_is cm && cmd_token_guard cfg_as_is cm) empty_state ex_history = true /\
  map snd (trace cfg_as_is empty_state ex_history) = [true; true; true; true; true; true; true; false; true; true] /\
  List.length (tokens (run cfg_as_is empty_state ex_history)) = 1%nat /\
  List.length (files (run cfg_as_is empty_state ex_history)) = 1%nat /\
  mems (run cfg_as_is empty_state ex_history) = [].
Proof. vm_compute. repeat split; intro; discriminate. Qed.
