(* File-manifest commands (RegisterFile, UpdateFile, DeleteFile, BatchFileOps): shape of the
   step, preservation of the manifest invariant and - under the guard - of the filesByDB
   index; batch atomicity. *)
From Coq Require Import List ZArith Bool String Lia.
From RecordUpdate Require Import RecordSet.
From Arc Require Import Fsm.Key Fsm.KeyFacts Fsm.Model Fsm.Tactics Fsm.IdxFacts Fsm.InvDefs.
Import ListNotations RecordSetNotations.
Open Scope string_scope.
Open Scope Z_scope.

Lemma state_eta_files s : s <| filesByDB := filesByDB s |> <| files := files s |> = s.
Proof. destruct s; reflexivity. Qed.

Lemma gfile_put fs e : GFile fs -> valid_path (f_path e) = true -> GFile (put (KS (f_path e)) e fs).
Proof.
  intros [S H] Hv. split; [apply sorted_put; exact S|].
  intros k f. rewrite get_put. destruct (keqb_spec k (KS (f_path e))) as [->|Ek].
  - intros [= <-]. auto.
  - apply H.
Qed.

Lemma gfile_del fs k : GFile fs -> GFile (del k fs).
Proof.
  intros [S H]. split; [apply sorted_del; exact S|].
  intros k0 f. rewrite get_del. destruct (keqb k0 k); [discriminate|apply H].
Qed.

Definition unindex_old' (fs : smap file) (ix : smap unit) (e : file) : smap unit :=
  match get (KS (f_path e)) fs with
  | Some old => if negb (seqb (f_db old) (f_db e)) then del (fkey old) ix else ix
  | None => ix
  end.

Lemma fileidx_put fs ix e :
  GFile fs -> FileIdx fs ix -> FileIdx (put (KS (f_path e)) e fs) (put (fkey e) tt (unindex_old' fs ix e)).
Proof.
  intros [S HK] Hix. unfold unindex_old'. unfold FileIdx in *.
  change (fkey e) with (kf_db (KS (f_path e)) e). change tt with (tt_of (KS (f_path e)) e).
  destruct (get (KS (f_path e)) fs) as [old|] eqn:Eo.
  - destruct (HK _ _ Eo) as [Hk _]. apply KS_inj in Hk.
    destruct (seqb (f_db old) (f_db e)) eqn:Edb; cbn [negb].
    + apply seqb_eq in Edb.
      assert (Hsame : kf_db (KS (f_path e)) e = kf_db (KS (f_path e)) old) by (unfold kf_db; congruence).
      rewrite (put_same (kf_db (KS (f_path e)) e) (tt_of (KS (f_path e)) e) ix).
      * eapply idx_update_same; [exact Eo|exact Hsame|reflexivity|exact Hix].
      * apply Hix.
      * rewrite Hsame. apply (idx_get_intro kf_db tt_of _ _ _ _ Hix Eo).
    + apply seqb_neq in Edb.
      replace (fkey old) with (kf_db (KS (f_path e)) old) by (unfold fkey, kf_db; congruence).
      apply idx_rekey; [exact S|exact Eo|apply kinj_db|exact Hix|].
      right. apply (idx_get_none kf_db tt_of _ _ _ Hix). intros id' e' Hg' Hk'.
      unfold kf_db in Hk'. inversion Hk'; subst id'. rewrite Eo in Hg'. inversion Hg'; subst e'. congruence.
  - apply idx_insert; [exact Eo| |exact Hix].
    eapply idx_fresh_free; [|exact Eo|exact Hix]. unfold kf_db. congruence.
Qed.

Lemma fileidx_del fs ix path old :
  get (KS path) fs = Some old -> FileIdx fs ix ->
  FileIdx (del (KS path) fs) (del (KP (KS (f_db old)) (KS path)) ix).
Proof.
  intros Hg Hix. change (KP (KS (f_db old)) (KS path)) with (kf_db (KS path) old).
  apply idx_delete; [exact Hg|apply kinj_db|exact Hix].
Qed.

Section File.
Variable c : cfg.

(* what a file command does to (files, filesByDB) *)
Definition FileStep (guard : bool) (s s' : state) : Prop :=
  exists fs ix, s' = s <| filesByDB := ix |> <| files := fs |> /\
    (GFile (files s) -> GFile fs) /\
    (guard = true -> GFile (files s) -> FileIdx (files s) (filesByDB s) -> FileIdx fs ix).

Lemma filestep_refl g s : FileStep g s s.
Proof. exists (files s), (filesByDB s). rewrite state_eta_files. auto. Qed.

Lemma filestep_trans g s1 s2 s3 : FileStep g s1 s2 -> FileStep g s2 s3 -> FileStep g s1 s3.
Proof.
  intros (fs & ix & -> & G1 & I1) (fs' & ix' & -> & G2 & I2). cbn in *.
  exists fs', ix'. split; [reflexivity|]. split; [auto|]. intros Hg HG HI. apply I2; auto.
Qed.

Lemma register_step s idx f : FileStep true s (fst (apply_register_file s idx f)).
Proof.
  unfold apply_register_file. destruct (negb (valid_path (f_path f))) eqn:Ev; [apply filestep_refl|].
  destruct (f_created f =? time_zero); [apply filestep_refl|]. cbn [fst].
  apply negb_false_iff in Ev.
  eexists _, _. split; [reflexivity|]. split.
  - intros G. apply (gfile_put _ (f <| f_lsn := idx |>)); assumption.
  - intros _ G HI. apply (fileidx_put _ _ (f <| f_lsn := idx |>)); assumption.
Qed.

Lemma update_step s idx f : FileStep (file_db_ok c f) s (fst (apply_update_file c s idx f)).
Proof.
  unfold apply_update_file. destruct (negb (valid_path (f_path f))) eqn:Ev; [apply filestep_refl|].
  destruct (f_created f =? time_zero); [apply filestep_refl|]. cbn [fst].
  apply negb_false_iff in Ev.
  eexists _, _. split; [reflexivity|]. split.
  - intros G. apply (gfile_put _ (f <| f_lsn := idx |>)); assumption.
  - unfold file_db_ok. intros Hg G HI.
    replace (negb (sempty (f_db (f <| f_lsn := idx |>))) || fx_filedb c)%bool with true
      by (cbn; rewrite orb_comm; symmetry; exact Hg).
    apply (fileidx_put _ _ (f <| f_lsn := idx |>)); assumption.
Qed.

Lemma delete_step s path reason : FileStep true s (fst (apply_delete_file s path reason)).
Proof.
  unfold apply_delete_file. destruct (sempty path); [apply filestep_refl|].
  destruct (get (KS path) (files s)) as [old|] eqn:Eo; [|apply filestep_refl]. cbn [fst].
  eexists _, _. split; [reflexivity|]. split.
  - apply gfile_del.
  - intros _ _ HI. apply fileidx_del; assumption.
Qed.

Definition bop_guard (o : bop) : bool := match o with BUpdate f => file_db_ok c f | _ => true end.

Lemma bop_step s idx o : FileStep (bop_guard o) s (fst (apply_bop c s idx o)).
Proof.
  destruct o; cbn [apply_bop bop_guard].
  - apply register_step.
  - apply delete_step.
  - apply update_step.
  - apply filestep_refl.
Qed.

Lemma filestep_weaken g g' s s' : (g' = true -> g = true) -> FileStep g s s' -> FileStep g' s s'.
Proof.
  intros Hgg (fs & ix & E & G & HI). exists fs, ix. split; [exact E|]. split; [exact G|].
  intros Hg' HG Hidx. apply HI; auto.
Qed.

Lemma batch_loop_step ops : forall s idx,
  FileStep (forallb bop_guard ops) s (fst (batch_loop c s idx ops)).
Proof.
  induction ops as [|o r IH]; intros s idx; cbn [batch_loop forallb].
  - apply filestep_refl.
  - pose proof (bop_step s idx o) as H1. destruct (apply_bop c s idx o) as [s1 ok] eqn:E1. cbn [fst] in H1.
    destruct ok; cbn [fst].
    + eapply filestep_trans.
      * eapply filestep_weaken; [|exact H1]. intros H. apply andb_true_iff in H. tauto.
      * eapply filestep_weaken; [|apply IH]. intros H. apply andb_true_iff in H. tauto.
    + eapply filestep_weaken; [|exact H1]. intros H. apply andb_true_iff in H. tauto.
Qed.

Lemma batch_step s idx ops : FileStep (forallb bop_guard ops) s (fst (apply_batch c s idx ops)).
Proof.
  unfold apply_batch. destruct (forallb bop_prevalid ops); [apply batch_loop_step|apply filestep_refl].
Qed.

(* ---- batch atomicity ---------------------------------------------------------------- *)

Lemma bop_prevalid_ok s idx o : bop_prevalid o = true -> snd (apply_bop c s idx o) = true.
Proof.
  destruct o; cbn [bop_prevalid apply_bop]; try discriminate.
  - unfold file_payload_ok, apply_register_file. intros H. apply andb_true_iff in H. destruct H as [H1 H2].
    rewrite H1. cbn [negb]. apply negb_true_iff in H2. rewrite H2. reflexivity.
  - unfold apply_delete_file. intros H. apply negb_true_iff in H. rewrite H.
    destruct (get (KS path) (files s)); reflexivity.
  - unfold file_payload_ok, apply_update_file. intros H. apply andb_true_iff in H. destruct H as [H1 H2].
    rewrite H1. cbn [negb]. apply negb_true_iff in H2. rewrite H2. reflexivity.
Qed.

Lemma batch_loop_all ops : forall s idx,
  forallb bop_prevalid ops = true -> batch_loop c s idx ops = (ops_applied c s idx ops, true).
Proof.
  induction ops as [|o r IH]; intros s idx H; cbn [batch_loop ops_applied forallb] in *; [reflexivity|].
  apply andb_true_iff in H. destruct H as [H1 H2].
  pose proof (bop_prevalid_ok s idx o H1) as Hok.
  destruct (apply_bop c s idx o) as [s1 ok]. cbn in Hok. subst ok. cbn [fst]. apply IH. exact H2.
Qed.

Lemma prevalid_all_ok ops : forall s idx, forallb bop_prevalid ops = true -> ops_all_ok c s idx ops.
Proof.
  induction ops as [|o r IH]; intros s idx H; cbn [ops_all_ok forallb] in *; [exact I|].
  apply andb_true_iff in H. destruct H as [H1 H2]. split; [apply bop_prevalid_ok; exact H1|apply IH; exact H2].
Qed.

Lemma batch_atomic s idx ops :
  (snd (apply_batch c s idx ops) = false /\ fst (apply_batch c s idx ops) = s)
  \/ (snd (apply_batch c s idx ops) = true /\ fst (apply_batch c s idx ops) = ops_applied c s idx ops
      /\ ops_all_ok c s idx ops).
Proof.
  unfold apply_batch. destruct (forallb bop_prevalid ops) eqn:E.
  - right. rewrite (batch_loop_all ops s idx E). cbn. repeat split. apply prevalid_all_ok. exact E.
  - left. split; reflexivity.
Qed.

End File.
