(* Facts about the keys and sorted finite maps of Key.v. *)
From Coq Require Import List ZArith Bool String Ascii Lia.
From Arc Require Import Fsm.Key.
Import ListNotations.
Open Scope Z_scope.

(* ---- the key order ------------------------------------------------------------------ *)

Lemma ascii_cmp_refl a : Ascii.compare a a = Eq.
Proof. unfold Ascii.compare. apply N.compare_refl. Qed.

Lemma ascii_cmp_lt_trans a b c :
  Ascii.compare a b = Lt -> Ascii.compare b c = Lt -> Ascii.compare a c = Lt.
Proof.
  unfold Ascii.compare. rewrite !N.compare_lt_iff. apply N.lt_trans.
Qed.

Lemma str_cmp_refl s : String.compare s s = Eq.
Proof. induction s; cbn; [reflexivity|]. rewrite ascii_cmp_refl. exact IHs. Qed.

Lemma str_cmp_eq a b : String.compare a b = Eq -> a = b.
Proof. apply String.compare_eq_iff. Qed.

Lemma str_cmp_lt_trans a : forall b c,
  String.compare a b = Lt -> String.compare b c = Lt -> String.compare a c = Lt.
Proof.
  induction a as [|x a IH]; intros [|y b] [|z c]; cbn; try congruence.
  destruct (Ascii.compare x y) eqn:Exy; try discriminate.
  - apply Ascii.compare_eq_iff in Exy; subst y.
    destruct (Ascii.compare x z) eqn:Exz; try congruence. intros H1 H2. eapply IH; eassumption.
  - intros _. destruct (Ascii.compare y z) eqn:Eyz; try discriminate.
    + apply Ascii.compare_eq_iff in Eyz; subst z. rewrite Exy. reflexivity.
    + intros _. rewrite (ascii_cmp_lt_trans _ _ _ Exy Eyz). reflexivity.
Qed.

Lemma kcmp_refl a : kcmp a a = Eq.
Proof.
  induction a; cbn.
  - apply Z.compare_refl.
  - apply str_cmp_refl.
  - rewrite IHa1. exact IHa2.
Qed.

Lemma kcmp_eq a : forall b, kcmp a b = Eq -> a = b.
Proof.
  induction a; intros [ | | ]; cbn; try congruence; intros.
  - apply Z.compare_eq in H. congruence.
  - apply str_cmp_eq in H. congruence.
  - destruct (kcmp a1 a) eqn:E; try discriminate.
    apply IHa1 in E. apply IHa2 in H. congruence.
Qed.

Lemma kcmp_antisym a : forall b, kcmp b a = CompOpp (kcmp a b).
Proof.
  induction a; intros [ | | ]; cbn; try reflexivity.
  - apply Z.compare_antisym.
  - apply String.compare_antisym.
  - rewrite (IHa1 a). destruct (kcmp a1 a); cbn; try reflexivity. apply IHa2.
Qed.

Lemma kcmp_lt_trans a : forall b c, kcmp a b = Lt -> kcmp b c = Lt -> kcmp a c = Lt.
Proof.
  induction a; intros [ | | ] [ | | ]; cbn; try congruence.
  - rewrite !Z.compare_lt_iff. lia.
  - apply str_cmp_lt_trans.
  - destruct (kcmp a1 a) eqn:E1; try discriminate.
    + apply kcmp_eq in E1; subst a. destruct (kcmp a1 a0) eqn:E2; try congruence.
      intros; eapply IHa2; eassumption.
    + intros _. destruct (kcmp a a0) eqn:E2; try discriminate.
      * apply kcmp_eq in E2; subst a0. rewrite E1. reflexivity.
      * intros _. rewrite (IHa1 _ _ E1 E2). reflexivity.
Qed.

Lemma kcmp_gt_lt a b : kcmp a b = Gt -> kcmp b a = Lt.
Proof. intros H. rewrite kcmp_antisym, H. reflexivity. Qed.

Lemma keqb_refl a : keqb a a = true.
Proof. unfold keqb. rewrite kcmp_refl. reflexivity. Qed.

Lemma keqb_eq a b : keqb a b = true -> a = b.
Proof. unfold keqb. destruct (kcmp a b) eqn:E; try discriminate. intros _. apply kcmp_eq; exact E. Qed.

Lemma keqb_neq a b : a <> b -> keqb a b = false.
Proof. intros H. destruct (keqb a b) eqn:E; [|reflexivity]. apply keqb_eq in E. contradiction. Qed.

Lemma keqb_false_neq a b : keqb a b = false -> a <> b.
Proof. intros H ->. rewrite keqb_refl in H. discriminate. Qed.

Lemma keqb_spec a b : reflect (a = b) (keqb a b).
Proof. destruct (keqb a b) eqn:E; constructor; [apply keqb_eq; exact E | apply keqb_false_neq; exact E]. Qed.

Lemma keqb_sym a b : keqb a b = keqb b a.
Proof. destruct (keqb_spec a b); subst; [rewrite keqb_refl; reflexivity|]. symmetry; apply keqb_neq; congruence. Qed.

Lemma kcmp_lt_neq a b : kcmp a b = Lt -> keqb a b = false.
Proof. unfold keqb. intros ->. reflexivity. Qed.

Lemma key_eq_dec (a b : key) : {a = b} + {a <> b}.
Proof. destruct (keqb_spec a b); [left|right]; assumption. Qed.

Ltac kdes a b :=
  let E := fresh "E" in destruct (keqb_spec a b) as [E|E]; [try subst|].

(* ---- sorted maps --------------------------------------------------------------------- *)

Section Maps.
  Context {V : Type}.
  Implicit Types (m : smap V) (k : key) (v : V).

  Fixpoint lt_all k m : Prop :=
    match m with [] => True | (k', _) :: r => kcmp k k' = Lt /\ lt_all k r end.
  Fixpoint sorted m : Prop :=
    match m with [] => True | (k, _) :: r => lt_all k r /\ sorted r end.

  Lemma lt_all_trans a b m : kcmp a b = Lt -> lt_all b m -> lt_all a m.
  Proof.
    intros Hab. induction m as [|[k v] r IH]; cbn; [trivial|]. intros [H1 H2]. split; [|auto].
    eapply kcmp_lt_trans; eassumption.
  Qed.

  Lemma lt_all_get k m : lt_all k m -> get k m = None.
  Proof.
    induction m as [|[k' v] r IH]; cbn; [reflexivity|]. intros [H1 H2].
    rewrite (kcmp_lt_neq _ _ H1). auto.
  Qed.

  Lemma lt_all_in k m k' v : lt_all k m -> In (k', v) m -> kcmp k k' = Lt.
  Proof.
    induction m as [|[k2 v2] r IH]; cbn; [tauto|]. intros [H1 H2] [H|H]; [congruence|auto].
  Qed.

  Lemma lt_all_forall k m : (forall k' v, In (k', v) m -> kcmp k k' = Lt) -> lt_all k m.
  Proof.
    induction m as [|[k2 v2] r IH]; cbn; [trivial|]. intros H. split; [eapply H; left; reflexivity|].
    apply IH. intros; eapply H; right; eassumption.
  Qed.

  Lemma get_in k v m : get k m = Some v -> In (k, v) m.
  Proof.
    induction m as [|[k' v'] r IH]; cbn; [discriminate|].
    kdes k k'; [intros [= ->]; left; reflexivity| right; auto].
  Qed.

  Lemma in_get k v m : sorted m -> In (k, v) m -> get k m = Some v.
  Proof.
    induction m as [|[k' v'] r IH]; cbn; [tauto|]. intros [H1 H2] [H|H].
    - inversion H; subst. rewrite keqb_refl. reflexivity.
    - pose proof (lt_all_in _ _ _ _ H1 H) as Hlt.
      rewrite keqb_sym, (kcmp_lt_neq _ _ Hlt). auto.
  Qed.

  Lemma get_put k k' v m : get k (put k' v m) = if keqb k k' then Some v else get k m.
  Proof.
    induction m as [|[k2 v2] r IH]; cbn.
    - destruct (keqb k k'); reflexivity.
    - destruct (kcmp k' k2) eqn:E; cbn.
      + apply kcmp_eq in E; subst k2. destruct (keqb k k'); reflexivity.
      + destruct (keqb k k'); reflexivity.
      + rewrite IH. kdes k k2; [|reflexivity].
        rewrite keqb_sym. unfold keqb at 1. rewrite E. reflexivity.
  Qed.

  Lemma get_put_same k v m : get k (put k v m) = Some v.
  Proof. rewrite get_put, keqb_refl. reflexivity. Qed.

  Lemma get_put_other k k' v m : k <> k' -> get k (put k' v m) = get k m.
  Proof. intros H. rewrite get_put, (keqb_neq _ _ H). reflexivity. Qed.

  Lemma get_del k k' m : get k (del k' m) = if keqb k k' then None else get k m.
  Proof.
    induction m as [|[k2 v2] r IH]; cbn.
    - destruct (keqb k k'); reflexivity.
    - kdes k' k2; cbn.
      + rewrite IH. destruct (keqb k k2); reflexivity.
      + rewrite IH. kdes k k2; [|reflexivity]. rewrite (keqb_neq k2 k') by congruence. reflexivity.
  Qed.

  Lemma get_del_same k m : get k (del k m) = None.
  Proof. rewrite get_del, keqb_refl. reflexivity. Qed.

  Lemma get_del_other k k' m : k <> k' -> get k (del k' m) = get k m.
  Proof. intros H. rewrite get_del, (keqb_neq _ _ H). reflexivity. Qed.

  Lemma lt_all_put a k v m : kcmp a k = Lt -> lt_all a m -> lt_all a (put k v m).
  Proof.
    intros Ha. induction m as [|[k2 v2] r IH]; cbn; [tauto|]. intros [H1 H2].
    destruct (kcmp k k2); cbn; tauto.
  Qed.

  Lemma sorted_put k v m : sorted m -> sorted (put k v m).
  Proof.
    induction m as [|[k2 v2] r IH]; cbn; [tauto|]. intros [H1 H2].
    destruct (kcmp k k2) eqn:E; cbn.
    - apply kcmp_eq in E; subst. tauto.
    - repeat split; try assumption. eapply lt_all_trans; eassumption.
    - split; [|auto]. apply lt_all_put; [apply kcmp_gt_lt; exact E|exact H1].
  Qed.

  Lemma lt_all_filter a (p : key * V -> bool) m : lt_all a m -> lt_all a (filter p m).
  Proof.
    induction m as [|[k2 v2] r IH]; cbn; [tauto|]. intros [H1 H2].
    destruct (p (k2, v2)); cbn; tauto.
  Qed.

  Lemma sorted_filter (p : key * V -> bool) m : sorted m -> sorted (filter p m).
  Proof.
    induction m as [|[k2 v2] r IH]; cbn; [tauto|]. intros [H1 H2].
    destruct (p (k2, v2)); cbn; [split; [apply lt_all_filter; exact H1|auto]|auto].
  Qed.

  Lemma del_filter k m : del k m = filter (fun kv => negb (keqb k (fst kv))) m.
  Proof.
    induction m as [|[k2 v2] r IH]; cbn; [reflexivity|]. rewrite IH. destruct (keqb k k2); reflexivity.
  Qed.

  Lemma sorted_del k m : sorted m -> sorted (del k m).
  Proof. rewrite del_filter. apply sorted_filter. Qed.

  Lemma del1_sorted a m : sorted m -> sorted (del1 a m).
  Proof. apply sorted_filter. Qed.

  (* filtering on the key only *)
  Lemma get_kfilter (q : key -> bool) k m :
    get k (filter (fun kv => q (fst kv)) m) = if q k then get k m else None.
  Proof.
    induction m as [|[k2 v2] r IH]; cbn.
    - destruct (q k); reflexivity.
    - destruct (q k2) eqn:Eq; cbn.
      + kdes k k2; [rewrite Eq; reflexivity|exact IH].
      + rewrite IH. kdes k k2; [rewrite Eq; reflexivity|reflexivity].
  Qed.

  Lemma get_del1 a k m :
    get k (del1 a m) = match k with KP x _ => if keqb a x then None else get k m | _ => get k m end.
  Proof.
    unfold del1. rewrite (get_kfilter (fun k => match k with KP x _ => negb (keqb a x) | _ => true end)).
    destruct k; try reflexivity. destruct (keqb a k1); reflexivity.
  Qed.

  (* filtering on key and value needs distinct keys *)
  Lemma get_filter (p : key * V -> bool) k m : sorted m ->
    get k (filter p m) = match get k m with Some v => if p (k, v) then Some v else None | None => None end.
  Proof.
    induction m as [|[k2 v2] r IH]; cbn; [reflexivity|]. intros [H1 H2].
    destruct (p (k2, v2)) eqn:Ep; cbn.
    - kdes k k2; [rewrite Ep; reflexivity|auto].
    - kdes k k2; [|auto]. rewrite Ep.
      apply lt_all_get. apply lt_all_filter. exact H1.
  Qed.

  Lemma smap_ext m1 : forall m2, sorted m1 -> sorted m2 -> (forall k, get k m1 = get k m2) -> m1 = m2.
  Proof.
    induction m1 as [|[k1 v1] r1 IH]; intros [|[k2 v2] r2]; cbn; intros S1 S2 H.
    - reflexivity.
    - specialize (H k2). rewrite keqb_refl in H. discriminate.
    - specialize (H k1). rewrite keqb_refl in H. discriminate.
    - destruct S1 as [L1 S1], S2 as [L2 S2].
      destruct (kcmp k1 k2) eqn:E.
      + apply kcmp_eq in E; subst k2.
        pose proof (H k1) as Hk. rewrite keqb_refl in Hk. inversion Hk; subst v2.
        f_equal. apply IH; try assumption. intros k. specialize (H k).
        kdes k k1; [|exact H]. rewrite (lt_all_get _ _ L1), (lt_all_get _ _ L2). reflexivity.
      + specialize (H k1). rewrite keqb_refl, (kcmp_lt_neq _ _ E) in H.
        rewrite (lt_all_get k1 r2) in H by (eapply lt_all_trans; eassumption). discriminate.
      + apply kcmp_gt_lt in E. specialize (H k2). rewrite keqb_refl, (kcmp_lt_neq _ _ E) in H.
        rewrite (lt_all_get k2 r1) in H by (eapply lt_all_trans; eassumption). discriminate.
  Qed.

  Lemma del_absent k m : get k m = None -> del k m = m.
  Proof.
    induction m as [|[k2 v2] r IH]; cbn; [reflexivity|].
    kdes k k2; [discriminate|]. intros H. f_equal. auto.
  Qed.

  Lemma put_del_same k v m : sorted m -> put k v (del k m) = put k v m.
  Proof.
    intros S. apply smap_ext; [apply sorted_put, sorted_del; exact S|apply sorted_put; exact S|].
    intros k0. rewrite !get_put, get_del. destruct (keqb k0 k); reflexivity.
  Qed.

  Lemma put_same k v m : sorted m -> get k m = Some v -> put k v m = m.
  Proof.
    intros S H. apply smap_ext; [apply sorted_put; exact S|exact S|].
    intros k0. rewrite get_put. kdes k0 k; [symmetry; exact H|reflexivity].
  Qed.

  Lemma has_true k m : has k m = true <-> exists v, get k m = Some v.
  Proof. unfold has. destruct (get k m); split; intros H; eauto; try discriminate. destruct H; discriminate. Qed.

  Lemma has_false k m : has k m = false <-> get k m = None.
  Proof. unfold has. destruct (get k m); split; congruence. Qed.

  (* dels *)
  Lemma get_dels ks : forall m k, get k (dels ks m) = if existsb (keqb k) ks then None else get k m.
  Proof.
    unfold dels. induction ks as [|k1 ks IH]; cbn; intros; [reflexivity|].
    rewrite IH, get_del. destruct (keqb k k1), (existsb (keqb k) ks); reflexivity.
  Qed.

  Lemma sorted_dels ks : forall m, sorted m -> sorted (dels ks m).
  Proof. unfold dels. induction ks; cbn; intros; [assumption|]. apply IHks, sorted_del; assumption. Qed.

  (* sel1 *)
  Lemma in_sel1 a y v m : In (y, v) (sel1 a m) <-> In (KP a y, v) m.
  Proof.
    unfold sel1. rewrite in_flat_map. split.
    - intros [[k v'] [Hin H]]. cbn in H. destruct k as [| |x y']; try contradiction.
      kdes a x; [|contradiction]. destruct H as [H|[]]. inversion H; subst. exact Hin.
    - intros H. exists (KP a y, v). split; [exact H|]. cbn. rewrite keqb_refl. left; reflexivity.
  Qed.

  Lemma sel1_get a y v m : sorted m -> (In (y, v) (sel1 a m) <-> get (KP a y) m = Some v).
  Proof.
    intros S. rewrite in_sel1. split; [apply in_get; exact S|apply get_in].
  Qed.

  Lemma existsb_keqb k l : existsb (keqb k) l = true <-> In k l.
  Proof.
    rewrite existsb_exists. split.
    - intros [x [H1 H2]]. apply keqb_eq in H2. subst. exact H1.
    - intros H. exists k. split; [exact H|apply keqb_refl].
  Qed.
End Maps.

Lemma option_ext {A} (a b : option A) : (forall v, a = Some v <-> b = Some v) -> a = b.
Proof.
  intros H. destruct a as [x|], b as [y|]; try reflexivity.
  - destruct (H x) as [H1 _]. symmetry. apply H1. reflexivity.
  - destruct (H x) as [H1 _]. specialize (H1 eq_refl). discriminate.
  - destruct (H y) as [_ H1]. specialize (H1 eq_refl). discriminate.
Qed.
