(* Keys and finite maps of the cluster-FSM model (definitions only; facts in KeyFacts.v).

   Go maps are modelled as association lists kept sorted by key, so that two maps with
   the same bindings are the same term (the Go runtime gives no iteration order, the
   model iterates in ascending key order).  One key type serves every map of the FSM:
   int64 ids (KZ), strings (KS) and pairs (KP) for the nested index maps, which are
   modelled FLAT: the Go value  teamsByOrg[org][name] = id  is the binding
   KP (KZ org) (KS name) |-> id.  (An inner Go map that exists but is empty has no
   counterpart; the harness reports such maps separately and the correspondence
   requires that there are none.) *)
From Coq Require Import List ZArith Bool String Ascii.
Import ListNotations.
Open Scope Z_scope.

Inductive key := KZ (z : Z) | KS (s : string) | KP (a b : key).

Fixpoint kcmp (a b : key) : comparison :=
  match a, b with
  | KZ x, KZ y => Z.compare x y
  | KZ _, _ => Lt
  | KS _, KZ _ => Gt
  | KS x, KS y => String.compare x y
  | KS _, KP _ _ => Lt
  | KP a1 a2, KP b1 b2 => match kcmp a1 b1 with Eq => kcmp a2 b2 | c => c end
  | KP _ _, _ => Gt
  end.

Definition keqb (a b : key) : bool := match kcmp a b with Eq => true | _ => false end.

Definition smap (V : Type) := list (key * V).

Section Ops.
  Context {V : Type}.

  Fixpoint get (k : key) (m : smap V) : option V :=
    match m with
    | [] => None
    | (k', v) :: r => if keqb k k' then Some v else get k r
    end.

  Fixpoint put (k : key) (v : V) (m : smap V) : smap V :=
    match m with
    | [] => [(k, v)]
    | (k', v') :: r =>
        match kcmp k k' with
        | Lt => (k, v) :: m
        | Eq => (k, v) :: r
        | Gt => (k', v') :: put k v r
        end
    end.

  Fixpoint del (k : key) (m : smap V) : smap V :=
    match m with
    | [] => []
    | (k', v') :: r => if keqb k k' then del k r else (k', v') :: del k r
    end.

  Definition has (k : key) (m : smap V) : bool :=
    match get k m with Some _ => true | None => false end.

  (* delete a list of keys *)
  Definition dels (ks : list key) (m : smap V) : smap V := fold_left (fun a k => del k a) ks m.

  (* inner map of a flat nested map: all bindings KP a y |-> v, as (y, v) *)
  Definition sel1 (a : key) (m : smap V) : list (key * V) :=
    flat_map (fun kv => match fst kv with
                        | KP x y => if keqb a x then [(y, snd kv)] else []
                        | _ => []
                        end) m.

  (* delete the whole inner map of a *)
  Definition del1 (a : key) (m : smap V) : smap V :=
    filter (fun kv => match fst kv with KP x _ => negb (keqb a x) | _ => true end) m.
End Ops.

(* ---- strings ---------------------------------------------------------------------- *)

Definition byte_of (n : N) : ascii := ascii_of_N n.
(* string from a list of byte values (used by generated case files for non-printable bytes) *)
Fixpoint sb (l : list N) : string :=
  match l with [] => EmptyString | b :: r => String (byte_of b) (sb r) end.
(* n copies of a string *)
Fixpoint srep (n : nat) (s : string) : string :=
  match n with O => EmptyString | S n' => append s (srep n' s) end.

Definition seqb (a b : string) : bool := String.eqb a b.
Definition sempty (s : string) : bool := match s with EmptyString => true | _ => false end.
Definition slen (s : string) : nat := String.length s.
