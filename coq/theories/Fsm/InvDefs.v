(* The invariant of the cluster FSM: every map sorted, every secondary index the
   specified function of its primary map, every RBAC entry valid with existing parents,
   ids below the next log index.  Two guarded parts are kept apart: the filesByDB index
   (broken by UpdateFile with an empty database) and token validity (broken by
   UpdateToken with an invalid name). *)
From Coq Require Import List ZArith Bool String Lia.
From RecordUpdate Require Import RecordSet.
From Arc Require Import Fsm.Key Fsm.KeyFacts Fsm.Model Fsm.Tactics Fsm.IdxFacts.
Import ListNotations RecordSetNotations.
Open Scope string_scope.
Open Scope Z_scope.

Definition tt_of {E} (_ : key) (_ : E) : unit := tt.
Definition id_of {E} (k : key) (_ : E) : key := k.

Definition kf_db (k : key) (f : file) : key := KP (KS (f_db f)) k.
Definition kf_prefix (k : key) (t : token) : key := KP (KS (t_prefix t)) k.
Definition kf_tname (_ : key) (t : token) : key := KS (t_name t).
Definition kf_oname (_ : key) (o : org) : key := KS (o_name o).
Definition kf_team (_ : key) (t : team) : key := tkey t.
Definition kf_rteam (k : key) (r : role) : key := KP (KZ (r_team r)) k.
Definition kf_mrole (k : key) (p : mperm) : key := KP (KZ (mp_role p)) k.
Definition kf_pair (_ : key) (m : mem) : key := KP (KZ (m_token m)) (KZ (m_team m)).
Definition kf_mtoken (k : key) (m : mem) : key := KP (KZ (m_token m)) k.
Definition kf_mteam (k : key) (m : mem) : key := KP (KZ (m_team m)) k.

Definition below {V} (n : Z) (m : smap V) : Prop :=
  forall k v, get k m = Some v -> exists z, k = KZ z /\ z < n.

Definition GFile (fs : smap file) : Prop :=
  sorted fs /\ forall k f, get k fs = Some f -> k = KS (f_path f) /\ valid_path (f_path f) = true.
Definition FileIdx (fs : smap file) (ix : smap unit) : Prop := IdxOK kf_db tt_of fs ix.

Definition GTok (tks : smap token) (bp : smap unit) (bn : smap key) : Prop :=
  sorted tks /\ (forall k t, get k tks = Some t -> k = KZ (t_id t))
  /\ IdxOK kf_prefix tt_of tks bp /\ IdxOK kf_tname id_of tks bn.
Definition TokValid (tks : smap token) : Prop := forall k t, get k tks = Some t -> valid_token t = true.

Definition GOrg (os : smap org) (bn : smap key) : Prop :=
  sorted os /\ (forall k o, get k os = Some o -> valid_org o = true) /\ IdxOK kf_oname id_of os bn.
Definition GTeam (os : smap org) (ts : smap team) (ix : smap key) : Prop :=
  sorted ts /\ (forall k t, get k ts = Some t -> valid_team t = true /\ has (KZ (tm_org t)) os = true)
  /\ IdxOK kf_team id_of ts ix.
Definition GRole (ts : smap team) (rs : smap role) (ix : smap unit) : Prop :=
  sorted rs /\ (forall k r, get k rs = Some r -> valid_role r = true /\ has (KZ (r_team r)) ts = true)
  /\ IdxOK kf_rteam tt_of rs ix.
Definition GMp (rs : smap role) (mps : smap mperm) (ix : smap unit) : Prop :=
  sorted mps /\ (forall k p, get k mps = Some p -> valid_mperm p = true /\ has (KZ (mp_role p)) rs = true)
  /\ IdxOK kf_mrole tt_of mps ix.
Definition GMem (tks : smap token) (ts : smap team) (ms : smap mem) (bp : smap key) (bt bm : smap unit) : Prop :=
  sorted ms
  /\ (forall k m, get k ms = Some m ->
        valid_mem m = true /\ has (KZ (m_token m)) tks = true /\ has (KZ (m_team m)) ts = true)
  /\ IdxOK kf_pair id_of ms bp /\ IdxOK kf_mtoken tt_of ms bt /\ IdxOK kf_mteam tt_of ms bm.

Record Inv (n : Z) (s : state) : Prop := mkInv {
  i_nodes : sorted (nodes s);
  i_file : GFile (files s);
  i_tok : GTok (tokens s) (tokByPrefix s) (tokByName s);
  i_org : GOrg (orgs s) (orgByName s);
  i_team : GTeam (orgs s) (teams s) (teamsByOrg s);
  i_role : GRole (teams s) (roles s) (rolesByTeam s);
  i_mp : GMp (roles s) (mperms s) (mpByRole s);
  i_mem : GMem (tokens s) (teams s) (mems s) (memByPair s) (memByToken s) (memByTeam s);
  i_btok : below n (tokens s); i_borg : below n (orgs s); i_bteam : below n (teams s);
  i_brole : below n (roles s); i_bmp : below n (mperms s); i_bmem : below n (mems s)
}.

(* ---- small facts -------------------------------------------------------------------- *)

Lemma below_fresh {V} n (m : smap V) idx : below n m -> n <= idx -> get (KZ idx) m = None.
Proof.
  intros B Hle. destruct (get (KZ idx) m) as [v|] eqn:Eg; [|reflexivity].
  destruct (B _ _ Eg) as [z [Hk Hz]]. inversion Hk. lia.
Qed.

Lemma below_mono {V} n n' (m : smap V) : below n m -> n <= n' -> below n' m.
Proof. intros B Hle k v Hg. destruct (B _ _ Hg) as [z [Hk Hz]]. exists z. split; [assumption|lia]. Qed.

Lemma below_put {V} n (m : smap V) z v : below n m -> z < n -> below n (put (KZ z) v m).
Proof.
  intros B Hz k v0. rewrite get_put. destruct (keqb_spec k (KZ z)) as [->|Ek].
  - intros _. eauto.
  - apply B.
Qed.

Lemma below_put_new {V} n (m : smap V) idx v : below n m -> n <= idx -> below (idx + 1) (put (KZ idx) v m).
Proof. intros B Hle. apply below_put; [eapply below_mono; [eassumption|lia]|lia]. Qed.

Lemma below_del {V} n (m : smap V) k : below n m -> below n (del k m).
Proof. intros B k0 v. rewrite get_del. destruct (keqb k0 k); [discriminate|apply B]. Qed.

Lemma below_dels {V} n ks : forall (m : smap V), below n m -> below n (dels ks m).
Proof.
  intros m B k0 v. rewrite get_dels. destruct (existsb (keqb k0) ks); [discriminate|apply B].
Qed.

Lemma below_exists {V} n (m : smap V) k v : below n m -> get k m = Some v -> exists z, k = KZ z.
Proof. intros B Hg. destruct (B _ _ Hg) as [z [Hk _]]. eauto. Qed.

Lemma has_put {V} k k' (v : V) m : has k (put k' v m) = (keqb k k' || has k m)%bool.
Proof. unfold has. rewrite get_put. destruct (keqb k k'); reflexivity. Qed.

Lemma has_put_mono {V} k k' (v : V) m : has k m = true -> has k (put k' v m) = true.
Proof. intros H. rewrite has_put, H. apply orb_true_r. Qed.

Lemma has_get {V} k (m : smap V) v : get k m = Some v -> has k m = true.
Proof. intros H. unfold has. rewrite H. reflexivity. Qed.

Lemma has_del {V} k k' (m : smap V) : has k (del k' m) = (negb (keqb k k') && has k m)%bool.
Proof. unfold has. rewrite get_del. destruct (keqb k k'); reflexivity. Qed.

Lemma kinj_db (fs : smap file) : kinj kf_db fs.
Proof. apply kinj_key. unfold kf_db. congruence. Qed.
Lemma kinj_prefix (m : smap token) : kinj kf_prefix m.
Proof. apply kinj_key. unfold kf_prefix. congruence. Qed.
Lemma kinj_rteam (m : smap role) : kinj kf_rteam m.
Proof. apply kinj_key. unfold kf_rteam. congruence. Qed.
Lemma kinj_mrole (m : smap mperm) : kinj kf_mrole m.
Proof. apply kinj_key. unfold kf_mrole. congruence. Qed.
Lemma kinj_mtoken (m : smap mem) : kinj kf_mtoken m.
Proof. apply kinj_key. unfold kf_mtoken. congruence. Qed.
Lemma kinj_mteam (m : smap mem) : kinj kf_mteam m.
Proof. apply kinj_key. unfold kf_mteam. congruence. Qed.

Lemma kinj_id_of {E} (kf : key -> E -> key) (m : smap E) ix : IdxOK kf id_of m ix -> kinj kf m.
Proof. apply idxok_kinj_val. unfold id_of. auto. Qed.

Lemma inv_empty : Inv 1 empty_state.
Proof.
  assert (HI : forall E V (kf : key -> E -> key) (vf : key -> E -> V), IdxOK kf vf [] []).
  { intros. split; [exact I|]. intros k v. cbn. split; [discriminate|]. intros (id & e & H & _). discriminate. }
  assert (HB : forall V, below 1 (@nil (key * V))) by (intros V k v H; discriminate).
  constructor; cbn; try apply HB; try exact I; unfold GFile, GTok, GOrg, GTeam, GRole, GMp, GMem;
    repeat split; try exact I; try apply HI; intros; discriminate.
Qed.
