(* Token commands that touch only the token maps: CreateToken, UpdateToken, RevokeToken,
   RotateToken (DeleteToken cascades into memberships: InvCascade.v). *)
From Coq Require Import List ZArith Bool String Lia.
From RecordUpdate Require Import RecordSet.
From Arc Require Import Fsm.Key Fsm.KeyFacts Fsm.Model Fsm.Tactics Fsm.IdxFacts Fsm.InvDefs.
Import ListNotations RecordSetNotations.
Open Scope string_scope.
Open Scope Z_scope.

Definition FKmono {A B} (m : smap A) (m' : smap B) : Prop := forall k, has k m = true -> has k m' = true.

Lemma fkmono_refl {A} (m : smap A) : FKmono m m.
Proof. intros k H. exact H. Qed.
Lemma fkmono_put {A} (m : smap A) k v : FKmono m (put k v m).
Proof. intros k0 H. apply has_put_mono. exact H. Qed.

Lemma gteam_mono os os' ts ix : GTeam os ts ix -> FKmono os os' -> GTeam os' ts ix.
Proof. intros (S & H & I) M. split; [exact S|]. split; [|exact I]. intros k e Hg. destruct (H _ _ Hg). auto. Qed.
Lemma grole_mono ts ts' rs ix : GRole ts rs ix -> FKmono ts ts' -> GRole ts' rs ix.
Proof. intros (S & H & I) M. split; [exact S|]. split; [|exact I]. intros k e Hg. destruct (H _ _ Hg). auto. Qed.
Lemma gmp_mono rs rs' mps ix : GMp rs mps ix -> FKmono rs rs' -> GMp rs' mps ix.
Proof. intros (S & H & I) M. split; [exact S|]. split; [|exact I]. intros k e Hg. destruct (H _ _ Hg). auto. Qed.
Lemma gmem_mono tks tks' ts ts' ms bp bt bm :
  GMem tks ts ms bp bt bm -> FKmono tks tks' -> FKmono ts ts' -> GMem tks' ts' ms bp bt bm.
Proof.
  intros (S & H & I1 & I2 & I3) M1 M2. split; [exact S|]. split; [|auto].
  intros k e Hg. destruct (H _ _ Hg) as (? & ? & ?). auto.
Qed.

Lemma state_eta_tok s : s <| tokens := tokens s |> <| tokByPrefix := tokByPrefix s |> <| tokByName := tokByName s |> = s.
Proof. destruct s; reflexivity. Qed.

Lemma inv_set_tok n n' s tks bp bn :
  Inv n s -> n <= n' -> GTok tks bp bn -> below n' tks -> FKmono (tokens s) tks ->
  Inv n' (s <| tokens := tks |> <| tokByPrefix := bp |> <| tokByName := bn |>).
Proof.
  intros [ ] Hle G B M. constructor; cbn; try assumption; try (eapply below_mono; eassumption).
  eapply gmem_mono; [eassumption|exact M|apply fkmono_refl].
Qed.

Lemma inv_mono n n' s : Inv n s -> n <= n' -> Inv n' s.
Proof. intros [ ] Hle. constructor; try assumption; eapply below_mono; eassumption. Qed.

(* ---- CreateToken --------------------------------------------------------------------- *)

Lemma create_token_inv n s idx t : Inv n s -> n <= idx -> Inv (idx + 1) (fst (apply_create_token s idx t)).
Proof.
  intros HI Hle. assert (Hm : Inv (idx + 1) s) by (eapply inv_mono; [eassumption|lia]).
  unfold apply_create_token.
  destruct (negb (valid_token t)); [exact Hm|]. destruct (t_created t =? 0); [exact Hm|].
  set (e := t <| t_id := idx |> <| t_lsn := idx |> <| t_enabled := true |>).
  destruct (has (KS (t_name e)) (tokByName s)) eqn:Hh; [exact Hm|]. cbn [fst].
  apply has_false in Hh. destruct (i_tok _ _ HI) as (S & Kid & Ip & In_).
  pose proof (below_fresh _ _ _ (i_btok _ _ HI) Hle) as Hfresh.
  eapply inv_set_tok; [exact HI|lia| |apply (below_put_new n); [apply (i_btok _ _ HI)|exact Hle]|apply fkmono_put].
  split; [apply sorted_put; exact S|]. split; [|split].
  - intros k t0. rewrite get_put. destruct (keqb_spec k (KZ idx)) as [->|Ek]; [intros [= <-]; reflexivity|apply Kid].
  - apply (idx_insert kf_prefix tt_of _ _ (KZ idx) e); [exact Hfresh| |exact Ip].
    eapply (idx_fresh_free kf_prefix tt_of); [unfold kf_prefix; congruence|exact Hfresh|exact Ip].
  - apply (idx_insert kf_tname id_of _ _ (KZ idx) e); [exact Hfresh|exact Hh|exact In_].
Qed.

Lemma create_token_valid s idx t : TokValid (tokens s) -> TokValid (tokens (fst (apply_create_token s idx t))).
Proof.
  intros V. unfold apply_create_token.
  destruct (negb (valid_token t)) eqn:Ev; [exact V|]. destruct (t_created t =? 0); [exact V|].
  destruct (has _ _); [exact V|]. cbn. apply negb_false_iff in Ev.
  intros k t0. rewrite get_put. destruct (keqb k (KZ idx)); [|apply V].
  intros [= <-]. exact Ev.
Qed.

(* ---- UpdateToken --------------------------------------------------------------------- *)

Lemma upd_tok_fields e idx name desc perms ex ch :
  let u := upd_tok e idx name desc perms ex ch in
  t_id u = t_id e /\ t_prefix u = t_prefix e /\ t_hash u = t_hash e
  /\ t_name u = (if inb "name" ch then name else t_name e)
  /\ t_perms u = (if inb "permissions" ch then perms else t_perms e).
Proof.
  unfold upd_tok. destruct (inb "name" ch), (inb "description" ch), (inb "permissions" ch), (inb "expires_at" ch);
    cbn; repeat split; reflexivity.
Qed.

Lemma update_token_inv c n s idx id name desc perms ex ch :
  Inv n s -> n <= idx -> Inv (idx + 1) (fst (apply_update_token c s idx id name desc perms ex ch)).
Proof.
  intros HI Hle. assert (Hm : Inv (idx + 1) s) by (eapply inv_mono; [eassumption|lia]).
  unfold apply_update_token.
  destruct (id =? 0); [exact Hm|]. destruct (inb "permissions" ch && negb (valid_perms perms))%bool; [exact Hm|].
  destruct (fx_tokname c && inb "name" ch && negb (valid_name name))%bool; [exact Hm|].
  destruct (get (KZ id) (tokens s)) as [e|] eqn:Eg; [|exact Hm].
  destruct (i_tok _ _ HI) as (S & Kid & Ip & In_).
  destruct (upd_tok_fields e idx name desc perms ex ch) as (Fid & Fpre & _ & Fname & _).
  set (u := upd_tok e idx name desc perms ex ch) in *.
  destruct (inb "name" ch) eqn:Ern; cbn [andb].
  - destruct (get (KS name) (tokByName s)) as [other|] eqn:Eo.
    + destruct (keqb other (KZ id)) eqn:Ek; cbn [negb]; [|exact Hm]. cbn [fst].
      apply keqb_eq in Ek. subst other.
      apply (proj2 In_) in Eo. destruct Eo as (id' & e' & Hg' & Hk' & Hv'). unfold id_of in Hv'. subst id'.
      rewrite Eg in Hg'. assert (e' = e) by congruence. subst e'.
      assert (Hnm : t_name e = name) by (unfold kf_tname in Hk'; congruence).
      assert (Hs : s <| tokens := put (KZ id) u (tokens s) |>
                     <| tokByName := put (KS name) (KZ (t_id e)) (del (KS (t_name e)) (tokByName s)) |>
                 = s <| tokens := put (KZ id) u (tokens s) |> <| tokByPrefix := tokByPrefix s |>
                     <| tokByName := put (KS name) (KZ (t_id e)) (del (KS (t_name e)) (tokByName s)) |>)
        by (destruct s; reflexivity).
      rewrite Hs. clear Hs.
      eapply inv_set_tok; [exact HI|lia| |apply below_put; [eapply below_mono; [apply (i_btok _ _ HI)|lia]|]|apply fkmono_put].
      * split; [apply sorted_put; exact S|]. split; [|split].
        -- intros k t0. rewrite get_put. destruct (keqb_spec k (KZ id)) as [->|Ek0]; [|apply Kid].
           intros [= <-]. rewrite Fid. apply Kid. exact Eg.
        -- eapply (idx_update_same kf_prefix tt_of); [exact Eg| |reflexivity|exact Ip].
           unfold kf_prefix. rewrite Fpre. reflexivity.
        -- rewrite <- (Kid _ _ Eg).
           replace (KS name) with (kf_tname (KZ id) u) by (unfold kf_tname; rewrite Fname; reflexivity).
           change (KS (t_name e)) with (kf_tname (KZ id) e).
           apply (idx_rekey kf_tname id_of); [exact S|exact Eg|eapply kinj_id_of; exact In_|exact In_|].
           left. unfold kf_tname. rewrite Fname. congruence.
      * destruct (i_btok _ _ HI _ _ Eg) as [z [Hz1 Hz2]]. inversion Hz1. lia.
    + cbn [fst].
      assert (Hs : s <| tokens := put (KZ id) u (tokens s) |>
                     <| tokByName := put (KS name) (KZ (t_id e)) (del (KS (t_name e)) (tokByName s)) |>
                 = s <| tokens := put (KZ id) u (tokens s) |> <| tokByPrefix := tokByPrefix s |>
                     <| tokByName := put (KS name) (KZ (t_id e)) (del (KS (t_name e)) (tokByName s)) |>)
        by (destruct s; reflexivity).
      rewrite Hs. clear Hs.
      eapply inv_set_tok; [exact HI|lia| |apply below_put; [eapply below_mono; [apply (i_btok _ _ HI)|lia]|]|apply fkmono_put].
      * split; [apply sorted_put; exact S|]. split; [|split].
        -- intros k t0. rewrite get_put. destruct (keqb_spec k (KZ id)) as [->|Ek0]; [|apply Kid].
           intros [= <-]. rewrite Fid. apply Kid. exact Eg.
        -- eapply (idx_update_same kf_prefix tt_of); [exact Eg| |reflexivity|exact Ip].
           unfold kf_prefix. rewrite Fpre. reflexivity.
        -- rewrite <- (Kid _ _ Eg).
           replace (KS name) with (kf_tname (KZ id) u) by (unfold kf_tname; rewrite Fname; reflexivity).
           change (KS (t_name e)) with (kf_tname (KZ id) e).
           apply (idx_rekey kf_tname id_of); [exact S|exact Eg|eapply kinj_id_of; exact In_|exact In_|].
           right. unfold kf_tname. rewrite Fname. exact Eo.
      * destruct (i_btok _ _ HI _ _ Eg) as [z [Hz1 Hz2]]. inversion Hz1. lia.
  - cbn [fst].
    assert (Hs : s <| tokens := put (KZ id) u (tokens s) |> <| tokByName := tokByName s |>
               = s <| tokens := put (KZ id) u (tokens s) |> <| tokByPrefix := tokByPrefix s |> <| tokByName := tokByName s |>)
      by (destruct s; reflexivity).
    rewrite Hs. clear Hs.
    eapply inv_set_tok; [exact HI|lia| |apply below_put; [eapply below_mono; [apply (i_btok _ _ HI)|lia]|]|apply fkmono_put].
    + split; [apply sorted_put; exact S|]. split; [|split].
      * intros k t0. rewrite get_put. destruct (keqb_spec k (KZ id)) as [->|Ek0]; [|apply Kid].
        intros [= <-]. rewrite Fid. apply Kid. exact Eg.
      * eapply (idx_update_same kf_prefix tt_of); [exact Eg| |reflexivity|exact Ip].
        unfold kf_prefix. rewrite Fpre. reflexivity.
      * eapply (idx_update_same kf_tname id_of); [exact Eg| |reflexivity|exact In_].
        unfold kf_tname. rewrite Fname. reflexivity.
    + destruct (i_btok _ _ HI _ _ Eg) as [z [Hz1 Hz2]]. inversion Hz1. lia.
Qed.

Lemma update_token_valid c s idx id name desc perms ex ch :
  cmd_token_guard c (CUpdateToken id name desc perms ex ch) = true ->
  TokValid (tokens s) -> TokValid (tokens (fst (apply_update_token c s idx id name desc perms ex ch))).
Proof.
  intros G V. unfold apply_update_token.
  destruct (id =? 0); [exact V|].
  destruct (inb "permissions" ch && negb (valid_perms perms))%bool eqn:Ep; [exact V|].
  destruct (fx_tokname c && inb "name" ch && negb (valid_name name))%bool eqn:En; [exact V|].
  destruct (get (KZ id) (tokens s)) as [e|] eqn:Eg; [|exact V].
  destruct (inb "name" ch && _)%bool; [exact V|]. cbn.
  intros k t0. rewrite get_put. destruct (keqb k (KZ id)); [|apply V].
  intros [= <-]. specialize (V _ _ Eg).
  destruct (upd_tok_fields e idx name desc perms ex ch) as (_ & Fpre & Fh & Fname & Fperms).
  unfold valid_token in *. rewrite Fpre, Fh, Fname, Fperms.
  apply andb_true_iff in V. destruct V as [V12 V3]. apply andb_true_iff in V12. destruct V12 as [V1 V2].
  rewrite V2. cbn in G.
  assert (Hn : valid_name (if inb "name" ch then name else t_name e) = true).
  { destruct (inb "name" ch) eqn:Ern; [|exact V1]. cbn in G.
    destruct (fx_tokname c); cbn in *.
    - destruct (valid_name name); [reflexivity|discriminate].
    - exact G. }
  assert (Hp : valid_perms (if inb "permissions" ch then perms else t_perms e) = true).
  { destruct (inb "permissions" ch); [|exact V3]. cbn in Ep. destruct (valid_perms perms); [reflexivity|discriminate]. }
  rewrite Hn, Hp. reflexivity.
Qed.

(* ---- RevokeToken ---------------------------------------------------------------------- *)

Lemma tok_inplace n s idx id e u :
  Inv n s -> n <= idx -> get (KZ id) (tokens s) = Some e ->
  t_id u = t_id e -> t_prefix u = t_prefix e -> t_name u = t_name e ->
  Inv (idx + 1) (s <| tokens := put (KZ id) u (tokens s) |>).
Proof.
  intros HI Hle Eg Fid Fpre Fname.
  destruct (i_tok _ _ HI) as (S & Kid & Ip & In_).
  replace (s <| tokens := put (KZ id) u (tokens s) |>)
    with (s <| tokens := put (KZ id) u (tokens s) |> <| tokByPrefix := tokByPrefix s |> <| tokByName := tokByName s |>)
    by (destruct s; reflexivity).
  eapply inv_set_tok; [exact HI|lia| |apply below_put; [eapply below_mono; [apply (i_btok _ _ HI)|lia]|]|apply fkmono_put].
  - split; [apply sorted_put; exact S|]. split; [|split].
    + intros k t0. rewrite get_put. destruct (keqb_spec k (KZ id)) as [->|Ek0]; [|apply Kid].
      intros [= <-]. rewrite Fid. apply Kid. exact Eg.
    + eapply (idx_update_same kf_prefix tt_of); [exact Eg| |reflexivity|exact Ip].
      unfold kf_prefix. rewrite Fpre. reflexivity.
    + eapply (idx_update_same kf_tname id_of); [exact Eg| |reflexivity|exact In_].
      unfold kf_tname. rewrite Fname. reflexivity.
  - destruct (i_btok _ _ HI _ _ Eg) as [z [Hz1 Hz2]]. inversion Hz1. lia.
Qed.

Lemma revoke_token_inv n s idx id : Inv n s -> n <= idx -> Inv (idx + 1) (fst (apply_revoke_token s idx id)).
Proof.
  intros HI Hle. assert (Hm : Inv (idx + 1) s) by (eapply inv_mono; [eassumption|lia]).
  unfold apply_revoke_token. destruct (id =? 0); [exact Hm|].
  destruct (get (KZ id) (tokens s)) as [e|] eqn:Eg; [|exact Hm]. cbn [fst].
  eapply (tok_inplace n); [exact HI|exact Hle|exact Eg|reflexivity|reflexivity|reflexivity].
Qed.

Lemma revoke_token_valid s idx id : TokValid (tokens s) -> TokValid (tokens (fst (apply_revoke_token s idx id))).
Proof.
  intros V. unfold apply_revoke_token. destruct (id =? 0); [exact V|].
  destruct (get (KZ id) (tokens s)) as [e|] eqn:Eg; [|exact V]. cbn.
  intros k t0. rewrite get_put. destruct (keqb k (KZ id)); [|apply V].
  intros [= <-]. exact (V _ _ Eg).
Qed.

(* ---- RotateToken ---------------------------------------------------------------------- *)

Lemma rotate_token_inv n s idx id h p : Inv n s -> n <= idx -> Inv (idx + 1) (fst (apply_rotate_token s idx id h p)).
Proof.
  intros HI Hle. assert (Hm : Inv (idx + 1) s) by (eapply inv_mono; [eassumption|lia]).
  unfold apply_rotate_token. destruct (id =? 0); [exact Hm|].
  destruct (negb (valid_hash_prefix h p)); [exact Hm|].
  destruct (get (KZ id) (tokens s)) as [e|] eqn:Eg; [|exact Hm]. cbn [fst].
  destruct (i_tok _ _ HI) as (S & Kid & Ip & In_).
  set (u := e <| t_hash := h |> <| t_prefix := p |> <| t_lsn := idx |>).
  destruct (seqb (t_prefix e) p) eqn:Ep; cbn [negb].
  - apply seqb_eq in Ep.
    replace (s <| tokens := put (KZ id) u (tokens s) |> <| tokByPrefix := tokByPrefix s |>)
      with (s <| tokens := put (KZ id) u (tokens s) |>) by (destruct s; reflexivity).
    eapply (tok_inplace n); [exact HI|exact Hle|exact Eg|reflexivity| |reflexivity]. cbn. congruence.
  - apply seqb_neq in Ep.
    replace (s <| tokens := put (KZ id) u (tokens s) |>
               <| tokByPrefix := put (pkey p (KZ id)) tt (del (pkey (t_prefix e) (KZ id)) (tokByPrefix s)) |>)
      with (s <| tokens := put (KZ id) u (tokens s) |>
              <| tokByPrefix := put (pkey p (KZ id)) tt (del (pkey (t_prefix e) (KZ id)) (tokByPrefix s)) |>
              <| tokByName := tokByName s |>) by (destruct s; reflexivity).
    eapply inv_set_tok; [exact HI|lia| |apply below_put; [eapply below_mono; [apply (i_btok _ _ HI)|lia]|]|apply fkmono_put].
    + split; [apply sorted_put; exact S|]. split; [|split].
      * intros k t0. rewrite get_put. destruct (keqb_spec k (KZ id)) as [->|Ek0]; [|apply Kid].
        intros [= <-]. apply (Kid _ _ Eg).
      * change (pkey p (KZ id)) with (kf_prefix (KZ id) u). change tt with (tt_of (KZ id) u).
        change (pkey (t_prefix e) (KZ id)) with (kf_prefix (KZ id) e).
        apply (idx_rekey kf_prefix tt_of); [exact S|exact Eg|apply kinj_prefix|exact Ip|].
        right. apply (idx_get_none kf_prefix tt_of _ _ _ Ip). intros id' e' Hg' Hk'.
        unfold kf_prefix in Hk'. cbn in Hk'. inversion Hk'; subst id'. rewrite Eg in Hg'. inversion Hg'; subst e'. congruence.
      * eapply (idx_update_same kf_tname id_of); [exact Eg|reflexivity|reflexivity|exact In_].
    + destruct (i_btok _ _ HI _ _ Eg) as [z [Hz1 Hz2]]. inversion Hz1. lia.
Qed.

Lemma rotate_token_valid s idx id h p : TokValid (tokens s) -> TokValid (tokens (fst (apply_rotate_token s idx id h p))).
Proof.
  intros V. unfold apply_rotate_token. destruct (id =? 0); [exact V|].
  destruct (negb (valid_hash_prefix h p)) eqn:Ev; [exact V|].
  destruct (get (KZ id) (tokens s)) as [e|] eqn:Eg; [|exact V]. cbn.
  intros k t0. rewrite get_put. destruct (keqb k (KZ id)); [|apply V].
  intros [= <-]. specialize (V _ _ Eg). unfold valid_token in *. cbn.
  apply negb_false_iff in Ev. rewrite Ev.
  apply andb_true_iff in V. destruct V as [V12 V3]. apply andb_true_iff in V12. destruct V12 as [V1 V2].
  rewrite V1, V3. reflexivity.
Qed.
