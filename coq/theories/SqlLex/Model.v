(* SqlLex - byte-level model of Arc's SQL normalisation (C15; lexical half of C14).

   Transcribed from /repo/internal/sql/mask.go (MaskStringLiterals, UnmaskStringLiterals,
   IdentifierNames, HasQuotes, dollarQuoteTag, scanQuoted, MaskFromKeywordsInFunctionBodies,
   UnmaskFromKeywordsInFunctionBodies and their helpers) and /repo/internal/api/query.go
   (scanSQLFeatures, stripSQLComments).  Strings are Go byte strings: [list N], each < 256.

   Go loops that move an index forward by a computed amount (i = stop; i += 4) are written as
   structural recursion over the remaining bytes with a SKIP COUNTER: when the Go code jumps
   from i to i+n the model emits the output of that step and skips the next n-1 bytes.  The
   functions are therefore total and need no fuel.  [prev] is sql[i-1] (0 at i = 0, exactly
   like prevByte).

   The reference lexer [duck_lex] (the SPEC: Postgres/DuckDB lexical rules) is at the end;
   it shares no scanning code with the model of Arc.

   Only definitions live here (no proofs). *)
From Coq Require Import String Ascii.
From Coq Require Import NArith ZArith Bool Arith List.
Import ListNotations.
Open Scope N_scope.

(* ------------------------------------------------------------------------------------ *)
(* bytes                                                                                  *)
(* ------------------------------------------------------------------------------------ *)

Definition s2b (s : string) : list N := map N_of_ascii (list_ascii_of_string s).

(* hex decoding of case data (the correspondence ships byte strings as hex text) *)
Definition hexval (a : ascii) : N :=
  let n := N_of_ascii a in
  if (48 <=? n) && (n <=? 57) then n - 48 else if (97 <=? n) && (n <=? 102) then n - 87 else 0.
Fixpoint hx (s : string) : list N :=
  match s with
  | String a (String b r) => (16 * hexval a + hexval b) :: hx r
  | _ => []
  end.

Definition in_range (lo hi c : N) : bool := (lo <=? c) && (c <=? hi).
Definition is_lower (c : N) := in_range 97 122 c.
Definition is_upper (c : N) := in_range 65 90 c.
Definition is_digit (c : N) := in_range 48 57 c.
(* isIdentByte / isIdentifierByte (both spellings in mask.go are the same set) *)
Definition is_ident_byte (c : N) : bool := is_lower c || is_upper c || is_digit c || (c =? 95).
Definition is_alpha_us (c : N) : bool := is_lower c || is_upper c || (c =? 95).
Definition is_ws (c : N) : bool := (c =? 32) || (c =? 9) || (c =? 10) || (c =? 13).
Definition to_lower (c : N) : N := if is_upper c then c + 32 else c.

Fixpoint bytes_eqb (a b : list N) : bool :=
  match a, b with
  | [], [] => true
  | x :: a', y :: b' => (x =? y) && bytes_eqb a' b'
  | _, _ => false
  end.

Fixpoint prefixb (p l : list N) : bool :=
  match p, l with
  | [], _ => true
  | a :: p', b :: l' => (a =? b) && prefixb p' l'
  | _ :: _, [] => false
  end.

(* strings.Index for a non-empty pattern (also right for the empty one) *)
Fixpoint find_sub (pat l : list N) : option nat :=
  if prefixb pat l then Some O
  else match l with
       | [] => None
       | _ :: r => option_map S (find_sub pat r)
       end.

Definition has_sub (pat l : list N) : bool :=
  match find_sub pat l with Some _ => true | None => false end.

(* strings.Replace(s, old, new, 1) for non-empty old *)
Fixpoint replace_first (old new l : list N) : list N :=
  if prefixb old l then new ++ skipn (length old) l
  else match l with
       | [] => []
       | c :: r => c :: replace_first old new r
       end.

(* strings.ReplaceAll(s, old, new) for non-empty old: successive non-overlapping matches,
   left to right.  [skip] = bytes of the current match still to be dropped. *)
Fixpoint replace_all_aux (old new : list N) (skip : nat) (l : list N) : list N :=
  match l with
  | [] => []
  | c :: r =>
      match skip with
      | S k => replace_all_aux old new k r
      | O => if prefixb old l then new ++ replace_all_aux old new (length old - 1) r
             else c :: replace_all_aux old new O r
      end
  end.
Definition replace_all (old new l : list N) : list N := replace_all_aux old new O l.

(* strings.NewReplacer(o1, n1, o2, n2, ...).Replace for non-empty olds: at every position the
   EARLIEST pair whose old string is a prefix wins; no match -> copy one byte. *)
Fixpoint first_match (pairs : list (list N * list N)) (l : list N) : option (list N * list N) :=
  match pairs with
  | [] => None
  | (o, n) :: r => if prefixb o l then Some (o, n) else first_match r l
  end.
Fixpoint replace_multi_aux (pairs : list (list N * list N)) (skip : nat) (l : list N) : list N :=
  match l with
  | [] => []
  | c :: r =>
      match skip with
      | S k => replace_multi_aux pairs k r
      | O => match first_match pairs l with
             | Some (o, n) => n ++ replace_multi_aux pairs (length o - 1) r
             | None => c :: replace_multi_aux pairs O r
             end
      end
  end.
Definition replace_multi pairs l := replace_multi_aux pairs O l.

(* fmt.Sprintf("%d", n) / strconv.AppendInt(_, n, 10) for n >= 0 *)
Fixpoint uint_bytes (u : Decimal.uint) : list N :=
  match u with
  | Decimal.Nil => []
  | Decimal.D0 u => 48 :: uint_bytes u | Decimal.D1 u => 49 :: uint_bytes u
  | Decimal.D2 u => 50 :: uint_bytes u | Decimal.D3 u => 51 :: uint_bytes u
  | Decimal.D4 u => 52 :: uint_bytes u | Decimal.D5 u => 53 :: uint_bytes u
  | Decimal.D6 u => 54 :: uint_bytes u | Decimal.D7 u => 55 :: uint_bytes u
  | Decimal.D8 u => 56 :: uint_bytes u | Decimal.D9 u => 57 :: uint_bytes u
  end.
Definition dec (n : N) : list N := uint_bytes (N.to_uint n).

(* ------------------------------------------------------------------------------------ *)
(* placeholders and tokens                                                                *)
(* ------------------------------------------------------------------------------------ *)

Inductive pclass := PStr | PIdent | PFrom.
Definition pclass_eqb (a b : pclass) : bool :=
  match a, b with PStr, PStr | PIdent, PIdent | PFrom, PFrom => true | _, _ => false end.

Definition w_STR : list N := Eval vm_compute in s2b "STR".
Definition w_IDENT : list N := Eval vm_compute in s2b "IDENT".
Definition w_FROM_MASK : list N := Eval vm_compute in s2b "FROM_MASK".
Definition pword (c : pclass) : list N :=
  match c with PStr => w_STR | PIdent => w_IDENT | PFrom => w_FROM_MASK end.

(* "__STR_%d__" / "__IDENT_%d__" / "__FROM_MASK_" + n + "__" *)
Definition ph_bytes (c : pclass) (n : N) : list N :=
  95 :: 95 :: pword c ++ 95 :: dec n ++ [95; 95].

(* What the maskers write into their strings.Builder: a copied input byte or a placeholder.
   [render] is the builder's final content. *)
Inductive tok := B (b : N) | P (c : pclass) (n : N).
Definition render_tok (t : tok) : list N :=
  match t with B b => [b] | P c n => ph_bytes c n end.
Definition render (ts : list tok) : list N := flat_map render_tok ts.

(* StringMask{Placeholder, Original, Identifier}; the placeholder is determined by
   (Identifier, counter) *)
Record smask := { m_ident : bool; m_idx : N; m_orig : list N }.
Definition m_class (m : smask) : pclass := if m_ident m then PIdent else PStr.
Definition m_ph (m : smask) : list N := ph_bytes (m_class m) (m_idx m).

(* ------------------------------------------------------------------------------------ *)
(* MaskStringLiterals                                                                     *)
(* ------------------------------------------------------------------------------------ *)

(* scanQuoted, and the identical inline loop of MaskStringLiterals: [l] = bytes after the
   opening quote, [prev] = sql[i-1] (initially the opening quote).  Returns how many bytes of
   [l] belong to the literal (closing quote included when there is one). *)
Fixpoint scan_quoted (q prev : N) (l : list N) : nat :=
  match l with
  | [] => O
  | c :: r =>
      if c =? q then
        match r with
        | c2 :: r2 =>
            if c2 =? q then S (S (scan_quoted q c2 r2))            (* doubled quote: i += 2 *)
            else if prev =? 92 then S (scan_quoted q c r)           (* quote after a backslash: i++ *)
            else 1%nat                                              (* closing quote *)
        | [] => if prev =? 92 then S (scan_quoted q c r) else 1%nat
        end
      else S (scan_quoted q c r)
  end.

(* dollarQuoteTag: [l] = sql[i+1:] *)
Fixpoint tag_scan (first : bool) (l : list N) : option (list N) :=
  match l with
  | [] => None                                                      (* j >= len(sql) *)
  | c :: r =>
      if c =? 36 then Some []
      else if is_alpha_us c || (is_digit c && negb first)
           then option_map (cons c) (tag_scan false r)
           else None
  end.
Definition dollar_tag (prev : N) (l : list N) : option (list N) :=
  match l with
  | c :: r => if (c =? 36) && negb (is_ident_byte prev) then tag_scan true r else None
  | [] => None
  end.

Fixpoint ident_lookup (k : list N) (m : list (list N * N)) : option N :=
  match m with
  | [] => None
  | (k', v) :: r => if bytes_eqb k k' then Some v else ident_lookup k r
  end.

(* One iteration of the main loop at sql[i] = c, sql[i+1:] = r.  None: result.WriteByte(ch).
   Some: the placeholder written, the masks appended, the new counter and identifier map,
   and the number n >= 1 of input bytes consumed. *)
Record mstep := { st_tok : tok; st_new : list smask; st_idx : N;
                  st_idents : list (list N * N); st_n : nat }.

Definition str_step (idx : N) (idents : list (list N * N)) (l : list N) (n : nat) : mstep :=
  {| st_tok := P PStr idx; st_new := [{| m_ident := false; m_idx := idx; m_orig := firstn n l |}];
     st_idx := idx + 1; st_idents := idents; st_n := n |}.

Definition mask_step (prev c : N) (r : list N) (idx : N) (idents : list (list N * N)) : option mstep :=
  let l := c :: r in
  match (if c =? 36 then dollar_tag prev l else None) with
  | Some tag =>
      let closing := 36 :: tag ++ [36] in
      let clen := length closing in
      match find_sub closing (skipn clen l) with
      | Some e => Some (str_step idx idents l (clen + e + clen))
      | None => Some (str_step idx idents l (length l))       (* unterminated: mask the rest *)
      end
  | None =>
      if ((c =? 101) || (c =? 69))
         && (match r with q :: _ => q =? 39 | [] => false end)
         && negb (is_ident_byte prev)
      then Some (str_step idx idents l (2 + scan_quoted 39 39 (tl r)))
      else if (c =? 39) || (c =? 34) then
        let n := S (scan_quoted c c r) in
        if c =? 34 then
          let orig := firstn n l in
          match ident_lookup orig idents with
          | Some j => Some {| st_tok := P PIdent j; st_new := []; st_idx := idx;
                              st_idents := idents; st_n := n |}
          | None => Some {| st_tok := P PIdent idx;
                            st_new := [{| m_ident := true; m_idx := idx; m_orig := orig |}];
                            st_idx := idx + 1; st_idents := (orig, idx) :: idents; st_n := n |}
          end
        else Some (str_step idx idents l n)
      else None
  end.

Fixpoint mask_loop (skip : nat) (prev : N) (l : list N) (idx : N) (idents : list (list N * N))
  : list tok * list smask :=
  match l with
  | [] => ([], [])
  | c :: r =>
      match skip with
      | S k => mask_loop k c r idx idents
      | O =>
          match mask_step prev c r idx idents with
          | None => let '(t, m) := mask_loop O c r idx idents in (B c :: t, m)
          | Some st =>
              let '(t, m) := mask_loop (st_n st - 1) c r (st_idx st) (st_idents st) in
              (st_tok st :: t, st_new st ++ m)
          end
      end
  end.

Definition mask_toks (s : list N) : list tok * list smask := mask_loop O 0 s 0 [].
(* MaskStringLiterals(sql, true) *)
Definition mask (s : list N) : list N * list smask :=
  let '(t, m) := mask_toks s in (render t, m).
(* HasQuotes *)
Definition is_quote_char (c : N) : bool := (c =? 39) || (c =? 34) || (c =? 36).
Definition has_quotes (s : list N) : bool := existsb is_quote_char s.
(* MaskStringLiterals(sql, hasQuotes) *)
Definition mask_go (s : list N) (hasq : bool) : list N * list smask :=
  if hasq then mask s else (s, []).

(* UnmaskStringLiterals *)
Definition unmask1 (t : list N) (m : smask) : list N :=
  if m_ident m then replace_all (m_ph m) (m_orig m) t else replace_first (m_ph m) (m_orig m) t.
Definition unmask (t : list N) (masks : list smask) : list N := fold_left unmask1 masks t.

(* IdentifierNames: unquoted name of every identifier mask, in mask order *)
Definition strip_dq (name : list N) : list N :=
  if (2 <=? length name)%nat && (hd 0 name =? 34) && (last name 0 =? 34)
  then removelast (tl name) else name.
Definition ident_name (m : smask) : list N := replace_all [34; 34] [34] (strip_dq (m_orig m)).
Definition identifier_names (masks : list smask) : list (list N * list N) :=
  map (fun m => (m_ph m, ident_name m)) (filter m_ident masks).

(* ------------------------------------------------------------------------------------ *)
(* MaskFromKeywordsInFunctionBodies                                                       *)
(* ------------------------------------------------------------------------------------ *)

Definition w_extract := Eval vm_compute in s2b "extract".
Definition w_substring := Eval vm_compute in s2b "substring".
Definition w_trim := Eval vm_compute in s2b "trim".
Definition w_overlay := Eval vm_compute in s2b "overlay".
Definition from_funcs : list (list N) := [w_extract; w_substring; w_trim; w_overlay].

(* equalFoldASCII *)
Definition equal_fold (a b : list N) : bool := bytes_eqb (map to_lower a) (map to_lower b).

(* skipWhitespaceAndCommentsForward: returns sql[result:] *)
Inductive fmode := FNormal | FBlock | FLine.
Fixpoint skip_fwd (m : fmode) (l : list N) : list N :=
  match m, l with
  | _, [] => []
  | FNormal, c :: r =>
      if is_ws c then skip_fwd FNormal r
      else match r with
           | d :: r2 =>
               if (c =? 47) && (d =? 42) then skip_fwd FBlock r2
               else if (c =? 45) && (d =? 45) then skip_fwd FLine r      (* the loop re-reads from i *)
               else l
           | [] => l
           end
  | FBlock, c :: r =>
      (* for i+1 < len && !(sql[i]=='*' && sql[i+1]=='/') { i++ }; then i += 2 or i = len *)
      match r with
      | d :: r2 => if (c =? 42) && (d =? 47) then skip_fwd FNormal r2 else skip_fwd FBlock r
      | [] => []
      end
  | FLine, c :: r => if c =? 10 then skip_fwd FNormal r      (* '\n' is whitespace *)
                     else skip_fwd FLine r
  end.

(* [split_fold name l]: Some rest when l starts with name (ASCII case-insensitively) *)
Definition split_fold (name l : list N) : option (list N) :=
  if (length name <=? length l)%nat && equal_fold (firstn (length name) l) name
  then Some (skipn (length name) l) else None.

(* findKeywordFunctionCall(sql, name) >= 0 *)
Fixpoint has_call (name : list N) (prev : N) (l : list N) : bool :=
  (match split_fold name l with
   | Some rest =>
       negb (is_ident_byte prev)
       && (match rest with c :: _ => negb (is_ident_byte c) | [] => true end)
       && (match skip_fwd FNormal rest with c :: _ => c =? 40 | [] => false end)
   | None => false
   end)
  || match l with
     | [] => false
     | c :: r => has_call name c r
     end.
(* ContainsFromKeywordFunction *)
Definition contains_from_func (s : list N) : bool := existsb (fun nm => has_call nm 0 s) from_funcs.

(* findDashCommentStartBackward on the reversed prefix [rp] (head = sql[i]): returns the
   reversed prefix ending at dashStart-1 *)
Fixpoint take_line (rp : list N) : list N :=       (* sql[lineStart .. i-1], reversed *)
  match rp with
  | [] => []
  | c :: r => if c =? 10 then [] else c :: take_line r
  end.
Fixpoint first_dashdash (l : list N) : option nat :=   (* first k with l[k] = l[k+1] = '-' *)
  match l with
  | c :: ((d :: _) as r) => if (c =? 45) && (d =? 45) then Some O else option_map S (first_dashdash r)
  | _ => None
  end.
Definition dash_back (rp : list N) : option (list N) :=
  match rp with
  | [] => None
  | c :: r =>
      let seg := rev (c :: take_line r) in               (* sql[lineStart .. i] *)
      match first_dashdash seg with
      | Some k => Some (skipn (length seg - k) rp)
      | None => None
      end
  end.

(* skipWhitespaceAndCommentsBack on the reversed prefix; [] = "-1" *)
Fixpoint back_to_open (l : list N) : list N :=
  (* for i > 0 && !(sql[i-1]=='/' && sql[i]=='*') { i-- }   with head l = sql[i] *)
  match l with
  | c :: ((d :: _) as r) => if (d =? 47) && (c =? 42) then l else back_to_open r
  | _ => l
  end.
(* [skip] > 0: the Go index jumps back over a comment; the jump lengths are computed so that
   the scan resumes exactly at the list the Go code resumes at (a suffix of [rp]). *)
Fixpoint skip_back (skip : nat) (rp : list N) : list N :=
  match rp with
  | [] => []
  | c :: r =>
      match skip with
      | S k => skip_back k r
      | O =>
          if is_ws c then skip_back O r
          else if (c =? 47) && (match r with d :: _ => d =? 42 | [] => false end)
          then (* i -= 2; walk back to the opening; i -= 2 *)
               let res := skipn 2 (back_to_open (skipn 1 r)) in
               skip_back (length r - length res) r
          else match dash_back rp with
               | Some rp' => skip_back (length r - length rp') r
               | None => rp
               end
      end
  end.

Fixpoint take_ident (l : list N) : list N :=
  match l with
  | c :: r => if is_ident_byte c then c :: take_ident r else []
  | [] => []
  end.
(* isFromKeywordFuncBeforeParen: [rp] = reversed sql[:parenIdx] *)
Definition func_before_paren (rp : list N) : bool :=
  match skip_back O rp with
  | [] => false
  | (c :: _) as rp' =>
      if (c =? 34) || (c =? 96) then false
      else let ident := rev (take_ident rp') in
           match ident with
           | [] => false
           | _ => existsb (equal_fold ident) from_funcs
           end
  end.

(* isFromKeywordAt: [l] = sql[i:] *)
Definition is_from_at (prev : N) (l : list N) : bool :=
  match l with
  | c0 :: c1 :: c2 :: c3 :: rest =>
      ((c0 =? 102) || (c0 =? 70)) && ((c1 =? 114) || (c1 =? 82))
      && ((c2 =? 111) || (c2 =? 79)) && ((c3 =? 109) || (c3 =? 77))
      && negb (is_ident_byte prev)
      && (match rest with c :: _ => negb (is_ident_byte c) | [] => true end)
  | _ => false
  end.

Record fmask := { f_idx : N; f_orig : list N }.
Definition f_ph (m : fmask) : list N := ph_bytes PFrom (f_idx m).

Open Scope Z_scope.
Fixpoint from_loop (skip : nat) (rp : list N) (l : list N) (depth : Z) (stack : list Z) (idx : N)
  : list tok * list fmask :=
  match l with
  | [] => ([], [])
  | c :: r =>
      match skip with
      | S k => from_loop k (c :: rp) r depth stack idx
      | O =>
          if (c =? 40)%N then
            let stack' := if func_before_paren rp then (depth + 1) :: stack else stack in
            let '(t, m) := from_loop O (c :: rp) r (depth + 1) stack' idx in (B c :: t, m)
          else if (c =? 41)%N then
            let depth' := depth - 1 in
            let stack' := match stack with
                          | top :: rest => if depth' <? top then rest else stack
                          | [] => stack
                          end in
            let '(t, m) := from_loop O (c :: rp) r depth' stack' idx in (B c :: t, m)
          else if (match stack with top :: _ => depth =? top | [] => false end)
                  && ((c =? 102) || (c =? 70))%N && is_from_at (hd 0%N rp) l
          then
            let '(t, m) := from_loop 3%nat (c :: rp) r depth stack (idx + 1)%N in
            (P PFrom idx :: t, {| f_idx := idx; f_orig := firstn 4 l |} :: m)
          else
            let '(t, m) := from_loop O (c :: rp) r depth stack idx in (B c :: t, m)
      end
  end.
Open Scope N_scope.

Definition mask_from (s : list N) : list N * list fmask :=
  match s with
  | [] => (s, [])
  | _ => if contains_from_func s
         then let '(t, m) := from_loop O [] s 0%Z [] 0 in (render t, m)
         else (s, [])
  end.

Definition unmask_from (t : list N) (masks : list fmask) : list N :=
  match masks with
  | [] => t
  | _ => replace_multi (map (fun m => (f_ph m, f_orig m)) masks) t
  end.

(* ------------------------------------------------------------------------------------ *)
(* scanSQLFeatures, stripSQLComments                                                      *)
(* ------------------------------------------------------------------------------------ *)

Record features := { f_quotes : bool; f_dash : bool; f_block : bool }.
Fixpoint scan_features_loop (f : features) (l : list N) : features :=
  match l with
  | [] => f
  | c :: r =>
      let nxt := match r with d :: _ => d | [] => 0 end in
      let has_nxt := match r with _ :: _ => true | [] => false end in
      let f' := if is_quote_char c then {| f_quotes := true; f_dash := f_dash f; f_block := f_block f |}
                else if (c =? 45) && has_nxt && (nxt =? 45)
                then {| f_quotes := f_quotes f; f_dash := true; f_block := f_block f |}
                else if (c =? 47) && has_nxt && (nxt =? 42)
                then {| f_quotes := f_quotes f; f_dash := f_dash f; f_block := true |}
                else f in
      if f_quotes f' && f_dash f' && f_block f' then f' else scan_features_loop f' r
  end.
Definition scan_features (s : list N) : features :=
  scan_features_loop {| f_quotes := false; f_dash := false; f_block := false |} s.

(* number of bytes before the first '\n' *)
Fixpoint until_nl (l : list N) : nat :=
  match l with
  | [] => O
  | c :: r => if c =? 10 then O else S (until_nl r)
  end.
(* offset of the first star-slash found by `for i+1 < len { if sql[i]=='*' && sql[i+1]=='/' ...` *)
Fixpoint find_close (l : list N) : option nat :=
  match l with
  | c :: ((d :: _) as r) => if (c =? 42) && (d =? 47) then Some O else option_map S (find_close r)
  | _ => None
  end.

(* [fixed] = false is the code as it is: after the closing star-slash the test `if i+1 >= len(sql)
   { i = len(sql) }` (meant for the unterminated case) also fires when exactly ONE byte
   follows the comment, and drops that byte.  [fixed] = true is the repaired loop of
   /verif/fixes/C15_strip_block_comment_tail.patch. *)
Fixpoint strip_loop (fixed : bool) (skip : nat) (l : list N) : list N :=
  match l with
  | [] => []
  | c :: r =>
      match skip with
      | S k => strip_loop fixed k r
      | O =>
          match r with
          | d :: r2 =>
              if (c =? 45) && (d =? 45) then
                let n := until_nl l in
                if (n <? length l)%nat
                then 10 :: strip_loop fixed n r          (* comment + its newline: n+1 bytes *)
                else strip_loop fixed (n - 1) r          (* to the end of input *)
              else if (c =? 47) && (d =? 42) then
                let n := match find_close r2 with
                         | Some k => if negb fixed && (length r2 - (k + 2) <=? 1)%nat
                                     then length l else (2 + k + 2)%nat
                         | None => length l
                         end in
                32 :: strip_loop fixed (n - 1) r
              else c :: strip_loop fixed O r
          | [] => c :: strip_loop fixed O r
          end
      end
  end.
(* stripSQLComments(sql, hasComments) *)
Definition strip_comments_gen (fixed : bool) (s : list N) (has : bool) : list N :=
  if has then strip_loop fixed O s else s.
Definition strip_comments (s : list N) : list N := strip_loop false O s.
Definition strip_comments_fixed (s : list N) : list N := strip_loop true O s.

(* the composition used by normalizeSQLForShow / convertSQLToStoragePaths: features on the
   raw text gate both passes; mask, strip, unmask *)
Definition normalise_gen (fixed : bool) (s : list N) : list N :=
  let f := scan_features s in
  let '(m, masks) := mask_go s (f_quotes f) in
  unmask (strip_comments_gen fixed m (f_dash f || f_block f)) masks.
Definition normalise := normalise_gen false.
(* with the FROM masking in between, as on the rewrite path *)
Definition normalise2_gen (fixed : bool) (s : list N) : list N :=
  let f := scan_features s in
  let '(m, masks) := mask_go s (f_quotes f) in
  let '(m2, fm) := mask_from m in
  unmask (unmask_from (strip_comments_gen fixed m2 (f_dash f || f_block f)) fm) masks.

(* backticksToDoubleQuotes (as of /repo de6f9a4): only a backtick OUTSIDE a '...' / "..." literal
   becomes a double quote; [inq] is the Go variable inQuote (0 = not inside a literal); a doubled
   quote inside a literal is copied as two bytes (the Go loop's extra i++).  The
   strings.ContainsRune fast path returns the text itself, which is what the loop yields too.
   strings.TrimSpace: ASCII part; the correspondence feeds normalizeSQLForShow only strings
   whose ends are not non-ASCII spaces. *)
Fixpoint backticks_loop (inq : N) (l : list N) : list N :=
  match l with
  | [] => []
  | c :: r =>
      if negb (inq =? 0) then
        if c =? inq then
          match r with
          | c2 :: r2 => if c2 =? inq then c :: c2 :: backticks_loop inq r2 else c :: backticks_loop 0 r
          | [] => c :: backticks_loop 0 r
          end
        else c :: backticks_loop inq r
      else if (c =? 39) || (c =? 34) then c :: backticks_loop c r
      else if c =? 96 then 34 :: backticks_loop 0 r
      else c :: backticks_loop 0 r
  end.
Definition backticks_to_dq (s : list N) : list N :=
  if existsb (fun c => c =? 96) s then backticks_loop 0 s else s.
Definition is_go_space (c : N) : bool := (c =? 32) || in_range 9 13 c.
Fixpoint trim_left (l : list N) : list N :=
  match l with c :: r => if is_go_space c then trim_left r else l | [] => [] end.
Definition trim_space (l : list N) : list N := rev (trim_left (rev (trim_left l))).
Definition normalise_show_gen (fixed : bool) (s : list N) : list N :=
  trim_space (normalise_gen fixed (backticks_to_dq s)).

(* ------------------------------------------------------------------------------------ *)
(* SPEC: the lexical rules of DuckDB (Postgres scan.l as shipped in DuckDB)               *)
(* ------------------------------------------------------------------------------------ *)
(*  '...'      string, '' is an escaped quote, backslash is an ordinary character
    E'...'     (only at the start of a token) backslash escapes the next byte; '' as above
    dq...dq    (dq = the double quote) quoted identifier, dq dq is an escaped quote
    $tag$...$tag$   tag empty or [A-Za-z_\200-\377][A-Za-z0-9_\200-\377]*, only where a `$`
               does not continue an identifier; closes at the first later occurrence of $tag$
    -- ...     to the next \n or \r (exclusive)
    slash-star ... star-slash   nested
    identifiers: [A-Za-z_\200-\377][A-Za-z0-9_$\200-\377]*
   A NUL byte ends the statement (the text reaches DuckDB as a C string).
   Prefixes b'..', x'..', n'..' and the whitespace-newline continuation of adjacent literals
   do not change where quoted text starts and ends and are not modelled. *)

Inductive dkind := KCode | KStr | KQId | KCom.
Definition dkind_eqb (a b : dkind) : bool :=
  match a, b with KCode, KCode | KStr, KStr | KQId, KQId | KCom, KCom => true | _, _ => false end.
(* [d_ctx]: the lexer was inside an identifier just before this token; [d_term]: properly closed *)
Record dtok := { d_kind : dkind; d_bytes : list N; d_ctx : bool; d_term : bool }.

Definition is_high (c : N) : bool := 128 <=? c.
Definition d_ident_start (c : N) : bool := is_alpha_us c || is_high c.
Definition d_tag_cont (c : N) : bool := d_ident_start c || is_digit c.

(* bytes after the opening quote: (bytes consumed, closed?) *)
Fixpoint duck_quoted (q : N) (l : list N) : nat * bool :=
  match l with
  | [] => (O, false)
  | c :: r =>
      if c =? q then
        match r with
        | c2 :: r2 => if c2 =? q then let '(n, t) := duck_quoted q r2 in (S (S n), t) else (1%nat, true)
        | [] => (1%nat, true)
        end
      else let '(n, t) := duck_quoted q r in (S n, t)
  end.
Fixpoint duck_estring (l : list N) : nat * bool :=
  match l with
  | [] => (O, false)
  | c :: r =>
      if c =? 92 then
        match r with
        | _ :: r2 => let '(n, t) := duck_estring r2 in (S (S n), t)
        | [] => (1%nat, false)
        end
      else if c =? 39 then
        match r with
        | c2 :: r2 => if c2 =? 39 then let '(n, t) := duck_estring r2 in (S (S n), t) else (1%nat, true)
        | [] => (1%nat, true)
        end
      else let '(n, t) := duck_estring r in (S n, t)
  end.
(* bytes after the opening slash-star *)
Fixpoint duck_block (depth : nat) (l : list N) : nat * bool :=
  match l with
  | [] => (O, false)
  | c :: r =>
      match r with
      | d :: r2 =>
          if (c =? 47) && (d =? 42) then let '(n, t) := duck_block (S depth) r2 in (S (S n), t)
          else if (c =? 42) && (d =? 47) then
            match depth with
            | O => (2%nat, true)
            | S dp => let '(n, t) := duck_block dp r2 in (S (S n), t)
            end
          else let '(n, t) := duck_block depth r in (S n, t)
      | [] => (1%nat, false)
      end
  end.
Fixpoint duck_line (l : list N) : nat :=
  match l with
  | [] => O
  | c :: r => if (c =? 10) || (c =? 13) then O else S (duck_line r)
  end.
Fixpoint duck_tag (first : bool) (l : list N) : option (list N) :=
  match l with
  | [] => None
  | c :: r =>
      if c =? 36 then Some []
      else if (if first then d_ident_start c else d_tag_cont c)
           then option_map (cons c) (duck_tag false r) else None
  end.

Definition mk_dtok k (l : list N) (n : nat) ctx term : dtok :=
  {| d_kind := k; d_bytes := firstn n l; d_ctx := ctx; d_term := term |}.

(* one token starting at c :: r; inid = inside an identifier *)
Definition duck_step (inid : bool) (c : N) (r : list N) : dtok :=
  let l := c :: r in
  let nxt := match r with d :: _ => d | [] => 0 end in
  let has_nxt := match r with _ :: _ => true | [] => false end in
  if (c =? 45) && has_nxt && (nxt =? 45) then mk_dtok KCom l (duck_line l) inid true
  else if (c =? 47) && has_nxt && (nxt =? 42) then
    let '(n, t) := duck_block O (tl r) in mk_dtok KCom l (2 + n) inid t
  else if c =? 39 then let '(n, t) := duck_quoted 39 r in mk_dtok KStr l (S n) inid t
  else if c =? 34 then let '(n, t) := duck_quoted 34 r in mk_dtok KQId l (S n) inid t
  else if ((c =? 101) || (c =? 69)) && has_nxt && (nxt =? 39) && negb inid then
    let '(n, t) := duck_estring (tl r) in mk_dtok KStr l (2 + n) inid t
  else
    match (if (c =? 36) && negb inid then duck_tag true r else None) with
    | Some tag =>
        let closing := 36 :: tag ++ [36] in
        let clen := length closing in
        match find_sub closing (skipn clen l) with
        | Some e => mk_dtok KStr l (clen + e + clen) inid true
        | None => mk_dtok KStr l (length l) inid false
        end
    | None => mk_dtok KCode l 1 inid true
    end.

Definition next_inid (inid : bool) (t : dtok) : bool :=
  match d_kind t, d_bytes t with
  | KCode, [c] => d_ident_start c || (inid && (is_digit c || (c =? 36)))
  | _, _ => false
  end.

Fixpoint duck_loop (skip : nat) (inid : bool) (l : list N) : list dtok :=
  match l with
  | [] => []
  | c :: r =>
      match skip with
      | S k => duck_loop k inid r
      | O => let t := duck_step inid c r in
             t :: duck_loop (length (d_bytes t) - 1) (next_inid inid t) r
      end
  end.

Fixpoint until_nul (l : list N) : list N :=
  match l with
  | [] => []
  | c :: r => if c =? 0 then [] else c :: until_nul r
  end.
Definition duck_lex (s : list N) : list dtok := duck_loop O false (until_nul s).

(* --- views: what is code, what is a string literal, what is a quoted identifier ------- *)
Definition seg := (dkind * list N)%type.
Fixpoint merge_code (l : list seg) : list seg :=
  match l with
  | [] => []
  | (k, b) :: r =>
      match k, merge_code r with
      | KCode, (KCode, b') :: r' => (KCode, b ++ b') :: r'
      | _, mr => (k, b) :: mr
      end
  end.
Definition duck_view (s : list N) : list seg :=
  merge_code (map (fun t => (match d_kind t with KCom => KCode | k => k end, d_bytes t)) (duck_lex s)).

Fixpoint mask_by_idx (n : N) (masks : list smask) : option smask :=
  match masks with
  | [] => None
  | m :: r => if m_idx m =? n then Some m else mask_by_idx n r
  end.
Definition tok_seg (masks : list smask) (t : tok) : seg :=
  match t with
  | B b => (KCode, [b])
  | P c n => (match c with PIdent => KQId | _ => KStr end,
              match mask_by_idx n masks with Some m => m_orig m | None => [] end)
  end.
Definition arc_view (s : list N) : list seg :=
  let '(t, m) := mask_toks s in merge_code (map (tok_seg m) t).

(* what comment stripping should produce, per DuckDB's own comments: a block comment becomes
   one space, a line comment disappears (its newline is code and stays) *)
Definition is_block_com (t : dtok) : bool :=
  match d_bytes t with a :: b :: _ => (a =? 47) && (b =? 42) | _ => false end.
Definition strip_spec_tok (t : dtok) : list N :=
  match d_kind t with
  | KCom => if is_block_com t then [32] else []
  | _ => d_bytes t
  end.
Definition strip_spec (s : list N) : list N := flat_map strip_spec_tok (duck_lex s).

(* what masking should produce if it delimited exactly DuckDB's literals (Arc's numbering) *)
Fixpoint duck_mask_loop (ts : list dtok) (idx : N) (idents : list (list N * N)) : list tok * list smask :=
  match ts with
  | [] => ([], [])
  | t :: r =>
      match d_kind t with
      | KStr => let '(o, m) := duck_mask_loop r (idx + 1) idents in
                (P PStr idx :: o, {| m_ident := false; m_idx := idx; m_orig := d_bytes t |} :: m)
      | KQId =>
          match ident_lookup (d_bytes t) idents with
          | Some j => let '(o, m) := duck_mask_loop r idx idents in (P PIdent j :: o, m)
          | None => let '(o, m) := duck_mask_loop r (idx + 1) ((d_bytes t, idx) :: idents) in
                    (P PIdent idx :: o, {| m_ident := true; m_idx := idx; m_orig := d_bytes t |} :: m)
          end
      | _ => let '(o, m) := duck_mask_loop r idx idents in (map B (d_bytes t) ++ o, m)
      end
  end.
Definition duck_mask (s : list N) : list N * list smask :=
  let '(t, m) := duck_mask_loop (duck_lex s) 0 [] in (render t, m).

(* --- guard classes (hypotheses of the guarded theorems) ------------------------------- *)

(* no backslash immediately before a quote character *)
Fixpoint no_bs_quote (l : list N) : bool :=
  match l with
  | c :: ((d :: _) as r) => negb ((c =? 92) && ((d =? 39) || (d =? 34))) && no_bs_quote r
  | _ => true
  end.
Definition no_nul (l : list N) : bool := forallb (fun c => negb (c =? 0)) l.

(* Arc decides "inside a word" from the previous byte alone, DuckDB from its token state; a
   dollar-quote or E-prefix candidate is in the guard class when both decide alike. *)
Definition starts_with (c : N) (l : list N) : bool := match l with x :: _ => x =? c | [] => false end.
Fixpoint until_dollar (l : list N) : list N :=     (* the tag: bytes before the next `$` *)
  match l with
  | [] => []
  | c :: r => if c =? 36 then [] else c :: until_dollar r
  end.
(* [chk_com]: no quote character or `$` inside a comment.  [chk_ctx]: word-context agreement. *)
Fixpoint lex_guard_loop (chk_com chk_ctx : bool) (prev : N) (ts : list dtok) : bool :=
  match ts with
  | [] => true
  | t :: r =>
      let b := d_bytes t in
      (match d_kind t with
       | KCom => negb chk_com || forallb (fun c => negb (is_quote_char c)) b
       | KCode =>
           (* a `$`, or an e/E directly before a quote, that DuckDB read as part of an
              identifier: Arc must see an identifier byte before it *)
           negb chk_ctx ||
           match b with
           | [c] => if (c =? 36) || (((c =? 101) || (c =? 69))
                                     && match r with t2 :: _ => starts_with 39 (d_bytes t2) | [] => false end)
                    then implb (d_ctx t) (is_ident_byte prev) else true
           | _ => true
           end
       | KStr =>
           (* a dollar-quoted or E-prefixed string of DuckDB: Arc must not see an identifier
              byte before it, and the dollar tag must be ASCII *)
           negb chk_ctx ||
           match b with
           | c :: b' => if c =? 36 then negb (is_ident_byte prev)
                                        && forallb (fun x => negb (is_high x)) (until_dollar b')
                        else if (c =? 101) || (c =? 69) then negb (is_ident_byte prev)
                        else true
           | [] => true
           end
       | KQId => true
       end)
      && lex_guard_loop chk_com chk_ctx (last b prev) r
  end.
Definition guard_comments_clean (s : list N) : bool := lex_guard_loop true false 0 (duck_lex s).
Definition guard_word_context (s : list N) : bool := lex_guard_loop false true 0 (duck_lex s).
Definition lex_guard (s : list N) : bool :=
  no_nul s && no_bs_quote s && lex_guard_loop true true 0 (duck_lex s).

(* placeholder look-alikes *)
Definition w_STR_ : list N := Eval vm_compute in s2b "STR_".
Definition w_IDENT_ : list N := Eval vm_compute in s2b "IDENT_".
Definition w_FROM_MASK_ : list N := Eval vm_compute in s2b "FROM_MASK_".
Definition w_uuSTR_ : list N := Eval vm_compute in s2b "__STR_".
Definition w_uuIDENT_ : list N := Eval vm_compute in s2b "__IDENT_".
Definition w_uuFROM_MASK_ : list N := Eval vm_compute in s2b "__FROM_MASK_".
Definition ph_guard (s : list N) : bool := negb (has_sub w_STR_ s) && negb (has_sub w_IDENT_ s).
(* the guard DESIGN.md expected to be enough (it is not: C15_unmask_mask_design_guard_refuted) *)
Definition ph_guard_design (s : list N) : bool := negb (has_sub w_uuSTR_ s) && negb (has_sub w_uuIDENT_ s).
Definition from_guard (s : list N) : bool := negb (has_sub w_FROM_MASK_ s).

(* comment stripping: guard class of C15_strip_guarded for a text [t] *)
Definition quote_free (t : list N) : bool :=
  forallb (fun k => match d_kind k with KStr | KQId => false | _ => true end) (duck_lex t).
Definition no_nested_open (t : list N) : bool :=     (* no slash-star inside a block comment *)
  forallb (fun k => match d_kind k with
                    | KCom => negb (is_block_com k) || negb (has_sub [47; 42] (skipn 2 (d_bytes k)))
                    | _ => true end) (duck_lex t).
Fixpoint no_cr_after_line (ts : list dtok) : bool :=  (* a line comment is not ended by \r *)
  match ts with
  | t :: ((t2 :: _) as r) =>
      negb (dkind_eqb (d_kind t) KCom && negb (is_block_com t) && starts_with 13 (d_bytes t2))
      && no_cr_after_line r
  | _ => true
  end.
Definition no_tail_after_close (t : list N) : bool :=  (* not: star-slash followed by exactly one byte *)
  match rev t with
  | _ :: a :: b :: _ => negb ((a =? 47) && (b =? 42))
  | _ => true
  end.
Definition strip_guard (fixed : bool) (t : list N) : bool :=
  no_nul t && quote_free t && no_nested_open t && no_cr_after_line (duck_lex t)
  && (fixed || no_tail_after_close t).

(* guard class of the composition mask -> strip comments -> unmask *)
Definition pipe_guard_text (fixed : bool) (s : list N) : bool :=
  lex_guard s && no_nested_open s && no_cr_after_line (duck_lex s) && (fixed || no_tail_after_close s)
  && ph_guard (strip_spec s).

(* ------------------------------------------------------------------------------------ *)
(* decoding literal values (used only to validate duck_lex against a real DuckDB)         *)
(* ------------------------------------------------------------------------------------ *)
Definition unquote (q : N) (b : list N) : list N :=
  replace_all [q; q] [q] (removelast (tl b)).
Fixpoint unescape (l : list N) : list N :=
  match l with
  | [] => []
  | c :: r =>
      if c =? 92 then
        match r with
        | d :: r2 => (if d =? 110 then 10 else if d =? 116 then 9 else if d =? 114 then 13
                      else if d =? 98 then 8 else if d =? 102 then 12 else d) :: unescape r2
        | [] => []
        end
      else if c =? 39 then
        match r with
        | _ :: r2 => 39 :: unescape r2
        | [] => []
        end
      else c :: unescape r
  end.
Definition decode_tok (t : dtok) : list N :=
  match d_kind t, d_bytes t with
  | KQId, b => unquote 34 b
  | KStr, c :: b' =>
      if c =? 39 then unquote 39 (c :: b')
      else if c =? 36 then let tag := until_dollar b' in
                           let n := S (S (length tag)) in
                           firstn (length (c :: b') - n - n) (skipn n (c :: b'))
      else unescape (removelast (tl b'))
  | _, _ => []
  end.

(* ------------------------------------------------------------------------------------ *)
(* correspondence cases: input + what the REAL Go functions returned                      *)
(* ------------------------------------------------------------------------------------ *)
Definition omask := (list N * list N * bool)%type.       (* Placeholder, Original, Identifier *)
Fixpoint list_eqb {A} (eq : A -> A -> bool) (a b : list A) : bool :=
  match a, b with
  | [], [] => true
  | x :: a', y :: b' => eq x y && list_eqb eq a' b'
  | _, _ => false
  end.
Definition omask_eqb (a b : omask) : bool :=
  let '(p, o, i) := a in let '(p', o', i') := b in bytes_eqb p p' && bytes_eqb o o' && Bool.eqb i i'.
Definition omasks (ms : list smask) : list omask := map (fun m => (m_ph m, m_orig m, m_ident m)) ms.

Record mask_case := { mc_s : list N; mc_masked : list N; mc_masks : list omask;
                      mc_unmasked : list N; mc_fast : list N; mc_hasq : bool;
                      mc_names : list (list N) }.
Definition mask_case_agrees (c : mask_case) : bool :=
  let '(m, ms) := mask (mc_s c) in
  bytes_eqb m (mc_masked c) && list_eqb omask_eqb (omasks ms) (mc_masks c)
  && bytes_eqb (unmask m ms) (mc_unmasked c)
  && bytes_eqb (fst (mask_go (mc_s c) false)) (mc_fast c)
  && Bool.eqb (has_quotes (mc_s c)) (mc_hasq c)
  && list_eqb bytes_eqb (map snd (identifier_names ms)) (mc_names c).
(* property oracles evaluated on the IMPLEMENTATION's output *)
Definition mask_oracle_roundtrip (c : mask_case) : bool := bytes_eqb (mc_unmasked c) (mc_s c).
Definition mask_oracle_bounds (c : mask_case) : bool :=
  let '(m, ms) := duck_mask (mc_s c) in
  bytes_eqb m (mc_masked c) && list_eqb omask_eqb (omasks ms) (mc_masks c).
Definition mask_oracle_gate (c : mask_case) : bool :=    (* the hasQuotes fast path loses nothing *)
  mc_hasq c || bytes_eqb (mc_masked c) (mc_s c).
Definition mask_guard_ph (c : mask_case) : bool := ph_guard (mc_s c).
Definition mask_guard_lex (c : mask_case) : bool := lex_guard (mc_s c).
Definition mask_guard_nul (c : mask_case) : bool := no_nul (mc_s c).
Definition mask_guard_bsq (c : mask_case) : bool := no_bs_quote (mc_s c).
Definition mask_guard_com (c : mask_case) : bool := guard_comments_clean (mc_s c).
Definition mask_guard_ctx (c : mask_case) : bool := guard_word_context (mc_s c).

Record strip_case := { sc_s : list N; sc_fixed : bool; sc_stripped : list N; sc_gated : list N;
                       sc_fast : list N; sc_q : bool; sc_dash : bool; sc_block : bool }.
Definition strip_case_agrees (c : strip_case) : bool :=
  let f := scan_features (sc_s c) in
  bytes_eqb (strip_comments_gen (sc_fixed c) (sc_s c) true) (sc_stripped c)
  && bytes_eqb (strip_comments_gen (sc_fixed c) (sc_s c) (f_dash f || f_block f)) (sc_gated c)
  && bytes_eqb (strip_comments_gen (sc_fixed c) (sc_s c) false) (sc_fast c)
  && Bool.eqb (f_quotes f) (sc_q c) && Bool.eqb (f_dash f) (sc_dash c) && Bool.eqb (f_block f) (sc_block c).
Definition strip_oracle (c : strip_case) : bool :=
  negb (quote_free (sc_s c) && no_nul (sc_s c))
  || (bytes_eqb (sc_stripped c) (strip_spec (sc_s c)) && bytes_eqb (sc_gated c) (strip_spec (sc_s c))).
Definition strip_guard_all (c : strip_case) : bool := strip_guard (sc_fixed c) (sc_s c).
Definition strip_guard_nested (c : strip_case) : bool := no_nested_open (sc_s c).
Definition strip_guard_cr (c : strip_case) : bool := no_cr_after_line (duck_lex (sc_s c)).
Definition strip_guard_tail (c : strip_case) : bool := sc_fixed c || no_tail_after_close (sc_s c).

Record pipe_case := { pc_s : list N; pc_fixed : bool; pc_masked : list N; pc_stripped : list N;
                      pc_out : list N; pc_out2 : list N; pc_show : list N }.
Definition pipe_case_agrees (c : pipe_case) : bool :=
  let s := pc_s c in
  let f := scan_features s in
  let '(m, masks) := mask_go s (f_quotes f) in
  let st := strip_comments_gen (pc_fixed c) m (f_dash f || f_block f) in
  bytes_eqb m (pc_masked c) && bytes_eqb st (pc_stripped c)
  && bytes_eqb (normalise_gen (pc_fixed c) s) (pc_out c)
  && bytes_eqb (normalise2_gen (pc_fixed c) s) (pc_out2 c)
  && bytes_eqb (normalise_show_gen (pc_fixed c) s) (pc_show c).
Definition pipe_oracle (c : pipe_case) : bool := bytes_eqb (pc_out c) (strip_spec (pc_s c)).
Definition pipe_oracle2 (c : pipe_case) : bool := bytes_eqb (pc_out2 c) (strip_spec (pc_s c)).
(* guard class of C15_normalise_guarded (mask -> strip -> unmask) *)
Definition pipe_guard (c : pipe_case) : bool := pipe_guard_text (pc_fixed c) (pc_s c).
(* ... and of the variant with the FROM masking in between (correspondence only) *)
Definition pipe_guard2 (c : pipe_case) : bool :=
  pipe_guard_text (pc_fixed c) (pc_s c) && ph_guard (pc_s c) && from_guard (pc_s c)
  && negb (has_sub w_FROM_MASK (pc_s c)).

Record from_case := { fc_s : list N; fc_masked : list N; fc_masks : list (list N * list N);
                      fc_unmasked : list N; fc_contains : bool }.
Definition from_case_agrees (c : from_case) : bool :=
  let '(m, ms) := mask_from (fc_s c) in
  bytes_eqb m (fc_masked c)
  && list_eqb (fun a b => bytes_eqb (fst a) (fst b) && bytes_eqb (snd a) (snd b))
       (map (fun x => (f_ph x, f_orig x)) ms) (fc_masks c)
  && bytes_eqb (unmask_from m ms) (fc_unmasked c)
  && Bool.eqb (contains_from_func (fc_s c)) (fc_contains c).
Definition from_oracle (c : from_case) : bool := bytes_eqb (fc_unmasked c) (fc_s c).
Definition from_case_guard (c : from_case) : bool := from_guard (fc_s c).

(* validation of the SPEC against a real DuckDB: the statement is a SELECT list whose items
   are `literal AS quoted-identifier`; [dc_strict]: the generator built it well-formed *)
Record duck_case := { dc_s : list N; dc_strict : bool; dc_ok : bool;
                      dc_vals : list (list N); dc_cols : list (list N) }.
Definition duck_pred_ok (s : list N) : bool :=
  forallb (fun t => d_term t && negb (dkind_eqb (d_kind t) KQId && (length (d_bytes t) <=? 2)%nat)) (duck_lex s)
  && bytes_eqb (until_nul s) s.
Definition duck_case_agrees (c : duck_case) : bool :=
  let ts := duck_lex (dc_s c) in
  if dc_ok c then
    duck_pred_ok (dc_s c)
    && (negb (dc_strict c)
        || (list_eqb bytes_eqb (map decode_tok (filter (fun t => dkind_eqb (d_kind t) KStr) ts)) (dc_vals c)
            && list_eqb bytes_eqb (map decode_tok (filter (fun t => dkind_eqb (d_kind t) KQId) ts)) (dc_cols c)))
  else negb (dc_strict c) || negb (duck_pred_ok (dc_s c)).
