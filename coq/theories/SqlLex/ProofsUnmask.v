(* SqlLex - unmask (mask s) = s for inputs without STR_ / IDENT_ (C15_unmask_mask_guarded).

   Idea: the masker's output is a token list (copied bytes B b, placeholders P c n); unmasking
   works on the RENDERED text.  Under the guard no placeholder can be matched anywhere except
   at a genuine placeholder token (nm_B, nm_P), so every textual replacement step equals a
   substitution on tokens (kl_all, kl_first); substituting every mask in order leaves copied
   bytes only, and these spell the input (mask_loop_spec). *)
From Coq Require Import NArith Bool Arith List Lia.
From Arc Require Import SqlLex.Model SqlLex.Lemmas.
Import ListNotations.
Open Scope N_scope.

(* ------------------------------------------------------------------------------------ *)
(* no placeholder matches outside a genuine placeholder token                             *)
(* ------------------------------------------------------------------------------------ *)
Definition guard_word (c : pclass) : list N := pword c ++ [95].
Definition tok_guard (c : pclass) (ts : list tok) : Prop :=
  forall pre post, ts <> pre ++ map B (guard_word c) ++ post.

Lemma tok_guard_tail : forall c t ts, tok_guard c (t :: ts) -> tok_guard c ts.
Proof. intros c t ts H pre post E. apply (H (t :: pre) post). cbn. now f_equal. Qed.
Lemma tok_guard_app_r : forall c a ts, tok_guard c (a ++ ts) -> tok_guard c ts.
Proof. induction a; cbn; intros; auto. eapply IHa, tok_guard_tail; eauto. Qed.

Lemma good_core : forall c d, is_digit d = true -> good_pat (pword c ++ [95; d]).
Proof.
  intros c d Hd. pose proof (is_digit_not95 _ Hd).
  destruct c; cbn; repeat first [apply gp_nil | apply gp_us; [discriminate || assumption|] | apply gp_other; [discriminate || assumption|]].
Qed.

Lemma nm_core : forall c n ts, tok_guard c ts ->
  prefixb (pword c ++ 95 :: dec n ++ [95; 95]) (render ts) = false.
Proof.
  intros c n ts G. destruct (prefixb _ _) eqn:E; auto. exfalso.
  pose proof (dec_nonnil n) as Hn. pose proof (dec_digits n) as Hd.
  destruct (dec n) as [|d0 D]; [congruence|]. inversion Hd; subst.
  replace (pword c ++ 95 :: (d0 :: D) ++ [95; 95]) with ((pword c ++ [95; d0]) ++ (D ++ [95; 95])) in E
    by (rewrite <- app_assoc; reflexivity).
  apply prefixb_app_l in E. apply core_match in E as [ts' ->]; [|now apply good_core].
  apply (G [] (B d0 :: ts')). cbn [app]. unfold guard_word.
  replace (pword c ++ [95; d0]) with ((pword c ++ [95]) ++ [d0]) by (rewrite <- app_assoc; reflexivity).
  rewrite map_app, <- app_assoc. reflexivity.
Qed.

Lemma ph_hd1 : forall c n x l, prefixb (ph_bytes c n) (x :: l) = true -> x = 95.
Proof. unfold ph_bytes. intros. apply prefixb_cons in H as [-> _]. reflexivity. Qed.
Lemma ph_hd2 : forall c n x y l, prefixb (ph_bytes c n) (x :: y :: l) = true -> y = 95.
Proof. unfold ph_bytes. intros. apply prefixb_cons in H as [_ H]. apply prefixb_cons in H as [-> _]. reflexivity. Qed.
Lemma ph_hd3 : forall c n l, prefixb (ph_bytes c n) (95 :: 95 :: l) = true ->
  prefixb (pword c ++ 95 :: dec n ++ [95; 95]) l = true.
Proof. unfold ph_bytes. intros. apply prefixb_cons in H as [_ H]. apply prefixb_cons in H as [_ H]. exact H. Qed.
Lemma pword_hd : forall c, exists x w, pword c = x :: w /\ x <> 95.
Proof. destruct c; cbn; do 2 eexists; split; try reflexivity; discriminate. Qed.

Lemma nm_B : forall c n b ts, tok_guard c ts -> prefixb (ph_bytes c n) (b :: render ts) = false.
Proof.
  intros c n b ts G. destruct (prefixb _ _) eqn:E; auto. exfalso.
  destruct ts as [|[x|c2 n2] ts2].
  - unfold ph_bytes in E. cbn in E. rewrite andb_false_r in E. discriminate.
  - rewrite render_cons in E. cbn [render_tok app] in E.
    pose proof (ph_hd1 _ _ _ _ E) as ->. pose proof (ph_hd2 _ _ _ _ _ E) as ->.
    apply ph_hd3 in E. rewrite nm_core in E; [discriminate|]. eapply tok_guard_tail; eauto.
  - destruct (render_P_starts c2 n2 ts2) as [r Hr]. rewrite Hr in E.
    pose proof (ph_hd1 _ _ _ _ E) as ->. apply ph_hd3 in E.
    destruct (pword_hd c) as (x & w & Hw & Hx). rewrite Hw in E. cbn [app] in E.
    apply prefixb_cons in E as [-> _]. congruence.
Qed.

Lemma tok_guard_cons95 : forall c ts, tok_guard c ts -> tok_guard c (B 95 :: ts).
Proof.
  intros c ts G pre post E. destruct pre as [|p pre].
  - cbn [app] in E. unfold guard_word in E. destruct (pword_hd c) as (x & w & Hw & Hx). rewrite Hw in E.
    cbn in E. inversion E. congruence.
  - cbn [app] in E. inversion E. eapply G; eauto.
Qed.

Lemma suffix_cases : forall (blk tail v1 v2 : list N), blk ++ tail = v1 ++ v2 ->
  (exists k, (k < length blk)%nat /\ v2 = skipn k blk ++ tail) \/ (exists t1, v1 = blk ++ t1 /\ tail = t1 ++ v2).
Proof.
  induction blk as [|x blk IH]; intros tail v1 v2 H.
  - right. exists v1. auto.
  - destruct v1 as [|a v1].
    + left. exists O. cbn [app] in H. cbn. split; [lia|]. now rewrite <- H.
    + cbn [app] in H. inversion H; subst. destruct (IH _ _ _ H2) as [(k & Hk & ->)|(t1 & -> & ->)].
      * left. exists (S k). cbn. split; [lia|reflexivity].
      * right. exists t1. auto.
Qed.

Lemma nm_P : forall c n c' n' ts v1 v2, (c, n) <> (c', n') -> tok_guard c ts ->
  ph_bytes c' n' = v1 ++ v2 -> v2 <> [] -> prefixb (ph_bytes c n) (v2 ++ render ts) = false.
Proof.
  intros c n c' n' ts v1 v2 Hne G Heq Hv2. destruct (prefixb _ _) eqn:E; auto. exfalso.
  assert (TT : prefixb (ph_bytes c n) (95 :: 95 :: render ts) = true -> False).
  { intro H. apply ph_hd3 in H. now rewrite nm_core in H. }
  assert (T1 : prefixb (ph_bytes c n) (95 :: render ts) = true -> False).
  { intro H. now rewrite nm_B in H. }
  unfold ph_bytes in Heq. destruct v1 as [|a v1].
  { cbn [app] in Heq. subst v2. apply ph_bytes_inj in E as [-> ->]. congruence. }
  cbn [app] in Heq. inversion Heq as [[Ha Heq1]]. clear Heq. destruct v1 as [|a2 v1].
  { cbn [app] in Heq1. subst v2. destruct (pword_hd c') as (x & w & Hw & Hx). rewrite Hw in E. cbn [app] in E.
    apply ph_hd2 in E. congruence. }
  cbn [app] in Heq1. inversion Heq1 as [[Ha2 Heq2]]. clear Heq1.
  apply suffix_cases in Heq2 as [(k & Hk & ->)|(t1 & -> & Heq3)].
  - (* v2 starts inside the class word *)
    destruct c'; cbn in Hk;
      repeat (destruct k as [|k]; [cbn [skipn app pword w_STR w_IDENT w_FROM_MASK] in E;
                                   first [apply ph_hd1 in E; discriminate | apply ph_hd2 in E; discriminate]|]); lia.
  - destruct t1 as [|b t1].
    + cbn [app] in Heq3. subst v2. pose proof (dec_nonnil n') as Hn. pose proof (dec_digits n') as Hd.
      destruct (dec n') as [|d0 D]; [congruence|]. inversion Hd; subst. cbn [app] in E.
      apply ph_hd2 in E. subst d0. discriminate.
    + cbn [app] in Heq3. inversion Heq3 as [[Hb Heq4]]. clear Heq3.
      apply suffix_cases in Heq4 as [(k & Hk & ->)|(t2 & -> & Heq5)].
      * pose proof (dec_digits n') as Hd.
        assert (Hs : exists d r, skipn k (dec n') = d :: r /\ is_digit d = true).
        { clear - Hk Hd. revert k Hk. induction Hd as [|d D Hd0 HD IH]; intros k Hk; cbn in Hk; [lia|].
          destruct k as [|k]; [cbn; eauto|]. cbn. apply IH. lia. }
        destruct Hs as (d & r & Hs & Hdg). rewrite Hs in E. cbn [app] in E. apply ph_hd1 in E. subst d. discriminate.
      * destruct t2 as [|b2 t2]; [cbn [app] in Heq5; subst v2; cbn [app] in E; auto|].
        cbn [app] in Heq5. inversion Heq5 as [[Hb2 Heq6]]. destruct t2 as [|b3 t2].
        { cbn [app] in Heq6. subst v2. cbn [app] in E. auto. }
        cbn [app] in Heq6. inversion Heq6 as [[Hb3 Heq7]]. destruct t2; cbn in Heq7; [subst v2; congruence|discriminate].
Qed.

(* ------------------------------------------------------------------------------------ *)
(* textual replacement = substitution on tokens                                           *)
(* ------------------------------------------------------------------------------------ *)
Definition tok_is (c : pclass) (n : N) (t : tok) : bool :=
  match t with B _ => false | P c' n' => pclass_eqb c c' && (n =? n') end.
Lemma tok_is_true : forall c n t, tok_is c n t = true -> t = P c n.
Proof.
  intros c n [b|c' n']; cbn; [discriminate|]. intro H. apply andb_true_iff in H as [H1 H2].
  apply N.eqb_eq in H2. subst. destruct c, c'; try discriminate; reflexivity.
Qed.
Lemma tok_is_false : forall c n c' n', tok_is c n (P c' n') = false -> (c, n) <> (c', n').
Proof.
  intros c n c' n' H E. inversion E; subst. cbn in H. rewrite N.eqb_refl in H. destruct c'; discriminate.
Qed.

Fixpoint subst_all (c : pclass) (n : N) (orig : list N) (ts : list tok) : list tok :=
  match ts with
  | [] => []
  | t :: r => if tok_is c n t then map B orig ++ subst_all c n orig r else t :: subst_all c n orig r
  end.
Fixpoint subst_first (c : pclass) (n : N) (orig : list N) (ts : list tok) : list tok :=
  match ts with
  | [] => []
  | t :: r => if tok_is c n t then map B orig ++ r else t :: subst_first c n orig r
  end.

Lemma ph_nonnil : forall c n, ph_bytes c n <> [].
Proof. unfold ph_bytes. discriminate. Qed.

Lemma kl_all : forall c n orig ts, tok_guard c ts ->
  replace_all (ph_bytes c n) orig (render ts) = render (subst_all c n orig ts).
Proof.
  unfold replace_all. intros c n orig. induction ts as [|t ts IH]; intro G; [reflexivity|].
  pose proof (tok_guard_tail _ _ _ G) as G'. cbn [subst_all]. destruct (tok_is c n t) eqn:Et.
  - apply tok_is_true in Et. subst t. rewrite render_cons. cbn [render_tok].
    rewrite replace_all_match by apply ph_nonnil. rewrite render_app, render_map_B. f_equal. auto.
  - destruct t as [b|c' n'].
    + rewrite !render_cons. cbn [render_tok app replace_all_aux].
      change (b :: render ts) with ([b] ++ render ts). cbn [app]. rewrite nm_B by assumption. f_equal. auto.
    + rewrite !render_cons. cbn [render_tok]. rewrite replace_all_block.
      * f_equal. auto.
      * intros v1 v2 Hv Hne. eapply nm_P; eauto. now apply tok_is_false.
Qed.

Lemma kl_first : forall c n orig ts, tok_guard c ts ->
  replace_first (ph_bytes c n) orig (render ts) = render (subst_first c n orig ts).
Proof.
  intros c n orig. induction ts as [|t ts IH]; intro G.
  - cbn. unfold ph_bytes. reflexivity.
  - pose proof (tok_guard_tail _ _ _ G) as G'. cbn [subst_first]. destruct (tok_is c n t) eqn:Et.
    + apply tok_is_true in Et. subst t. rewrite render_cons. cbn [render_tok].
      rewrite replace_first_match. now rewrite render_app, render_map_B.
    + destruct t as [b|c' n'].
      * rewrite !render_cons. cbn [render_tok app replace_first]. rewrite nm_B by assumption. f_equal. auto.
      * rewrite !render_cons. cbn [render_tok]. rewrite replace_first_block.
        -- f_equal. auto.
        -- intros v1 v2 Hv Hne. eapply nm_P; eauto. now apply tok_is_false.
Qed.

(* ------------------------------------------------------------------------------------ *)
(* what the mask loop produces                                                            *)
(* ------------------------------------------------------------------------------------ *)
Definition wf_from (k : nat) (T : list smask) : Prop :=
  forall i m, nth_error T i = Some m -> m_idx m = N.of_nat (k + i).

Lemma wf_from_tail : forall k m T, wf_from k (m :: T) -> wf_from (S k) T.
Proof. intros k m T H i x Hx. rewrite (H (S i) x Hx). f_equal. lia. Qed.

Lemma mask_by_idx_nth : forall T k i m, wf_from k T -> nth_error T i = Some m ->
  mask_by_idx (N.of_nat (k + i)) T = Some m.
Proof.
  induction T as [|m0 T IH]; intros k i m W H; [destruct i; discriminate|].
  destruct i as [|i]; cbn in H.
  - inversion H; subst. cbn. rewrite (W O m eq_refl). now rewrite N.eqb_refl.
  - cbn. rewrite (W O m0 eq_refl). replace (N.of_nat (k + 0) =? N.of_nat (k + S i)) with false
      by (symmetry; apply N.eqb_neq; lia).
    replace (k + S i)%nat with (S k + i)%nat by lia. apply IH; auto. eapply wf_from_tail; eauto.
Qed.
Lemma mask_by_idx_some : forall T k n m, wf_from k T -> mask_by_idx n T = Some m ->
  exists i, nth_error T i = Some m /\ n = N.of_nat (k + i).
Proof.
  induction T as [|m0 T IH]; intros k n m W H; [discriminate|]. cbn in H.
  destruct (m_idx m0 =? n) eqn:E.
  - inversion H; subst. apply N.eqb_eq in E. exists O. split; auto. rewrite <- E. apply (W O m eq_refl).
  - destruct (IH (S k) n m (wf_from_tail _ _ _ W) H) as (i & Hi & ->). exists (S i). split; auto. f_equal. lia.
Qed.

Definition expand (T : list smask) (t : tok) : list N :=
  match t with
  | B b => [b]
  | P c n => match mask_by_idx n T with Some m => m_orig m | None => [] end
  end.
Definition expand_all (T : list smask) (ts : list tok) : list N := flat_map (expand T) ts.

Lemma expand_all_map_B : forall T w, expand_all T (map B w) = w.
Proof. induction w; cbn; f_equal; auto. Qed.
Lemma expand_all_app : forall T a b, expand_all T (a ++ b) = expand_all T a ++ expand_all T b.
Proof. intros. unfold expand_all. now rewrite flat_map_app. Qed.

(* a placeholder token refers to an existing mask of its own class *)
Definition tok_wf (T : list smask) (lo : N) (t : tok) : Prop :=
  match t with
  | B _ => True
  | P c n => lo <= n /\ exists m, mask_by_idx n T = Some m /\ m_class m = c
  end.
Definition str_idxs (ts : list tok) : list N :=
  flat_map (fun t => match t with P PStr n => [n] | _ => [] end) ts.

Definition idents_ok (T : list smask) (idents : list (list N * N)) : Prop :=
  forall k j, ident_lookup k idents = Some j ->
    exists m, mask_by_idx j T = Some m /\ m_ident m = true /\ m_orig m = k.

Inductive step_shape (idx : N) (idents : list (list N * N)) (l : list N) (st : mstep) : Prop :=
| shape_str : st_tok st = P PStr idx ->
    st_new st = [{| m_ident := false; m_idx := idx; m_orig := firstn (st_n st) l |}] ->
    st_idx st = idx + 1 -> st_idents st = idents -> step_shape idx idents l st
| shape_new_ident : st_tok st = P PIdent idx ->
    st_new st = [{| m_ident := true; m_idx := idx; m_orig := firstn (st_n st) l |}] ->
    st_idx st = idx + 1 -> st_idents st = (firstn (st_n st) l, idx) :: idents -> step_shape idx idents l st
| shape_old_ident : forall j, st_tok st = P PIdent j -> st_new st = [] -> st_idx st = idx ->
    st_idents st = idents -> ident_lookup (firstn (st_n st) l) idents = Some j -> step_shape idx idents l st.

Lemma mask_step_shape : forall prev c r idx idents st,
  mask_step prev c r idx idents = Some st ->
  (1 <= st_n st)%nat /\ step_shape idx idents (c :: r) st.
Proof.
  intros prev c r idx idents st H. unfold mask_step in H.
  destruct (if c =? 36 then dollar_tag prev (c :: r) else None) as [tag|].
  - destruct (find_sub _ _); inversion H; subst; unfold str_step; cbn [st_n st_tok st_new st_idx st_idents];
      (split; [cbn [length]; lia|]); now apply shape_str.
  - destruct (_ && _ && _).
    + inversion H; subst; unfold str_step; cbn [st_n st_tok st_new st_idx st_idents]. split; [lia|]. now apply shape_str.
    + destruct ((c =? 39) || (c =? 34)); [|discriminate].
      destruct (c =? 34).
      * destruct (ident_lookup _ idents) eqn:E; inversion H; subst; cbn [st_n st_tok st_new st_idx st_idents]; (split; [lia|]).
        -- eapply shape_old_ident; cbn [st_n st_tok st_new st_idx st_idents]; eauto.
        -- now apply shape_new_ident.
      * inversion H; subst; unfold str_step; cbn [st_n st_tok st_new st_idx st_idents]. split; [lia|]. now apply shape_str.
Qed.

Lemma firstn_skipn_pred : forall (A : Type) n (c : A) r, (1 <= n)%nat ->
  firstn n (c :: r) ++ skipn (n - 1) r = c :: r.
Proof.
  intros A n c r Hn. destruct n as [|n]; [lia|]. cbn [firstn]. rewrite Nat.sub_succ, Nat.sub_0_r.
  cbn [app]. f_equal. apply firstn_skipn.
Qed.

Lemma ident_lookup_cons : forall k k' v idents j,
  ident_lookup k ((k', v) :: idents) = Some j -> (k = k' /\ j = v) \/ ident_lookup k idents = Some j.
Proof.
  intros. cbn in H. destruct (bytes_eqb k k') eqn:E; auto. apply bytes_eqb_eq in E. inversion H; auto.
Qed.

Lemma mask_by_idx_app_l : forall T T' n m, mask_by_idx n T = Some m -> mask_by_idx n (T ++ T') = Some m.
Proof. induction T; cbn; intros; [discriminate|]. destruct (m_idx a =? n); auto. Qed.

Lemma idents_ok_app : forall T T' idents, idents_ok T idents -> idents_ok (T ++ T') idents.
Proof.
  intros T T' idents H k j Hk. destruct (H k j Hk) as (m & Hm & Hi & Ho). exists m. split; auto.
  now apply mask_by_idx_app_l.
Qed.

Lemma wf_from_app : forall k T m, wf_from k T -> m_idx m = N.of_nat (k + length T) -> wf_from k (T ++ [m]).
Proof.
  intros k T m W Hm i x Hx. destruct (Nat.lt_ge_cases i (length T)) as [Hlt|Hge].
  - rewrite nth_error_app1 in Hx by assumption. auto.
  - rewrite nth_error_app2 in Hx by assumption. destruct (i - length T)%nat eqn:E; cbn in Hx.
    + inversion Hx; subst. rewrite Hm. f_equal. lia.
    + destruct n; discriminate.
Qed.

Lemma str_idxs_cons_B : forall b ts, str_idxs (B b :: ts) = str_idxs ts.
Proof. reflexivity. Qed.

(* The segmentation (which bytes are masked, as what) does not depend on the numbering. *)
Definition tok_kind (t : tok) : dkind :=
  match t with B _ => KCode | P PIdent _ => KQId | P _ _ => KStr end.
Fixpoint arc_segs (skip : nat) (prev : N) (l : list N) : list seg :=
  match l with
  | [] => []
  | c :: r =>
      match skip with
      | S k => arc_segs k c r
      | O => match mask_step prev c r 0 [] with
             | None => (KCode, [c]) :: arc_segs O c r
             | Some st => (tok_kind (st_tok st), firstn (st_n st) (c :: r)) :: arc_segs (st_n st - 1) c r
             end
      end
  end.

Lemma mask_step_indep : forall prev c r idx idents,
  match mask_step prev c r idx idents, mask_step prev c r 0 [] with
  | None, None => True
  | Some st, Some st0 => st_n st = st_n st0 /\ tok_kind (st_tok st) = tok_kind (st_tok st0)
  | _, _ => False
  end.
Proof.
  intros. unfold mask_step.
  destruct (if c =? 36 then dollar_tag prev (c :: r) else None) as [tag|].
  - destruct (find_sub _ _); cbn; auto.
  - destruct (_ && _ && _); [cbn; auto|].
    destruct ((c =? 39) || (c =? 34)); [|exact I].
    destruct (c =? 34); [|cbn; auto].
    cbn [ident_lookup]. destruct (ident_lookup _ idents); cbn; auto.
Qed.

Lemma tok_seg_P : forall T c n mk, mask_by_idx n T = Some mk -> m_class mk = c ->
  tok_seg T (P c n) = (tok_kind (P c n), m_orig mk).
Proof. intros T c n mk H Hc. cbn. rewrite H. destruct c; reflexivity. Qed.

Lemma mask_loop_spec : forall l skip prev idx idents tbl0 t m,
  mask_loop skip prev l idx idents = (t, m) ->
  wf_from 0 tbl0 -> idx = N.of_nat (length tbl0) -> idents_ok tbl0 idents ->
  map (tok_seg (tbl0 ++ m)) t = arc_segs skip prev l
  /\ wf_from 0 (tbl0 ++ m)
  /\ expand_all (tbl0 ++ m) t = skipn skip l
  /\ Forall (tok_wf (tbl0 ++ m) 0) t
  /\ NoDup (str_idxs t) /\ Forall (fun n => idx <= n) (str_idxs t).
Proof.
  induction l as [|c r IH]; intros skip prev idx idents tbl0 t m H W Hidx Hid.
  - cbn in H. inversion H; subst. rewrite app_nil_r. repeat split; auto; try constructor; try now destruct skip.
  - cbn [mask_loop] in H. destruct skip as [|k].
    + destruct (mask_step prev c r idx idents) as [st|] eqn:Est.
      * destruct (mask_loop (st_n st - 1) c r (st_idx st) (st_idents st)) as [t' m'] eqn:El.
        inversion H; subst t m. clear H.
        destruct (mask_step_shape _ _ _ _ _ _ Est) as [Hn Hshape].
        assert (Key : forall T, wf_from 0 T -> forall mk, mask_by_idx (match st_tok st with P _ n => n | B _ => 0 end) T = Some mk ->
                 m_orig mk = firstn (st_n st) (c :: r) ->
                 expand_all T t' = skipn (st_n st - 1) r -> expand_all T (st_tok st :: t') = c :: r).
        { intros T WT mk Hmk Ho He. destruct Hshape as [Ht _ _ _|Ht _ _ _|j Ht _ _ _ _];
            rewrite Ht in *; cbn [expand_all flat_map expand]; rewrite Hmk, Ho;
            fold (expand_all T t'); rewrite He; now apply firstn_skipn_pred. }
        assert (Seg : forall T mk cls n, st_tok st = P cls n -> mask_by_idx n T = Some mk -> m_class mk = cls ->
                 m_orig mk = firstn (st_n st) (c :: r) ->
                 map (tok_seg T) t' = arc_segs (st_n st - 1) c r ->
                 map (tok_seg T) (st_tok st :: t') = arc_segs 0 prev (c :: r)).
        { intros T mk cls n0 Htk Hmk Hcls Ho Hrest. cbn [arc_segs map].
          pose proof (mask_step_indep prev c r idx idents) as Hind. rewrite Est in Hind.
          destruct (mask_step prev c r 0 []) as [st0|]; [|contradiction]. destruct Hind as [Hn0 Hk0].
          rewrite <- Hn0, <- Hk0, <- Hrest. f_equal. rewrite Htk. rewrite (tok_seg_P _ _ _ _ Hmk Hcls). now rewrite Ho. }
        destruct Hshape as [Ht Hnew Hi Hids|Ht Hnew Hi Hids|j Ht Hnew Hi Hids Hlk].
        -- (* fresh string mask *)
           set (mk := {| m_ident := false; m_idx := idx; m_orig := firstn (st_n st) (c :: r) |}) in *.
           rewrite Hi, Hids in El.
           assert (W1 : wf_from 0 (tbl0 ++ [mk])) by (apply wf_from_app; auto).
           destruct (IH _ _ _ _ (tbl0 ++ [mk]) _ _ El W1) as (Hsg & W2 & He & Hwf & Hnd & Hge).
           { rewrite app_length. cbn. lia. }
           { now apply idents_ok_app. }
           rewrite Hnew. rewrite <- app_assoc in *. cbn [app] in *.
           assert (Hmk : mask_by_idx idx (tbl0 ++ mk :: m') = Some mk).
           { subst idx. replace (length tbl0) with (0 + length tbl0)%nat by lia. apply mask_by_idx_nth; auto.
             rewrite nth_error_app2 by lia. now rewrite Nat.sub_diag. }
           split; [apply (Seg _ mk PStr idx); auto|].
           split; auto. split; [apply (Key _ W2 mk); rewrite ?Ht; auto|].
           rewrite Ht. split; [constructor; auto; cbn; split; [lia|exists mk; auto]|].
           cbn [str_idxs flat_map app]. fold (str_idxs t'). split.
           ++ constructor; auto. intro Hin. rewrite Forall_forall in Hge. apply Hge in Hin. lia.
           ++ constructor; [lia|]. eapply Forall_impl; [|exact Hge]. cbn. intros; lia.
        -- (* fresh identifier mask *)
           set (mk := {| m_ident := true; m_idx := idx; m_orig := firstn (st_n st) (c :: r) |}) in *.
           rewrite Hi, Hids in El.
           assert (W1 : wf_from 0 (tbl0 ++ [mk])) by (apply wf_from_app; auto).
           assert (Hmk0 : mask_by_idx idx (tbl0 ++ [mk]) = Some mk).
           { subst idx. replace (length tbl0) with (0 + length tbl0)%nat by lia. apply mask_by_idx_nth; auto.
             rewrite nth_error_app2 by lia. now rewrite Nat.sub_diag. }
           destruct (IH _ _ _ _ (tbl0 ++ [mk]) _ _ El W1) as (Hsg & W2 & He & Hwf & Hnd & Hge).
           { rewrite app_length. cbn. lia. }
           { intros k0 j0 Hk0. apply ident_lookup_cons in Hk0 as [[-> ->]|Hk0].
             - exists mk. auto.
             - exact (idents_ok_app _ [mk] _ Hid _ _ Hk0). }
           rewrite Hnew. rewrite <- app_assoc in *. cbn [app] in *.
           assert (Hmk : mask_by_idx idx (tbl0 ++ mk :: m') = Some mk).
           { change (mk :: m') with ([mk] ++ m'). rewrite app_assoc. now apply mask_by_idx_app_l. }
           split; [apply (Seg _ mk PIdent idx); auto|].
           split; auto. split; [apply (Key _ W2 mk); rewrite ?Ht; auto|].
           rewrite Ht. split; [constructor; auto; cbn; split; [lia|exists mk; auto]|].
           cbn [str_idxs flat_map app]. fold (str_idxs t'). split; auto.
           eapply Forall_impl; [|exact Hge]. cbn. intros; lia.
        -- (* identifier seen before *)
           rewrite Hi, Hids in El. rewrite Hnew. cbn [app].
           destruct (IH _ _ _ _ tbl0 _ _ El W Hidx Hid) as (Hsg & W2 & He & Hwf & Hnd & Hge).
           destruct (Hid _ _ Hlk) as (mk & Hmk & Hmi & Hmo).
           assert (Hmk' : mask_by_idx j (tbl0 ++ m') = Some mk) by now apply mask_by_idx_app_l.
           split; [apply (Seg _ mk PIdent j); auto; unfold m_class; now rewrite Hmi|].
           split; auto. split; [apply (Key _ W2 mk); rewrite ?Ht; auto|].
           rewrite Ht. split; [constructor; auto; cbn; split; [lia|exists mk; split; auto; unfold m_class; now rewrite Hmi]|].
           cbn [str_idxs flat_map app]. fold (str_idxs t'). auto.
      * destruct (mask_loop 0 c r idx idents) as [t' m'] eqn:El. inversion H; subst t m. clear H.
        destruct (IH _ _ _ _ tbl0 _ _ El W Hidx Hid) as (Hsg & W2 & He & Hwf & Hnd & Hge).
        split.
        { cbn [arc_segs map]. pose proof (mask_step_indep prev c r idx idents) as Hind. rewrite Est in Hind.
          destruct (mask_step prev c r 0 []); [contradiction|]. now rewrite Hsg. }
        split; auto. split; [cbn [expand_all flat_map expand app]; fold (expand_all (tbl0 ++ m') t'); rewrite He; reflexivity|].
        split; [constructor; cbn; auto|]. rewrite str_idxs_cons_B. auto.
    + destruct (IH _ _ _ _ tbl0 _ _ H W Hidx Hid) as (Hsg & W2 & He & Hwf & Hnd & Hge). repeat split; auto.
Qed.

(* ------------------------------------------------------------------------------------ *)
(* unmasking every mask in order                                                          *)
(* ------------------------------------------------------------------------------------ *)
Lemma tok_guard_of_text : forall T ts c, has_sub (guard_word c) (expand_all T ts) = false -> tok_guard c ts.
Proof.
  intros T ts c H pre post E. subst ts. rewrite !expand_all_app, expand_all_map_B in H.
  now rewrite has_sub_app in H.
Qed.

Lemma expand_subst_all : forall T c n orig ts,
  (match mask_by_idx n T with Some m => m_orig m | None => [] end) = orig ->
  expand_all T (subst_all c n orig ts) = expand_all T ts.
Proof.
  intros T c n orig ts Ho. induction ts as [|t ts IH]; [reflexivity|]. cbn [subst_all].
  destruct (tok_is c n t) eqn:Et.
  - apply tok_is_true in Et. subst t. rewrite expand_all_app, expand_all_map_B.
    cbn [expand_all flat_map expand]. fold (expand_all T ts). rewrite Ho. f_equal. auto.
  - cbn [expand_all flat_map]. fold (expand_all T ts). fold (expand_all T (subst_all c n orig ts)). f_equal. auto.
Qed.
Lemma expand_subst_first : forall T c n orig ts,
  (match mask_by_idx n T with Some m => m_orig m | None => [] end) = orig ->
  expand_all T (subst_first c n orig ts) = expand_all T ts.
Proof.
  intros T c n orig ts Ho. induction ts as [|t ts IH]; [reflexivity|]. cbn [subst_first].
  destruct (tok_is c n t) eqn:Et.
  - apply tok_is_true in Et. subst t. rewrite expand_all_app, expand_all_map_B.
    cbn [expand_all flat_map expand]. fold (expand_all T ts). now rewrite Ho.
  - cbn [expand_all flat_map]. fold (expand_all T ts). fold (expand_all T (subst_first c n orig ts)). f_equal. auto.
Qed.

Lemma str_idxs_app : forall a b, str_idxs (a ++ b) = str_idxs a ++ str_idxs b.
Proof. intros. unfold str_idxs. now rewrite flat_map_app. Qed.
Lemma str_idxs_map_B : forall w, str_idxs (map B w) = [].
Proof. induction w; cbn; auto. Qed.

Lemma str_idxs_subst_all_ident : forall n orig ts, str_idxs (subst_all PIdent n orig ts) = str_idxs ts.
Proof.
  intros n orig. induction ts as [|t ts IH]; [reflexivity|]. cbn [subst_all]. destruct (tok_is PIdent n t) eqn:Et.
  - apply tok_is_true in Et. subst t. rewrite str_idxs_app, str_idxs_map_B. cbn [app]. rewrite IH. reflexivity.
  - change (t :: subst_all PIdent n orig ts) with ([t] ++ subst_all PIdent n orig ts). change (t :: ts) with ([t] ++ ts).
    rewrite !str_idxs_app. now rewrite IH.
Qed.

(* tokens that are not the placeholder being substituted *)
Definition not_tok (c : pclass) (n : N) (t : tok) : Prop := t <> P c n.

Lemma subst_all_wf : forall T lo c n orig ts, Forall (tok_wf T lo) ts ->
  Forall (tok_wf T lo) (subst_all c n orig ts) /\ Forall (not_tok c n) (subst_all c n orig ts)
  /\ (forall x, In x (str_idxs (subst_all c n orig ts)) -> In x (str_idxs ts)).
Proof.
  intros T lo c n orig ts H. induction H as [|t ts Ht Hts IH]; cbn [subst_all].
  - repeat split; auto.
  - destruct IH as (I1 & I2 & I3). destruct (tok_is c n t) eqn:Et.
    + repeat split.
      * apply Forall_app. split; auto. clear. induction orig; cbn; constructor; cbn; auto.
      * apply Forall_app. split; auto. clear. induction orig; cbn; constructor; auto. discriminate.
      * intros x Hx. rewrite str_idxs_app, str_idxs_map_B in Hx. cbn [app] in Hx.
        change (t :: ts) with ([t] ++ ts). rewrite str_idxs_app. apply in_or_app. right. auto.
    + repeat split; try (constructor; auto).
      * intro E. subst t. cbn in Et. rewrite N.eqb_refl in Et. destruct c; discriminate.
      * intros x Hx. change (t :: subst_all c n orig ts) with ([t] ++ subst_all c n orig ts) in Hx.
        change (t :: ts) with ([t] ++ ts). rewrite str_idxs_app in *. apply in_app_or in Hx as [Hx|Hx];
          apply in_or_app; auto.
Qed.

Lemma NoDup_app_inv : forall (A : Type) (a b : list A), NoDup (a ++ b) ->
  NoDup a /\ NoDup b /\ (forall x, In x a -> ~ In x b).
Proof.
  induction a as [|x a IH]; cbn; intros b H.
  - repeat split; auto. constructor.
  - inversion H; subst. destruct (IH _ H3) as (N1 & N2 & N3). repeat split; auto.
    + constructor; auto. intro Hin. apply H2. apply in_or_app. auto.
    + intros y [->|Hy] Hb; [apply H2; apply in_or_app; auto|eapply N3; eauto].
Qed.

Lemma In_str_idxs : forall n ts, In (P PStr n) ts -> In n (str_idxs ts).
Proof.
  intros n. induction ts as [|y ts IH]; intros H; [destruct H|].
  change (y :: ts) with ([y] ++ ts). rewrite str_idxs_app. apply in_or_app. destruct H as [->|H].
  - left. cbn. auto.
  - right. auto.
Qed.

Lemma subst_first_wf : forall T lo n orig ts, Forall (tok_wf T lo) ts -> NoDup (str_idxs ts) ->
  Forall (tok_wf T lo) (subst_first PStr n orig ts) /\ Forall (not_tok PStr n) (subst_first PStr n orig ts)
  /\ NoDup (str_idxs (subst_first PStr n orig ts)).
Proof.
  intros T lo n orig ts H. induction H as [|t ts Ht Hts IH]; cbn [subst_first]; intro Hnd.
  - repeat split; auto.
  - change (t :: ts) with ([t] ++ ts) in Hnd. rewrite str_idxs_app in Hnd.
    destruct (NoDup_app_inv _ _ _ Hnd) as (N1 & N2 & N3). destruct (IH N2) as (I1 & I2 & I3).
    destruct (tok_is PStr n t) eqn:Et.
    + apply tok_is_true in Et. subst t. repeat split.
      * apply Forall_app. split; auto. clear. induction orig; cbn; constructor; cbn; auto.
      * apply Forall_app. split. { clear. induction orig; cbn; constructor; auto. discriminate. }
        rewrite Forall_forall. intros x Hx E. subst x. apply (N3 n); cbn; auto.
        now apply In_str_idxs.
      * rewrite str_idxs_app, str_idxs_map_B. auto.
    + repeat split; try (constructor; auto).
      * intro E. subst t. cbn in Et. rewrite N.eqb_refl in Et. discriminate.
      * change (t :: subst_first PStr n orig ts) with ([t] ++ subst_first PStr n orig ts). rewrite str_idxs_app.
        clear - N1 I3 N3 Ht Hts. 
        assert (Hsub : forall x, In x (str_idxs (subst_first PStr n orig ts)) -> In x (str_idxs ts)).
        { clear. induction ts as [|y ts IHts]; cbn [subst_first]; [auto|]. destruct (tok_is PStr n y).
          - intros x Hx. rewrite str_idxs_app, str_idxs_map_B in Hx. change (y :: ts) with ([y] ++ ts).
            rewrite str_idxs_app. apply in_or_app. auto.
          - intros x Hx. change (y :: subst_first PStr n orig ts) with ([y] ++ subst_first PStr n orig ts) in Hx.
            change (y :: ts) with ([y] ++ ts). rewrite str_idxs_app in *. apply in_app_or in Hx as [Hx|Hx]; apply in_or_app; auto. }
        destruct t as [b|[| |] k]; cbn [str_idxs flat_map app]; auto.
        constructor; auto. intro Hin. apply (N3 k); cbn; auto.
Qed.

Lemma all_B_render : forall T ts, (forall t, In t ts -> exists b, t = B b) -> render ts = expand_all T ts.
Proof.
  induction ts as [|t ts IH]; intro H; [reflexivity|]. destruct (H t (or_introl eq_refl)) as [b ->].
  rewrite render_cons. cbn [render_tok expand_all flat_map expand]. f_equal. apply IH. intros; apply H; now right.
Qed.

Lemma unmask_fold : forall rest done ts T s,
  T = done ++ rest -> wf_from 0 T ->
  Forall (tok_wf T (N.of_nat (length done))) ts -> NoDup (str_idxs ts) ->
  expand_all T ts = s -> has_sub w_STR_ s = false -> has_sub w_IDENT_ s = false ->
  fold_left unmask1 rest (render ts) = s.
Proof.
  induction rest as [|k rest IH]; intros done ts T s HT W Hwf Hnd He G1 G2.
  - cbn. rewrite app_nil_r in HT. subst done. rewrite <- He. apply all_B_render.
    intros t Ht. rewrite Forall_forall in Hwf. specialize (Hwf t Ht). destruct t as [b|c n]; eauto.
    exfalso. destruct Hwf as (Hlo & m & Hm & _). apply (mask_by_idx_some _ 0) in Hm as (i & Hi & ->); auto.
    assert (i < length T)%nat by (apply nth_error_Some; congruence). lia.
  - cbn [fold_left].
    assert (Hk : nth_error T (length done) = Some k).
    { subst T. rewrite nth_error_app2 by lia. now rewrite Nat.sub_diag. }
    assert (Hidx : m_idx k = N.of_nat (length done)) by (rewrite (W _ _ Hk); f_equal).
    assert (Hmk : mask_by_idx (m_idx k) T = Some k).
    { rewrite Hidx. replace (length done) with (0 + length done)%nat by lia. now apply mask_by_idx_nth. }
    assert (Gs : tok_guard PStr ts) by (eapply tok_guard_of_text; rewrite He; exact G1).
    assert (Gi : tok_guard PIdent ts) by (eapply tok_guard_of_text; rewrite He; exact G2).
    assert (Hstep : forall ts', Forall (tok_wf T (N.of_nat (length done))) ts' -> Forall (not_tok (m_class k) (m_idx k)) ts' ->
              Forall (tok_wf T (N.of_nat (length (done ++ [k])))) ts').
    { intros ts' H1 H2. rewrite Forall_forall in *. intros t Ht. specialize (H1 t Ht). specialize (H2 t Ht).
      destruct t as [b|c n]; cbn in *; auto. destruct H1 as (Hlo & m & Hm & Hc). split; [|eauto].
      rewrite app_length. cbn. assert (n <> N.of_nat (length done)); [|lia].
      intro E. subst n. rewrite <- Hidx, Hmk in Hm. inversion Hm; subst m. apply H2. now rewrite Hc, Hidx. }
    unfold unmask1 at 2. unfold m_ph. destruct (m_ident k) eqn:Ek.
    + assert (Hc : m_class k = PIdent) by (unfold m_class; now rewrite Ek). rewrite Hc in *.
      rewrite kl_all by assumption.
      destruct (subst_all_wf T (N.of_nat (length done)) PIdent (m_idx k) (m_orig k) ts Hwf) as (S1 & S2 & S3).
      apply (IH (done ++ [k]) _ T s); auto.
      * rewrite <- app_assoc. exact HT.
      * now rewrite str_idxs_subst_all_ident.
      * rewrite expand_subst_all; auto. now rewrite Hmk.
    + assert (Hc : m_class k = PStr) by (unfold m_class; now rewrite Ek). rewrite Hc in *.
      rewrite kl_first by assumption.
      destruct (subst_first_wf T (N.of_nat (length done)) (m_idx k) (m_orig k) ts Hwf Hnd) as (S1 & S2 & S3).
      apply (IH (done ++ [k]) _ T s); auto.
      * rewrite <- app_assoc. exact HT.
      * rewrite expand_subst_first; auto. now rewrite Hmk.
Qed.

Lemma mask_toks_spec : forall s t m, mask_toks s = (t, m) ->
  wf_from 0 m /\ expand_all m t = s /\ Forall (tok_wf m 0) t /\ NoDup (str_idxs t).
Proof.
  intros s t m H. unfold mask_toks in H.
  destruct (mask_loop_spec s O 0 0 [] [] t m H) as (_ & W & He & Hwf & Hnd & _); auto.
  - intros i x Hx. destruct i; discriminate.
  - intros k j Hk. discriminate.
Qed.

Theorem unmask_mask_guarded : forall s, ph_guard s = true ->
  unmask (fst (mask s)) (snd (mask s)) = s.
Proof.
  intros s G. unfold ph_guard in G. apply andb_true_iff in G as [G1 G2].
  apply negb_true_iff in G1, G2. unfold mask. destruct (mask_toks s) as [t m] eqn:E. cbn [fst snd].
  destruct (mask_toks_spec _ _ _ E) as (W & He & Hwf & Hnd). unfold unmask.
  apply (unmask_fold m [] t m s); auto.
Qed.
