(* SqlLex - proofs entry point: gathers the proof files of the area and adds the fast-path
   (gating flag) lemmas and the refutation witnesses. *)
From Coq Require Import NArith Bool Arith List Lia.
From Arc Require Export SqlLex.Model SqlLex.Lemmas SqlLex.ProofsUnmask SqlLex.ProofsFrom SqlLex.ProofsStrip SqlLex.ProofsLex SqlLex.ProofsPipe.
Import ListNotations.
Open Scope N_scope.

(* ---------- the hasQuotes gate ---------- *)
Lemma mask_loop_plain : forall l prev idx idents,
  forallb (fun c => negb (is_quote_char c)) l = true ->
  mask_loop O prev l idx idents = (map B l, []).
Proof.
  induction l as [|c r IH]; intros prev idx idents H; [reflexivity|].
  cbn [forallb] in H. apply andb_true_iff in H as [Hc Hr]. apply negb_true_iff in Hc.
  cbn [mask_loop]. rewrite mask_step_plain; auto.
  - rewrite IH by assumption. reflexivity.
  - destruct r as [|d r2]; [apply orb_true_r|]. cbn [forallb] in Hr. apply andb_true_iff in Hr as [Hd _].
    apply negb_true_iff in Hd. unfold is_quote_char in Hd. apply orb_false_iff in Hd as [Hd _].
    apply orb_false_iff in Hd as [Hd _]. cbn [starts_with]. rewrite Hd. apply orb_true_r.
Qed.

Lemma mask_gate : forall s, mask_go s (has_quotes s) = mask s.
Proof.
  intros s. unfold mask_go. destruct (has_quotes s) eqn:E; [reflexivity|].
  unfold mask, mask_toks. rewrite mask_loop_plain.
  - now rewrite render_map_B.
  - unfold has_quotes in E. clear - E. induction s as [|c r IH]; [reflexivity|]. cbn in *.
    apply orb_false_iff in E as [-> E]. cbn. auto.
Qed.

(* ---------- scanSQLFeatures ---------- *)
Lemma has_sub_cons : forall w c r, has_sub w (c :: r) = prefixb w (c :: r) || has_sub w r.
Proof.
  intros. unfold has_sub. rewrite find_sub_unfold. destruct (prefixb w (c :: r)); [reflexivity|].
  destruct (find_sub w r); reflexivity.
Qed.

Lemma scan_features_loop_spec : forall l f,
  let g := scan_features_loop f l in
  f_quotes g = f_quotes f || has_quotes l
  /\ f_dash g = f_dash f || has_sub [45; 45] l
  /\ f_block g = f_block f || has_sub [47; 42] l.
Proof.
  induction l as [|c r IH]; intros f; cbn zeta.
  - cbn. rewrite !orb_false_r. auto.
  - cbn [scan_features_loop]. rewrite !has_sub_cons. unfold has_quotes. cbn [existsb]. fold (has_quotes r).
    set (nxt := match r with d :: _ => d | [] => 0 end).
    set (hn := match r with _ :: _ => true | [] => false end).
    assert (Hdd : prefixb [45; 45] (c :: r) = (c =? 45) && hn && (nxt =? 45)).
    { subst nxt hn. destruct r as [|d r2]; cbn [prefixb]; [now rewrite !andb_false_r|]. rewrite (N.eqb_sym 45 c), (N.eqb_sym 45 d).
      now rewrite !andb_true_r. }
    assert (Hbl : prefixb [47; 42] (c :: r) = (c =? 47) && hn && (nxt =? 42)).
    { subst nxt hn. destruct r as [|d r2]; cbn [prefixb]; [now rewrite !andb_false_r|]. rewrite (N.eqb_sym 47 c), (N.eqb_sym 42 d).
      now rewrite !andb_true_r. }
    rewrite Hdd, Hbl.
    destruct (is_quote_char c) eqn:Eq.
    + assert (H45 : c =? 45 = false /\ c =? 47 = false).
      { unfold is_quote_char in Eq. apply orb_true_iff in Eq as [Eq|Eq]; [apply orb_true_iff in Eq as [Eq|Eq]|];
          apply N.eqb_eq in Eq; subst; auto. }
      destruct H45 as [-> ->]. cbn [andb orb].
      match goal with |- context [if ?X then _ else _] => destruct X eqn:Eall end.
      * cbn [f_quotes f_dash f_block] in *. apply andb_true_iff in Eall as [Eall E3]. apply andb_true_iff in Eall as [_ E2].
        rewrite E2, E3. cbn. now rewrite !orb_true_r.
      * destruct (IH {| f_quotes := true; f_dash := f_dash f; f_block := f_block f |}) as (I1 & I2 & I3).
        rewrite I1, I2, I3. cbn [f_quotes f_dash f_block]. now rewrite !orb_true_r.
    + cbn [orb]. destruct ((c =? 45) && hn && (nxt =? 45)) eqn:Ed.
      * assert (c =? 47 = false) as ->.
        { apply andb_true_iff in Ed as [Ed _]. apply andb_true_iff in Ed as [Ed _]. apply N.eqb_eq in Ed. now subst. }
        cbn [andb orb].
        match goal with |- context [if ?X then _ else _] => destruct X eqn:Eall end.
        -- cbn [f_quotes f_dash f_block] in *. apply andb_true_iff in Eall as [Eall E3]. apply andb_true_iff in Eall as [E1 _].
           rewrite E1, E3. cbn. now rewrite !orb_true_r.
        -- destruct (IH {| f_quotes := f_quotes f; f_dash := true; f_block := f_block f |}) as (I1 & I2 & I3).
           rewrite I1, I2, I3. cbn [f_quotes f_dash f_block]. now rewrite !orb_true_r.
      * cbn [orb]. destruct ((c =? 47) && hn && (nxt =? 42)) eqn:Eb.
        -- match goal with |- context [if ?X then _ else _] => destruct X eqn:Eall end.
           ++ cbn [f_quotes f_dash f_block] in *. apply andb_true_iff in Eall as [Eall _]. apply andb_true_iff in Eall as [E1 E2].
              rewrite E1, E2. cbn. now rewrite !orb_true_r.
           ++ destruct (IH {| f_quotes := f_quotes f; f_dash := f_dash f; f_block := true |}) as (I1 & I2 & I3).
              rewrite I1, I2, I3. cbn [f_quotes f_dash f_block]. now rewrite !orb_true_r.
        -- cbn [orb].
           match goal with |- context [if ?X then _ else _] => destruct X eqn:Eall end.
           ++ apply andb_true_iff in Eall as [Eall E3]. apply andb_true_iff in Eall as [E1 E2].
              rewrite E1, E2, E3. cbn. auto.
           ++ destruct (IH f) as (I1 & I2 & I3). auto.
Qed.

Lemma scan_features_spec : forall s,
  f_quotes (scan_features s) = has_quotes s
  /\ f_dash (scan_features s) = has_sub [45; 45] s
  /\ f_block (scan_features s) = has_sub [47; 42] s.
Proof. intro s. unfold scan_features. destruct (scan_features_loop_spec s {| f_quotes := false; f_dash := false; f_block := false |}) as (A & B & C). auto. Qed.

(* ---------- the hasComments gate ---------- *)
Lemma strip_no_markers : forall fixed l, has_sub [45; 45] l = false -> has_sub [47; 42] l = false ->
  strip_loop fixed O l = l.
Proof.
  induction l as [|c r IH]; intros H1 H2; [reflexivity|].
  rewrite has_sub_cons in H1, H2. apply orb_false_iff in H1 as [P1 H1]. apply orb_false_iff in H2 as [P2 H2].
  destruct r as [|d r2]; [reflexivity|]. rewrite strip_loop_unfold. cbv zeta.
  cbn [prefixb] in P1, P2. rewrite andb_true_r in P1, P2. rewrite (N.eqb_sym 45 c), (N.eqb_sym 45 d) in P1.
  rewrite (N.eqb_sym 47 c), (N.eqb_sym 42 d) in P2. rewrite P1, P2. f_equal. auto.
Qed.

Theorem fast_paths_sound : forall s,
  mask_go s (has_quotes s) = mask s
  /\ mask_go s (f_quotes (scan_features s)) = mask s
  /\ forall fixed, strip_comments_gen fixed s (f_dash (scan_features s) || f_block (scan_features s))
                   = strip_comments_gen fixed s true.
Proof.
  intro s. destruct (scan_features_spec s) as (Q & D & Bk). rewrite Q, D, Bk. repeat split; try apply mask_gate.
  intro fixed. unfold strip_comments_gen. destruct (has_sub [45; 45] s) eqn:E1; [reflexivity|].
  destruct (has_sub [47; 42] s) eqn:E2; [reflexivity|]. cbn [orb]. symmetry. now apply strip_no_markers.
Qed.

(* ---------- mask -> strip comments -> unmask, end to end ---------- *)
Theorem normalise_guarded : forall fixed s, pipe_guard_text fixed s = true ->
  normalise_gen fixed s = strip_spec s.
Proof.
  intros fixed s G. unfold pipe_guard_text in G.
  apply andb_true_iff in G as [G Gph]. apply andb_true_iff in G as [G Gtail].
  apply andb_true_iff in G as [G Gcr]. apply andb_true_iff in G as [G Gnest].
  unfold lex_guard in G. apply andb_true_iff in G as [G Gl]. apply andb_true_iff in G as [Gn Gb].
  unfold ph_guard in Gph. apply andb_true_iff in Gph as [Gp1 Gp2]. apply negb_true_iff in Gp1, Gp2.
  unfold normalise_gen. destruct (fast_paths_sound s) as (_ & Hq & _). rewrite Hq.
  destruct (scan_features_spec s) as (_ & Hd & Hb). rewrite Hd, Hb.
  unfold mask. destruct (mask_toks s) as [t m] eqn:E. unfold mask_toks in E.
  destruct (mask_loop_spec s O 0 0 [] [] t m E) as (Hsg & W & He & Hwf & Hnd & _); auto.
  { intros i x Hx. destruct i; discriminate. }
  { intros k j Hk. discriminate. }
  cbn [app skipn] in *.
  unfold duck_lex, strip_spec, no_nested_open in *. unfold duck_lex in *. rewrite until_nul_id in * by assumption.
  set (dt := duck_loop O false s) in *.
  assert (Hal : aligned m dt t).
  { apply aligned_of_segs; [apply duck_code_single|]. rewrite Hsg. apply (lex_sim (length s)); auto. }
  assert (Hstrip : strip_comments_gen fixed (render t) (has_sub [45; 45] s || has_sub [47; 42] s) = render (zip_strip dt t)).
  { unfold strip_comments_gen. destruct (has_sub [45; 45] s || has_sub [47; 42] s) eqn:Ef.
    - apply (pipe_sim m fixed (length s) s false t); auto.
      + unfold toks_guard2. fold dt. rewrite Gcr, andb_true_r. rewrite forallb_forall in *. intros k Hk.
        specialize (Gnest k Hk). unfold tok_plain2. destruct (d_kind k); auto.
      + apply orb_true_iff in Gtail. tauto.
    - apply orb_false_iff in Ef as [E1 E2]. rewrite zip_strip_nocom with (T := m); auto. now apply duck_no_com. }
  rewrite Hstrip. unfold unmask.
  apply (unmask_fold m [] (zip_strip dt t) m (flat_map strip_spec_tok dt)); auto.
  - now apply zip_strip_wf.
  - now rewrite (zip_strip_idxs m).
  - now apply zip_strip_expand.
Qed.

(* ---------- refutation helpers ---------- *)
Lemma neq_of_eqb : forall a b, bytes_eqb a b = false -> a <> b.
Proof. intros a b H E. subst. now rewrite bytes_eqb_refl in H. Qed.
