(* C15 - SQL normalisation agrees with DuckDB's lexer and is reversible.
   Only property statements live here; proofs are in Proofs*.v.

   Model.v transcribes MaskStringLiterals / UnmaskStringLiterals / MaskFromKeywordsInFunctionBodies /
   UnmaskFromKeywordsInFunctionBodies (internal/sql/mask.go) and scanSQLFeatures / stripSQLComments
   (internal/api/query.go) byte for byte; [duck_lex] is the SPEC (DuckDB's lexical rules).
   The property as written is REFUTED for the code as it is (the _refuted theorems, each witness
   replayed on the real Go functions by tools/props/C15.py); the _guarded theorems are the
   strongest statements that hold, for ALL byte strings of the stated guard class. *)
From Coq Require Import String.
From Coq Require Import NArith Bool List.
From Arc Require Import SqlLex.Model SqlLex.Proofs.
Import ListNotations.
Open Scope N_scope.
(* byte string of a Coq string literal *)
Definition bs (s : string) : list N := s2b s.
Arguments bs s%string.

(* ------------------------------------------------------------------------------------ *)
(* 1. Masking followed by unmasking returns the original text                             *)
(* ------------------------------------------------------------------------------------ *)

(* REFUTED: text of placeholder shape in the input is what UnmaskStringLiterals restores. *)
Theorem C15_unmask_mask_refuted :
  let s := bs "__STR_0__ 'x'" in
  fst (mask s) = bs "__STR_0__ __STR_0__" /\ unmask (fst (mask s)) (snd (mask s)) = bs "'x' __STR_0__"
  /\ unmask (fst (mask s)) (snd (mask s)) <> s.
Proof. cbv zeta. split; [|split]; [vm_compute; reflexivity..|]. apply neq_of_eqb. vm_compute. reflexivity. Qed.
Print Assumptions C15_unmask_mask_refuted.

(* REFUTED also for the guard DESIGN.md expected (no "__STR_" / "__IDENT_" substring): the
   closing "__" of a placeholder followed by input text IDENT_0__ is a second __IDENT_0__,
   and identifier placeholders are restored with ReplaceAll. *)
Theorem C15_unmask_mask_design_guard_refuted :
  let s := bs """x"" 'a'IDENT_0__" in
  ph_guard_design s = true /\ unmask (fst (mask s)) (snd (mask s)) = bs """x"" __STR_1""x"""
  /\ unmask (fst (mask s)) (snd (mask s)) <> s.
Proof. cbv zeta. split; [|split]; [vm_compute; reflexivity..|]. apply neq_of_eqb. vm_compute. reflexivity. Qed.
Print Assumptions C15_unmask_mask_design_guard_refuted.

(* GUARDED: for EVERY byte string that contains neither "STR_" nor "IDENT_". *)
Theorem C15_unmask_mask_guarded : forall s, ph_guard s = true ->
  unmask (fst (mask s)) (snd (mask s)) = s.
Proof. exact unmask_mask_guarded. Qed.
Print Assumptions C15_unmask_mask_guarded.

(* the guard class is inhabited by texts with every kind of literal, a repeated quoted
   identifier, a stray dollar sign and unicode; the masks are not trivial *)
Example C15_unmask_mask_guard_satisfiable :
  let s := bs "SELECT 'a''b', ""x y"", e'q\'z', $t$ ' $$ $t$, ""x y"", 'é', a$1 FROM ""t"" -- 'c" in
  ph_guard s = true /\ length (snd (mask s)) = 7%nat
  /\ fst (mask s) = bs "SELECT __STR_0__, __IDENT_1__, __STR_2__, __STR_3__, __IDENT_1__, __STR_4__, a$1 FROM __IDENT_5__ -- __STR_6__".
Proof. vm_compute. repeat split. Qed.

(* ------------------------------------------------------------------------------------ *)
(* 2. The masks are exactly the literals / quoted identifiers DuckDB sees                 *)
(* ------------------------------------------------------------------------------------ *)

(* REFUTED (masking runs before comment stripping and does not know comments): *)
Theorem C15_boundaries_refuted_comment_quote :
  let s := bs "-- it's" ++ [10] ++ bs "SELECT 'x'" in
  no_nul s = true /\ no_bs_quote s = true /\ guard_word_context s = true /\ guard_comments_clean s = false
  /\ arc_view s = [(KCode, bs "-- it"); (KStr, bs "'s" ++ [10] ++ bs "SELECT '"); (KCode, bs "x"); (KStr, bs "'")]
  /\ duck_view s = [(KCode, bs "-- it's" ++ [10] ++ bs "SELECT "); (KStr, bs "'x'")]
  /\ normalise s = [].
Proof. vm_compute. repeat split. Qed.
Print Assumptions C15_boundaries_refuted_comment_quote.

(* REFUTED (backslash is an escape for the masker in every literal, for DuckDB only in E''): *)
Theorem C15_boundaries_refuted_backslash_quote :
  let s := bs "'a\' , 'b'" in
  no_nul s = true /\ no_bs_quote s = false /\ guard_word_context s = true /\ guard_comments_clean s = true
  /\ arc_view s = [(KStr, bs "'a\' , '"); (KCode, bs "b"); (KStr, bs "'")]
  /\ duck_view s = [(KStr, bs "'a\'"); (KCode, bs " , "); (KStr, bs "'b'")].
Proof. vm_compute. repeat split. Qed.
Print Assumptions C15_boundaries_refuted_backslash_quote.

(* REFUTED (word context decided from one previous byte): é$$x$$ is ONE identifier for DuckDB,
   1$$y$$ is the number 1 and a string, $é$z$é$ is a string only for DuckDB. *)
Theorem C15_boundaries_refuted_word_context :
  let s := bs "é$$x$$ 1$$y$$ $é$z$é$" in
  no_nul s = true /\ no_bs_quote s = true /\ guard_comments_clean s = true /\ guard_word_context s = false
  /\ arc_view s = [(KCode, bs "é"); (KStr, bs "$$x$$"); (KCode, bs " 1$"); (KStr, bs "$y$$ $é$z$é$")]
  /\ duck_view s = [(KCode, bs "é$$x$$ 1"); (KStr, bs "$$y$$"); (KCode, bs " "); (KStr, bs "$é$z$é$")].
Proof. vm_compute. repeat split. Qed.
Print Assumptions C15_boundaries_refuted_word_context.

(* GUARDED: for EVERY byte string without NUL, without a backslash directly before a quote
   character, without quote characters or `$` inside DuckDB's comments, and whose dollar-quote /
   E-prefix candidates stand in a word context both lexers read alike (lex_guard, Model.v). *)
Theorem C15_boundaries_guarded : forall s, lex_guard s = true -> arc_view s = duck_view s.
Proof. exact boundaries_guarded. Qed.
Print Assumptions C15_boundaries_guarded.

Example C15_boundaries_guard_satisfiable :
  let s := bs "SELECT 'a''b--', ""x/*"", e'q\nz', $t$ ' $$ $t$, a$1, $2 /* c /* d */ e */ FROM t -- c" in
  lex_guard s = true /\ length (arc_view s) = 9%nat.
Proof. vm_compute. split; reflexivity. Qed.

(* ------------------------------------------------------------------------------------ *)
(* 3. Comment stripping removes DuckDB's comments and nothing else                        *)
(* ------------------------------------------------------------------------------------ *)

(* REFUTED (genuine defect): the byte after a block comment is dropped when it is the last one. *)
Theorem C15_strip_refuted_tail_byte :
  let t := bs "a/**/b" in
  no_nul t = true /\ quote_free t = true /\ no_nested_open t = true /\ no_cr_after_line (duck_lex t) = true
  /\ no_tail_after_close t = false
  /\ strip_comments t = bs "a " /\ strip_spec t = bs "a b" /\ strip_comments_fixed t = bs "a b".
Proof. vm_compute. repeat split. Qed.
Print Assumptions C15_strip_refuted_tail_byte.

(* REFUTED: DuckDB ends a line comment at CR as well; Arc strips the code after it. *)
Theorem C15_strip_refuted_cr :
  let t := bs "1 --c" ++ [13] ++ bs ", 2" ++ [10] ++ bs ", 3" in
  no_nul t = true /\ quote_free t = true /\ no_nested_open t = true /\ no_tail_after_close t = true
  /\ no_cr_after_line (duck_lex t) = false
  /\ strip_comments t = bs "1 " ++ [10] ++ bs ", 3"
  /\ strip_spec t = bs "1 " ++ [13] ++ bs ", 2" ++ [10] ++ bs ", 3".
Proof. vm_compute. repeat split. Qed.
Print Assumptions C15_strip_refuted_cr.

(* REFUTED: DuckDB nests block comments; the rest of the outer comment is then read as code by
   Arc, and a line-comment marker in it swallows real code. *)
Theorem C15_strip_refuted_nested :
  let t := bs "/* /* */ -- */ x" in
  no_nul t = true /\ quote_free t = true /\ no_cr_after_line (duck_lex t) = true /\ no_tail_after_close t = true
  /\ no_nested_open t = false
  /\ strip_comments t = bs "  " /\ strip_spec t = bs "  x".
Proof. vm_compute. repeat split. Qed.
Print Assumptions C15_strip_refuted_nested.

(* GUARDED: for EVERY text without quoted tokens (the masked text), NUL, nested comment openers,
   CR-terminated line comments and without "*/" + exactly one byte at its end, the stripped text
   is the text with every DuckDB block comment replaced by one space and every line comment
   removed - nothing else changes. *)
Theorem C15_strip_guarded : forall t, strip_guard false t = true -> strip_comments t = strip_spec t.
Proof. intros t G. exact (strip_guarded_gen false t G). Qed.
Print Assumptions C15_strip_guarded.

(* the same for the repaired loop of fixes/C15_strip_block_comment_tail.patch, without the
   exclusion of the "*/" + one byte ending *)
Theorem C15_strip_fixed_guarded : forall t, strip_guard true t = true -> strip_comments_fixed t = strip_spec t.
Proof. intros t G. exact (strip_guarded_gen true t G). Qed.
Print Assumptions C15_strip_fixed_guarded.

Example C15_strip_guard_satisfiable :
  let t := bs "SELECT __STR_0__ /* c -- d */ , a - b / c -- e /* f" ++ [10] ++ bs "FROM t /* u" in
  strip_guard false t = true /\ strip_comments t = bs "SELECT __STR_0__   , a - b / c " ++ [10] ++ bs "FROM t  ".
Proof. vm_compute. split; reflexivity. Qed.

(* ------------------------------------------------------------------------------------ *)
(* 3b. The whole normalisation: mask, strip comments, unmask                              *)
(* ------------------------------------------------------------------------------------ *)
(* (refuted by C15_boundaries_refuted_comment_quote: normalise "-- it's\nSELECT 'x'" = "")

   GUARDED: for EVERY byte string in the guard classes of 2. and 3. whose comment-free form has no
   STR_ / IDENT_, masking, stripping the comments of the masked text and unmasking yields exactly
   the text with DuckDB's block comments turned into one space and its line comments removed;
   [fixed] selects the code as it is (false) or the repaired stripSQLComments (true). *)
Theorem C15_normalise_guarded : forall fixed s, pipe_guard_text fixed s = true ->
  normalise_gen fixed s = strip_spec s.
Proof. exact normalise_guarded. Qed.
Print Assumptions C15_normalise_guarded.

Example C15_normalise_guard_satisfiable :
  let s := bs "SELECT 'a--b', ""c/*d"" /* e -- f */, $t$ -- $t$ FROM t -- g" ++ [10] ++ bs "WHERE x = e'y' /* z" in
  pipe_guard_text false s = true
  /\ normalise s = bs "SELECT 'a--b', ""c/*d""  , $t$ -- $t$ FROM t " ++ [10] ++ bs "WHERE x = e'y'  ".
Proof. vm_compute. split; reflexivity. Qed.

(* ------------------------------------------------------------------------------------ *)
(* 4. FROM-keyword masking inside EXTRACT/SUBSTRING/TRIM/OVERLAY is reversible            *)
(* ------------------------------------------------------------------------------------ *)
Theorem C15_from_roundtrip_refuted :
  let s := bs "EXTRACT(YEAR FROM t), __FROM_MASK_0__ FROM x" in
  unmask_from (fst (mask_from s)) (snd (mask_from s)) = bs "EXTRACT(YEAR FROM t), FROM FROM x"
  /\ unmask_from (fst (mask_from s)) (snd (mask_from s)) <> s.
Proof. cbv zeta. split; [vm_compute; reflexivity|]. apply neq_of_eqb. vm_compute. reflexivity. Qed.
Print Assumptions C15_from_roundtrip_refuted.

(* GUARDED: for EVERY byte string without "FROM_MASK_" (whatever the paren/function scanner decides
   to mask). *)
Theorem C15_from_roundtrip_guarded : forall s, from_guard s = true ->
  unmask_from (fst (mask_from s)) (snd (mask_from s)) = s.
Proof. exact from_roundtrip_guarded. Qed.
Print Assumptions C15_from_roundtrip_guarded.

Example C15_from_guard_satisfiable :
  let s := bs "SELECT EXTRACT /* c */ (YEAR FROM (SELECT t from u)), trim(a From b) FROM cpu" in
  from_guard s = true /\ length (snd (mask_from s)) = 2%nat
  /\ fst (mask_from s) = bs "SELECT EXTRACT /* c */ (YEAR __FROM_MASK_0__ (SELECT t from u)), trim(a __FROM_MASK_1__ b) FROM cpu".
Proof. vm_compute. repeat split. Qed.

(* ------------------------------------------------------------------------------------ *)
(* 5. The hasQuotes / hasComments gates of the call sites lose nothing                    *)
(* ------------------------------------------------------------------------------------ *)
Theorem C15_fast_paths_sound : forall s,
  mask_go s (has_quotes s) = mask s
  /\ mask_go s (f_quotes (scan_features s)) = mask s
  /\ forall fixed, strip_comments_gen fixed s (f_dash (scan_features s) || f_block (scan_features s))
                   = strip_comments_gen fixed s true.
Proof. exact fast_paths_sound. Qed.
Print Assumptions C15_fast_paths_sound.
