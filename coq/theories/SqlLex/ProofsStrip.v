(* SqlLex - stripSQLComments against DuckDB's comment rules (C15_strip_guarded).
   Simulation of strip_loop and duck_loop over the same text, by strong induction on its length. *)
From Coq Require Import NArith Bool Arith List Lia.
From Arc Require Import SqlLex.Model SqlLex.Lemmas.
Import ListNotations.
Open Scope N_scope.

Lemma strip_loop_skip : forall fixed k l, strip_loop fixed k l = strip_loop fixed O (skipn k l).
Proof.
  intros fixed k l. revert k. induction l as [|c r IH]; intros k.
  - destruct k; reflexivity.
  - destruct k as [|k]; [reflexivity|]. cbn [strip_loop skipn]. apply IH.
Qed.
Lemma duck_loop_skip : forall k inid l, duck_loop k inid l = duck_loop O inid (skipn k l).
Proof.
  intros k inid l. revert k. induction l as [|c r IH]; intros k.
  - destruct k; reflexivity.
  - destruct k as [|k]; [reflexivity|]. cbn [duck_loop skipn]. apply IH.
Qed.
Lemma duck_loop_cons : forall inid c r,
  duck_loop O inid (c :: r) =
  duck_step inid c r :: duck_loop O (next_inid inid (duck_step inid c r)) (skipn (length (d_bytes (duck_step inid c r)) - 1) r).
Proof. intros. cbn [duck_loop]. now rewrite duck_loop_skip. Qed.

Lemma until_nul_id : forall l, no_nul l = true -> until_nul l = l.
Proof.
  induction l as [|c r IH]; cbn; intro H; [reflexivity|]. apply andb_true_iff in H as [H1 H2].
  apply negb_true_iff in H1. rewrite H1. f_equal. auto.
Qed.

Lemma duck_step_bytes : forall inid c r, exists n, (1 <= n)%nat /\ d_bytes (duck_step inid c r) = firstn n (c :: r).
Proof.
  intros inid c r. unfold duck_step.
  destruct ((c =? 45) && _ && _) eqn:E1.
  { exists (duck_line (c :: r)). split; [|reflexivity]. apply andb_true_iff in E1 as [E1 _].
    apply andb_true_iff in E1 as [E1 _]. apply N.eqb_eq in E1. subst c. cbn. lia. }
  destruct ((c =? 47) && _ && _). { destruct (duck_block 0 (tl r)) as [n t]. exists (2 + n)%nat. split; [lia|reflexivity]. }
  destruct (c =? 39). { destruct (duck_quoted 39 r) as [n t]. exists (S n). split; [lia|reflexivity]. }
  destruct (c =? 34). { destruct (duck_quoted 34 r) as [n t]. exists (S n). split; [lia|reflexivity]. }
  destruct (_ && _ && _ && _). { destruct (duck_estring (tl r)) as [n t]. exists (2 + n)%nat. split; [lia|reflexivity]. }
  destruct (if (c =? 36) && negb inid then duck_tag true r else None) as [tag|].
  - destruct (find_sub _ _) as [e|].
    + eexists. split; [|reflexivity]. cbn [length]. lia.
    + exists (length (c :: r)). split; [cbn; lia|reflexivity].
  - exists 1%nat. split; [lia|reflexivity].
Qed.
Lemma duck_step_hd : forall inid c r, exists y, d_bytes (duck_step inid c r) = c :: y.
Proof.
  intros. destruct (duck_step_bytes inid c r) as (n & Hn & ->). destruct n; [lia|]. cbn. eauto.
Qed.

(* ---- line comments ---- *)
Lemma duck_line_le : forall l, (duck_line l <= length l)%nat.
Proof. induction l; cbn; [lia|]. destruct (_ || _); cbn; lia. Qed.
Lemma until_nl_le : forall l, (until_nl l <= length l)%nat.
Proof. induction l; cbn; [lia|]. destruct (_ =? _); cbn; lia. Qed.

(* when the byte that ends DuckDB's line comment is not a carriage return, Arc's comment is the same *)
Lemma line_same : forall l, (match skipn (duck_line l) l with x :: _ => negb (x =? 13) | [] => true end) = true ->
  until_nl l = duck_line l.
Proof.
  induction l as [|c r IH]; cbn; intro H; [reflexivity|].
  destruct (c =? 10) eqn:E10; cbn [orb].
  - reflexivity.
  - destruct (c =? 13) eqn:E13.
    + cbn in H. rewrite E13 in H. discriminate.
    + cbn in H. f_equal. auto.
Qed.
Lemma skipn_until_nl : forall l, (until_nl l < length l)%nat -> exists rest, skipn (until_nl l) l = 10 :: rest.
Proof.
  induction l as [|c r IH]; cbn; intro H; [lia|]. destruct (c =? 10) eqn:E.
  - apply N.eqb_eq in E. subst. cbn. eauto.
  - cbn in H. cbn. apply IH. lia.
Qed.

Lemma strip_loop_unfold : forall fixed c d r2,
  strip_loop fixed O (c :: d :: r2) =
  let l := c :: d :: r2 in
  if (c =? 45) && (d =? 45) then
    let n := until_nl l in
    if (n <? length l)%nat then 10 :: strip_loop fixed n (d :: r2) else strip_loop fixed (n - 1) (d :: r2)
  else if (c =? 47) && (d =? 42) then
    let n := match find_close r2 with
             | Some k => if negb fixed && (length r2 - (k + 2) <=? 1)%nat then length l else (2 + k + 2)%nat
             | None => length l
             end in
    32 :: strip_loop fixed (n - 1) (d :: r2)
  else c :: strip_loop fixed O (d :: r2).
Proof. reflexivity. Qed.

Lemma strip_plain : forall fixed c r,
  (match r with d :: _ => negb ((c =? 45) && (d =? 45)) && negb ((c =? 47) && (d =? 42)) | [] => true end) = true ->
  strip_loop fixed O (c :: r) = c :: strip_loop fixed O r.
Proof.
  intros fixed c r H. destruct r as [|d r2]; [reflexivity|]. rewrite strip_loop_unfold. cbv zeta.
  apply andb_true_iff in H as [H1 H2]. apply negb_true_iff in H1, H2. now rewrite H1, H2.
Qed.

(* Arc at "--": the comment is skipped, its newline (if any) is then copied like any byte *)
Lemma skipn_tl : forall (A : Type) n (l : list A), skipn n (tl l) = tl (skipn n l).
Proof.
  intros A n. induction n as [|n IH]; intros l; [reflexivity|].
  destruct l as [|c r]; [reflexivity|]. cbn [tl skipn]. destruct r as [|d r']; [now rewrite skipn_nil|].
  rewrite <- IH. reflexivity.
Qed.

Lemma strip_line : forall fixed r2, let l := 45 :: 45 :: r2 in
  strip_loop fixed O l = strip_loop fixed O (skipn (until_nl l) l).
Proof.
  intros fixed r2 l. assert (Hn : (2 <= until_nl l)%nat) by (subst l; cbn; lia).
  unfold l at 1. rewrite strip_loop_unfold. cbv zeta. change (45 =? 45) with true. cbn [andb]. fold l.
  change (45 :: r2) with (tl l).
  destruct (until_nl l <? length l)%nat eqn:E.
  - apply Nat.ltb_lt in E. destruct (skipn_until_nl l E) as [rest Hr]. rewrite Hr.
    rewrite (strip_loop_skip fixed (until_nl l) (tl l)), skipn_tl, Hr. cbn [tl].
    rewrite (strip_plain fixed 10 rest) by (destruct rest; reflexivity). reflexivity.
  - apply Nat.ltb_ge in E. pose proof (until_nl_le l). assert (Hl : until_nl l = length l) by lia.
    rewrite (strip_loop_skip fixed (until_nl l - 1) (tl l)), Hl, skipn_all. rewrite skipn_all2; [reflexivity|]. unfold l. cbn [tl length]. lia.
Qed.

(* ---- block comments ---- *)
Lemma duck_block_unfold : forall depth a b r3,
  duck_block depth (a :: b :: r3) =
  if (a =? 47) && (b =? 42) then let '(n, t) := duck_block (S depth) r3 in (S (S n), t)
  else if (a =? 42) && (b =? 47) then
         match depth with
         | O => (2%nat, true)
         | S dp => let '(n, t) := duck_block dp r3 in (S (S n), t)
         end
  else let '(n, t) := duck_block depth (b :: r3) in (S n, t).
Proof. reflexivity. Qed.
Lemma find_close_unfold : forall a b r3,
  find_close (a :: b :: r3) = if (a =? 42) && (b =? 47) then Some O else option_map S (find_close (b :: r3)).
Proof. reflexivity. Qed.

Lemma find_close_block : forall r2 n t, duck_block O r2 = (n, t) ->
  has_sub [47; 42] (firstn n r2) = false ->
  match find_close r2 with
  | Some k => n = (k + 2)%nat /\ t = true
  | None => n = length r2 /\ t = false
  end.
Proof.
  induction r2 as [|a r IH]; intros n t H G.
  - cbn in *. inversion H; auto.
  - destruct r as [|b r3].
    + cbn in *. inversion H; auto.
    + rewrite duck_block_unfold in H. rewrite find_close_unfold.
      destruct ((a =? 47) && (b =? 42)) eqn:E1.
      * exfalso. destruct (duck_block 1 r3) as [n' t']. injection H as <- <-. cbn [firstn] in G.
        apply andb_true_iff in E1 as [Ea Eb]. apply N.eqb_eq in Ea, Eb. subst.
        change (47 :: 42 :: firstn n' r3) with ([] ++ [47; 42] ++ firstn n' r3) in G. now rewrite has_sub_app in G.
      * destruct ((a =? 42) && (b =? 47)) eqn:E2.
        -- injection H as <- <-. auto.
        -- destruct (duck_block 0 (b :: r3)) as [n' t'] eqn:Ed. injection H as <- <-.
           cbn [firstn] in G. change (a :: firstn n' (b :: r3)) with ([a] ++ firstn n' (b :: r3)) in G.
           apply has_sub_false_app in G as [_ G]. specialize (IH _ _ eq_refl G).
           destruct (find_close (b :: r3)); cbn [option_map]; destruct IH as [-> ->]; split; auto.
Qed.

Lemma no_tail_witness : forall pre x, no_tail_after_close (pre ++ [42; 47; x]) = false.
Proof.
  intros. unfold no_tail_after_close. rewrite rev_app_distr. cbn. reflexivity.
Qed.
Lemma no_tail_tl : forall c r, no_tail_after_close (c :: r) = true -> no_tail_after_close r = true.
Proof.
  intros c r H. unfold no_tail_after_close in *. cbn [rev] in H.
  destruct (rev r) as [|x [|a [|b rr]]]; auto.
Qed.
Lemma no_tail_skipn : forall k l, no_tail_after_close l = true -> no_tail_after_close (skipn k l) = true.
Proof.
  induction k; intros l H; [exact H|]. destruct l as [|c r]; [exact H|]. cbn [skipn]. apply IHk. eapply no_tail_tl; eauto.
Qed.

Lemma find_close_some : forall r2 k, find_close r2 = Some k ->
  exists rest, r2 = firstn k r2 ++ [42; 47] ++ rest /\ length rest = (length r2 - (k + 2))%nat.
Proof.
  induction r2 as [|a r IH]; intros k H; [discriminate|]. destruct r as [|b r3]; [discriminate|].
  rewrite find_close_unfold in H. destruct ((a =? 42) && (b =? 47)) eqn:E.
  - inversion H; subst. apply andb_true_iff in E as [Ea Eb]. apply N.eqb_eq in Ea, Eb. subst.
    exists r3. cbn. split; auto. lia.
  - destruct (find_close (b :: r3)) as [k'|] eqn:F; [|discriminate]. inversion H; subst.
    destruct (IH _ eq_refl) as (rest & Hr & Hl). exists rest. cbn [firstn app]. split.
    + f_equal. exact Hr.
    + cbn [length] in *. lia.
Qed.

(* the number of bytes Arc consumes at a block comment *)
Definition arc_block_len (fixed : bool) (l r2 : list N) : nat :=
  match find_close r2 with
  | Some k => if negb fixed && (length r2 - (k + 2) <=? 1)%nat then length l else (2 + k + 2)%nat
  | None => length l
  end.
Lemma strip_block : forall fixed r2, let l := 47 :: 42 :: r2 in
  strip_loop fixed O l = 32 :: strip_loop fixed O (skipn (arc_block_len fixed l r2) l).
Proof.
  intros fixed r2 l. unfold l at 1. rewrite strip_loop_unfold. cbv zeta. change (47 =? 45) with false. cbn [andb].
  change (47 =? 47) with true. change (42 =? 42) with true. cbn [andb]. fold l. f_equal.
  fold (arc_block_len fixed l r2). rewrite strip_loop_skip. f_equal.
  assert (1 <= arc_block_len fixed l r2)%nat.
  { unfold arc_block_len. destruct (find_close r2); [destruct (_ && _)|]; unfold l; cbn [length]; lia. }
  destruct (arc_block_len fixed l r2) as [|n]; [lia|]. unfold l. cbn [skipn]. now rewrite Nat.sub_succ, Nat.sub_0_r.
Qed.

(* ---- the guard on a token list ---- *)
Definition tok_plain (k : dtok) : bool :=
  match d_kind k with
  | KStr | KQId => false
  | KCom => negb (is_block_com k) || negb (has_sub [47; 42] (skipn 2 (d_bytes k)))
  | KCode => true
  end.
Definition toks_guard (ts : list dtok) : bool := forallb tok_plain ts && no_cr_after_line ts.

Lemma strip_guard_toks : forall fixed t, strip_guard fixed t = true ->
  no_nul t = true /\ toks_guard (duck_loop O false t) = true /\ (fixed = true \/ no_tail_after_close t = true).
Proof.
  intros fixed t H. unfold strip_guard in H. repeat (apply andb_true_iff in H as [H ?]).
  unfold quote_free, no_nested_open, duck_lex in *. rewrite until_nul_id in * by assumption.
  repeat split; auto.
  - unfold toks_guard. apply andb_true_iff. split; auto. rewrite forallb_forall in *. intros k Hk.
    specialize (H3 k Hk). specialize (H2 k Hk). unfold tok_plain. destruct (d_kind k); auto.
  - apply orb_true_iff in H0. tauto.
Qed.

Lemma skipn_firstn_len : forall (A : Type) n (l : list A), skipn (length (firstn n l) - 1) (tl l) = skipn n l \/ n = O.
Proof.
  intros A n l. destruct n as [|n]; [auto|]. left. destruct l as [|c r]; [now rewrite !skipn_nil|].
  cbn [firstn length tl skipn]. rewrite Nat.sub_succ, Nat.sub_0_r.
  rewrite firstn_length. destruct (Nat.le_ge_cases n (length r)).
  - now rewrite Nat.min_l.
  - rewrite Nat.min_r by assumption. now rewrite !skipn_all2 by lia.
Qed.

Lemma strip_sim : forall fixed n l inid, (length l <= n)%nat ->
  toks_guard (duck_loop O inid l) = true -> (fixed = true \/ no_tail_after_close l = true) ->
  strip_loop fixed O l = flat_map strip_spec_tok (duck_loop O inid l).
Proof.
  intros fixed n. induction n as [|n IH]; intros l inid Hlen G Ht.
  { destruct l; [reflexivity|cbn in Hlen; lia]. }
  destruct l as [|c r]; [reflexivity|]. rewrite duck_loop_cons in *.
  unfold toks_guard in G. cbn [forallb] in G. apply andb_true_iff in G as [G Gcr].
  apply andb_true_iff in G as [Gk Grest].
  set (tk := duck_step inid c r) in *.
  assert (Hskip : forall m, (1 <= m)%nat -> d_bytes tk = firstn m (c :: r) ->
            skipn (length (d_bytes tk) - 1) r = skipn m (c :: r)).
  { intros m Hm Hb. rewrite Hb. destruct (skipn_firstn_len _ m (c :: r)) as [E|E]; [exact E|lia]. }
  assert (Gtl : forall rest, toks_guard rest = true ->
            forallb tok_plain rest = true /\ no_cr_after_line rest = true).
  { intros rest Hr. unfold toks_guard in Hr. now apply andb_true_iff in Hr. }
  assert (Gnext : toks_guard (duck_loop O (next_inid inid tk) (skipn (length (d_bytes tk) - 1) r)) = true).
  { unfold toks_guard. rewrite Grest. cbn [andb]. cbn [no_cr_after_line] in Gcr.
    destruct (duck_loop O (next_inid inid tk) (skipn (length (d_bytes tk) - 1) r)); auto.
    now apply andb_true_iff in Gcr as [_ Gcr]. }
  unfold duck_step in tk.
  destruct r as [|d r2].
  - (* single last byte: cannot start a comment *)
    cbn in tk. 
    assert (Hk : d_kind tk = KCode /\ d_bytes tk = [c] \/ (d_kind tk = KStr \/ d_kind tk = KQId)).
    { subst tk. rewrite !andb_false_r. cbn [andb].
      destruct (c =? 39); [cbn; auto|]. destruct (c =? 34); [cbn; auto|].
      destruct ((c =? 36) && negb inid); cbn; auto. }
    destruct Hk as [[Hk Hb]|Hk].
    + cbn [flat_map]. unfold strip_spec_tok at 1. rewrite Hk, Hb. cbn. reflexivity.
    + unfold tok_plain in Gk. destruct Hk as [Hk|Hk]; rewrite Hk in Gk; discriminate.
  - cbn [flat_map].
    destruct ((c =? 45) && (d =? 45)) eqn:Edd.
    + (* line comment *)
      apply andb_true_iff in Edd as [Ec Ed]. apply N.eqb_eq in Ec, Ed. subst c d.
      assert (Htk : tk = mk_dtok KCom (45 :: 45 :: r2) (duck_line (45 :: 45 :: r2)) inid true) by reflexivity.
      set (l := 45 :: 45 :: r2) in *.
      assert (Hn : (2 <= duck_line l)%nat) by (unfold l; cbn; lia).
      assert (Hb : d_bytes tk = firstn (duck_line l) l) by (rewrite Htk; reflexivity).
      rewrite (Hskip (duck_line l)) in * by (auto; lia).
      assert (Hsame : until_nl l = duck_line l).
      { apply line_same. cbn [no_cr_after_line] in Gcr.
        destruct (skipn (duck_line l) l) as [|x rest] eqn:Es; auto.
        rewrite duck_loop_cons in Gcr. apply andb_true_iff in Gcr as [Gcr _].
        apply negb_true_iff in Gcr. rewrite Htk in Gcr. unfold mk_dtok in Gcr. cbn [d_kind d_bytes dkind_eqb andb] in Gcr.
        assert (Hnb : is_block_com {| d_kind := KCom; d_bytes := firstn (duck_line l) l; d_ctx := inid; d_term := true |} = false).
        { unfold is_block_com. cbn [d_bytes]. unfold l. destruct (duck_line (45 :: 45 :: r2)) as [|[|k]] eqn:Ek; try reflexivity. }
        rewrite Hnb in Gcr. cbn [negb andb] in Gcr.
        match type of Gcr with context [duck_step ?b x rest] => destruct (duck_step_hd b x rest) as [y Hy] end.
        rewrite Hy in Gcr. cbn [starts_with] in Gcr. now rewrite Gcr. }
      unfold l at 1. rewrite strip_line. fold l. rewrite Hsame.
      unfold strip_spec_tok at 1. rewrite Htk. unfold mk_dtok. cbn [d_kind].
      replace (is_block_com _) with false.
      2:{ unfold is_block_com. cbn [d_bytes]. unfold l. destruct (duck_line (45 :: 45 :: r2)) as [|[|k]]; reflexivity. }
      cbn [app]. apply IH; auto.
      * rewrite skipn_length. unfold l in *. cbn [length] in *. lia.
      * destruct Ht as [Ht|Ht]; auto. right. now apply no_tail_skipn.
    + destruct ((c =? 47) && (d =? 42)) eqn:Ebl.
      * (* block comment *)
        apply andb_true_iff in Ebl as [Ec Ed]. apply N.eqb_eq in Ec, Ed. subst c d.
        destruct (duck_block 0 r2) as [nb tb] eqn:Eb.
        assert (Htk : tk = mk_dtok KCom (47 :: 42 :: r2) (2 + nb) inid tb).
        { subst tk. change ((47 =? 45) && true && (42 =? 45)) with false. cbn [andb].
          change ((47 =? 47) && true && (42 =? 42)) with true. cbn [tl]. now rewrite Eb. }
        set (l := 47 :: 42 :: r2) in *.
        assert (Hb : d_bytes tk = firstn (2 + nb) l) by (rewrite Htk; reflexivity).
        rewrite (Hskip (2 + nb)%nat) in * by (auto; lia).
        assert (Hblk : is_block_com tk = true) by (rewrite Htk; reflexivity).
        unfold tok_plain in Gk. rewrite Htk in Gk. unfold mk_dtok in Gk. cbn [d_kind] in Gk.
        rewrite Htk in Hblk. unfold mk_dtok in Hblk. rewrite Hblk in Gk. cbn [negb orb d_bytes] in Gk.
        apply negb_true_iff in Gk. unfold l in Gk. cbn [firstn skipn plus] in Gk.
        pose proof (find_close_block _ _ _ Eb Gk) as Hfc.
        unfold l at 1. rewrite strip_block. fold l.
        unfold strip_spec_tok at 1. rewrite Htk. unfold mk_dtok. cbn [d_kind]. rewrite Hblk. cbn [app]. f_equal.
        assert (Hal : arc_block_len fixed l r2 = (2 + nb)%nat \/ skipn (arc_block_len fixed l r2) l = skipn (2 + nb) l).
        { unfold arc_block_len. destruct (find_close r2) as [k|] eqn:Ef.
          - destruct Hfc as [-> ->]. destruct (negb fixed && (length r2 - (k + 2) <=? 1)%nat) eqn:Ebug; [|left; lia].
            apply andb_true_iff in Ebug as [Efx Ele]. apply negb_true_iff in Efx. apply Nat.leb_le in Ele.
            destruct Ht as [Ht|Ht]; [congruence|].
            destruct (find_close_some _ _ Ef) as (rest & Hr & Hl).
            destruct rest as [|x [|y rest]]; cbn [length] in Hl.
            + right. rewrite !skipn_all2; auto; unfold l; cbn [length]; lia.
            + exfalso. unfold l in Ht. rewrite Hr in Ht.
              change (47 :: 42 :: firstn k r2 ++ [42; 47] ++ [x]) with ((47 :: 42 :: firstn k r2) ++ [42; 47; x]) in Ht.
              now rewrite no_tail_witness in Ht.
            + lia.
          - destruct Hfc as [-> ->]. left. unfold l. cbn [length]. lia. }
        assert (Hgo : strip_loop fixed 0 (skipn (2 + nb) l) =
                      flat_map strip_spec_tok (duck_loop 0 (next_inid inid tk) (skipn (2 + nb) l))).
        { apply IH; auto.
          - rewrite skipn_length. unfold l in *. cbn [length] in *. lia.
          - destruct Ht as [Ht|Ht]; auto. right. now apply no_tail_skipn. }
        destruct Hal as [Hal|Hal]; rewrite Hal; rewrite Htk in Hgo; exact Hgo.
      * (* neither comment opener *)
        assert (Hk : (d_kind tk = KCode /\ d_bytes tk = [c]) \/ (d_kind tk = KStr \/ d_kind tk = KQId)).
        { subst tk. cbn [andb]. 
          replace ((c =? 45) && true && (d =? 45)) with false by (rewrite andb_true_r; now rewrite Edd).
          replace ((c =? 47) && true && (d =? 42)) with false by (rewrite andb_true_r; now rewrite Ebl).
          destruct (c =? 39); [destruct (duck_quoted 39 (d :: r2)); cbn; auto|].
          destruct (c =? 34); [destruct (duck_quoted 34 (d :: r2)); cbn; auto|].
          destruct (_ && _ && _ && _); [destruct (duck_estring _); cbn; auto|].
          destruct (if (c =? 36) && negb inid then duck_tag true (d :: r2) else None); [|cbn; auto].
          destruct (find_sub _ _); cbn; auto. }
        destruct Hk as [[Hk Hb]|Hk].
        -- rewrite strip_plain by (cbn; now rewrite Edd, Ebl).
           unfold strip_spec_tok at 1. rewrite Hk, Hb. cbn [app]. f_equal.
           rewrite Hb in *. cbn [length Nat.sub skipn] in *. apply IH; auto.
           ++ cbn [length] in *. lia.
           ++ destruct Ht as [Ht|Ht]; auto. right. eapply no_tail_tl; eauto.
        -- unfold tok_plain in Gk. destruct Hk as [Hk|Hk]; rewrite Hk in Gk; discriminate.
Qed.

Theorem strip_guarded_gen : forall fixed t, strip_guard fixed t = true ->
  strip_comments_gen fixed t true = strip_spec t.
Proof.
  intros fixed t G. destruct (strip_guard_toks _ _ G) as (Hn & Hg & Ht).
  unfold strip_comments_gen, strip_spec, duck_lex. rewrite until_nul_id by assumption.
  eapply strip_sim; eauto.
Qed.
