(* SqlLex - the composition mask -> strip comments -> unmask (normalizeSQLForShow's core; the
   rewrite path without its table rewriting) equals the comment-stripping SPEC on the original
   text, for texts in the guard class (C15_normalise_guarded).

   The masked tokens are aligned with the reference lexer's tokens (from the boundary
   simulation); stripSQLComments then runs over the RENDERED text: copied code bytes are kept,
   comment bytes disappear exactly as the spec says, placeholders pass through untouched. *)
From Coq Require Import NArith Bool Arith List Lia.
From Arc Require Import SqlLex.Model SqlLex.Lemmas SqlLex.ProofsUnmask SqlLex.ProofsStrip SqlLex.ProofsLex.
Import ListNotations.
Open Scope N_scope.

Section Pipe.
Variable T : list smask.

Inductive aligned : list dtok -> list tok -> Prop :=
| al_nil : aligned [] []
| al_code : forall d c ds ts, d_kind d = KCode -> d_bytes d = [c] -> aligned ds ts -> aligned (d :: ds) (B c :: ts)
| al_com : forall d ds ts, d_kind d = KCom -> aligned ds ts -> aligned (d :: ds) (map B (d_bytes d) ++ ts)
| al_lit : forall d c n ds ts, (d_kind d = KStr \/ d_kind d = KQId) -> expand T (P c n) = d_bytes d ->
    aligned ds ts -> aligned (d :: ds) (P c n :: ts).

Lemma tok_seg_B_inv : forall tk c, tok_seg T tk = (KCode, [c]) -> tk = B c.
Proof. intros [x|c0 n] c H; cbn in H; [now inversion H|destruct c0; discriminate]. Qed.
Lemma tok_seg_lit_inv : forall tk k b, (k = KStr \/ k = KQId) -> tok_seg T tk = (k, b) ->
  exists c n, tk = P c n /\ expand T (P c n) = b.
Proof.
  intros [x|c n] k b Hk H; cbn in H.
  - destruct Hk; subst; discriminate.
  - exists c, n. split; auto. cbn. now inversion H.
Qed.
Lemma segs_run : forall b ts X, map (tok_seg T) ts = map single b ++ X ->
  exists ts', ts = map B b ++ ts' /\ map (tok_seg T) ts' = X.
Proof.
  induction b as [|x b IH]; intros ts X H; [exists ts; auto|].
  destruct ts as [|tk ts]; [discriminate|]. cbn [map app] in H. inversion H as [[H1 H2]].
  apply tok_seg_B_inv in H1. subst tk. destruct (IH _ _ H2) as (ts' & -> & H3). exists ts'. auto.
Qed.

Lemma aligned_of_segs : forall ds ts,
  Forall (fun d => d_kind d = KCode -> exists c, d_bytes d = [c]) ds ->
  map (tok_seg T) ts = explode (map seg_of ds) -> aligned ds ts.
Proof.
  induction ds as [|d ds IH]; intros ts Hc H.
  - destruct ts; [constructor|discriminate].
  - inversion Hc as [|? ? Hd Hds]; subst. cbn [map] in H. unfold seg_of at 1 in H.
    destruct (d_kind d) eqn:Ek; cbn [explode] in H.
    + destruct (Hd eq_refl) as [c Hb]. rewrite Hb in H. cbn [map app] in H.
      destruct ts as [|tk ts]; [discriminate|]. cbn [map] in H. inversion H as [[H1 H2]].
      apply tok_seg_B_inv in H1. subst tk. apply al_code; auto.
    + destruct ts as [|tk ts]; [discriminate|]. cbn [map] in H. inversion H as [[H1 H2]].
      destruct (tok_seg_lit_inv _ _ _ (or_introl eq_refl) H1) as (c & n & -> & He). apply al_lit; auto.
    + destruct ts as [|tk ts]; [discriminate|]. cbn [map] in H. inversion H as [[H1 H2]].
      destruct (tok_seg_lit_inv _ _ _ (or_intror eq_refl) H1) as (c & n & -> & He). apply al_lit; auto.
    + destruct (segs_run _ _ _ H) as (ts' & -> & H2). apply al_com; auto.
Qed.

(* the comment-free token list the pipeline should arrive at *)
Fixpoint zip_strip (ds : list dtok) (ts : list tok) : list tok :=
  match ds with
  | [] => []
  | d :: ds' =>
      match d_kind d with
      | KCom => (if is_block_com d then [B 32] else []) ++ zip_strip ds' (skipn (length (d_bytes d)) ts)
      | _ => firstn 1 ts ++ zip_strip ds' (skipn 1 ts)
      end
  end.

Lemma skipn_map_B : forall b ts, skipn (length b) (map B b ++ ts) = ts.
Proof. induction b; cbn; auto. Qed.

Lemma zip_strip_expand : forall ds ts, aligned ds ts ->
  expand_all T (zip_strip ds ts) = flat_map strip_spec_tok ds.
Proof.
  induction 1 as [|d c ds ts Hk Hb Ha IH|d ds ts Hk Ha IH|d c n ds ts Hk He Ha IH]; [reflexivity| | |].
  - cbn [zip_strip flat_map]. rewrite Hk. cbn [firstn skipn app]. unfold strip_spec_tok at 1. rewrite Hk, Hb.
    change (expand_all T (B c :: zip_strip ds ts)) with ([c] ++ expand_all T (zip_strip ds ts)). now rewrite IH.
  - cbn [zip_strip flat_map]. rewrite Hk, skipn_map_B. unfold strip_spec_tok at 1. rewrite Hk.
    rewrite expand_all_app, IH. destruct (is_block_com d); reflexivity.
  - cbn [zip_strip flat_map]. unfold strip_spec_tok at 1.
    assert (Hz : zip_strip (d :: ds) (P c n :: ts) = P c n :: zip_strip ds ts).
    { cbn [zip_strip]. destruct Hk as [E|E]; rewrite E; reflexivity. }
    cbn [zip_strip] in Hz |- *. rewrite Hz.
    change (expand_all T (P c n :: zip_strip ds ts)) with (expand T (P c n) ++ expand_all T (zip_strip ds ts)).
    rewrite IH, He. destruct Hk as [E|E]; rewrite E; reflexivity.
Qed.

Lemma zip_strip_idxs : forall ds ts, aligned ds ts -> str_idxs (zip_strip ds ts) = str_idxs ts.
Proof.
  induction 1 as [|d c ds ts Hk Hb Ha IH|d ds ts Hk Ha IH|d c n ds ts Hk He Ha IH]; [reflexivity| | |].
  - cbn [zip_strip]. rewrite Hk. cbn [firstn skipn app]. change (B c :: zip_strip ds ts) with ([B c] ++ zip_strip ds ts).
    change (B c :: ts) with ([B c] ++ ts). rewrite !str_idxs_app. now rewrite IH.
  - cbn [zip_strip]. rewrite Hk, skipn_map_B, !str_idxs_app, str_idxs_map_B, IH. destruct (is_block_com d); reflexivity.
  - assert (Hz : zip_strip (d :: ds) (P c n :: ts) = P c n :: zip_strip ds ts).
    { cbn [zip_strip]. destruct Hk as [E|E]; rewrite E; reflexivity. }
    rewrite Hz. change (P c n :: zip_strip ds ts) with ([P c n] ++ zip_strip ds ts).
    change (P c n :: ts) with ([P c n] ++ ts). rewrite !str_idxs_app. now rewrite IH.
Qed.

Lemma zip_strip_wf : forall lo ds ts, aligned ds ts -> Forall (tok_wf T lo) ts -> Forall (tok_wf T lo) (zip_strip ds ts).
Proof.
  induction 1 as [|d c ds ts Hk Hb Ha IH|d ds ts Hk Ha IH|d c n ds ts Hk He Ha IH]; intro H; [constructor| | |].
  - cbn [zip_strip]. rewrite Hk. cbn [firstn skipn app]. inversion H; subst. constructor; auto.
  - cbn [zip_strip]. rewrite Hk, skipn_map_B. apply Forall_app in H as [_ H]. apply Forall_app. split; auto.
    destruct (is_block_com d); repeat constructor.
  - assert (Hz : zip_strip (d :: ds) (P c n :: ts) = P c n :: zip_strip ds ts).
    { cbn [zip_strip]. destruct Hk as [E|E]; rewrite E; reflexivity. }
    rewrite Hz. inversion H; subst. constructor; auto.
Qed.

Lemma zip_strip_nocom : forall ds ts, aligned ds ts -> forallb (fun d => negb (dkind_eqb (d_kind d) KCom)) ds = true ->
  zip_strip ds ts = ts.
Proof.
  induction 1 as [|d c ds ts Hk Hb Ha IH|d ds ts Hk Ha IH|d c n ds ts Hk He Ha IH]; intro H; [reflexivity| | |];
    cbn [forallb] in H; apply andb_true_iff in H as [H1 H2].
  - cbn [zip_strip]. rewrite Hk. cbn [firstn skipn app]. f_equal. auto.
  - rewrite Hk in H1. discriminate.
  - cbn [zip_strip]. destruct Hk as [E|E]; rewrite E; cbn [firstn skipn app]; f_equal; auto.
Qed.

(* ---- facts about rendered text next to aligned tokens ---- *)
Lemma render_nil : forall ts, render ts = [] -> ts = [].
Proof.
  intros [|[b|c n] ts] H; [reflexivity|discriminate|]. destruct (render_P_starts c n ts) as [r Hr]. rewrite Hr in H. discriminate.
Qed.

Lemma aligned_head : forall inid l ts y, aligned (duck_loop O inid l) ts ->
  starts_with y (render ts) = true -> y = 95 \/ starts_with y l = true.
Proof.
  intros inid l ts y Ha Hs. destruct l as [|c r].
  - cbn in Ha. inversion Ha; subst. discriminate.
  - rewrite duck_loop_cons in Ha. destruct (duck_step_hd inid c r) as [yb Hy].
    inversion Ha as [|d c' ds ts' Hk Hb Ha'|d ds ts' Hk Ha'|d c' n ds ts' Hk He Ha']; subst.
    + rewrite Hy in Hb. inversion Hb; subst. rewrite render_cons in Hs. cbn [render_tok app starts_with] in *. auto.
    + rewrite Hy in Hs. cbn [map app] in Hs. rewrite render_cons in Hs. cbn [render_tok app starts_with] in *. auto.
    + destruct (render_P_starts c' n ts') as [rr Hr]. rewrite Hr in Hs. cbn [starts_with] in Hs. apply N.eqb_eq in Hs. auto.
Qed.

Lemma duck_loop_concat : forall n l inid, (length l <= n)%nat -> flat_map d_bytes (duck_loop O inid l) = l.
Proof.
  induction n as [|n IH]; intros l inid Hl; [destruct l; [reflexivity|cbn in Hl; lia]|].
  destruct l as [|c r]; [reflexivity|]. rewrite duck_loop_cons. cbn [flat_map].
  destruct (duck_step_bytes inid c r) as (m & Hm & Hb). rewrite Hb at 1.
  assert (Hs : skipn (length (d_bytes (duck_step inid c r)) - 1) r = skipn m (c :: r)).
  { rewrite Hb. destruct (skipn_firstn_len _ m (c :: r)) as [E|E]; [exact E|lia]. }
  rewrite Hs, IH; [apply firstn_skipn|]. rewrite skipn_length. cbn [length] in *. lia.
Qed.

Lemma aligned_allB : forall ds ts, aligned ds ts -> (forall tk, In tk ts -> exists b, tk = B b) ->
  flat_map d_bytes ds = render ts.
Proof.
  induction 1 as [|d c ds ts Hk Hb Ha IH|d ds ts Hk Ha IH|d c n ds ts Hk He Ha IH]; intro H; [reflexivity| | |].
  - cbn [flat_map]. rewrite Hb, render_cons. cbn [render_tok]. f_equal. apply IH. intros; apply H; now right.
  - cbn [flat_map]. rewrite render_app, render_map_B. f_equal. apply IH. intros; apply H. apply in_or_app; now right.
  - destruct (H (P c n) (or_introl eq_refl)) as [b Hb]. discriminate.
Qed.

(* ---- stripSQLComments over rendered pieces ---- *)
Lemma strip_plain_block : forall fixed v R, Forall (fun x => x <> 45 /\ x <> 47) v ->
  strip_loop fixed O (v ++ R) = v ++ strip_loop fixed O R.
Proof.
  induction v as [|x v IH]; intros R H; [reflexivity|]. inversion H as [|? ? [H45 H47] Hv]; subst.
  cbn [app]. rewrite strip_plain.
  - f_equal. auto.
  - destruct (v ++ R); [reflexivity|]. apply N.eqb_neq in H45, H47. now rewrite H45, H47.
Qed.
Lemma ph_no_markers : forall c n, Forall (fun x => x <> 45 /\ x <> 47) (ph_bytes c n).
Proof.
  intros c n. unfold ph_bytes. repeat (constructor; [split; discriminate|]). apply Forall_app. split.
  - destruct c; cbn; repeat (constructor; [split; discriminate|]); constructor.
  - constructor; [split; discriminate|]. apply Forall_app. split.
    + eapply Forall_impl; [|apply dec_digits]. intros x Hx. split; intro E; subst; discriminate.
    + repeat (constructor; [split; discriminate|]). constructor.
Qed.

Lemma until_nl_app : forall b X, forallb (fun x => negb (x =? 10)) b = true ->
  until_nl (b ++ X) = (length b + until_nl X)%nat.
Proof.
  induction b as [|x b IH]; intros X H; [reflexivity|]. cbn [forallb] in H. apply andb_true_iff in H as [Hx Hb].
  apply negb_true_iff in Hx. cbn [app until_nl length]. rewrite Hx. cbn. f_equal. auto.
Qed.
Lemma duck_line_no_nl : forall l, forallb (fun x => negb (x =? 10)) (firstn (duck_line l) l) = true.
Proof.
  induction l as [|c r IH]; [reflexivity|]. cbn [duck_line]. destruct ((c =? 10) || (c =? 13)) eqn:E; [reflexivity|].
  apply orb_false_iff in E as [E _]. cbn [firstn forallb]. now rewrite E, IH.
Qed.

Lemma find_close_app : forall a X k, find_close a = Some k -> find_close (a ++ X) = Some k.
Proof.
  induction a as [|x a IH]; intros X k H; [discriminate|]. destruct a as [|y a']; [discriminate|].
  rewrite find_close_unfold in H. cbn [app]. rewrite find_close_unfold. destruct ((x =? 42) && (y =? 47)); [exact H|].
  destruct (find_close (y :: a')) as [k'|] eqn:E; [|discriminate]. change (y :: a' ++ X) with ((y :: a') ++ X).
  now rewrite (IH X k' eq_refl).
Qed.
Lemma find_close_firstn : forall r2 k, find_close r2 = Some k -> find_close (firstn (k + 2) r2) = Some k.
Proof.
  induction r2 as [|x r IH]; intros k H; [discriminate|]. destruct r as [|y r3]; [discriminate|].
  rewrite find_close_unfold in H. destruct ((x =? 42) && (y =? 47)) eqn:E.
  - inversion H; subst. cbn [plus firstn]. rewrite find_close_unfold. now rewrite E.
  - destruct (find_close (y :: r3)) as [k'|] eqn:F; [|discriminate]. inversion H; subst.
    specialize (IH _ eq_refl). replace (S k' + 2)%nat with (S (S (k' + 1))) by lia.
    replace (k' + 2)%nat with (S (k' + 1)) in IH by lia. cbn [firstn] in IH |- *.
    rewrite find_close_unfold, E. now rewrite IH.
Qed.

Lemma duck_step_len : forall inid c r, let tk := duck_step inid c r in
  d_bytes tk = firstn (length (d_bytes tk)) (c :: r) /\ (1 <= length (d_bytes tk) <= length (c :: r))%nat.
Proof.
  intros inid c r tk. destruct (duck_step_bytes inid c r) as (m & Hm & Hb). fold tk in Hb. rewrite Hb.
  rewrite firstn_length. destruct (Nat.le_ge_cases m (length (c :: r))) as [H|H].
  - rewrite Nat.min_l by assumption. split; [reflexivity|lia].
  - rewrite Nat.min_r by assumption. split; [now rewrite !firstn_all2 by lia|cbn [length]; lia].
Qed.

(* ---- guard on duck tokens when literals are allowed ---- *)
Definition tok_plain2 (k : dtok) : bool :=
  match d_kind k with
  | KCom => negb (is_block_com k) || negb (has_sub [47; 42] (skipn 2 (d_bytes k)))
  | _ => true
  end.
Definition toks_guard2 (ts : list dtok) : bool := forallb tok_plain2 ts && no_cr_after_line ts.

Lemma pipe_sim : forall fixed n l inid ts, (length l <= n)%nat ->
  aligned (duck_loop O inid l) ts -> toks_guard2 (duck_loop O inid l) = true ->
  (fixed = true \/ no_tail_after_close l = true) ->
  strip_loop fixed O (render ts) = render (zip_strip (duck_loop O inid l) ts).
Proof.
  intros fixed n. induction n as [|n IH]; intros l inid ts Hl Ha G Ht.
  { destruct l; [|cbn in Hl; lia]. cbn in Ha. inversion Ha; subst. reflexivity. }
  destruct l as [|c r]; [cbn in Ha; inversion Ha; subst; reflexivity|].
  rewrite duck_loop_cons in *. set (tk := duck_step inid c r) in *.
  destruct (duck_step_len inid c r) as (Hb & Hm & Hmle). fold tk in Hb, Hm, Hmle. set (m := length (d_bytes tk)) in *.
  assert (Hs : skipn (m - 1) r = skipn m (c :: r)).
  { destruct m as [|m0]; [lia|]. now rewrite Nat.sub_succ, Nat.sub_0_r. }
  rewrite Hs in *. set (l' := skipn m (c :: r)) in *. set (inid' := next_inid inid tk) in *.
  assert (Hl' : (length l' <= n)%nat) by (unfold l'; rewrite skipn_length; cbn [length] in *; lia).
  assert (Ht' : fixed = true \/ no_tail_after_close l' = true).
  { destruct Ht as [Ht|Ht]; auto. right. now apply no_tail_skipn. }
  unfold toks_guard2 in G. cbn [forallb] in G. apply andb_true_iff in G as [G Gcr]. apply andb_true_iff in G as [Gk Grest].
  assert (G' : toks_guard2 (duck_loop O inid' l') = true).
  { unfold toks_guard2. rewrite Grest. cbn [andb]. cbn [no_cr_after_line] in Gcr.
    destruct (duck_loop O inid' l'); auto. now apply andb_true_iff in Gcr as [_ Gcr]. }
  assert (Hconc : c :: r = d_bytes tk ++ l') by (rewrite Hb; symmetry; apply firstn_skipn).
  pose proof (duck_step_cases inid c r) as Hcases. cbv zeta in Hcases. fold tk in Hcases.
  inversion Ha as [|d c' ds ts' Hk Hbc Ha'|d ds ts' Hk Ha'|d c' n' ds ts' Hk He Ha']; subst d ds.
  - (* ordinary byte *)
    subst ts. cbn [zip_strip]. rewrite Hk. cbn [firstn skipn app]. rewrite !render_cons. cbn [render_tok app].
    assert (Hc' : c' = c) by (destruct (duck_step_hd inid c r) as [y Hy]; fold tk in Hy; rewrite Hy in Hbc; now inversion Hbc).
    subst c'.
    assert (Hm1 : l' = r).
    { unfold l'. rewrite Hb in Hbc. destruct m as [|[|m]]; [lia|reflexivity|]. destruct r; cbn in Hbc; [reflexivity|discriminate]. }
    rewrite Hm1 in *.
    rewrite strip_plain; [f_equal; apply (IH r inid' ts'); auto|].
    destruct (render ts') as [|x R] eqn:ER; [reflexivity|].
    destruct Hcases as [(_ & Hk' & _)|[(_ & Hk' & _)|[(_ & Hk' & _)|[(_ & Hk' & _)|[(_ & _ & _ & Hk' & _)|[(_ & _ & tg & _ & Hk' & _)|(_ & _ & Hcc)]]]]]];
      try congruence.
    destruct Hcc as (_ & _ & _ & _ & C45 & C47).
    destruct (aligned_head inid' r ts' x Ha') as [->|Hx]; [rewrite ER; cbn [starts_with]; apply N.eqb_refl| |].
    + rewrite andb_false_r. now rewrite andb_false_r.
    + destruct r as [|d r2]; [discriminate|]. cbn [starts_with] in *. apply N.eqb_eq in Hx. subst x.
      now rewrite C45, C47.
  - (* comment *)
    subst ts. cbn [zip_strip]. rewrite Hk, skipn_map_B, !render_app, render_map_B.
    assert (Hgo : strip_loop fixed O (render ts') = render (zip_strip (duck_loop O inid' l') ts')) by (apply (IH l' inid' ts'); auto).
    destruct Hcases as [(Hc & _ & Hbl & Hm2 & r2 & Hr)|[(Hc & _ & nb & tb & Hblk & Hbb & r2 & Hr)|[(_ & Hk' & _)|[(_ & Hk' & _)|[(_ & _ & _ & Hk' & _)|[(_ & _ & tg & _ & Hk' & _)|(Hk' & _)]]]]]];
      try congruence.
    + (* line comment *)
      subst c r. assert (Hnb : is_block_com tk = false).
      { unfold is_block_com. rewrite Hbl. destruct (duck_line (45 :: 45 :: r2)) as [|[|k]] eqn:E; reflexivity. }
      rewrite Hnb. cbn [render flat_map app]. rewrite <- Hgo.
      assert (Hm' : m = duck_line (45 :: 45 :: r2)).
      { unfold m. rewrite Hbl, firstn_length. pose proof (duck_line_le (45 :: 45 :: r2)). lia. }
      assert (Hnext : until_nl (render ts') = O).
      { pose proof (duck_line_next (45 :: 45 :: r2)) as Hnx. rewrite <- Hm' in Hnx. fold l' in Hnx.
        destruct l' as [|x lr] eqn:El'.
        - cbn in Ha'. inversion Ha'; subst. reflexivity.
        - rewrite duck_loop_cons in Ha', Gcr. destruct (duck_step_hd inid' x lr) as [y Hy].
          assert (x = 10).
          { destruct Hnx as [E|E]; auto. subst x. exfalso. cbn [no_cr_after_line] in Gcr.
            apply andb_true_iff in Gcr as [Gcr _]. apply negb_true_iff in Gcr. rewrite Hk, Hnb, Hy in Gcr. discriminate. }
          subst x.
          pose proof (duck_step_cases inid' 10 lr) as Hc10. cbv zeta in Hc10.
          destruct Hc10 as [(E & _)|[(E & _)|[(E & _)|[(E & _)|[(E & _)|[(E & _)|(Hk10 & Hb10 & _)]]]]]];
            [discriminate E|discriminate E|discriminate E|discriminate E|discriminate E|discriminate E|].
          inversion Ha' as [|d c' ds ts'' Hk2 Hb2 Ha2|d ds ts'' Hk2 Ha2|d c' n' ds ts'' Hk2 He2 Ha2]; subst.
          ++ rewrite Hb10 in Hb2. inversion Hb2; subst. rewrite render_cons. reflexivity.
          ++ congruence.
          ++ destruct Hk2; congruence. }
      assert (Hb2 : exists b', d_bytes tk = 45 :: 45 :: b').
      { rewrite Hbl. destruct (duck_line (45 :: 45 :: r2)) as [|[|k]]; try lia. cbn [firstn]. eauto. }
      destruct Hb2 as [b' Hb2]. rewrite Hb2. cbn [app]. rewrite strip_line. cbv zeta.
      change (45 :: 45 :: b' ++ render ts') with ((45 :: 45 :: b') ++ render ts'). rewrite <- Hb2.
      rewrite until_nl_app by (rewrite Hbl; apply duck_line_no_nl). rewrite Hnext, Nat.add_0_r.
      now rewrite skipn_app_len.
    + (* block comment *)
      subst c r. cbn [tl] in Hblk.
      assert (Hblkc : is_block_com tk = true) by (unfold is_block_com; rewrite Hbb; reflexivity).
      rewrite Hblkc. rewrite (render_cons (B 32)). cbn [render_tok render flat_map app]. rewrite <- Hgo.
      unfold tok_plain2 in Gk. rewrite Hk, Hblkc in Gk. cbn [negb orb] in Gk. apply negb_true_iff in Gk.
      rewrite Hbb in Gk. cbn [plus firstn skipn] in Gk.
      pose proof (find_close_block _ _ _ Hblk Gk) as Hfc.
      rewrite Hbb. cbn [plus firstn app]. rewrite strip_block. cbv zeta. f_equal.
      destruct (find_close r2) as [k|] eqn:Ef.
      * destruct Hfc as [-> ->].
        destruct (find_close_some _ _ Ef) as (rest & Hr2 & Hlr).
        assert (Hlen : (k + 2 <= length r2)%nat).
        { rewrite Hr2 at 1. rewrite !app_length. cbn [length]. rewrite firstn_length. 
          assert (k <= length r2)%nat.
          { destruct (Nat.le_gt_cases k (length r2)); auto. exfalso. rewrite firstn_all2 in Hr2 by lia.
            apply (f_equal (@length N)) in Hr2. rewrite !app_length in Hr2. cbn [length] in Hr2. lia. }
          lia. }
        assert (Hfl : length (firstn (k + 2) r2) = (k + 2)%nat) by (rewrite firstn_length; lia).
        unfold arc_block_len. rewrite (find_close_app _ (render ts') k (find_close_firstn _ _ Ef)).
        rewrite app_length, Hfl. replace (k + 2 + length (render ts') - (k + 2))%nat with (length (render ts')) by lia.
        destruct (negb fixed && (length (render ts') <=? 1)%nat) eqn:Ebug.
        -- apply andb_true_iff in Ebug as [Efx Ele]. apply negb_true_iff in Efx. apply Nat.leb_le in Ele.
           destruct (render ts') as [|x [|y R]] eqn:ER; cbn [length] in Ele; try lia.
           ++ rewrite app_nil_r. now rewrite skipn_all.
           ++ exfalso. destruct Ht as [Ht|Ht]; [congruence|].
              assert (Hts : ts' = [B x]).
              { destruct ts' as [|[bx|cx nx] ts'']; [discriminate| |].
                - rewrite render_cons in ER. cbn [render_tok app] in ER. inversion ER as [[E1 E2]]. apply render_nil in E2. now subst.
                - destruct (render_P_starts cx nx ts'') as [rr Hrr]. rewrite Hrr in ER. discriminate. }
              subst ts'.
              assert (Hl1 : l' = [x]).
              { rewrite <- (duck_loop_concat (length l') l' inid' (le_n _)).
                rewrite (aligned_allB _ _ Ha'); [reflexivity|]. intros tk0 [<-|[]]. eauto. }
              rewrite Hconc, Hl1, Hbb in Ht. cbn [plus firstn] in Ht.
              rewrite Hr2 in Ht. 
              assert (Hf : firstn (k + 2) (firstn k r2 ++ [42; 47] ++ rest) = firstn k r2 ++ [42; 47]).
              { assert (Hk0 : length (firstn k r2) = k) by (rewrite firstn_length; lia).
                rewrite app_assoc. rewrite <- (Nat.add_0_r (k + 2)).
                replace (k + 2)%nat with (length (firstn k r2 ++ [42; 47])) at 1 by (rewrite app_length; cbn [length]; lia).
                rewrite firstn_app_2. cbn [firstn]. now rewrite app_nil_r. }
              rewrite Hf in Ht.
              change ((47 :: 42 :: firstn k r2 ++ [42; 47]) ++ [x]) with ((47 :: 42 :: firstn k r2) ++ [42; 47; x]) in Ht || idtac.
              replace ((47 :: 42 :: firstn k r2 ++ [42; 47]) ++ [x]) with ((47 :: 42 :: firstn k r2) ++ [42; 47; x]) in Ht
                by (cbn [app]; rewrite <- app_assoc; reflexivity).
              now rewrite no_tail_witness in Ht.
        -- replace (2 + k + 2)%nat with (length (47 :: 42 :: firstn (k + 2) r2)) by (cbn [length]; lia).
           change (47 :: 42 :: firstn (k + 2) r2 ++ render ts') with ((47 :: 42 :: firstn (k + 2) r2) ++ render ts').
           now rewrite skipn_app_len.
      * destruct Hfc as [-> ->].
        assert (Hl0 : l' = []).
        { unfold l', m. rewrite Hbb. apply skipn_all2. rewrite firstn_length. cbn [length plus]. lia. }
        rewrite Hl0 in Ha'. cbn in Ha'. inversion Ha'; subst ts'. cbn [render flat_map]. rewrite firstn_all, app_nil_r.
        unfold arc_block_len. rewrite Ef. now rewrite skipn_all.
  - (* literal *)
    subst ts.
    assert (Hz : zip_strip (tk :: duck_loop 0 inid' l') (P c' n' :: ts') = P c' n' :: zip_strip (duck_loop 0 inid' l') ts').
    { cbn [zip_strip]. destruct Hk as [E|E]; rewrite E; reflexivity. }
    rewrite Hz, !render_cons. cbn [render_tok]. rewrite strip_plain_block by apply ph_no_markers.
    f_equal. apply (IH l' inid' ts'); auto.
Qed.
End Pipe.

Lemma duck_code_single : forall l k inid,
  Forall (fun d => d_kind d = KCode -> exists c, d_bytes d = [c]) (duck_loop k inid l).
Proof.
  induction l as [|c r IH]; intros k inid; [destruct k; constructor|].
  destruct k as [|k]; cbn [duck_loop]; [|apply IH]. constructor; [|apply IH].
  intro Hk. pose proof (duck_step_cases inid c r) as H. cbv zeta in H.
  destruct H as [(_ & Hk' & _)|[(_ & Hk' & _)|[(_ & Hk' & _)|[(_ & Hk' & _)|[(_ & _ & _ & Hk' & _)|[(_ & _ & tg & _ & Hk' & _)|(_ & Hb & _)]]]]]];
    try congruence. eauto.
Qed.

Lemma duck_no_com : forall l k inid, has_sub [45; 45] l = false -> has_sub [47; 42] l = false ->
  forallb (fun d => negb (dkind_eqb (d_kind d) KCom)) (duck_loop k inid l) = true.
Proof.
  induction l as [|c r IH]; intros k inid H1 H2; [destruct k; reflexivity|].
  assert (Hc : forall w, has_sub w (c :: r) = false -> prefixb w (c :: r) = false /\ has_sub w r = false).
  { intros w H. unfold has_sub in *. rewrite find_sub_unfold in H. destruct (prefixb w (c :: r)); [discriminate|].
    split; auto. destruct (find_sub w r); [discriminate|reflexivity]. }
  destruct (Hc _ H1) as [P1 R1]. destruct (Hc _ H2) as [P2 R2].
  destruct k as [|k]; cbn [duck_loop]; [|apply IH; auto]. cbn [forallb]. rewrite IH by auto. rewrite andb_true_r.
  pose proof (duck_step_cases inid c r) as H. cbv zeta in H.
  destruct H as [(-> & _ & _ & _ & r2 & ->)|[(-> & _ & nb & tb & _ & _ & r2 & ->)|[(_ & Hk' & _)|[(_ & Hk' & _)|[(_ & _ & _ & Hk' & _)|[(_ & _ & tg & _ & Hk' & _)|(Hk' & _)]]]]]];
    try (rewrite Hk'; reflexivity); discriminate.
Qed.
