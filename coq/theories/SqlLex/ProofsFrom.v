(* SqlLex - unmask_from (mask_from s) = s for inputs without FROM_MASK_ (C15_from_roundtrip_guarded).
   The decision WHICH `from` words are masked (paren stack, function names, comment skipping) plays
   no role in the round trip: whatever the loop replaces, the replacer puts back. *)
From Coq Require Import NArith ZArith Bool Arith List Lia.
From Arc Require Import SqlLex.Model SqlLex.Lemmas SqlLex.ProofsUnmask.
Import ListNotations.
Open Scope N_scope.

Fixpoint fmask_by_idx (n : N) (m : list fmask) : option fmask :=
  match m with
  | [] => None
  | x :: r => if f_idx x =? n then Some x else fmask_by_idx n r
  end.
Definition expand_f (m : list fmask) (t : tok) : list N :=
  match t with
  | B b => [b]
  | P _ n => match fmask_by_idx n m with Some x => f_orig x | None => [] end
  end.
Definition expand_f_all (m : list fmask) (ts : list tok) : list N := flat_map (expand_f m) ts.
Definition ftok_ok (m : list fmask) (lo : N) (t : tok) : Prop :=
  match t with
  | B _ => True
  | P c n => c = PFrom /\ lo <= n /\ exists x, fmask_by_idx n m = Some x
  end.

Lemma expand_f_all_cons : forall m t ts, expand_f_all m (t :: ts) = expand_f m t ++ expand_f_all m ts.
Proof. reflexivity. Qed.
Lemma expand_f_all_app : forall m a b, expand_f_all m (a ++ b) = expand_f_all m a ++ expand_f_all m b.
Proof. intros. unfold expand_f_all. now rewrite flat_map_app. Qed.
Lemma expand_f_all_map_B : forall m w, expand_f_all m (map B w) = w.
Proof. induction w; cbn; f_equal; auto. Qed.

Lemma expand_f_skip_head : forall x m lo ts, f_idx x < lo -> Forall (ftok_ok m lo) ts ->
  expand_f_all (x :: m) ts = expand_f_all m ts /\ Forall (ftok_ok (x :: m) lo) ts.
Proof.
  intros x m lo ts Hx H. induction H as [|t ts Ht Hts [IH1 IH2]]; [split; [reflexivity|constructor]|].
  split.
  - cbn [expand_f_all flat_map]. fold (expand_f_all (x :: m) ts). fold (expand_f_all m ts). rewrite IH1. f_equal.
    destruct t as [b|c n]; [reflexivity|]. cbn. destruct Ht as (_ & Hlo & _).
    replace (f_idx x =? n) with false by (symmetry; apply N.eqb_neq; lia). reflexivity.
  - constructor; auto. destruct t as [b|c n]; cbn in *; auto. destruct Ht as (Hc & Hlo & y & Hy). repeat split; auto.
    replace (f_idx x =? n) with false by (symmetry; apply N.eqb_neq; lia). eauto.
Qed.

Lemma ftok_ok_weaken : forall m lo lo' ts, lo' <= lo -> Forall (ftok_ok m lo) ts -> Forall (ftok_ok m lo') ts.
Proof.
  intros m lo lo' ts Hl H. eapply Forall_impl; [|exact H]. intros [b|c n]; cbn; auto.
  intros (Hc & Hlo & Hx). repeat split; auto. lia.
Qed.

Lemma from_loop_spec : forall l skip rp depth stack idx t m,
  from_loop skip rp l depth stack idx = (t, m) -> (skip <= 3)%nat ->
  expand_f_all m t = skipn skip l /\ Forall (ftok_ok m idx) t.
Proof.
  induction l as [|c r IH]; intros skip rp depth stack idx t m H Hs.
  - cbn in H. inversion H; subst. split; [now destruct skip|constructor].
  - cbn [from_loop] in H. destruct skip as [|k].
    + assert (Plain : forall rp' depth' stack',
                (let '(t, m) := from_loop 0 rp' r depth' stack' idx in (B c :: t, m)) = (t, m) ->
                expand_f_all m t = skipn 0 (c :: r) /\ Forall (ftok_ok m idx) t).
      { intros rp' depth' stack' H'. destruct (from_loop 0 rp' r depth' stack' idx) as [t' m'] eqn:E.
        inversion H'; subst. destruct (IH _ _ _ _ _ _ _ E) as [I1 I2]; [lia|]. split.
        - rewrite expand_f_all_cons, I1. reflexivity.
        - constructor; cbn; auto. }
      destruct (c =? 40); [eapply Plain; eauto|]. destruct (c =? 41); [eapply Plain; eauto|].
      destruct (_ && _ && is_from_at _ _) eqn:Ef; [|eapply Plain; eauto].
      destruct (from_loop 3 (c :: rp) r depth stack (idx + 1)) as [t' m'] eqn:E. injection H as <- <-.
      destruct (IH _ _ _ _ _ _ _ E) as [I1 I2]; [lia|].
      set (x := {| f_idx := idx; f_orig := firstn 4 (c :: r) |}).
      destruct (expand_f_skip_head x m' (idx + 1) t') as [J1 J2]; [cbn; lia|auto|].
      change (expand_f_all (x :: m') (P PFrom idx :: t') = c :: r /\ Forall (ftok_ok (x :: m') idx) (P PFrom idx :: t')).
      split.
      * rewrite expand_f_all_cons, J1, I1. cbn [expand_f fmask_by_idx].
        replace (f_idx x =? idx) with true by (symmetry; apply N.eqb_refl). 
        apply (firstn_skipn_pred _ 4 c r). lia.
      * constructor.
        -- cbn. rewrite N.eqb_refl. repeat split; eauto. lia.
        -- eapply ftok_ok_weaken; [|exact J2]. lia.
    + destruct (IH _ _ _ _ _ _ _ H) as [I1 I2]; [lia|]. auto.
Qed.

Definition fpairs (m : list fmask) : list (list N * list N) := map (fun x => (f_ph x, f_orig x)) m.

Lemma first_match_at_ph : forall m n x R, fmask_by_idx n m = Some x ->
  first_match (fpairs m) (ph_bytes PFrom n ++ R) = Some (ph_bytes PFrom n, f_orig x).
Proof.
  induction m as [|y m IH]; intros n x R H; [discriminate|]. cbn in H. cbn [fpairs map first_match]. unfold f_ph at 1.
  destruct (f_idx y =? n) eqn:E.
  - apply N.eqb_eq in E. inversion H; subst. now rewrite prefixb_app.
  - destruct (prefixb (ph_bytes PFrom (f_idx y)) (ph_bytes PFrom n ++ R)) eqn:Ep.
    + apply ph_bytes_inj in Ep as [_ Ep]. apply N.eqb_neq in E. congruence.
    + apply IH. exact H.
Qed.
Lemma first_match_none_B : forall m b ts, tok_guard PFrom ts -> first_match (fpairs m) (b :: render ts) = None.
Proof.
  induction m as [|y m IH]; intros b ts G; [reflexivity|]. cbn [fpairs map first_match]. unfold f_ph at 1.
  rewrite nm_B by assumption. now apply IH.
Qed.

Lemma tok_guard_of_text_f : forall m ts, has_sub (guard_word PFrom) (expand_f_all m ts) = false -> tok_guard PFrom ts.
Proof.
  intros m ts H pre post E. subst ts. rewrite !expand_f_all_app, expand_f_all_map_B in H.
  now rewrite has_sub_app in H.
Qed.

Lemma replace_multi_render : forall m lo ts,
  Forall (ftok_ok m lo) ts -> has_sub w_FROM_MASK_ (expand_f_all m ts) = false ->
  replace_multi (fpairs m) (render ts) = expand_f_all m ts.
Proof.
  unfold replace_multi. intros m lo ts H. induction H as [|t ts Ht Hts IH]; intro G; [reflexivity|].
  assert (G' : has_sub w_FROM_MASK_ (expand_f_all m ts) = false).
  { change (t :: ts) with ([t] ++ ts) in G. rewrite expand_f_all_app in G. now apply has_sub_false_app in G. }
  assert (Gt : tok_guard PFrom ts) by (eapply tok_guard_of_text_f; exact G').
  destruct t as [b|c n].
  - rewrite render_cons. cbn [render_tok app replace_multi_aux]. rewrite first_match_none_B by assumption.
    rewrite expand_f_all_cons. cbn [expand_f app]. f_equal. apply IH; auto.
  - destruct Ht as (-> & _ & x & Hx). rewrite render_cons. cbn [render_tok].
    rewrite (replace_multi_match _ _ (f_orig x)); [|discriminate|now apply first_match_at_ph].
    rewrite expand_f_all_cons. cbn [expand_f]. rewrite Hx. f_equal. apply IH; auto.
Qed.

Theorem from_roundtrip_guarded : forall s, from_guard s = true ->
  unmask_from (fst (mask_from s)) (snd (mask_from s)) = s.
Proof.
  intros s G. unfold from_guard in G. apply negb_true_iff in G. unfold mask_from.
  destruct s as [|c r]; [reflexivity|]. destruct (contains_from_func (c :: r)); [|reflexivity].
  destruct (from_loop 0 [] (c :: r) 0%Z [] 0) as [t m] eqn:E. cbn [fst snd].
  destruct (from_loop_spec _ _ _ _ _ _ _ _ E) as [I1 I2]; [lia|]. cbn [skipn] in I1.
  unfold unmask_from. destruct m as [|x m].
  - rewrite <- I1. symmetry. clear - I2. induction I2 as [|t ts Ht Hts IH]; [reflexivity|].
    destruct t as [b|c n]; [|destruct Ht as (_ & _ & y & Hy); discriminate].
    rewrite render_cons. cbn. f_equal. exact IH.
  - change (map (fun m0 => (f_ph m0, f_orig m0)) (x :: m)) with (fpairs (x :: m)).
    rewrite (replace_multi_render _ 0 t); auto. now rewrite I1.
Qed.
