(* SqlLex - generic lemmas: byte lists, prefix/substring search, the three replace functions,
   decimal rendering, shape of placeholders. *)
From Coq Require Import NArith Bool Arith List Lia DecimalN DecimalPos DecimalFacts.
From Arc Require Import SqlLex.Model.
Import ListNotations.
Open Scope N_scope.

(* ---------- equality tests ---------- *)
Lemma bytes_eqb_eq : forall a b, bytes_eqb a b = true <-> a = b.
Proof.
  induction a as [|x a IH]; destruct b as [|y b]; cbn; split; intro H; try congruence; try discriminate.
  - apply andb_true_iff in H as [H1 H2]. apply N.eqb_eq in H1. apply IH in H2. congruence.
  - inversion H; subst. rewrite N.eqb_refl. cbn. now apply IH.
Qed.
Lemma bytes_eqb_refl : forall a, bytes_eqb a a = true.
Proof. intro a. now apply bytes_eqb_eq. Qed.

(* ---------- prefixb ---------- *)
Lemma prefixb_app : forall p r, prefixb p (p ++ r) = true.
Proof. induction p; cbn; intros; auto. now rewrite N.eqb_refl, IHp. Qed.
Lemma prefixb_spec : forall p l, prefixb p l = true <-> exists r, l = p ++ r.
Proof.
  induction p as [|a p IH]; intros l; cbn.
  - split; eauto.
  - destruct l as [|b l]; [split; [discriminate|intros [r Hr]; discriminate]|].
    rewrite andb_true_iff, N.eqb_eq, IH. split.
    + intros [-> [r ->]]. now exists r.
    + intros [r Hr]. inversion Hr; subst. split; eauto.
Qed.
Lemma prefixb_app_l : forall p q l, prefixb (p ++ q) l = true -> prefixb p l = true.
Proof.
  intros p q l H. apply prefixb_spec in H as [r ->]. rewrite <- app_assoc. apply prefixb_app.
Qed.
Lemma prefixb_cons : forall a p b l, prefixb (a :: p) (b :: l) = true -> a = b /\ prefixb p l = true.
Proof. cbn. intros. apply andb_true_iff in H as [H1 H2]. apply N.eqb_eq in H1. auto. Qed.
Lemma prefixb_app_same : forall p q l, prefixb (p ++ q) (p ++ l) = prefixb q l.
Proof. induction p; cbn; intros; auto. now rewrite N.eqb_refl, IHp. Qed.

(* ---------- find_sub / has_sub ---------- *)
Lemma find_sub_unfold : forall w l,
  find_sub w l = if prefixb w l then Some O
                 else match l with [] => None | _ :: r => option_map S (find_sub w r) end.
Proof. destruct l; reflexivity. Qed.
Lemma find_sub_app : forall a w b, find_sub w (a ++ w ++ b) <> None.
Proof.
  induction a as [|x a IH]; intros w b.
  - cbn [app]. rewrite find_sub_unfold, prefixb_app. discriminate.
  - cbn [app]. rewrite find_sub_unfold. destruct (prefixb w (x :: a ++ w ++ b)); [discriminate|].
    specialize (IH w b). destruct (find_sub w (a ++ w ++ b)); cbn; congruence.
Qed.
Lemma has_sub_app : forall a w b, has_sub w (a ++ w ++ b) = true.
Proof. intros. unfold has_sub. pose proof (find_sub_app a w b). destruct (find_sub _ _); congruence. Qed.
Lemma find_sub_some : forall w l k, find_sub w l = Some k ->
  exists a b, l = a ++ w ++ b /\ length a = k.
Proof.
  intros w l; revert w. induction l as [|x l IH]; intros w k H; cbn in H.
  - destruct (prefixb w []) eqn:E; [|discriminate]. inversion H; subst.
    apply prefixb_spec in E as [r Hr]. exists [], r. auto.
  - destruct (prefixb w (x :: l)) eqn:E.
    + inversion H; subst. apply prefixb_spec in E as [r Hr]. exists [], r. auto.
    + destruct (find_sub w l) eqn:F; cbn in H; [|discriminate]. inversion H; subst.
      destruct (IH _ _ F) as (a & b & -> & Hl). exists (x :: a), b. cbn. auto.
Qed.
Lemma has_sub_false_app : forall w a b, has_sub w (a ++ b) = false -> has_sub w a = false /\ has_sub w b = false.
Proof.
  intros w a b H. split.
  - destruct (has_sub w a) eqn:E; auto. unfold has_sub in E. destruct (find_sub w a) eqn:F; [|discriminate].
    apply find_sub_some in F as (x & y & -> & _). rewrite <- !app_assoc in H. now rewrite has_sub_app in H.
  - destruct (has_sub w b) eqn:E; auto. unfold has_sub in E. destruct (find_sub w b) eqn:F; [|discriminate].
    apply find_sub_some in F as (x & y & -> & _). rewrite app_assoc in H. now rewrite has_sub_app in H.
Qed.

(* ---------- replace_first ---------- *)
Lemma skipn_app_len : forall (A : Type) (a b : list A), skipn (length a) (a ++ b) = b.
Proof. induction a; cbn; auto. Qed.
Lemma firstn_app_len : forall (A : Type) (a b : list A), firstn (length a) (a ++ b) = a.
Proof. induction a; cbn; intros; f_equal; auto. Qed.

Lemma replace_first_match : forall old new rest, replace_first old new (old ++ rest) = new ++ rest.
Proof.
  intros. destruct (old ++ rest) eqn:E.
  - destruct old; cbn in E; [|discriminate]. cbn in *. subst. cbn. reflexivity.
  - cbn [replace_first]. rewrite <- E, prefixb_app, skipn_app_len. reflexivity.
Qed.
Lemma replace_first_block : forall old new v rest,
  (forall v1 v2, v = v1 ++ v2 -> v2 <> [] -> prefixb old (v2 ++ rest) = false) ->
  replace_first old new (v ++ rest) = v ++ replace_first old new rest.
Proof.
  induction v as [|x v IH]; intros rest H; [reflexivity|].
  cbn [app replace_first]. change (x :: v ++ rest) with ((x :: v) ++ rest).
  rewrite (H [] (x :: v)) by (auto; discriminate). cbn [app]. f_equal.
  apply IH. intros v1 v2 -> Hne. apply (H (x :: v1) v2); auto.
Qed.

(* ---------- replace_all ---------- *)
Lemma replace_all_skip : forall old new v rest,
  replace_all_aux old new (length v) (v ++ rest) = replace_all_aux old new O rest.
Proof. induction v; cbn; auto. Qed.
Lemma replace_all_match : forall old new rest, old <> [] ->
  replace_all_aux old new O (old ++ rest) = new ++ replace_all_aux old new O rest.
Proof.
  intros old new rest Hne. destruct old as [|a o]; [congruence|].
  cbn [app replace_all_aux]. change (a :: o ++ rest) with ((a :: o) ++ rest). rewrite prefixb_app.
  cbn [length]. rewrite Nat.sub_succ, Nat.sub_0_r. now rewrite replace_all_skip.
Qed.
Lemma replace_all_block : forall old new v rest,
  (forall v1 v2, v = v1 ++ v2 -> v2 <> [] -> prefixb old (v2 ++ rest) = false) ->
  replace_all_aux old new O (v ++ rest) = v ++ replace_all_aux old new O rest.
Proof.
  induction v as [|x v IH]; intros rest H; [reflexivity|].
  cbn [app replace_all_aux]. change (x :: v ++ rest) with ((x :: v) ++ rest).
  rewrite (H [] (x :: v)) by (auto; discriminate). cbn [app]. f_equal.
  apply IH. intros v1 v2 -> Hne. apply (H (x :: v1) v2); auto.
Qed.

(* ---------- replace_multi ---------- *)
Lemma replace_multi_skip : forall pairs v rest,
  replace_multi_aux pairs (length v) (v ++ rest) = replace_multi_aux pairs O rest.
Proof. induction v; cbn; auto. Qed.
Lemma replace_multi_match : forall pairs o n rest, o <> [] ->
  first_match pairs (o ++ rest) = Some (o, n) ->
  replace_multi_aux pairs O (o ++ rest) = n ++ replace_multi_aux pairs O rest.
Proof.
  intros pairs o n rest Hne Hm. destruct o as [|a o]; [congruence|].
  cbn [app replace_multi_aux]. change (a :: o ++ rest) with ((a :: o) ++ rest). rewrite Hm.
  cbn [length]. rewrite Nat.sub_succ, Nat.sub_0_r. now rewrite replace_multi_skip.
Qed.
Lemma replace_multi_block : forall pairs v rest,
  (forall v1 v2, v = v1 ++ v2 -> v2 <> [] -> first_match pairs (v2 ++ rest) = None) ->
  replace_multi_aux pairs O (v ++ rest) = v ++ replace_multi_aux pairs O rest.
Proof.
  induction v as [|x v IH]; intros rest H; [reflexivity|].
  cbn [app replace_multi_aux]. change (x :: v ++ rest) with ((x :: v) ++ rest).
  rewrite (H [] (x :: v)) by (auto; discriminate). cbn [app]. f_equal.
  apply IH. intros v1 v2 -> Hne. apply (H (x :: v1) v2); auto.
Qed.

(* ---------- decimal ---------- *)
Definition digitb (c : N) : bool := is_digit c.
Lemma uint_bytes_digits : forall u, Forall (fun c => is_digit c = true) (uint_bytes u).
Proof. induction u; cbn; constructor; auto. Qed.
Lemma uint_bytes_inj : forall u v, uint_bytes u = uint_bytes v -> u = v.
Proof.
  induction u; destruct v; cbn; intro H; try discriminate; try reflexivity;
    inversion H; f_equal; auto.
Qed.
Lemma dec_inj : forall n m, dec n = dec m -> n = m.
Proof.
  unfold dec. intros n m H. apply uint_bytes_inj in H.
  rewrite <- (DecimalN.Unsigned.of_to n), <- (DecimalN.Unsigned.of_to m). now rewrite H.
Qed.
Lemma dec_digits : forall n, Forall (fun c => is_digit c = true) (dec n).
Proof. intro. apply uint_bytes_digits. Qed.
Lemma dec_nonnil : forall n, dec n <> [].
Proof.
  intro n. unfold dec. destruct n as [|p]; cbn; [discriminate|].
  pose proof (DecimalPos.Unsigned.to_uint_nonnil p) as H.
  destruct (Pos.to_uint p); cbn; try discriminate. congruence.
Qed.
Lemma is_digit_not95 : forall c, is_digit c = true -> c <> 95.
Proof. intros c H ->. discriminate. Qed.

(* digits delimited by "__" determine each other *)
Lemma digits_delim : forall d d' r,
  Forall (fun c => is_digit c = true) d -> Forall (fun c => is_digit c = true) d' ->
  prefixb (d ++ [95; 95]) (d' ++ 95 :: 95 :: r) = true -> d = d'.
Proof.
  induction d as [|x d IH]; intros d' r Hd Hd' H.
  - destruct d' as [|y d']; auto. cbn [app] in H. inversion Hd'; subst.
    apply prefixb_cons in H as [<- _]. discriminate.
  - inversion Hd; subst. destruct d' as [|y d'].
    + cbn [app] in H. apply prefixb_cons in H as [-> _]. discriminate.
    + inversion Hd'; subst. cbn [app] in H. apply prefixb_cons in H as [-> H]. f_equal. eauto.
Qed.

(* ---------- placeholders ---------- *)
Lemma pword_no95 : forall c, Forall (fun x => x <> 95) (pword c) \/ c = PFrom.
Proof. destruct c; [left|left|right]; auto; cbn; repeat constructor; discriminate. Qed.

Lemma ph_bytes_inj : forall c n c' n' r,
  prefixb (ph_bytes c n) (ph_bytes c' n' ++ r) = true -> c = c' /\ n = n'.
Proof.
  intros c n c' n' r H. unfold ph_bytes in H.
  assert (Hd : forall r, prefixb (dec n ++ [95; 95]) (dec n' ++ 95 :: 95 :: r) = true -> n = n').
  { intros r0 H0. apply dec_inj. eapply digits_delim; eauto using dec_digits. }
  destruct c, c'; cbn in H; try discriminate; split; auto;
    repeat (apply andb_true_iff in H as [_ H]); rewrite <- app_assoc in H; eapply Hd; exact H.
Qed.

Lemma render_map_B : forall w, render (map B w) = w.
Proof. induction w; cbn; f_equal; auto. Qed.
Lemma render_app : forall a b, render (a ++ b) = render a ++ render b.
Proof. intros. unfold render. now rewrite flat_map_app. Qed.
Lemma render_cons : forall t ts, render (t :: ts) = render_tok t ++ render ts.
Proof. reflexivity. Qed.

(* A pattern in which every '_' is followed by a byte that is not '_' (so also: does not end
   in '_') can only be matched by copied input bytes: a placeholder starts with "__". *)
Inductive good_pat : list N -> Prop :=
| gp_nil : good_pat []
| gp_other : forall a w, a <> 95 -> good_pat w -> good_pat (a :: w)
| gp_us : forall b w, b <> 95 -> good_pat (b :: w) -> good_pat (95 :: b :: w).

Lemma render_P_starts : forall c n ts, exists r, render (P c n :: ts) = 95 :: 95 :: r.
Proof. intros. cbn. unfold ph_bytes. eexists. reflexivity. Qed.

Lemma core_match : forall w ts, good_pat w -> prefixb w (render ts) = true ->
  exists ts', ts = map B w ++ ts'.
Proof.
  intros w ts Hg. revert ts. induction Hg as [|a w Ha Hg IH|b w Hb Hg IH]; intros ts H.
  - exists ts. reflexivity.
  - destruct ts as [|[x|c n] ts].
    + cbn in H. discriminate.
    + cbn in H. apply andb_true_iff in H as [H1 H2]. apply N.eqb_eq in H1. subst x.
      destruct (IH _ H2) as [ts' ->]. exists ts'. reflexivity.
    + destruct (render_P_starts c n ts) as [r Hr]. rewrite Hr in H. apply prefixb_cons in H as [-> _]. congruence.
  - destruct ts as [|[x|c n] ts].
    + cbn in H. discriminate.
    + rewrite render_cons in H. cbn [render_tok app] in H. apply prefixb_cons in H as [<- H2].
      destruct (IH _ H2) as [ts' ->]. exists ts'. reflexivity.
    + destruct (render_P_starts c n ts) as [r Hr]. rewrite Hr in H.
      apply prefixb_cons in H as [_ H]. apply prefixb_cons in H as [-> _]. congruence.
Qed.
