(* SqlLex - the literals / quoted identifiers delimited by MaskStringLiterals are exactly those of
   the reference lexer, for texts in the guard class (C15_boundaries_guarded).
   Simulation of the masker's segmentation (arc_segs, independent of numbering) and duck_loop by
   strong induction on the length of the remaining text. *)
From Coq Require Import NArith Bool Arith List Lia.
From Arc Require Import SqlLex.Model SqlLex.Lemmas SqlLex.ProofsUnmask SqlLex.ProofsStrip.
Import ListNotations.
Open Scope N_scope.

Definition seg_of (t : dtok) : seg := (match d_kind t with KCom => KCode | k => k end, d_bytes t).
Definition single (x : N) : seg := (KCode, [x]).
Fixpoint explode (l : list seg) : list seg :=
  match l with
  | [] => []
  | (KCode, b) :: r => map single b ++ explode r
  | s :: r => s :: explode r
  end.

Lemma merge_single_run : forall b X, b <> [] ->
  merge_code (map single b ++ X) =
  match merge_code X with (KCode, b') :: r' => (KCode, b ++ b') :: r' | mr => (KCode, b) :: mr end.
Proof.
  induction b as [|x b IH]; intros X Hne; [congruence|]. cbn [map app merge_code single].
  destruct b as [|y b].
  - cbn [map app]. destruct (merge_code X) as [|[[| | |] b'] r']; reflexivity.
  - rewrite IH by discriminate. destruct (merge_code X) as [|[[| | |] b'] r']; reflexivity.
Qed.
Lemma merge_explode : forall l, Forall (fun s => snd s <> []) l -> merge_code (explode l) = merge_code l.
Proof.
  induction l as [|[k b] l IH]; intro H; [reflexivity|]. inversion H; subst. specialize (IH H3). cbn in H2.
  destruct k; cbn [explode merge_code]; rewrite ?IH; try reflexivity.
  rewrite merge_single_run by assumption. rewrite IH. reflexivity.
Qed.

(* ---- the masker's segmentation: skipping, plain runs ---- *)
Lemma last_cons : forall (A : Type) (c : A) x d, last (c :: x) d = last x c.
Proof. intros A c x. revert c. induction x as [|y x IH]; intros c d; [reflexivity|]. cbn [last] in *. destruct x; auto. Qed.

Lemma last_default : forall (A : Type) (b : list A) d d', b <> [] -> last b d = last b d'.
Proof. induction b as [|x b IH]; intros d d' H; [congruence|]. destruct b; [reflexivity|]. cbn [last] in *. apply IH. discriminate. Qed.

Lemma last_app2 : forall (x : list N) a b d, last (x ++ [a; b]) d = b.
Proof. induction x as [|y x IH]; intros; [reflexivity|]. cbn [app]. rewrite last_cons. apply IH. Qed.

Lemma arc_segs_skip : forall l k prev, arc_segs k prev l = arc_segs O (last (firstn k l) prev) (skipn k l).
Proof.
  induction l as [|c r IH]; intros k prev.
  - destruct k; reflexivity.
  - destruct k as [|k]; [reflexivity|]. cbn [arc_segs firstn skipn]. rewrite last_cons. apply IH.
Qed.

Definition is_e (c : N) : bool := (c =? 101) || (c =? 69).

Lemma mask_step_plain : forall prev c r idx idents, is_quote_char c = false ->
  negb (is_e c) || negb (starts_with 39 r) = true -> mask_step prev c r idx idents = None.
Proof.
  intros prev c r idx idents Hq He. unfold is_quote_char in Hq.
  apply orb_false_iff in Hq as [Hq H36]. apply orb_false_iff in Hq as [H39 H34].
  unfold mask_step. rewrite H36.
  replace (((c =? 101) || (c =? 69)) && match r with [] => false | q :: _ => q =? 39 end) with false.
  - cbn [andb]. now rewrite H39, H34.
  - symmetry. unfold is_e, starts_with in He. destruct ((c =? 101) || (c =? 69)); cbn in *; auto.
    destruct r; auto. now apply negb_true_iff in He.
Qed.

Lemma plain_run : forall b rest prev,
  forallb (fun c => negb (is_quote_char c)) b = true ->
  negb (is_e (last b 0)) || negb (starts_with 39 rest) = true ->
  arc_segs O prev (b ++ rest) = map single b ++ arc_segs O (last b prev) rest.
Proof.
  induction b as [|x b IH]; intros rest prev Hq He; [reflexivity|].
  cbn [forallb] in Hq. apply andb_true_iff in Hq as [Hx Hq]. apply negb_true_iff in Hx.
  cbn [app arc_segs]. rewrite mask_step_plain; auto.
  - cbn [map app]. f_equal. rewrite last_cons. apply IH; auto. rewrite last_cons in He.
    destruct b as [|y b]; [reflexivity|]. rewrite (last_default _ (y :: b) 0 x) by discriminate. exact He.
  - destruct b as [|y b].
    + cbn [app]. exact He.
    + cbn [app starts_with]. cbn [forallb] in Hq. apply andb_true_iff in Hq as [Hy _].
      apply negb_true_iff in Hy. unfold is_quote_char in Hy. apply orb_false_iff in Hy as [Hy _].
      apply orb_false_iff in Hy as [Hy _]. rewrite Hy. apply orb_true_r.
Qed.

(* ---- the masker's step, case by case ---- *)
Lemma step_sq : forall prev r, exists st, mask_step prev 39 r 0 [] = Some st
  /\ st_n st = S (scan_quoted 39 39 r) /\ tok_kind (st_tok st) = KStr.
Proof. intros. unfold mask_step. cbn. eexists. split; [reflexivity|]. cbn. auto. Qed.
Lemma step_dq : forall prev r, exists st, mask_step prev 34 r 0 [] = Some st
  /\ st_n st = S (scan_quoted 34 34 r) /\ tok_kind (st_tok st) = KQId.
Proof. intros. unfold mask_step. cbn. eexists. split; [reflexivity|]. cbn. auto. Qed.
Lemma step_e : forall prev c r2, is_e c = true -> is_ident_byte prev = false ->
  exists st, mask_step prev c (39 :: r2) 0 [] = Some st
  /\ st_n st = (2 + scan_quoted 39 39 r2)%nat /\ tok_kind (st_tok st) = KStr.
Proof.
  intros prev c r2 He Hp. unfold mask_step. unfold is_e in He.
  replace (c =? 36) with false by (apply orb_true_iff in He as [He|He]; apply N.eqb_eq in He; subst; reflexivity).
  rewrite He, Hp. cbn. eexists. split; [reflexivity|]. cbn. auto.
Qed.
Definition dollar_len (tag l : list N) : nat :=
  let closing := 36 :: tag ++ [36] in
  match find_sub closing (skipn (length closing) l) with
  | Some e => (length closing + e + length closing)%nat
  | None => length l
  end.
Lemma step_dollar : forall prev r tag, is_ident_byte prev = false -> tag_scan true r = Some tag ->
  exists st, mask_step prev 36 r 0 [] = Some st
  /\ st_n st = dollar_len tag (36 :: r) /\ tok_kind (st_tok st) = KStr.
Proof.
  intros prev r tag Hp Ht. unfold mask_step, dollar_tag. change (36 =? 36) with true. rewrite Hp. cbn [andb negb]. rewrite Ht.
  unfold dollar_len. cbv zeta. destruct (find_sub _ _); eexists; (split; [reflexivity|]); cbn; auto.
Qed.
Lemma step_dollar_none : forall prev r idx idents,
  (is_ident_byte prev = true \/ tag_scan true r = None) -> mask_step prev 36 r idx idents = None.
Proof.
  intros prev r idx idents H. unfold mask_step, dollar_tag. change (36 =? 36) with true. cbn [andb].
  destruct H as [H|H]; [rewrite H; cbn [negb]|destruct (negb _); [rewrite H|]]; reflexivity.
Qed.

(* ---- scanning agreement under "no backslash before a quote" ---- *)
Lemma no_bs_quote_tl : forall c r, no_bs_quote (c :: r) = true -> no_bs_quote r = true.
Proof. intros c r H. destruct r as [|d r]; [reflexivity|]. cbn [no_bs_quote] in H. now apply andb_true_iff in H. Qed.
Lemma no_bs_quote_skipn : forall k l, no_bs_quote l = true -> no_bs_quote (skipn k l) = true.
Proof. induction k; intros l H; [exact H|]. destruct l; [exact H|]. cbn [skipn]. eapply IHk, no_bs_quote_tl; eauto. Qed.
Lemma no_bs_quote_hd : forall c d r, no_bs_quote (c :: d :: r) = true -> (d = 39 \/ d = 34) -> c <> 92.
Proof.
  intros c d r H Hd E. subst c. cbn [no_bs_quote] in H. apply andb_true_iff in H as [H _].
  apply negb_true_iff in H. destruct Hd; subst; discriminate.
Qed.

Lemma scan_quoted_unfold : forall q prev c r,
  scan_quoted q prev (c :: r) =
  if c =? q then
    match r with
    | c2 :: r2 => if c2 =? q then S (S (scan_quoted q c2 r2))
                  else if prev =? 92 then S (scan_quoted q c r) else 1%nat
    | [] => if prev =? 92 then S (scan_quoted q c r) else 1%nat
    end
  else S (scan_quoted q c r).
Proof. reflexivity. Qed.
Lemma duck_quoted_unfold : forall q c r,
  duck_quoted q (c :: r) =
  if c =? q then
    match r with
    | c2 :: r2 => if c2 =? q then let '(n, t) := duck_quoted q r2 in (S (S n), t) else (1%nat, true)
    | [] => (1%nat, true)
    end
  else let '(n, t) := duck_quoted q r in (S n, t).
Proof. reflexivity. Qed.

Lemma scan_quoted_duck : forall n q l prev, (length l <= n)%nat -> (q = 39 \/ q = 34) ->
  no_bs_quote (prev :: l) = true -> scan_quoted q prev l = fst (duck_quoted q l).
Proof.
  induction n as [|n IH]; intros q l prev Hl Hq G.
  { destruct l; [reflexivity|cbn in Hl; lia]. }
  destruct l as [|c r]; [reflexivity|]. rewrite scan_quoted_unfold, duck_quoted_unfold.
  pose proof (no_bs_quote_tl _ _ G) as G1.
  destruct (c =? q) eqn:Ec.
  - apply N.eqb_eq in Ec. subst c.
    assert (Hp : prev =? 92 = false) by (apply N.eqb_neq; eapply no_bs_quote_hd; eauto).
    destruct r as [|c2 r2]; [now rewrite Hp|]. destruct (c2 =? q) eqn:E2; [|now rewrite Hp].
    rewrite (IH q r2 c2); auto.
    + destruct (duck_quoted q r2); reflexivity.
    + cbn [length] in Hl. lia.
    + eapply no_bs_quote_tl; eauto.
  - rewrite (IH q r c); auto; [destruct (duck_quoted q r); reflexivity|cbn [length] in Hl; lia].
Qed.

Lemma duck_estring_unfold : forall c r,
  duck_estring (c :: r) =
  if c =? 92 then match r with _ :: r2 => let '(n, t) := duck_estring r2 in (S (S n), t) | [] => (1%nat, false) end
  else if c =? 39 then
    match r with
    | c2 :: r2 => if c2 =? 39 then let '(n, t) := duck_estring r2 in (S (S n), t) else (1%nat, true)
    | [] => (1%nat, true)
    end
  else let '(n, t) := duck_estring r in (S n, t).
Proof. reflexivity. Qed.

Lemma scan_quoted_estring : forall n l prev, (length l <= n)%nat ->
  no_bs_quote (prev :: l) = true -> scan_quoted 39 prev l = fst (duck_estring l).
Proof.
  induction n as [|n IH]; intros l prev Hl G.
  { destruct l; [reflexivity|cbn in Hl; lia]. }
  destruct l as [|c r]; [reflexivity|]. rewrite scan_quoted_unfold, duck_estring_unfold.
  pose proof (no_bs_quote_tl _ _ G) as G1. cbn [length] in Hl.
  destruct (c =? 92) eqn:E92.
  - apply N.eqb_eq in E92. subst c. change (92 =? 39) with false. cbv iota.
    destruct r as [|x r2]; [reflexivity|].
    assert (Hx : x =? 39 = false).
    { apply N.eqb_neq. intro E. subst x. eapply (no_bs_quote_hd 92 39); eauto. }
    rewrite scan_quoted_unfold, Hx. rewrite (IH r2 x); [destruct (duck_estring r2); reflexivity| |].
    + cbn [length] in Hl. lia.
    + eapply no_bs_quote_tl; eauto.
  - destruct (c =? 39) eqn:Ec.
    + apply N.eqb_eq in Ec. subst c.
      assert (Hp : prev =? 92 = false) by (apply N.eqb_neq; eapply no_bs_quote_hd; eauto).
      destruct r as [|c2 r2]; [now rewrite Hp|]. destruct (c2 =? 39) eqn:E2; [|now rewrite Hp].
      rewrite (IH r2 c2); [destruct (duck_estring r2); reflexivity| |].
      * cbn [length] in Hl. lia.
      * eapply no_bs_quote_tl; eauto.
    + rewrite (IH r c); auto; [destruct (duck_estring r); reflexivity|lia].
Qed.

(* ---- dollar tags ---- *)
Lemma tag_scan_duck : forall f r tag, tag_scan f r = Some tag -> duck_tag f r = Some tag.
Proof.
  intros f r. revert f. induction r as [|c r IH]; intros f tag H; [discriminate|]. cbn in *.
  destruct (c =? 36); [exact H|].
  destruct (is_alpha_us c || is_digit c && negb f) eqn:E; [|discriminate].
  destruct (tag_scan false r) as [t|] eqn:Et; [|discriminate]. cbn in H. inversion H; subst.
  rewrite (IH _ _ Et). cbn.
  replace (if f then d_ident_start c else d_tag_cont c) with true; [reflexivity|].
  symmetry. unfold d_tag_cont, d_ident_start. destruct f.
  - cbn in E. rewrite andb_false_r, orb_false_r in E. now rewrite E.
  - apply orb_true_iff in E as [E|E]; [now rewrite E|]. apply andb_true_iff in E as [E _]. rewrite E. apply orb_true_r.
Qed.
Lemma duck_tag_scan : forall f r tag, duck_tag f r = Some tag ->
  forallb (fun x => negb (is_high x)) tag = true -> tag_scan f r = Some tag.
Proof.
  intros f r. revert f. induction r as [|c r IH]; intros f tag H Hh; [discriminate|]. cbn in *.
  destruct (c =? 36); [exact H|].
  destruct (if f then d_ident_start c else d_tag_cont c) eqn:E; [|discriminate].
  destruct (duck_tag false r) as [t|] eqn:Et; [|discriminate]. cbn in H. inversion H; subst.
  cbn [forallb] in Hh. apply andb_true_iff in Hh as [Hc Hh]. apply negb_true_iff in Hc.
  rewrite (IH _ _ Et Hh). cbn.
  replace (is_alpha_us c || is_digit c && negb f) with true; [reflexivity|].
  symmetry. unfold d_tag_cont, d_ident_start in E. rewrite Hc in E. destruct f.
  - rewrite orb_false_r in E. now rewrite E.
  - rewrite orb_false_r in E. apply orb_true_iff in E as [E|E]; rewrite E; cbn; auto. apply orb_true_r.
Qed.
Lemma duck_tag_shape : forall f r tag, duck_tag f r = Some tag -> exists rest, r = tag ++ 36 :: rest /\ until_dollar r = tag.
Proof.
  intros f r. revert f. induction r as [|c r IH]; intros f tag H; [discriminate|]. cbn in *.
  destruct (c =? 36) eqn:E36.
  - inversion H; subst. apply N.eqb_eq in E36. subst. exists r. auto.
  - destruct (if f then _ else _); [|discriminate]. destruct (duck_tag false r) as [t|] eqn:Et; [|discriminate].
    cbn in H. inversion H; subst. destruct (IH _ _ Et) as (rest & -> & Hu). exists rest. cbn. split; auto. now rewrite Hu.
Qed.
Lemma until_dollar_firstn : forall tag rest k, (length tag < k)%nat -> forallb (fun x => negb (x =? 36)) tag = true ->
  until_dollar (firstn k (tag ++ 36 :: rest)) = tag.
Proof.
  induction tag as [|x tag IH]; intros rest k Hk Hd.
  - destruct k; [cbn in Hk; lia|]. reflexivity.
  - destruct k; [cbn in Hk; lia|]. cbn [forallb] in Hd. apply andb_true_iff in Hd as [Hx Hd]. apply negb_true_iff in Hx.
    cbn [app firstn until_dollar]. rewrite Hx. f_equal. apply IH; auto. cbn in Hk. lia.
Qed.
Lemma until_dollar_no36 : forall r, forallb (fun x => negb (x =? 36)) (until_dollar r) = true.
Proof. induction r as [|c r IH]; [reflexivity|]. cbn. destruct (c =? 36) eqn:E; [reflexivity|]. cbn. now rewrite E. Qed.

(* ---- comments end where nothing can follow an e/E prefix ---- *)
Lemma duck_line_next : forall l, match skipn (duck_line l) l with x :: _ => x = 10 \/ x = 13 | [] => True end.
Proof.
  induction l as [|c r IH]; [exact I|]. cbn [duck_line]. destruct ((c =? 10) || (c =? 13)) eqn:E.
  - cbn [skipn]. apply orb_true_iff in E as [E|E]; apply N.eqb_eq in E; auto.
  - cbn [skipn]. exact IH.
Qed.
Lemma duck_block_end : forall n r2 depth nb t, (length r2 <= n)%nat -> duck_block depth r2 = (nb, t) ->
  (t = true /\ exists pre, firstn nb r2 = pre ++ [42; 47]) \/ (t = false /\ nb = length r2).
Proof.
  induction n as [|n IH]; intros r2 depth nb t Hl H.
  { destruct r2; [|cbn in Hl; lia]. cbn in H. inversion H. right. auto. }
  destruct r2 as [|a r]; [cbn in H; inversion H; right; auto|]. destruct r as [|b r3]; [cbn in H; inversion H; right; auto|].
  rewrite duck_block_unfold in H. cbn [length] in Hl.
  destruct ((a =? 47) && (b =? 42)).
  - destruct (duck_block (S depth) r3) as [n' t'] eqn:E. injection H as <- <-.
    destruct (IH r3 _ _ _ ltac:(lia) E) as [[-> [pre Hp]]|[-> ->]].
    + left. split; auto. exists (a :: b :: pre). cbn [firstn app]. now rewrite Hp.
    + right. auto.
  - destruct ((a =? 42) && (b =? 47)) eqn:E2.
    + apply andb_true_iff in E2 as [Ea Eb]. apply N.eqb_eq in Ea, Eb. subst. destruct depth as [|dp].
      * injection H as <- <-. left. split; auto. exists []. reflexivity.
      * destruct (duck_block dp r3) as [n' t'] eqn:E. injection H as <- <-.
        destruct (IH r3 _ _ _ ltac:(lia) E) as [[-> [pre Hp]]|[-> ->]].
        -- left. split; auto. exists (42 :: 47 :: pre). cbn [firstn app]. now rewrite Hp.
        -- right. auto.
    + destruct (duck_block depth (b :: r3)) as [n' t'] eqn:E. injection H as <- <-.
      destruct (IH (b :: r3) _ _ _ ltac:(cbn [length]; lia) E) as [[-> [pre Hp]]|[-> Hn]].
      * left. split; auto. exists (a :: pre). cbn [firstn app]. now rewrite Hp.
      * right. split; auto. cbn [length] in *. lia.
Qed.

Lemma mask_step_none_gen : forall prev c r idx idents, is_quote_char c = false ->
  is_e c && starts_with 39 r && negb (is_ident_byte prev) = false -> mask_step prev c r idx idents = None.
Proof.
  intros prev c r idx idents Hq He. unfold is_quote_char in Hq.
  apply orb_false_iff in Hq as [Hq H36]. apply orb_false_iff in Hq as [H39 H34].
  unfold mask_step. rewrite H36. unfold is_e, starts_with in He.
  rewrite He. now rewrite H39, H34.
Qed.

Lemma lex_guard_loop_cons : forall prev t r,
  lex_guard_loop true true prev (t :: r) =
  (match d_kind t with
   | KCom => forallb (fun c => negb (is_quote_char c)) (d_bytes t)
   | KCode =>
       match d_bytes t with
       | [c] => if (c =? 36) || (((c =? 101) || (c =? 69))
                                 && match r with t2 :: _ => starts_with 39 (d_bytes t2) | [] => false end)
                then implb (d_ctx t) (is_ident_byte prev) else true
       | _ => true
       end
   | KStr =>
       match d_bytes t with
       | c :: b' => if c =? 36 then negb (is_ident_byte prev)
                                    && forallb (fun x => negb (is_high x)) (until_dollar b')
                    else if (c =? 101) || (c =? 69) then negb (is_ident_byte prev)
                    else true
       | [] => true
       end
   | KQId => true
   end) && lex_guard_loop true true (last (d_bytes t) prev) r.
Proof. intros. cbn [lex_guard_loop negb orb]. destruct (d_kind t); reflexivity. Qed.

Lemma firstn_last_skip : forall m (c : N) r prev, (1 <= m)%nat ->
  last (firstn (m - 1) r) c = last (firstn m (c :: r)) prev /\ skipn (m - 1) r = skipn m (c :: r).
Proof.
  intros m c r prev Hm. destruct m as [|m]; [lia|]. rewrite Nat.sub_succ, Nat.sub_0_r. cbn [firstn skipn].
  now rewrite last_cons.
Qed.

Lemma explode_cons_nc : forall k b r, k <> KCode -> explode ((k, b) :: r) = (k, b) :: explode r.
Proof. intros k b r H. destruct k; try reflexivity. congruence. Qed.

Section Sim.
Variable n : nat.
Hypothesis IH : forall l prev inid, (length l <= n)%nat -> no_bs_quote l = true ->
  lex_guard_loop true true prev (duck_loop O inid l) = true ->
  arc_segs O prev l = explode (map seg_of (duck_loop O inid l)).

(* a literal token: both sides emit the same segment and resume at the same place *)
Lemma sim_literal : forall c r prev inid m kind st,
  (length (c :: r) <= S n)%nat -> no_bs_quote (c :: r) = true ->
  let tk := duck_step inid c r in
  d_bytes tk = firstn m (c :: r) -> (1 <= m)%nat ->
  d_kind tk = kind -> (kind = KStr \/ kind = KQId) ->
  mask_step prev c r 0 [] = Some st -> st_n st = m -> tok_kind (st_tok st) = kind ->
  lex_guard_loop true true (last (d_bytes tk) prev)
    (duck_loop O (next_inid inid tk) (skipn (length (d_bytes tk) - 1) r)) = true ->
  arc_segs O prev (c :: r) = explode (map seg_of (duck_loop O inid (c :: r))).
Proof.
  intros c r prev inid m kind st Hl Hbs tk Hb Hm Hk Hkk Hst Hn Htk G.
  assert (Hs : skipn (length (d_bytes tk) - 1) r = skipn m (c :: r)).
  { rewrite Hb. destruct (skipn_firstn_len _ m (c :: r)) as [E|E]; [exact E|lia]. }
  rewrite duck_loop_cons. fold tk. rewrite Hs in *. cbn [map]. unfold seg_of at 1. rewrite Hk, Hb.
  assert (Hk1 : forall X, explode ((match kind with KStr => KStr | KQId => KQId | _ => KCode end, firstn m (c :: r)) :: X)
                          = (kind, firstn m (c :: r)) :: explode X).
  { intro X. destruct Hkk as [E|E]; rewrite E; reflexivity. }
  rewrite Hk1.
  cbn [arc_segs]. rewrite Hst, Hn, Htk. f_equal.
  rewrite arc_segs_skip. destruct (firstn_last_skip m c r prev Hm) as [E1 E2]. rewrite E1, E2.
  rewrite Hb in G. apply IH; auto.
  - rewrite skipn_length. cbn [length] in *. lia.
  - now apply no_bs_quote_skipn.
Qed.

Lemma sim_comment : forall c r prev inid m,
  (length (c :: r) <= S n)%nat -> no_bs_quote (c :: r) = true ->
  let tk := duck_step inid c r in
  d_bytes tk = firstn m (c :: r) -> (1 <= m)%nat -> d_kind tk = KCom ->
  forallb (fun x => negb (is_quote_char x)) (d_bytes tk) = true ->
  negb (is_e (last (d_bytes tk) 0)) || negb (starts_with 39 (skipn m (c :: r))) = true ->
  lex_guard_loop true true (last (d_bytes tk) prev)
    (duck_loop O (next_inid inid tk) (skipn (length (d_bytes tk) - 1) r)) = true ->
  arc_segs O prev (c :: r) = explode (map seg_of (duck_loop O inid (c :: r))).
Proof.
  intros c r prev inid m Hl Hbs tk Hb Hm Hk Hq He G.
  assert (Hs : skipn (length (d_bytes tk) - 1) r = skipn m (c :: r)).
  { rewrite Hb. destruct (skipn_firstn_len _ m (c :: r)) as [E|E]; [exact E|lia]. }
  rewrite duck_loop_cons. fold tk. rewrite Hs in *. cbn [map]. unfold seg_of at 1. rewrite Hk.
  cbn [explode]. rewrite <- (firstn_skipn m (c :: r)) at 1. rewrite <- Hb.
  rewrite plain_run by assumption. f_equal. apply IH; auto.
  - rewrite skipn_length. cbn [length] in *. lia.
  - now apply no_bs_quote_skipn.
Qed.

Lemma sim_code : forall c r prev inid,
  (length (c :: r) <= S n)%nat -> no_bs_quote (c :: r) = true ->
  let tk := duck_step inid c r in
  d_bytes tk = [c] -> d_kind tk = KCode -> mask_step prev c r 0 [] = None ->
  lex_guard_loop true true (last (d_bytes tk) prev)
    (duck_loop O (next_inid inid tk) (skipn (length (d_bytes tk) - 1) r)) = true ->
  arc_segs O prev (c :: r) = explode (map seg_of (duck_loop O inid (c :: r))).
Proof.
  intros c r prev inid Hl Hbs tk Hb Hk Hst G.
  rewrite duck_loop_cons. fold tk. rewrite Hb in *. cbn [length Nat.sub skipn last] in *.
  cbn [map]. unfold seg_of at 1. rewrite Hk, Hb. cbn [explode map app single]. cbn [arc_segs]. rewrite Hst.
  f_equal. apply IH; auto.
  - cbn [length] in Hl. lia.
  - eapply no_bs_quote_tl; eauto.
Qed.
End Sim.

(* ---- what duck_step can do ---- *)
Lemma duck_step_ctx : forall inid c r, d_ctx (duck_step inid c r) = inid.
Proof.
  intros. unfold duck_step.
  repeat match goal with
         | |- context [if ?X then _ else _] => destruct X
         | |- context [let '(_, _) := ?X in _] => destruct X
         | |- context [match ?X with Some _ => _ | None => _ end] => destruct X
         end; reflexivity.
Qed.

Definition code_cond (inid : bool) (c : N) (r : list N) : Prop :=
  c <> 39 /\ c <> 34 /\ is_e c && starts_with 39 r && negb inid = false
  /\ (c = 36 -> inid = true \/ duck_tag true r = None)
  /\ (c =? 45) && starts_with 45 r = false /\ (c =? 47) && starts_with 42 r = false.

Lemma duck_step_cases : forall inid c r, let tk := duck_step inid c r in let l := c :: r in
  (c = 45 /\ d_kind tk = KCom /\ d_bytes tk = firstn (duck_line l) l /\ (2 <= duck_line l)%nat /\ exists r2, r = 45 :: r2) \/
  (c = 47 /\ d_kind tk = KCom /\ exists nb t, duck_block O (tl r) = (nb, t) /\ d_bytes tk = firstn (2 + nb) l /\ exists r2, r = 42 :: r2) \/
  (c = 39 /\ d_kind tk = KStr /\ d_bytes tk = firstn (S (fst (duck_quoted 39 r))) l) \/
  (c = 34 /\ d_kind tk = KQId /\ d_bytes tk = firstn (S (fst (duck_quoted 34 r))) l) \/
  (is_e c = true /\ inid = false /\ (exists r2, r = 39 :: r2) /\ d_kind tk = KStr
     /\ d_bytes tk = firstn (2 + fst (duck_estring (tl r))) l) \/
  (c = 36 /\ inid = false /\ exists tag, duck_tag true r = Some tag /\ d_kind tk = KStr
     /\ d_bytes tk = firstn (dollar_len tag l) l) \/
  (d_kind tk = KCode /\ d_bytes tk = [c] /\ code_cond inid c r).
Proof.
  intros inid c r tk l. subst tk. unfold duck_step. fold l.
  destruct ((c =? 45) && match r with [] => false | _ :: _ => true end && (match r with [] => 0 | d :: _ => d end =? 45)) eqn:E1.
  { left. apply andb_true_iff in E1 as [E1 E1b]. apply andb_true_iff in E1 as [E1 _]. apply N.eqb_eq in E1. subst c.
    destruct r as [|d r2]; [discriminate|]. apply N.eqb_eq in E1b. subst d. repeat split; eauto. unfold l. cbn. lia. }
  right. destruct ((c =? 47) && match r with [] => false | _ :: _ => true end && (match r with [] => 0 | d :: _ => d end =? 42)) eqn:E2.
  { left. apply andb_true_iff in E2 as [E2 E2b]. apply andb_true_iff in E2 as [E2 _]. apply N.eqb_eq in E2. subst c.
    destruct r as [|d r2]; [discriminate|]. apply N.eqb_eq in E2b. subst d.
    destruct (duck_block 0 (tl (42 :: r2))) as [nb t] eqn:Eb. repeat split; auto. exists nb, t. eauto. }
  right. destruct (c =? 39) eqn:E3.
  { left. apply N.eqb_eq in E3. subst c. destruct (duck_quoted 39 r) as [nq t]. repeat split; auto. }
  right. destruct (c =? 34) eqn:E4.
  { left. apply N.eqb_eq in E4. subst c. destruct (duck_quoted 34 r) as [nq t]. repeat split; auto. }
  right. destruct (((c =? 101) || (c =? 69)) && match r with [] => false | _ :: _ => true end
                   && (match r with [] => 0 | d :: _ => d end =? 39) && negb inid) eqn:E5.
  { left. apply andb_true_iff in E5 as [E5 Ei]. apply andb_true_iff in E5 as [E5 E39]. apply andb_true_iff in E5 as [E5 _].
    apply negb_true_iff in Ei. destruct r as [|d r2]; [discriminate|]. apply N.eqb_eq in E39. subst d.
    destruct (duck_estring (tl (39 :: r2))) as [ne t]. repeat split; eauto. }
  right. destruct (if (c =? 36) && negb inid then duck_tag true r else None) as [tag|] eqn:E6.
  { left. destruct ((c =? 36) && negb inid) eqn:E6a; [|discriminate]. apply andb_true_iff in E6a as [Ec Ei].
    apply N.eqb_eq in Ec. apply negb_true_iff in Ei. subst c. repeat split; auto. exists tag. split; auto.
    unfold dollar_len. cbv zeta. destruct (find_sub _ _); split; reflexivity. }
  right. repeat split; auto.
  - intro E. subst c. discriminate.
  - intro E. subst c. discriminate.
  - unfold is_e, starts_with. destruct r as [|d r2]; [now rewrite andb_false_r|].
    rewrite !andb_true_r in E5. exact E5.
  - intro E. subst c. change (36 =? 36) with true in E6. cbn [andb] in E6. destruct inid; auto.
  - unfold starts_with. destruct r as [|d r2]; [apply andb_false_r|]. rewrite andb_true_r in E1. exact E1.
  - unfold starts_with. destruct r as [|d r2]; [apply andb_false_r|]. rewrite andb_true_r in E2. exact E2.
Qed.

Lemma lex_sim : forall n l prev inid, (length l <= n)%nat -> no_bs_quote l = true ->
  lex_guard_loop true true prev (duck_loop O inid l) = true ->
  arc_segs O prev l = explode (map seg_of (duck_loop O inid l)).
Proof.
  induction n as [|n IH]; intros l prev inid Hl Hbs G.
  { destruct l; [reflexivity|cbn in Hl; lia]. }
  destruct l as [|c r]; [reflexivity|].
  pose proof (duck_step_ctx inid c r) as Hctx.
  rewrite duck_loop_cons, lex_guard_loop_cons in G. apply andb_true_iff in G as [Gk Grest].
  destruct (duck_step_cases inid c r) as [(Hc & Hk & Hb & Hm & _)|[(Hc & Hk & nb & t & Hblk & Hb & _)|[(Hc & Hk & Hb)|[(Hc & Hk & Hb)|
     [(Hc & Hi & [r2 Hr] & Hk & Hb)|[(Hc & Hi & tag & Htag & Hk & Hb)|(Hk & Hb & Hcc)]]]]]].
  - (* line comment *)
    rewrite Hk in Gk. eapply (sim_comment n IH c r prev inid (duck_line (c :: r))); eauto; [lia|].
    pose proof (duck_line_next (c :: r)) as Hnx. destruct (skipn (duck_line (c :: r)) (c :: r)) as [|x rest].
    + apply orb_true_r.
    + cbn [starts_with]. destruct Hnx as [->| ->]; apply orb_true_r.
  - (* block comment *)
    rewrite Hk in Gk. eapply (sim_comment n IH c r prev inid (2 + nb)); eauto; [lia|].
    destruct (duck_block_end (length (tl r)) (tl r) 0 nb t (le_n _) Hblk) as [[-> [pre Hp]]|[-> ->]].
    + rewrite Hb. subst c. destruct r as [|d r2]; [cbn in Hp; destruct pre; discriminate|].
      cbn [tl] in Hp. cbn [plus firstn]. rewrite Hp.
      change (47 :: d :: pre ++ [42; 47]) with ((47 :: d :: pre) ++ [42; 47]). now rewrite last_app2.
    + replace (skipn (2 + length (tl r)) (c :: r)) with (@nil N); [apply orb_true_r|].
      symmetry. apply skipn_all2. destruct r; cbn [tl length]; lia.
  - (* '...' *)
    subst c. destruct (step_sq prev r) as (st & Hst & Hn & Htk).
    eapply (sim_literal n IH 39 r prev inid _ KStr st); eauto; [lia|].
    rewrite Hn. f_equal. apply (scan_quoted_duck (length r)); auto.
  - (* "..." *)
    subst c. destruct (step_dq prev r) as (st & Hst & Hn & Htk).
    eapply (sim_literal n IH 34 r prev inid _ KQId st); eauto; [lia|].
    rewrite Hn. f_equal. apply (scan_quoted_duck (length r)); auto.
  - (* E'...' *)
    subst r. rewrite Hk, Hb in Gk. cbn [plus firstn] in Gk.
    assert (Hc36 : c =? 36 = false).
    { unfold is_e in Hc. apply orb_true_iff in Hc as [Hc|Hc]; apply N.eqb_eq in Hc; subst; reflexivity. }
    rewrite Hc36 in Gk. unfold is_e in Hc. rewrite Hc in Gk. apply negb_true_iff in Gk.
    destruct (step_e prev c r2 Hc Gk) as (st & Hst & Hn & Htk).
    eapply (sim_literal n IH c (39 :: r2) prev inid _ KStr st); eauto; [lia|].
    rewrite Hn. cbn [tl]. f_equal. apply (scan_quoted_estring (length r2)); auto.
    eapply no_bs_quote_tl; eauto.
  - (* $tag$...$tag$ *)
    subst c. rewrite Hk, Hb in Gk.
    destruct (duck_tag_shape _ _ _ Htag) as (rest & Hr & Hu).
    assert (Hlen : (length tag + 2 <= dollar_len tag (36%N :: r))%nat).
    { unfold dollar_len. cbv zeta. destruct (find_sub _ _); cbn [length]; rewrite ?app_length; cbn [length]; try lia.
      rewrite Hr, app_length. cbn [length]. lia. }
    destruct (dollar_len tag (36 :: r)) as [|m1] eqn:Edl; [lia|]. cbn [firstn] in Gk.
    change (36 =? 36) with true in Gk. cbv iota in Gk. apply andb_true_iff in Gk as [Gp Gh]. apply negb_true_iff in Gp.
    assert (Htg : until_dollar (firstn m1 r) = tag).
    { rewrite Hr. apply until_dollar_firstn; [lia|]. rewrite <- Hu. apply until_dollar_no36. }
    rewrite Htg in Gh. pose proof (duck_tag_scan _ _ _ Htag Gh) as Hts.
    destruct (step_dollar prev r tag Gp Hts) as (st & Hst & Hn & Htk).
    eapply (sim_literal n IH 36 r prev inid (S m1) KStr st); eauto; try lia; rewrite <- Edl; auto.
  - (* ordinary byte *)
    destruct Hcc as (H39 & H34 & He & H36 & _ & _).
    eapply (sim_code n IH c r prev inid); eauto.
    rewrite Hk, Hb, Hctx in Gk.
    destruct (N.eq_dec c 36) as [->|Hn36].
    + apply step_dollar_none. change (36 =? 36) with true in Gk. cbn [orb] in Gk.
      destruct (H36 eq_refl) as [->|Hnone].
      * left. exact Gk.
      * right. destruct (tag_scan true r) as [tg|] eqn:Ets; [|reflexivity].
        apply tag_scan_duck in Ets. congruence.
    + apply mask_step_none_gen.
      * unfold is_quote_char. apply N.eqb_neq in H39, H34, Hn36. now rewrite H39, H34, Hn36.
      * destruct (is_e c && starts_with 39 r) eqn:Ee; [|reflexivity]. cbn [andb].
        cbn [andb] in He. apply negb_false_iff in He. subst inid.
        apply andb_true_iff in Ee as [Ee Es]. apply N.eqb_neq in Hn36. rewrite Hn36 in Gk. cbn [orb] in Gk.
        unfold is_e in Ee. rewrite Ee in Gk. cbn [andb] in Gk.
        destruct r as [|d r2]; [discriminate|]. cbn [starts_with] in Es. apply N.eqb_eq in Es. subst d.
        cbn [length Nat.sub skipn] in Gk. rewrite duck_loop_cons in Gk.
        match type of Gk with context [duck_step ?b 39 r2] => destruct (duck_step_hd b 39 r2) as [y Hy]; rewrite Hy in Gk end.
        cbn [starts_with] in Gk. change (39 =? 39) with true in Gk. cbn [implb] in Gk. now rewrite Gk.
Qed.

Lemma duck_loop_nonempty : forall l k inid, Forall (fun t => d_bytes t <> []) (duck_loop k inid l).
Proof.
  induction l as [|c r IH]; intros k inid; [destruct k; constructor|].
  destruct k as [|k]; cbn [duck_loop]; [|apply IH]. constructor; [|apply IH].
  destruct (duck_step_hd inid c r) as [y ->]. discriminate.
Qed.

Theorem boundaries_guarded : forall s, lex_guard s = true -> arc_view s = duck_view s.
Proof.
  intros s G. unfold lex_guard in G. apply andb_true_iff in G as [G Gl]. apply andb_true_iff in G as [Gn Gb].
  unfold arc_view, duck_view, duck_lex in *. rewrite until_nul_id in * by assumption.
  destruct (mask_toks s) as [t m] eqn:E. unfold mask_toks in E.
  destruct (mask_loop_spec s O 0 0 [] [] t m E) as (Hsg & _); auto.
  - intros i x Hx. destruct i; discriminate.
  - intros k j Hk. discriminate.
  - cbn [app] in Hsg. rewrite Hsg. rewrite (lex_sim (length s) s 0 false); auto.
    change (fun t0 : dtok => (match d_kind t0 with KCom => KCode | k => k end, d_bytes t0)) with seg_of.
    apply merge_explode. rewrite Forall_map. eapply Forall_impl; [|apply duck_loop_nonempty]. intros a Ha. exact Ha.
Qed.
