(* C02 - Typed MessagePack decoding is indistinguishable from generic decoding.
   Only property statements live here; proofs are in Proofs.v.  Every statement quantifies
   over ALL msgpack ASTs [a], ALL float / sanitiser semantics [o] and ALL clock values.
   The model is the code as of commit 1ff6fb4 (typed path falls back on a non-array value
   following an array value for the same column key, and decodes-and-discards the values it
   does not use); the equivalence holds without any guard. *)
From Coq Require Import List ZArith NArith Bool.
From Arc Require Import Lib.AList MsgPack.Model MsgPack.Proofs.
Import ListNotations.
Open Scope Z_scope.

(* Whenever the typed fast path produces a record, the generic path accepts the same payload
   and stores the same batch: same measurement, same row count, same column set, and for every
   column the same type, values and validity (presence and bits); the time column is compared
   whenever the payload carries one (otherwise both runs generate it from their own clock). *)
Theorem C02_equiv : forall (o : ops) (now_typed now_generic : Z) (a : ast) m b,
  typed o now_typed a = TOk (m, b) ->
  exists b', generic o now_generic a = OOk [ICol m (Some b')] /\
             same_batch (payload_has_time a) b b'.
Proof. exact equiv. Qed.
Print Assumptions C02_equiv.

(* When the typed path bails out, Decode IS the generic path (no side effect, same input). *)
Theorem C02_fallback_total : forall (o : ops) (now : Z) (a : ast),
  typed o now a = TBail -> decode_with_typed o now a = generic o now a.
Proof. exact fallback_total. Qed.
Print Assumptions C02_fallback_total.

(* Acceptance is the same with the fast path on and off, for every input: a hit is accepted by
   both (whatever the two clocks are); a miss runs literally the generic path; and when the
   library panics while the typed path decodes a value it discards, the generic path cannot
   decode the document either (it is never accepted). *)
Theorem C02_accept_iff : forall (o : ops) (now_typed now_generic : Z) (a : ast),
  (forall r, typed o now_typed a = TOk r ->
     accepted (decode_with_typed o now_typed a) = true /\ accepted (generic o now_generic a) = true) /\
  (typed o now_typed a = TBail -> decode_with_typed o now_typed a = generic o now_typed a) /\
  (typed o now_typed a = TPanic ->
     accepted (decode_with_typed o now_typed a) = false /\ accepted (generic o now_generic a) = false).
Proof. exact accept_iff. Qed.
Print Assumptions C02_accept_iff.

(* Regression: on the inputs on which the code before 1ff6fb4 differed between the modes, the
   typed path now falls back (or panics exactly where the generic path panics). *)
Theorem C02_old_witnesses_fall_back : forall (o : ops) (now : Z),
  typed o now witness_dup = TBail /\ typed o now witness_dup_reject = TBail /\
  typed o now witness_skip = TBail /\ typed o now witness_panic = TPanic /\
  generic o now witness_panic = OPanic.
Proof. exact old_witnesses_fall_back. Qed.
Print Assumptions C02_old_witnesses_fall_back.

(* Non-vacuity: a payload on which the typed path hits, with a nil, an all-nil column, a float
   column holding an int, an invalid-UTF-8 string, a discarded non-array column value and a
   discarded unknown key holding a non-string-keyed map. *)
Example C02_equiv_nonvacuous :
  let a := MMap [(MStr k_m, MStr [99%N; 112%N; 117%N]);
                 (MStr [120%N], MMap [(MInt KFix 1, MArr [MStr [113%N]])]);
                 (MStr k_columns,
                  MMap [(MStr k_time, MArr [MInt KU32 1700000000; MInt KU32 1700000001]);
                        (MStr [97%N], MArr [MInt KFix 1; MNil]);
                        (MStr [115%N], MArr [MStr [120%N]; MStr [121%N; 255%N]]);
                        (MStr [102%N], MArr [MF32 1069547520%N; MInt KFix 2]);
                        (MStr [110%N], MArr [MNil; MNil]);
                        (MStr [122%N], MInt KFix 7)])] in
  is_hit (typed (go_ops []) 5 a) = true /\
  payload_has_time a = true /\
  outcome_eqb (canon (decode_with_typed (go_ops []) 5 a)) (canon (generic (go_ops []) 9 a)) = true.
Proof. vm_compute. repeat split. Qed.
