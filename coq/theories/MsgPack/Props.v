(* C02 - Typed MessagePack decoding is indistinguishable from generic decoding.
   Only property statements live here; proofs are in Proofs.v.  Every statement quantifies
   over ALL msgpack ASTs [a], ALL float / sanitiser semantics [o] and ALL clock values. *)
From Coq Require Import List ZArith NArith Bool.
From Arc Require Import Lib.AList MsgPack.Model MsgPack.Proofs.
Import ListNotations.
Open Scope Z_scope.

(* Whenever the typed fast path produces a record (it does not fall back), the generic path
   accepts the same payload and stores the same batch: same measurement, same row count, same
   column set, and for every column the same type, values and validity (presence and bits);
   the time column is compared whenever the payload carries one (otherwise both runs generate
   it from their own clock).  Guard = the two classes in which the CURRENT code differs (see the
   refutations below): a duplicate column key whose later value is not an array, and a value
   the typed path skips without decoding that the library's generic decode rejects. *)
Theorem C02_equiv_guarded : forall (o : ops) (now_typed now_generic : Z) (a : ast) m b,
  typed o now_typed a = Some (m, b) ->
  guard o a = true ->
  exists b', generic o now_generic a = OOk [ICol m (Some b')] /\
             same_batch (payload_has_time a) b b'.
Proof. exact equiv_guarded. Qed.
Print Assumptions C02_equiv_guarded.

(* When the typed path bails out, Decode IS the generic path (no side effect, same input). *)
Theorem C02_fallback_total : forall (o : ops) (now : Z) (a : ast),
  typed o now a = None -> decode_with_typed o now a = generic o now a.
Proof. exact fallback_total. Qed.
Print Assumptions C02_fallback_total.

(* Acceptance is the same with the fast path on and off: a hit is accepted by both (whatever
   the two clocks are), a miss runs literally the generic path. *)
Theorem C02_accept_iff_guarded : forall (o : ops) (now_typed now_generic : Z) (a : ast),
  guard o a = true ->
  (typed o now_typed a <> None ->
   accepted (decode_with_typed o now_typed a) = true /\ accepted (generic o now_generic a) = true) /\
  (typed o now_typed a = None -> decode_with_typed o now_typed a = generic o now_typed a).
Proof. exact accept_guarded. Qed.
Print Assumptions C02_accept_iff_guarded.

(* The unguarded equivalence is FALSE for the current code (class 1): for
   {m:"cpu", columns:{time:[1700000000], a:[1], a:5}} the typed path stores column "a", the
   generic path (last binding wins, non-array dropped) does not; and for
   {m:"cpu", columns:{a:[1], a:5}} the typed path accepts a write the generic path rejects. *)
Theorem C02_equiv_refuted : forall (o : ops) (now_typed now_generic : Z),
  (sig_dup witness_dup = true /\ sig_skip o witness_dup = false /\
   exists m b, typed o now_typed witness_dup = Some (m, b) /\
     lookupb w_a (b_cols b) <> None /\
     exists b', generic o now_generic witness_dup = OOk [ICol m (Some b')] /\
                lookupb w_a (b_cols b') = None /\
                ~ same_batch (payload_has_time witness_dup) b b') /\
  (sig_dup witness_dup_reject = true /\
   accepted (decode_with_typed o now_typed witness_dup_reject) = true /\
   generic o now_generic witness_dup_reject = OErr).
Proof. intros. split; [apply dup_refuted|apply dup_reject_refuted]. Qed.
Print Assumptions C02_equiv_refuted.

(* ... and (class 2) for {m:"cpu", columns:{time:[..], a:[1]}, x: ext(5,"ab")}: the typed path
   skips the value of the unknown key and accepts; msgpack.Unmarshal fails on the unknown
   extension type, so the generic path rejects the request. *)
Theorem C02_skip_refuted : forall (o : ops) (now_typed now_generic : Z),
  sig_dup witness_skip = false /\ sig_skip o witness_skip = true /\
  accepted (decode_with_typed o now_typed witness_skip) = true /\
  generic o now_generic witness_skip = OErr.
Proof. exact skip_refuted. Qed.
Print Assumptions C02_skip_refuted.

(* Non-vacuity of the guarded theorem: a payload inside the guard on which the typed path hits,
   with a nil, an all-nil column, a float column holding an int, an invalid-UTF-8 string, a
   skipped non-array column value and a skipped (decodable) unknown key. *)
Example C02_guarded_nonvacuous :
  let a := MMap [(MStr k_m, MStr [99%N; 112%N; 117%N]);
                 (MStr [120%N], MMap [(MInt KFix 1, MArr [MStr [113%N]])]);
                 (MStr k_columns,
                  MMap [(MStr k_time, MArr [MInt KU32 1700000000; MInt KU32 1700000001]);
                        (MStr [97%N], MArr [MInt KFix 1; MNil]);
                        (MStr [115%N], MArr [MStr [120%N]; MStr [121%N; 255%N]]);
                        (MStr [102%N], MArr [MF32 1069547520%N; MInt KFix 2]);
                        (MStr [110%N], MArr [MNil; MNil]);
                        (MStr [122%N], MInt KFix 7)])] in
  guard (go_ops []) a = true /\
  typed (go_ops []) 5 a <> None /\
  payload_has_time a = true /\
  outcome_eqb (canon (decode_with_typed (go_ops []) 5 a)) (canon (generic (go_ops []) 9 a)) = true.
Proof. vm_compute. repeat split; discriminate. Qed.

(* The excluded classes are exactly what the guard removes, and they are non-empty. *)
Example C02_excluded_classes_nonempty :
  guard (go_ops []) witness_dup = false /\ guard (go_ops []) witness_dup_reject = false /\
  guard (go_ops []) witness_skip = false.
Proof. vm_compute. repeat split. Qed.
