(* C02 - model of the two MessagePack decode paths of internal/ingest.

   One width-tagged msgpack AST; two consumers of it:
     [generic]  = msgpack.Unmarshal into interface{} (fork Basekick-Labs/msgpack v6: ints boxed
                  by wire width, last-wins string-keyed maps, "typed" maps for non-string first
                  keys, ext decoding) followed by MessagePackDecoder.Decode's payload handling
                  (decodeMapPayload / mapToPayload / decodeColumnar / decodeRow /
                  normalizeTimestampColumns / sanitizeColumnarStrings) and, for columnar
                  records, ArrowBuffer.convertColumnsToTyped (what ArrowBuffer.Write does next);
     [typed]    = tryDecodeColumnarTyped / decodeTypedColumns / decodeTimeColumnTyped /
                  decodeValueColumnTyped / decodeIntElemAsInt64 / decodeElemAsFloat64 as a
                  streaming consumer of the same AST (code as of commit 1ff6fb4);
                  TBail = "ok=false, fall back", TPanic = the library panicked meanwhile.
   [decode_with_typed] is Decode with typedEnabled = true.

   Floating point and UTF-8 sanitising are NOT axiomatised: they are fields of the record
   [ops]; every theorem quantifies over all [ops]; the correspondence instantiates them with
   the concrete bit-level functions [go_ops] below (validated against the Go results on every
   run).  This file contains definitions only. *)
From Coq Require Import List ZArith NArith Bool String Ascii Decimal.
From Arc Require Import Lib.AList.
Import ListNotations.
Open Scope Z_scope.

(* ------------------------------------------------------------------------------------ *)
(* bytes                                                                                  *)

Definition bytes := list N.

Fixpoint bytes_eqb (a b : bytes) : bool :=
  match a, b with
  | [], [] => true
  | x :: a', y :: b' => N.eqb x y && bytes_eqb a' b'
  | _, _ => false
  end.

Fixpoint bytes_ltb (a b : bytes) : bool :=       (* Go string order: bytewise *)
  match a, b with
  | [], [] => false
  | [], _ :: _ => true
  | _ :: _, [] => false
  | x :: a', y :: b' => if N.ltb x y then true else if N.eqb x y then bytes_ltb a' b' else false
  end.

Definition str (s : string) : bytes := map N_of_ascii (list_ascii_of_string s).

Definition k_m : bytes := Eval compute in str "m".
Definition k_t : bytes := Eval compute in str "t".
Definition k_h : bytes := Eval compute in str "h".
Definition k_f : bytes := Eval compute in str "f".
Definition k_fields : bytes := Eval compute in str "fields".
Definition k_tags : bytes := Eval compute in str "tags".
Definition k_columns : bytes := Eval compute in str "columns".
Definition k_batch : bytes := Eval compute in str "batch".
Definition k_time : bytes := Eval compute in str "time".
Definition k_host : bytes := Eval compute in str "host".

Fixpoint uint_digits (u : Decimal.uint) : bytes :=
  match u with
  | Nil => []
  | D0 r => 48%N :: uint_digits r | D1 r => 49%N :: uint_digits r | D2 r => 50%N :: uint_digits r
  | D3 r => 51%N :: uint_digits r | D4 r => 52%N :: uint_digits r | D5 r => 53%N :: uint_digits r
  | D6 r => 54%N :: uint_digits r | D7 r => 55%N :: uint_digits r | D8 r => 56%N :: uint_digits r
  | D9 r => 57%N :: uint_digits r
  end.

(* strconv / fmt %d of an integer *)
Definition dec (z : Z) : bytes :=
  match z with
  | Z0 => [48%N]
  | Zpos p => uint_digits (Pos.to_uint p)
  | Zneg p => 45%N :: uint_digits (Pos.to_uint p)
  end.

Definition lookupb {V} (k : bytes) (l : list (bytes * V)) : option V := lookup bytes_eqb k l.
Definition insertb {V} (k : bytes) (v : V) (l : list (bytes * V)) := insert bytes_eqb k v l.
Definition memb (k : bytes) (l : list bytes) : bool := existsb (bytes_eqb k) l.

(* ------------------------------------------------------------------------------------ *)
(* the AST                                                                                *)

(* wire encoding of an integer (fixint, int8..int64, uint8..uint64) *)
Inductive ikind := KFix | KI8 | KI16 | KI32 | KI64 | KU8 | KU16 | KU32 | KU64.

Inductive ast : Type :=
| MNil
| MBool (b : bool)
| MInt (k : ikind) (z : Z)
| MF32 (bits : N)
| MF64 (bits : N)
| MStr (s : bytes)
| MBin (s : bytes)
| MArr (l : list ast)
| MMap (l : list (ast * ast))       (* entries in wire order, duplicates and any key kept *)
| MExt (id : Z) (data : bytes).

Definition is_arr (a : ast) : bool := match a with MArr _ => true | _ => false end.

(* ------------------------------------------------------------------------------------ *)
(* arithmetic shared by both paths                                                        *)

Definition max_i64 : Z := 9223372036854775807.
Definition wrap64 (z : Z) : Z := (z + 9223372036854775808) mod 18446744073709551616 - 9223372036854775808.

(* unit detection from the first time value and conversion to microseconds
   (msgpack.go:normalizeTimestampColumns / msgpack_typed.go:decodeTimeColumnTyped) *)
Definition mult_of (ts : Z) : Z :=
  if ts <? 10000000000 then 1000000
  else if ts <? 10000000000000 then 1000
  else if ts <? 10000000000000000 then 1
  else (-1000).

Definition scale (mult ts : Z) : Z :=
  if mult <? 0 then Z.quot ts (- mult) else wrap64 (ts * mult).

(* floating point and sanitising: parameters of the model *)
Record ops := {
  o_widen : N -> N;        (* float64(float32 x), on bit patterns *)
  o_trunc : N -> Z;        (* int64(f) of a float64 bit pattern (machine defined out of range) *)
  o_oob : N -> bool;       (* f > float64(MaxInt64) || f < float64(MinInt64) *)
  o_of_int : Z -> N;       (* float64(v) of an integer v (int64 or uint64 value) *)
  o_int_ok : N -> bool;    (* library floatToInt64 succeeds *)
  o_uint_ok : N -> bool;   (* library floatToUint64 succeeds *)
  o_fits32 : N -> bool;    (* library float32(c) of a Double: not (n > MaxFloat32 || n < -MaxFloat32) *)
  o_san : bytes -> bytes   (* SanitizeUTF8 *)
}.

(* ------------------------------------------------------------------------------------ *)
(* generic path, part 1: the library's DecodeInterface                                    *)

Inductive gval : Type :=
| GNil
| GBool (b : bool)
| GInt (k : ikind) (z : Z)        (* boxed by width: KFix and KI8 are both Go int8 *)
| GF32 (bits : N)
| GF64 (bits : N)
| GStr (s : bytes)
| GBin (s : bytes)
| GArr (l : list gval)
| GMap (l : list (bytes * gval))  (* map[string]interface{}: duplicate-free *)
| GTime                           (* time.Time from ext -1 *)
| GTMap.                          (* map[K]interface{} with K <> string *)

Inductive lres (A : Type) : Type := LOk (a : A) | LErr | LPanic.
Arguments LOk {A} a.
Arguments LErr {A}.
Arguments LPanic {A}.

Definition lbind {A B} (x : lres A) (f : A -> lres B) : lres B :=
  match x with LOk a => f a | LErr => LErr | LPanic => LPanic end.

Definition time_ext_len_ok (data : bytes) : bool :=
  let n := Z.of_nat (List.length data) in (n =? 4) || (n =? 8) || (n =? 12).

(* decoding a LATER key of a typed map into the Go type of the first key *)
Inductive keyty := TBool | TSigned | TUnsigned | TF32 | TF64 | TTime.

Definition signed_kind (k : ikind) : bool :=
  match k with KFix | KI8 | KI16 | KI32 | KI64 => true | _ => false end.

Definition key_decodes (o : ops) (t : keyty) (k : ast) : lres unit :=
  match t, k with
  | TBool, (MNil | MBool _) => LOk tt
  | TSigned, (MNil | MInt _ _) => LOk tt
  | TSigned, MF32 b => if o_int_ok o (o_widen o b) then LOk tt else LErr
  | TSigned, MF64 b => if o_int_ok o b then LOk tt else LErr
  | TUnsigned, (MNil | MInt _ _) => LOk tt
  | TUnsigned, MF32 b => if o_uint_ok o (o_widen o b) then LOk tt else LErr
  | TUnsigned, MF64 b => if o_uint_ok o b then LOk tt else LErr
  | TF32, (MNil | MInt _ _ | MF32 _) => LOk tt
  | TF32, MF64 b => if o_fits32 o b then LOk tt else LErr
  | TF64, (MNil | MInt _ _ | MF32 _ | MF64 _) => LOk tt
  | TTime, MNil => LPanic            (* reflect: IsNil on struct Value *)
  | TTime, MExt id d => if (id =? -1) && time_ext_len_ok d then LOk tt else LErr
  | _, _ => LErr
  end.

Definition keyty_of (g : gval) : lres keyty :=
  match g with
  | GNil => LPanic                   (* reflect.TypeOf(nil).Comparable(): nil dereference *)
  | GBool _ => LOk TBool
  | GInt k _ => LOk (if signed_kind k then TSigned else TUnsigned)
  | GF32 _ => LOk TF32
  | GF64 _ => LOk TF64
  | GTime => LOk TTime
  | GStr _ => LErr                   (* unreachable: string first keys take the other branch *)
  | GBin _ | GArr _ | GMap _ | GTMap => LErr   (* unsupported map key (not comparable) *)
  end.

Definition string_key (k : ast) : lres bytes :=     (* Decoder.DecodeString *)
  match k with
  | MStr s => LOk s
  | MBin s => LOk s
  | MNil => LOk []
  | _ => LErr
  end.

Definition is_str_code (a : ast) : bool := match a with MStr _ => true | _ => false end.

Fixpoint lib_decode (o : ops) (a : ast) : lres gval :=
  match a with
  | MNil => LOk GNil
  | MBool b => LOk (GBool b)
  | MInt k z => LOk (GInt k z)
  | MF32 b => LOk (GF32 b)
  | MF64 b => LOk (GF64 b)
  | MStr s => LOk (GStr s)
  | MBin s => LOk (GBin s)
  | MArr l =>
      lbind ((fix go (l : list ast) : lres (list gval) :=
                match l with
                | [] => LOk []
                | x :: r => lbind (lib_decode o x) (fun v => lbind (go r) (fun vs => LOk (v :: vs)))
                end) l)
            (fun vs => LOk (GArr vs))
  | MExt id d => if id =? -1 then (if time_ext_len_ok d then LOk GTime else LErr) else LErr
  | MMap [] => LOk (GMap [])
  | MMap (((k0, v0) :: r0) as l) =>
      if is_str_code k0 then
        (* decodeMapStringInterfaceN: every key through DecodeString, last binding wins *)
        lbind ((fix go (l : list (ast * ast)) (acc : list (bytes * gval)) : lres (list (bytes * gval)) :=
                  match l with
                  | [] => LOk acc
                  | (k, v) :: r =>
                      lbind (string_key k) (fun key =>
                      lbind (lib_decode o v) (fun gv => go r (insertb key gv acc)))
                  end) l [])
              (fun m => LOk (GMap m))
      else
        (* decodeTypedMapN: key type fixed by the first key *)
        lbind (lib_decode o k0) (fun gk =>
        lbind (lib_decode o v0) (fun _ =>
        lbind (keyty_of gk) (fun t =>
        lbind ((fix go (l : list (ast * ast)) : lres unit :=
                  match l with
                  | [] => LOk tt
                  | (k, v) :: r =>
                      lbind (key_decodes o t k) (fun _ =>
                      lbind (lib_decode o v) (fun _ => go r))
                  end) r0)
              (fun _ => LOk GTMap))))
  end.

(* the same loops as stand-alone functions (Proofs.v shows they coincide with the inner ones) *)
Fixpoint lib_decode_list (o : ops) (l : list ast) : lres (list gval) :=
  match l with
  | [] => LOk []
  | x :: r => lbind (lib_decode o x) (fun v => lbind (lib_decode_list o r) (fun vs => LOk (v :: vs)))
  end.

Fixpoint lib_decode_smap (o : ops) (l : list (ast * ast)) (acc : list (bytes * gval)) : lres (list (bytes * gval)) :=
  match l with
  | [] => LOk acc
  | (k, v) :: r =>
      lbind (string_key k) (fun key =>
      lbind (lib_decode o v) (fun gv => lib_decode_smap o r (insertb key gv acc)))
  end.

Definition lib_ok (o : ops) (a : ast) : bool :=
  match lib_decode o a with LOk _ => true | _ => false end.

(* ------------------------------------------------------------------------------------ *)
(* results                                                                                *)

Inductive coldata := CI64 (l : list Z) | CF64 (l : list N) | CStr (l : list bytes) | CBool (l : list bool).

Notation tcol := (bytes * (coldata * option (list bool)))%type (only parsing).   (* name, data, validity *)

Record batch := { b_n : Z; b_cols : list tcol }.

Inductive tagv := TagS (s : bytes) | TagUnmodelled.   (* fmt %v of floats/bin/nested values is not modelled *)

Inductive item :=
| ICol (m : bytes) (conv : option batch)      (* columnar record; None = convertColumnsToTyped errors in Write *)
| IRow (m : bytes) (sec nsec : Z) (fields : list (bytes * gval)) (tags : list (bytes * tagv))
| IBad.                                       (* a nested []interface{} result: Write rejects it *)

Inductive outcome :=
| OErr                 (* Decode returns an error: 400 *)
| OPanic               (* the library panics inside Decode *)
| OOk (l : list item).

(* ------------------------------------------------------------------------------------ *)
(* generic path, part 2: arrow_writer.go conversion helpers                               *)

Definition to_int64 (o : ops) (g : gval) : option Z :=
  match g with
  | GInt KU64 z => if z >? max_i64 then None else Some z
  | GInt _ z => Some z
  | GF32 b => let w := o_widen o b in if o_oob o w then None else Some (o_trunc o w)
  | GF64 b => if o_oob o b then None else Some (o_trunc o b)
  | _ => None
  end.

Definition to_float64 (o : ops) (g : gval) : option N :=
  match g with
  | GF32 b => Some (o_widen o b)
  | GF64 b => Some b
  | GInt _ z => Some (o_of_int o z)
  | _ => None
  end.

(* msgpack.go:toInt64Timestamp - no bounds checks, uint64 wraps *)
Definition to_int64_ts (o : ops) (g : gval) : option Z :=
  match g with
  | GInt KU64 z => Some (wrap64 z)
  | GInt _ z => Some z
  | GF32 b => Some (o_trunc o (o_widen o b))
  | GF64 b => Some (o_trunc o b)
  | _ => None
  end.

Definition is_gnil (g : gval) : bool := match g with GNil => true | _ => false end.

Fixpoint first_non_nil (col : list gval) : option gval :=
  match col with
  | [] => None
  | GNil :: r => first_non_nil r
  | v :: _ => Some v
  end.

Fixpoint map_opt {A B} (f : A -> option B) (l : list A) : option (list B) :=
  match l with
  | [] => Some []
  | x :: r => match f x with
              | Some y => match map_opt f r with Some ys => Some (y :: ys) | None => None end
              | None => None
              end
  end.

(* try*ZeroCopy: every element of exactly the target Go type, no nil *)
Definition zc_i64 (col : list gval) := map_opt (fun g => match g with GInt KI64 z => Some z | _ => None end) col.
Definition zc_f64 (col : list gval) := map_opt (fun g => match g with GF64 b => Some b | _ => None end) col.
Definition zc_str (col : list gval) := map_opt (fun g => match g with GStr s => Some s | _ => None end) col.
Definition zc_bool (col : list gval) := map_opt (fun g => match g with GBool b => Some b | _ => None end) col.

(* the single-pass conversion with validity: nil -> (zero value, false) *)
Definition slow {A} (zero : A) (conv : gval -> option A) (col : list gval) : option (list (A * bool)) :=
  map_opt (fun g => if is_gnil g then Some (zero, false)
                    else match conv g with Some x => Some (x, true) | None => None end) col.

Definition finish {A} (mk : list A -> coldata) (cells : list (A * bool)) : coldata * option (list bool) :=
  (mk (map fst cells),
   if existsb (fun c => negb (snd c)) cells then Some (map snd cells) else None).

Definition conv_value_col (o : ops) (col : list gval) : option (coldata * option (list bool)) :=
  match first_non_nil col with
  | None => Some (CStr (map (fun _ => []) col), Some (map (fun _ => false) col))
  | Some (GInt _ _) =>
      match zc_i64 col with
      | Some arr => Some (CI64 arr, None)
      | None => option_map (finish CI64) (slow 0 (to_int64 o) col)
      end
  | Some (GF32 _ | GF64 _) =>
      match zc_f64 col with
      | Some arr => Some (CF64 arr, None)
      | None => option_map (finish CF64) (slow 0%N (to_float64 o) col)
      end
  | Some (GStr _) =>
      match zc_str col with
      | Some arr => Some (CStr arr, None)
      | None => option_map (finish CStr) (slow [] (fun g => match g with GStr s => Some s | _ => None end) col)
      end
  | Some (GBool _) =>
      match zc_bool col with
      | Some arr => Some (CBool arr, None)
      | None => option_map (finish CBool) (slow false (fun g => match g with GBool b => Some b | _ => None end) col)
      end
  | Some _ => None                        (* unsupported column type: []byte, nested, time.Time *)
  end.

(* the "time" chokepoint of convertColumnsToTyped *)
Definition conv_time_col (o : ops) (col : list gval) : option (coldata * option (list bool)) :=
  match first_non_nil col with
  | None => None                          (* only null values *)
  | Some (GStr _) => None
  | Some _ =>
      option_map (fun arr => (CI64 arr, None))
        (map_opt (fun g => match g with
                           | GInt KI64 z => Some z
                           | GNil => None
                           | _ => to_int64 o g
                           end) col)
  end.

Definition gcols := list (bytes * list gval).

Fixpoint conv_cols (o : ops) (cols : gcols) : option (list tcol) :=
  match cols with
  | [] => Some []
  | (name, col) :: r =>
      match col with
      | [] => conv_cols o r               (* len(col) == 0: skipped *)
      | _ =>
          match (if bytes_eqb name k_time then conv_time_col o col else conv_value_col o col) with
          | Some c => match conv_cols o r with Some cs => Some ((name, c) :: cs) | None => None end
          | None => None
          end
      end
  end.

Fixpoint first_len (cols : gcols) : Z :=
  match cols with
  | [] => 0
  | (_, []) :: r => first_len r
  | (_, col) :: _ => Z.of_nat (List.length col)
  end.

Definition convert (o : ops) (cols : gcols) : option batch :=
  option_map (fun cs => {| b_n := first_len cols; b_cols := cs |}) (conv_cols o cols).

(* ------------------------------------------------------------------------------------ *)
(* generic path, part 3: msgpack.go                                                       *)

Definition extract_measurement (mv : option gval) : option bytes :=
  match mv with
  | Some (GStr s) => Some s
  | Some (GInt _ z) => Some (str "measurement_" ++ dec z)
  | _ => None
  end.

Definition normalize (o : ops) (cols : gcols) : option gcols :=
  match lookupb k_time cols with
  | None => Some cols
  | Some [] => Some cols
  | Some ((t0 :: _) as tc) =>
      match to_int64_ts o t0 with
      | None => None
      | Some first =>
          let mult := mult_of first in
          match map_opt (fun g => option_map (fun ts => GInt KI64 (scale mult ts)) (to_int64_ts o g)) tc with
          | Some tc' => Some (insertb k_time tc' cols)
          | None => None
          end
      end
  end.

Definition san_val (o : ops) (g : gval) : gval :=
  match g with GStr s => GStr (o_san o s) | _ => g end.

Definition sanitize (o : ops) (cols : gcols) : gcols :=
  map (fun nc => (fst nc, map (san_val o) (snd nc))) cols.

Definition all_len (n : nat) (cols : gcols) : bool :=
  forallb (fun nc => Nat.eqb (List.length (snd nc)) n) cols.

Definition decode_columnar (o : ops) (now : Z) (mv : option gval) (cols : gcols) : option item :=
  match extract_measurement mv with
  | None => None
  | Some m =>
      match cols with
      | [] => None                                  (* non-empty 'columns' dict required *)
      | (_, c0) :: _ =>
          let n := List.length c0 in
          if all_len n cols then
            let cols1 := match lookupb k_time cols with
                         | None | Some [] => insertb k_time (repeat (GInt KI64 now) n) cols
                         | Some _ => cols
                         end in
            match normalize o cols1 with
            | None => None
            | Some cols2 => Some (ICol m (convert o (sanitize o cols2)))
            end
          else None
      end
  end.

(* mapToPayload: only []interface{} column values are kept *)
Fixpoint keep_arrays (cm : list (bytes * gval)) : gcols :=
  match cm with
  | [] => []
  | (k, GArr vs) :: r => (k, vs) :: keep_arrays r
  | _ :: r => keep_arrays r
  end.

Definition fmt_v (g : gval) : tagv :=
  match g with
  | GStr s => TagS s
  | GInt _ z => TagS (dec z)
  | GBool true => TagS (str "true")
  | GBool false => TagS (str "false")
  | GNil => TagS (str "<nil>")
  | _ => TagUnmodelled
  end.

Definition row_time (o : ops) (now : Z) (tv : option gval) : option (Z * Z) :=
  match tv with
  | None | Some GNil => Some (now / 1000000, (now mod 1000000) * 1000)
  | Some g =>
      match to_int64_ts o g with
      | None => None
      | Some ts =>
          if ts <? 10000000000 then Some (ts, 0)
          else if ts <? 10000000000000 then Some (ts / 1000, (ts mod 1000) * 1000000)
          else if ts <? 10000000000000000 then Some (ts / 1000000, (ts mod 1000000) * 1000)
          else let us := Z.quot ts 1000 in Some (us / 1000000, (us mod 1000000) * 1000)
      end
  end.

Definition extract_host (hv : option gval) : bytes :=
  match hv with
  | Some (GStr s) => s
  | Some (GInt _ z) => str "host_" ++ dec z
  | _ => str "unknown"
  end.

Fixpoint compact_fields (i : Z) (vs : list gval) (acc : list (bytes * gval)) : list (bytes * gval) :=
  match vs with
  | [] => acc
  | v :: r => compact_fields (i + 1) r (insertb (str "field_" ++ dec i) v acc)
  end.

Definition decode_row (o : ops) (now : Z) (m : list (bytes * gval)) : option item :=
  match extract_measurement (lookupb k_m m) with
  | None => None
  | Some meas =>
      match row_time o now (lookupb k_t m) with
      | None => None
      | Some (sec, nsec) =>
          let host := extract_host (lookupb k_h m) in
          let fields :=
            match lookupb k_fields m with
            | Some (GMap fm) => Some fm
            | _ => match lookupb k_f m with
                   | None | Some GNil => None
                   | Some (GArr vs) => Some (compact_fields 0 vs [])
                   | Some _ => Some []
                   end
            end in
          match fields with
          | None => None
          | Some fs =>
              let tags0 := match lookupb k_tags m with
                           | Some (GMap tm) => map (fun kv => (fst kv, fmt_v (snd kv))) tm
                           | _ => []
                           end in
              let tags := match host with [] => tags0 | _ => insertb k_host (TagS host) tags0 end in
              Some (IRow meas sec nsec (map (fun kv => (fst kv, san_val o (snd kv))) fs) tags)
          end
      end
  end.

Definition decode_item (o : ops) (now : Z) (m : list (bytes * gval)) : option item :=
  match lookupb k_columns m with
  | Some (GMap cm) => decode_columnar o now (lookupb k_m m) (keep_arrays cm)
  | _ => decode_row o now m
  end.

(* decodeMapPayload.  The "batch" binding is located by scanning the entries (the map is
   duplicate-free, so the first match is the binding) so that the recursion into the batch
   items is structural. *)
Inductive pres := PErr | PNotMap | POne (i : item) | PMany (l : list item).

Definition one_item (x : option item) : pres := match x with Some i => POne i | None => PErr end.

Fixpoint payload (o : ops) (now : Z) (g : gval) : pres :=
  match g with
  | GMap m =>
      (fix scan (l : list (bytes * gval)) : pres :=
         match l with
         | [] => one_item (decode_item o now m)
         | (k, v) :: r =>
             if bytes_eqb k_batch k then
               match v with
               | GArr items =>
                   PMany ((fix go (items : list gval) : list item :=
                             match items with
                             | [] => []
                             | it :: r' =>
                                 match payload o now it with
                                 | PErr => go r'                  (* logged, skipped *)
                                 | PNotMap => go r'
                                 | POne i => i :: go r'
                                 | PMany _ => IBad :: go r'       (* a []interface{} appended as ONE result *)
                                 end
                             end) items)
               | _ => one_item (decode_item o now m)
               end
             else scan r
         end) m
  | _ => PNotMap
  end.

Fixpoint array_items (o : ops) (now : Z) (items : list gval) : list item :=
  match items with
  | [] => []
  | it :: r =>
      match payload o now it with
      | PErr | PNotMap => array_items o now r
      | POne i => i :: array_items o now r
      | PMany _ => IBad :: array_items o now r
      end
  end.

(* Decode with typedEnabled = false, followed (for columnar records) by the conversion Write does *)
Definition generic (o : ops) (now : Z) (a : ast) : outcome :=
  match lib_decode o a with
  | LErr => OErr
  | LPanic => OPanic
  | LOk (GMap m) =>
      match payload o now (GMap m) with
      | PErr | PNotMap => OErr
      | POne i => OOk [i]
      | PMany l => OOk l
      end
  | LOk (GArr items) => OOk (array_items o now items)
  | LOk _ => OErr                                   (* unsupported msgpack payload type *)
  end.

(* ------------------------------------------------------------------------------------ *)
(* typed path: msgpack_typed.go                                                           *)

Definition typed_measurement (a : ast) : option bytes :=
  match a with
  | MStr s => Some s
  | MInt _ z => Some (str "measurement_" ++ dec z)
  | _ => None
  end.

(* one time element: decodeTimeColumnTyped's switch *)
Definition ts_of_elem (o : ops) (e : ast) : option Z :=
  match e with
  | MInt KU64 z => Some (wrap64 z)
  | MInt _ z => Some z
  | MF32 b => Some (o_trunc o (o_widen o b))
  | MF64 b => Some (o_trunc o b)
  | _ => None
  end.

Fixpoint time_loop (o : ops) (mult : Z) (elems : list ast) : option (list Z) :=
  match elems with
  | [] => Some []
  | e :: r => match ts_of_elem o e with
              | Some ts => match time_loop o mult r with Some l => Some (scale mult ts :: l) | None => None end
              | None => None
              end
  end.

Definition typed_time (o : ops) (elems : list ast) : option (list Z) :=
  match elems with
  | [] => None
  | e0 :: _ => match ts_of_elem o e0 with
               | Some ts0 => time_loop o (mult_of ts0) elems
               | None => None
               end
  end.

Inductive class := ClsUnknown | ClsInt | ClsFloat | ClsStr | ClsBool.
Inductive cell := VNull | VI (z : Z) | VF (b : N) | VS (s : bytes) | VB (b : bool).

Definition class_of (e : ast) : option class :=
  match e with
  | MInt _ _ => Some ClsInt
  | MF32 _ | MF64 _ => Some ClsFloat
  | MStr _ => Some ClsStr
  | MBool _ => Some ClsBool
  | _ => None                      (* bin, nested, ext: generic path rejects *)
  end.

(* decodeIntElemAsInt64 / decodeElemAsFloat64 / the string and bool arms *)
Definition elem_cell (o : ops) (c : class) (e : ast) : option cell :=
  match c, e with
  | ClsInt, MInt KU64 z => if z >? max_i64 then None else Some (VI z)
  | ClsInt, MInt _ z => Some (VI z)
  | ClsInt, MF32 b => let w := o_widen o b in if o_oob o w then None else Some (VI (o_trunc o w))
  | ClsInt, MF64 b => if o_oob o b then None else Some (VI (o_trunc o b))
  | ClsFloat, MInt _ z => Some (VF (o_of_int o z))
  | ClsFloat, MF32 b => Some (VF (o_widen o b))
  | ClsFloat, MF64 b => Some (VF b)
  | ClsStr, MStr s => Some (VS (o_san o s))
  | ClsBool, MBool b => Some (VB b)
  | _, _ => None
  end.

(* the element loop of decodeValueColumnTyped: class fixed by the first non-nil element *)
Fixpoint value_loop (o : ops) (c : class) (elems : list ast) : option (class * list cell) :=
  match elems with
  | [] => Some (c, [])
  | MNil :: r => match value_loop o c r with Some (c', l) => Some (c', VNull :: l) | None => None end
  | e :: r =>
      match (match c with ClsUnknown => class_of e | _ => Some c end) with
      | None => None
      | Some c1 =>
          match elem_cell o c1 e with
          | None => None
          | Some x => match value_loop o c1 r with Some (c', l) => Some (c', x :: l) | None => None end
          end
      end
  end.

Definition cell_valid (x : cell) : bool := match x with VNull => false | _ => true end.
Definition cell_i (x : cell) : Z := match x with VI z => z | _ => 0 end.
Definition cell_f (x : cell) : N := match x with VF b => b | _ => 0%N end.
Definition cell_s (x : cell) : bytes := match x with VS s => s | _ => [] end.
Definition cell_b (x : cell) : bool := match x with VB b => b | _ => false end.

Definition typed_value (o : ops) (elems : list ast) : option (coldata * option (list bool)) :=
  match value_loop o ClsUnknown elems with
  | None => None
  | Some (c, cells) =>
      let valid := if existsb (fun x => negb (cell_valid x)) cells then Some (map cell_valid cells) else None in
      match c with
      | ClsUnknown => Some (CStr (map (fun _ => []) cells), Some (map (fun _ => false) cells))
      | ClsInt => Some (CI64 (map cell_i cells), valid)
      | ClsFloat => Some (CF64 (map cell_f cells), valid)
      | ClsStr => Some (CStr (map cell_s cells), valid)
      | ClsBool => Some (CBool (map cell_b cells), valid)
      end
  end.

Definition max_typed_elems : Z := 1048576.

(* result of the typed path: a record, "ok=false, fall back to the generic path", or a panic
   raised by the library while the typed path decodes-and-discards a value it does not use *)
Inductive tres (A : Type) : Type := TOk (a : A) | TBail | TPanic.
Arguments TOk {A} a.
Arguments TBail {A}.
Arguments TPanic {A}.

(* dec.DecodeInterface() on a value whose content is discarded (commit 1ff6fb4: it used to be
   dec.Skip()): an undecodable value makes the typed path fall back *)
Definition discard {A} (o : ops) (v : ast) (k : tres A) : tres A :=
  match lib_decode o v with
  | LOk _ => k
  | LErr => TBail
  | LPanic => TPanic
  end.

(* decodeTypedColumns: [expected] = None is Go's -1 *)
Fixpoint typed_cols (o : ops) (entries : list (ast * ast)) (expected : option Z) (acc : list tcol)
  : tres (option Z * list tcol) :=
  match entries with
  | [] => TOk (expected, acc)
  | (MStr name, v) :: r =>
      match v with
      | MArr elems =>
          let n := Z.of_nat (List.length elems) in
          if (n <=? 0) || (n >? max_typed_elems) then TBail
          else if (match expected with None => true | Some e => n =? e end) then
            match lookupb name acc with
            | Some _ => TBail                                  (* duplicate column key *)
            | None =>
                match (if bytes_eqb name k_time
                       then option_map (fun arr => (CI64 arr, @None (list bool))) (typed_time o elems)
                       else typed_value o elems) with
                | Some c => typed_cols o r (Some n) (acc ++ [(name, c)])
                | None => TBail
                end
            end
          else TBail
      | _ =>
          (* non-array value: the generic path drops it, but its map is last-wins, so after an
             array value for the same key the generic path decides; otherwise decode and discard *)
          match lookupb name acc with
          | Some _ => TBail
          | None => discard o v (typed_cols o r expected acc)
          end
      end
  | _ => TBail                                                 (* non-string key *)
  end.

Definition typed_columns (o : ops) (v : ast) : tres (Z * list tcol) :=
  match v with
  | MMap [] => TBail
  | MMap entries =>
      match typed_cols o entries None [] with
      | TOk (Some n, (_ :: _) as cols) => if n <=? 0 then TBail else TOk (n, cols)
      | TOk _ => TBail
      | TBail => TBail
      | TPanic => TPanic
      end
  | _ => TBail
  end.

Record tstate := { ts_m : option bytes; ts_cols : option (Z * list tcol) }.

Fixpoint typed_top (o : ops) (entries : list (ast * ast)) (st : tstate) : tres tstate :=
  match entries with
  | [] => TOk st
  | (MStr key, v) :: r =>
      if bytes_eqb key k_batch then TBail
      else if bytes_eqb key k_m then
        match ts_m st with
        | Some _ => TBail
        | None => match typed_measurement v with
                  | Some m => typed_top o r {| ts_m := Some m; ts_cols := ts_cols st |}
                  | None => TBail
                  end
        end
      else if bytes_eqb key k_columns then
        match ts_cols st with
        | Some _ => TBail
        | None => match typed_columns o v with
                  | TOk c => typed_top o r {| ts_m := ts_m st; ts_cols := Some c |}
                  | TBail => TBail
                  | TPanic => TPanic
                  end
        end
      else discard o v (typed_top o r st)                      (* decode and discard *)
  | _ => TBail
  end.

Definition add_time (now : Z) (n : Z) (cols : list tcol) : list tcol :=
  match lookupb k_time cols with
  | Some _ => cols
  | None => cols ++ [(k_time, (CI64 (repeat now (Z.to_nat n)), None))]
  end.

(* tryDecodeColumnarTyped: TOk (measurement, batch) *)
Definition typed (o : ops) (now : Z) (a : ast) : tres (bytes * batch) :=
  match a with
  | MMap [] => TBail
  | MMap entries =>
      match typed_top o entries {| ts_m := None; ts_cols := None |} with
      | TOk {| ts_m := Some m; ts_cols := Some (n, cols) |} =>
          TOk (m, {| b_n := n; b_cols := add_time now n cols |})
      | TOk _ => TBail
      | TBail => TBail
      | TPanic => TPanic
      end
  | _ => TBail
  end.

(* MessagePackDecoder.Decode with typedEnabled *)
Definition decode_with_typed (o : ops) (now : Z) (a : ast) : outcome :=
  match typed o now a with
  | TOk (m, b) => OOk [ICol m (Some b)]
  | TBail => generic o now a
  | TPanic => OPanic
  end.

(* ------------------------------------------------------------------------------------ *)
(* the property                                                                           *)

Definition accepted (r : outcome) : bool :=
  match r with
  | OOk l => forallb (fun i => match i with ICol _ (Some _) | IRow _ _ _ _ _ => true | _ => false end) l
  | _ => false
  end.

(* the request carries a usable time column (otherwise timestamps are generated) *)
Definition cols_have_time (entries : list (ast * ast)) : bool :=
  existsb (fun kv => match kv with (MStr k, MArr _) => bytes_eqb k k_time | _ => false end) entries.

Definition payload_has_time (a : ast) : bool :=
  match a with
  | MMap entries =>
      existsb (fun kv => match kv with
                         | (MStr k, MMap ce) => bytes_eqb k k_columns && cols_have_time ce
                         | _ => false
                         end) entries
  | _ => false
  end.

(* same stored batch: row count; every column other than a GENERATED time column has the
   same type, values and validity (presence and bits); the column sets coincide *)
Definition same_batch (time_given : bool) (b b' : batch) : Prop :=
  b_n b = b_n b' /\
  (forall name, (time_given = true \/ name <> k_time) -> lookupb name (b_cols b) = lookupb name (b_cols b')) /\
  (forall name, lookupb name (b_cols b) = None <-> lookupb name (b_cols b') = None).

(* the two input classes in which the code BEFORE commit 1ff6fb4 differed between the modes
   (kept as classifiers for the correspondence histogram and the regression corpus) *)

(* a column key is repeated and the LATER value is not an array, after an array value *)
Fixpoint cols_dup_later_nonarray (seen : list bytes) (entries : list (ast * ast)) : bool :=
  match entries with
  | [] => false
  | (MStr k, MArr _) :: r => cols_dup_later_nonarray (k :: seen) r
  | (MStr k, _) :: r => memb k seen || cols_dup_later_nonarray seen r
  | _ :: r => cols_dup_later_nonarray seen r
  end.

(* a value the typed path skips without decoding is rejected by the library's generic decode *)
Fixpoint cols_skip_undecodable (o : ops) (entries : list (ast * ast)) : bool :=
  match entries with
  | [] => false
  | (_, MArr _) :: r => cols_skip_undecodable o r
  | (_, v) :: r => negb (lib_ok o v) || cols_skip_undecodable o r
  end.

Definition is_known_key (k : bytes) : bool :=
  bytes_eqb k k_m || bytes_eqb k k_columns || bytes_eqb k k_batch.

Definition sig_dup (a : ast) : bool :=
  match a with
  | MMap entries =>
      existsb (fun kv => match kv with
                         | (MStr k, MMap ce) => bytes_eqb k k_columns && cols_dup_later_nonarray [] ce
                         | _ => false
                         end) entries
  | _ => false
  end.

Definition sig_skip (o : ops) (a : ast) : bool :=
  match a with
  | MMap entries =>
      existsb (fun kv => match kv with
                         | (MStr k, v) =>
                             if bytes_eqb k k_columns
                             then match v with MMap ce => cols_skip_undecodable o ce | _ => false end
                             else if is_known_key k then false else negb (lib_ok o v)
                         | _ => false
                         end) entries
  | _ => false
  end.


(* ------------------------------------------------------------------------------------ *)
(* concrete float operations (IEEE-754 binary32/binary64 on bit patterns, amd64 conversions) *)

Definition pow2 (e : Z) : Z := 2 ^ e.

(* finite float64: Some (negative, M, E) with value = +-M * 2^E; None for Inf/NaN *)
Definition f64_parts (b : N) : option (bool * Z * Z) :=
  let z := Z.of_N b in
  let s := Z.odd (z / pow2 63) in
  let e := (z / pow2 52) mod 2048 in
  let m := z mod pow2 52 in
  if e =? 2047 then None
  else if e =? 0 then Some (s, m, -1074)
  else Some (s, pow2 52 + m, e - 1075).

Definition f64_is_nan (b : N) : bool :=
  let z := Z.of_N b in ((z / pow2 52) mod 2048 =? 2047) && negb (z mod pow2 52 =? 0).

Definition f64_is_inf (b : N) : bool :=
  let z := Z.of_N b in ((z / pow2 52) mod 2048 =? 2047) && (z mod pow2 52 =? 0).

Definition f64_neg (b : N) : bool := Z.odd (Z.of_N b / pow2 63).

(* |value| truncated toward zero *)
Definition mag_trunc (m e : Z) : Z := if e >=? 0 then m * pow2 e else m / pow2 (- e).
Definition mag_integral (m e : Z) : bool := if e >=? 0 then true else m mod pow2 (- e) =? 0.

Definition int_indefinite : Z := -9223372036854775808.      (* CVTTSD2SQ on NaN / out of range *)

Definition go_trunc (b : N) : Z :=
  match f64_parts b with
  | None => int_indefinite
  | Some (s, m, e) =>
      let v := if s then - mag_trunc m e else mag_trunc m e in
      if (v <? -9223372036854775808) || (v >? 9223372036854775807) then int_indefinite else v
  end.

(* f > 2^63 || f < -2^63 (comparisons with NaN are false) *)
Definition go_oob (b : N) : bool :=
  if f64_is_nan b then false
  else if f64_is_inf b then true
  else match f64_parts b with
       | None => false
       | Some (s, m, e) =>
           (* |f| > 2^63  <=>  trunc|f| > 2^63 or (trunc|f| = 2^63 and f not integral) *)
           let t := mag_trunc m e in
           (t >? pow2 63) || ((t =? pow2 63) && negb (mag_integral m e))
       end.

Definition go_int_ok (b : N) : bool :=
  match f64_parts b with
  | None => false
  | Some (s, m, e) => mag_integral m e && negb (go_oob b)
  end.

Definition go_uint_ok (b : N) : bool :=
  match f64_parts b with
  | None => false
  | Some (s, m, e) =>
      mag_integral m e && (negb s || (m =? 0)) && (mag_trunc m e <=? pow2 64)
  end.

(* not (n > MaxFloat32 || n < -MaxFloat32); MaxFloat32 = (2^24-1)*2^104 *)
Definition go_fits32 (b : N) : bool :=
  if f64_is_nan b then true
  else if f64_is_inf b then false
  else match f64_parts b with
       | None => true
       | Some (s, m, e) =>
           let mx := (pow2 24 - 1) * pow2 104 in
           let t := mag_trunc m e in
           negb ((t >? mx) || ((t =? mx) && negb (mag_integral m e)))
       end.

(* float64(v) for an integer: round to nearest, ties to even *)
Definition go_of_int (v : Z) : N :=
  if v =? 0 then 0%N
  else
    let sgn := if v <? 0 then pow2 63 else 0 in
    let a := Z.abs v in
    let l := Z.log2 a in
    if l <=? 52 then Z.to_N (sgn + (l + 1023) * pow2 52 + (a * pow2 (52 - l) - pow2 52))
    else
      let sft := l - 52 in
      let q := a / pow2 sft in
      let r := a mod pow2 sft in
      let half := pow2 (sft - 1) in
      let q' := if (r >? half) || ((r =? half) && Z.odd q) then q + 1 else q in
      Z.to_N (sgn + (l + 1023) * pow2 52 + (q' - pow2 52)).

(* float64(float32): exact; a signalling NaN is quieted (CVTSS2SD) *)
Definition go_widen (b : N) : N :=
  let z := Z.of_N b in
  let s := (z / pow2 31) mod 2 in
  let e := (z / pow2 23) mod 256 in
  let m := z mod pow2 23 in
  let sgn := s * pow2 63 in
  if e =? 255 then
    (if m =? 0 then Z.to_N (sgn + 2047 * pow2 52)
     else Z.to_N (sgn + 2047 * pow2 52 + Z.lor (m * pow2 29) (pow2 51)))
  else if e =? 0 then
    (if m =? 0 then Z.to_N sgn
     else let l := Z.log2 m in
          Z.to_N (sgn + (l - 149 + 1023) * pow2 52 + (m * pow2 (52 - l) - pow2 52)))
  else Z.to_N (sgn + (e - 127 + 1023) * pow2 52 + m * pow2 29).

Definition san_table (t : list (bytes * bytes)) (s : bytes) : bytes :=
  match lookupb s t with Some s' => s' | None => s end.

Definition go_ops (t : list (bytes * bytes)) : ops :=
  {| o_widen := go_widen; o_trunc := go_trunc; o_oob := go_oob; o_of_int := go_of_int;
     o_int_ok := go_int_ok; o_uint_ok := go_uint_ok; o_fits32 := go_fits32; o_san := san_table t |}.

(* ------------------------------------------------------------------------------------ *)
(* correspondence: canonical forms, equality, the oracle on observed outcomes            *)

Fixpoint insert_sorted {V} (kv : bytes * V) (l : list (bytes * V)) : list (bytes * V) :=
  match l with
  | [] => [kv]
  | x :: r => if bytes_ltb (fst kv) (fst x) then kv :: l else x :: insert_sorted kv r
  end.
Definition sort_al {V} (l : list (bytes * V)) : list (bytes * V) := fold_right insert_sorted [] l.

Fixpoint canon_gval (g : gval) : gval :=
  match g with
  | GArr l => GArr (map canon_gval l)
  | GMap l => GMap (sort_al (map (fun kv => (fst kv, canon_gval (snd kv))) l))
  | GInt KFix z => GInt KI8 z        (* fixint and int8 both box to Go int8 *)
  | _ => g
  end.

Definition canon_item (i : item) : item :=
  match i with
  | ICol m (Some b) => ICol m (Some {| b_n := b_n b; b_cols := sort_al (b_cols b) |})
  | IRow m s n fs ts => IRow m s n (sort_al (map (fun kv => (fst kv, canon_gval (snd kv))) fs)) (sort_al ts)
  | _ => i
  end.

Definition canon (r : outcome) : outcome :=
  match r with OOk l => OOk (map canon_item l) | _ => r end.

Fixpoint list_eqb {A} (f : A -> A -> bool) (a b : list A) : bool :=
  match a, b with
  | [], [] => true
  | x :: a', y :: b' => f x y && list_eqb f a' b'
  | _, _ => false
  end.

Definition option_eqb {A} (f : A -> A -> bool) (a b : option A) : bool :=
  match a, b with Some x, Some y => f x y | None, None => true | _, _ => false end.

Definition ikind_eqb (a b : ikind) : bool :=
  match a, b with
  | KFix, KFix | KI8, KI8 | KI16, KI16 | KI32, KI32 | KI64, KI64
  | KU8, KU8 | KU16, KU16 | KU32, KU32 | KU64, KU64 => true
  | _, _ => false
  end.

Fixpoint gval_eqb (a b : gval) : bool :=
  match a, b with
  | GNil, GNil => true
  | GBool x, GBool y => Bool.eqb x y
  | GInt k x, GInt k' y => ikind_eqb k k' && (x =? y)
  | GF32 x, GF32 y => N.eqb x y
  | GF64 x, GF64 y => N.eqb x y
  | GStr x, GStr y => bytes_eqb x y
  | GBin x, GBin y => bytes_eqb x y
  | GArr x, GArr y =>
      (fix go (x y : list gval) : bool :=
         match x, y with
         | [], [] => true
         | p :: x', q :: y' => gval_eqb p q && go x' y'
         | _, _ => false
         end) x y
  | GMap x, GMap y =>
      (fix go (x y : list (bytes * gval)) : bool :=
         match x, y with
         | [], [] => true
         | (k, p) :: x', (k', q) :: y' => bytes_eqb k k' && gval_eqb p q && go x' y'
         | _, _ => false
         end) x y
  | GTime, GTime => true
  | GTMap, GTMap => true
  (* the harness reports both opaque kinds as "other" = GTMap *)
  | GTime, GTMap => true
  | _, _ => false
  end.

Definition coldata_eqb (a b : coldata) : bool :=
  match a, b with
  | CI64 x, CI64 y => list_eqb Z.eqb x y
  | CF64 x, CF64 y => list_eqb N.eqb x y
  | CStr x, CStr y => list_eqb bytes_eqb x y
  | CBool x, CBool y => list_eqb Bool.eqb x y
  | _, _ => false
  end.

Definition tcol_eqb (a b : tcol) : bool :=
  bytes_eqb (fst a) (fst b) && coldata_eqb (fst (snd a)) (fst (snd b))
  && option_eqb (list_eqb Bool.eqb) (snd (snd a)) (snd (snd b)).

Definition batch_eqb (a b : batch) : bool := (b_n a =? b_n b) && list_eqb tcol_eqb (b_cols a) (b_cols b).

Definition tagv_eqb (a b : tagv) : bool :=
  match a, b with
  | TagS x, TagS y => bytes_eqb x y
  | TagUnmodelled, _ => true          (* model side does not predict fmt %v of this value *)
  | _, _ => false
  end.

Definition item_eqb (a b : item) : bool :=
  match a, b with
  | ICol m c, ICol m' c' => bytes_eqb m m' && option_eqb batch_eqb c c'
  | IRow m s n fs ts, IRow m' s' n' fs' ts' =>
      bytes_eqb m m' && (s =? s') && (n =? n')
      && list_eqb (fun x y => bytes_eqb (fst x) (fst y) && gval_eqb (snd x) (snd y)) fs fs'
      && list_eqb (fun x y => bytes_eqb (fst x) (fst y) && tagv_eqb (snd x) (snd y)) ts ts'
  | IBad, IBad => true
  | _, _ => false
  end.

(* model outcome (first argument) against observed outcome *)
Definition outcome_eqb (a b : outcome) : bool :=
  match a, b with
  | OErr, OErr => true
  | OPanic, OPanic => true
  | OOk x, OOk y => list_eqb item_eqb x y
  | _, _ => false
  end.

(* the property's oracle on two OBSERVED outcomes (typed on / typed off): same acceptance,
   same records; a time column may differ only when it is entirely the generated clock value
   of its own run; row timestamps likewise *)
Definition all_eq (v : Z) (l : list Z) : bool := forallb (Z.eqb v) l.

Definition tcol_sim (now_on now_off : Z) (a b : tcol) : bool :=
  tcol_eqb a b ||
  (bytes_eqb (fst a) k_time && bytes_eqb (fst b) k_time &&
   match snd a, snd b with
   | (CI64 x, None), (CI64 y, None) => (List.length x =? List.length y)%nat && all_eq now_on x && all_eq now_off y
   | _, _ => false
   end).

Definition item_sim (now_on now_off : Z) (a b : item) : bool :=
  match a, b with
  | ICol m (Some c), ICol m' (Some c') =>
      bytes_eqb m m' && (b_n c =? b_n c') && list_eqb (tcol_sim now_on now_off) (b_cols c) (b_cols c')
  | ICol m None, ICol m' None => bytes_eqb m m'
  | IRow m s n fs ts, IRow m' s' n' fs' ts' =>
      item_eqb (IRow m 0 0 fs ts) (IRow m' 0 0 fs' ts')
      && (((s =? s') && (n =? n'))
          || ((s =? now_on / 1000000) && (n =? (now_on mod 1000000) * 1000)
              && (s' =? now_off / 1000000) && (n' =? (now_off mod 1000000) * 1000)))
  | IBad, IBad => true
  | _, _ => false
  end.

Definition outcome_sim (now_on now_off : Z) (a b : outcome) : bool :=
  match a, b with
  | OErr, OErr => true
  | OPanic, OPanic => true
  | OOk x, OOk y => list_eqb (item_sim now_on now_off) x y
  | _, _ => false
  end.

Record mcase := {
  c_ast : ast;
  c_now_on : Z;
  c_now_off : Z;
  c_san : list (bytes * bytes);   (* SanitizeUTF8 on every string of the payload, observed on the Go side *)
  c_on_obs : option outcome;      (* observed, typed path enabled; None = literally the same as c_off *)
  c_off : outcome;                (* observed, typed path disabled *)
  c_hit : bool                    (* observed: the typed path produced the result *)
}.

Definition c_on (c : mcase) : outcome := match c_on_obs c with Some r => r | None => c_off c end.

Definition is_hit {A} (x : tres A) : bool := match x with TOk _ => true | _ => false end.

Definition case_agrees (c : mcase) : bool :=
  let o := go_ops (c_san c) in
  outcome_eqb (canon (decode_with_typed o (c_now_on c) (c_ast c))) (c_on c)
  && outcome_eqb (canon (generic o (c_now_off c) (c_ast c))) (c_off c)
  && Bool.eqb (is_hit (typed o (c_now_on c) (c_ast c))) (c_hit c).

Definition case_oracle (c : mcase) : bool := outcome_sim (c_now_on c) (c_now_off c) (c_on c) (c_off c).

(* class predicates for known-finding signatures (true = OUTSIDE the class) *)
Definition case_not_dup (c : mcase) : bool := negb (sig_dup (c_ast c)).
Definition case_not_skip (c : mcase) : bool := negb (sig_skip (go_ops (c_san c)) (c_ast c)).
(* the model itself predicts a difference between the two modes for this input *)
Definition case_model_same (c : mcase) : bool :=
  let o := go_ops (c_san c) in
  outcome_sim (c_now_on c) (c_now_off c)
    (canon (decode_with_typed o (c_now_on c) (c_ast c))) (canon (generic o (c_now_off c) (c_ast c))).

(* the generic half of the correspondence alone (used to recognise a FIXED finding: the
   implementation no longer differs between the modes and both equal the generic model) *)
Definition case_off_agrees (c : mcase) : bool :=
  outcome_eqb (canon (generic (go_ops (c_san c)) (c_now_off c) (c_ast c))) (c_off c).

(* all answers at once (bit i set = predicate i holds): agree, oracle, not_dup, not_skip, model_same, off_agrees *)
Definition case_flags (c : mcase) : Z :=
  (if case_agrees c then 1 else 0) + (if case_oracle c then 2 else 0) + (if case_not_dup c then 4 else 0)
  + (if case_not_skip c then 8 else 0) + (if case_model_same c then 16 else 0)
  + (if case_off_agrees c then 32 else 0).
