(* C02 - proofs about Arc.MsgPack.Model (statements of the property live in Props.v). *)
From Coq Require Import List ZArith NArith Bool Lia ZifyBool.
From Arc Require Import Lib.AList MsgPack.Model.
Import ListNotations.
Open Scope Z_scope.

(* ------------------------------------------------------------------------------------ *)
(* bytes and association lists                                                            *)

Lemma bytes_eqb_spec : forall a b : bytes, reflect (a = b) (bytes_eqb a b).
Proof.
  induction a as [|x a IH]; destruct b as [|y b]; cbn; try (constructor; congruence).
  destruct (N.eqb_spec x y); cbn; [|constructor; congruence].
  destruct (IH b); constructor; congruence.
Qed.

Lemma bytes_eqb_refl a : bytes_eqb a a = true.
Proof. destruct (bytes_eqb_spec a a); congruence. Qed.

Lemma bytes_eqb_sym a b : bytes_eqb a b = bytes_eqb b a.
Proof. destruct (bytes_eqb_spec a b), (bytes_eqb_spec b a); congruence. Qed.

Lemma bytes_eqb_eq a b : bytes_eqb a b = true -> a = b.
Proof. destruct (bytes_eqb_spec a b); congruence. Qed.

Lemma bytes_eqb_neq a b : a <> b -> bytes_eqb a b = false.
Proof. destruct (bytes_eqb_spec a b); congruence. Qed.

Section AL.
  Context {V : Type}.
  Implicit Types (l : list (bytes * V)).

  Lemma lk_ins_same k (v : V) l : lookupb k (insertb k v l) = Some v.
  Proof. apply lookup_insert_same, bytes_eqb_spec. Qed.

  Lemma lk_ins_other k k' (v : V) l : k <> k' -> lookupb k (insertb k' v l) = lookupb k l.
  Proof. apply lookup_insert_other, bytes_eqb_spec. Qed.

  Lemma nodup_ins k (v : V) l : NoDup (keys l) -> NoDup (keys (insertb k v l)).
  Proof. apply nodup_insert, bytes_eqb_spec. Qed.

  Lemma lk_in k (v : V) l : lookupb k l = Some v -> In (k, v) l.
  Proof.
    induction l as [|[k' v'] r IH]; cbn; [discriminate|].
    destruct (bytes_eqb_spec k k') as [->|]; [intros [= ->]; now left|right; now apply IH].
  Qed.

  Lemma in_lk k (v : V) l : NoDup (keys l) -> In (k, v) l -> lookupb k l = Some v.
  Proof.
    induction l as [|[k' v'] r IH]; cbn; [tauto|].
    intros Hnd [[= -> ->]|Hin].
    - now rewrite bytes_eqb_refl.
    - inversion Hnd as [|? ? Hn Hd]; subst.
      destruct (bytes_eqb_spec k k') as [->|]; [|now apply IH].
      exfalso; apply Hn. unfold keys. apply in_map_iff. now exists (k', v).
  Qed.

  Lemma lk_none_notin k l : lookupb k l = None -> ~ In k (keys l).
  Proof.
    induction l as [|[k' v'] r IH]; cbn; [tauto|].
    destruct (bytes_eqb_spec k k') as [->|Hne]; [discriminate|].
    intros H [E|Hin]; [congruence|now apply IH].
  Qed.

  Lemma lk_app k l l' :
    lookupb k (l ++ l') = match lookupb k l with Some v => Some v | None => lookupb k l' end.
  Proof.
    induction l as [|[k' v'] r IH]; cbn; [reflexivity|].
    now destruct (bytes_eqb k k').
  Qed.
End AL.

(* ------------------------------------------------------------------------------------ *)
(* the library decode: unfolding lemmas                                                   *)

Lemma lib_decode_arr o l :
  lib_decode o (MArr l) = lbind (lib_decode_list o l) (fun vs => LOk (GArr vs)).
Proof.
  cbn [lib_decode]. f_equal.
  induction l as [|x r IH]; cbn [lib_decode_list]; [reflexivity|].
  destruct (lib_decode o x); cbn [lbind]; try reflexivity. now rewrite IH.
Qed.

Definition smap_fix (o : ops) :=
  fix go (l : list (ast * ast)) (acc : list (bytes * gval)) : lres (list (bytes * gval)) :=
    match l with
    | [] => LOk acc
    | (k, v) :: r =>
        lbind (string_key k) (fun key =>
        lbind (lib_decode o v) (fun gv => go r (insertb key gv acc)))
    end.

Lemma smap_fix_eq o l : forall acc, smap_fix o l acc = lib_decode_smap o l acc.
Proof.
  induction l as [|[k v] r IH]; intros acc; cbn [smap_fix lib_decode_smap]; [reflexivity|].
  destruct (string_key k); cbn [lbind]; try reflexivity.
  destruct (lib_decode o v); cbn [lbind]; try reflexivity. apply IH.
Qed.

Lemma lib_decode_smap_str o s0 v0 r0 :
  lib_decode o (MMap ((MStr s0, v0) :: r0)) =
  lbind (lib_decode_smap o ((MStr s0, v0) :: r0) []) (fun m => LOk (GMap m)).
Proof.
  rewrite <- smap_fix_eq.
  change (lib_decode o (MMap ((MStr s0, v0) :: r0)))
    with (lbind (smap_fix o ((MStr s0, v0) :: r0) []) (fun m => LOk (GMap m))).
  reflexivity.
Qed.

(* scalars: what the typed column decoders accept as elements *)
Definition scalar (e : ast) : bool :=
  match e with MNil | MBool _ | MInt _ _ | MF32 _ | MF64 _ | MStr _ => true | _ => false end.

Definition box (e : ast) : gval :=
  match e with
  | MNil => GNil | MBool b => GBool b | MInt k z => GInt k z | MF32 b => GF32 b | MF64 b => GF64 b
  | MStr s => GStr s | _ => GNil
  end.

Lemma lib_decode_scalar o e : scalar e = true -> lib_decode o e = LOk (box e).
Proof. destruct e; cbn; intros; try discriminate; reflexivity. Qed.

Lemma lib_decode_list_scalars o l :
  forallb scalar l = true -> lib_decode_list o l = LOk (map box l).
Proof.
  induction l as [|x r IH]; cbn [forallb lib_decode_list map]; [reflexivity|].
  intros H. apply andb_prop in H as [Hx Hr]. rewrite (lib_decode_scalar o x Hx). cbn [lbind].
  now rewrite (IH Hr).
Qed.

(* a non-array value never decodes to a []interface{} *)
Lemma lib_decode_garr_inv o v l : lib_decode o v = LOk (GArr l) -> is_arr v = true.
Proof.
  destruct v as [| | | | | | |l0|l0|id d]; cbn [is_arr]; try (cbn; discriminate); [reflexivity| |].
  - destruct l0 as [|[k0 v0] r0]; [cbn; discriminate|].
    cbn [lib_decode]. destruct (is_str_code k0).
    + match goal with |- lbind ?x _ = _ -> _ => destruct x end; cbn; discriminate.
    + destruct (lib_decode o k0); cbn [lbind]; try discriminate.
      destruct (lib_decode o v0); cbn [lbind]; try discriminate.
      destruct (keyty_of a); cbn [lbind]; try discriminate.
      match goal with |- lbind ?x _ = _ -> _ => destruct x end; cbn; discriminate.
  - cbn. destruct (id =? -1); [destruct (time_ext_len_ok d)|]; discriminate.
Qed.

(* ------------------------------------------------------------------------------------ *)
(* string-keyed maps: the decoded map is the last-binding view of the entries             *)

Fixpoint last_val (key : bytes) (entries : list (ast * ast)) : option ast :=
  match entries with
  | [] => None
  | (MStr s, v) :: r =>
      match last_val key r with
      | Some v' => Some v'
      | None => if bytes_eqb key s then Some v else None
      end
  | _ :: r => last_val key r
  end.

Definition str_keys (entries : list (ast * ast)) : bool :=
  forallb (fun kv => is_str_code (fst kv)) entries.

Definition dec_opt (o : ops) (v : option ast) : option gval :=
  match v with
  | Some a => match lib_decode o a with LOk g => Some g | _ => None end
  | None => None
  end.

Lemma smap_lookup o entries : forall acc m,
  str_keys entries = true ->
  lib_decode_smap o entries acc = LOk m ->
  forall key, lookupb key m =
              match last_val key entries with
              | Some v => dec_opt o (Some v)
              | None => lookupb key acc
              end.
Proof.
  induction entries as [|[k v] r IH]; intros acc m Hs H key.
  - cbn in H. injection H as <-. reflexivity.
  - cbn [str_keys forallb fst] in Hs. apply andb_prop in Hs as [Hk Hs].
    destruct k; try discriminate. cbn [lib_decode_smap string_key lbind] in H.
    destruct (lib_decode o v) as [gv| |] eqn:Ev; cbn [lbind] in H; try discriminate.
    specialize (IH _ _ Hs H key). rewrite IH. cbn [last_val].
    destruct (last_val key r); [reflexivity|].
    destruct (bytes_eqb_spec key s) as [->|Hne].
    + rewrite lk_ins_same. cbn [dec_opt]. now rewrite Ev.
    + now rewrite lk_ins_other.
Qed.

Lemma smap_nodup o entries : forall acc m,
  lib_decode_smap o entries acc = LOk m -> NoDup (keys acc) -> NoDup (keys m).
Proof.
  induction entries as [|[k v] r IH]; intros acc m H Hnd.
  - cbn in H. now injection H as <-.
  - cbn [lib_decode_smap] in H.
    destruct (string_key k); cbn [lbind] in H; try discriminate.
    destruct (lib_decode o v); cbn [lbind] in H; try discriminate.
    eapply IH; [exact H|]. now apply nodup_ins.
Qed.

Lemma smap_ok o entries : forall acc,
  str_keys entries = true ->
  forallb (fun kv => lib_ok o (snd kv)) entries = true ->
  exists m, lib_decode_smap o entries acc = LOk m.
Proof.
  induction entries as [|[k v] r IH]; intros acc Hs Hv; [now exists acc|].
  cbn [str_keys forallb fst snd] in Hs, Hv.
  apply andb_prop in Hs as [Hk Hs]. apply andb_prop in Hv as [Hv1 Hv].
  destruct k; try discriminate. cbn [lib_decode_smap string_key lbind].
  unfold lib_ok in Hv1. destruct (lib_decode o v); try discriminate. cbn [lbind].
  now apply IH.
Qed.

(* ------------------------------------------------------------------------------------ *)
(* value columns: decodeValueColumnTyped = convertColumnsToTyped on the boxed, sanitised column *)

Definition gcol (o : ops) (elems : list ast) : list gval := map (san_val o) (map box elems).

Definition cell_of (o : ops) (c : class) (e : ast) : option cell :=
  match e with MNil => Some VNull | _ => elem_cell o c e end.

Definition is_mnil (e : ast) : bool := match e with MNil => true | _ => false end.

Fixpoint first_class (elems : list ast) : option class :=
  match elems with
  | [] => None
  | MNil :: r => first_class r
  | e :: _ => class_of e
  end.

Lemma value_loop_known o c elems : c <> ClsUnknown ->
  value_loop o c elems = option_map (fun l => (c, l)) (map_opt (cell_of o c) elems).
Proof.
  intros Hc. induction elems as [|e r IH]; [reflexivity|].
  assert (Hsel : (match c with ClsUnknown => class_of e | _ => Some c end) = Some c)
    by (destruct c; congruence).
  destruct e; cbn [value_loop map_opt cell_of]; rewrite ?Hsel, ?IH;
    try (destruct (elem_cell o c _); [|reflexivity]);
    destruct (map_opt (cell_of o c) r); reflexivity.
Qed.

Lemma class_of_known e c : class_of e = Some c -> c <> ClsUnknown.
Proof. destruct e; cbn; intros [= <-]; discriminate. Qed.

Lemma value_loop_unknown o elems : forall c cells,
  value_loop o ClsUnknown elems = Some (c, cells) ->
  (c = ClsUnknown /\ forallb is_mnil elems = true /\ cells = map (fun _ => VNull) elems)
  \/ (c <> ClsUnknown /\ first_class elems = Some c /\ map_opt (cell_of o c) elems = Some cells).
Proof.
  induction elems as [|e r IH]; intros c cells H.
  - cbn in H. injection H as <- <-. left. auto.
  - destruct e; cbn [value_loop] in H;
      try (destruct (class_of _) as [c1|] eqn:Ec; [|discriminate];
           pose proof (class_of_known _ _ Ec) as Hk;
           destruct (elem_cell o c1 _) as [x|] eqn:Ex; [|discriminate];
           rewrite (value_loop_known o c1 r Hk) in H;
           destruct (map_opt (cell_of o c1) r) as [cs0|] eqn:El; [|discriminate];
           cbn in H; injection H as <- <-; right; split; [exact Hk|]; split; [exact Ec|];
           cbn [map_opt cell_of]; rewrite Ex, El; reflexivity).
    destruct (value_loop o ClsUnknown r) as [[c' cs0]|] eqn:Er; [|discriminate].
    injection H as <- <-.
    destruct (IH _ _ eq_refl) as [(-> & Hn & ->)|(Hk & Hf & Hm)].
    + left. cbn. auto.
    + right. split; [exact Hk|]. split; [exact Hf|]. cbn [map_opt cell_of]. now rewrite Hm.
Qed.

Definition gclass (g : gval) : option class :=
  match g with
  | GInt _ _ => Some ClsInt
  | GF32 _ | GF64 _ => Some ClsFloat
  | GStr _ => Some ClsStr
  | GBool _ => Some ClsBool
  | _ => None
  end.

Lemma fnn_all_nil o elems : forallb is_mnil elems = true -> first_non_nil (gcol o elems) = None.
Proof.
  induction elems as [|e r IH]; [reflexivity|].
  cbn [forallb]. intros H. apply andb_prop in H as [He Hr].
  destruct e; try discriminate. cbn. now apply IH.
Qed.

Lemma fnn_class o elems c : first_class elems = Some c ->
  exists g, first_non_nil (gcol o elems) = Some g /\ gclass g = Some c.
Proof.
  induction elems as [|e r IH]; [discriminate|].
  destruct e; cbn [first_class class_of]; intros H; try discriminate;
    try (injection H as <-; eexists; split; [reflexivity|reflexivity]).
  destruct (IH H) as [g [Hg Hc]]. exists g. split; [|exact Hc]. exact Hg.
Qed.

(* zero-copy = slow path when it applies *)
Lemma zc_slow {A} (sel : gval -> option A) (zero : A) (conv : gval -> option A) col :
  (forall g x, sel g = Some x -> is_gnil g = false /\ conv g = Some x) ->
  forall arr, map_opt sel col = Some arr -> slow zero conv col = Some (map (fun x => (x, true)) arr).
Proof.
  intros Hsel. unfold slow. induction col as [|g r IH]; intros arr H.
  - cbn in H. injection H as <-. reflexivity.
  - cbn [map_opt] in H. destruct (sel g) as [x|] eqn:Eg; [|discriminate].
    destruct (map_opt sel r) as [xs|] eqn:Er; [|discriminate]. injection H as <-.
    destruct (Hsel _ _ Eg) as [Hn Hc]. cbn [map_opt]. rewrite Hn, Hc, (IH _ eq_refl). reflexivity.
Qed.

Lemma finish_all_valid {A} (mk : list A -> coldata) (arr : list A) :
  finish mk (map (fun x => (x, true)) arr) = (mk arr, None).
Proof.
  unfold finish. rewrite map_map. cbn [fst]. rewrite map_id.
  replace (existsb _ _) with false; [reflexivity|].
  induction arr; cbn; auto.
Qed.

Lemma branch_zc {A} (sel : gval -> option A) (zero : A) (conv : gval -> option A) mk col :
  (forall g x, sel g = Some x -> is_gnil g = false /\ conv g = Some x) ->
  match map_opt sel col with
  | Some arr => Some (mk arr, None)
  | None => option_map (finish mk) (slow zero conv col)
  end = option_map (finish mk) (slow zero conv col).
Proof.
  intros Hsel. destruct (map_opt sel col) as [arr|] eqn:E; [|reflexivity].
  rewrite (zc_slow sel zero conv col Hsel arr E). cbn [option_map]. now rewrite finish_all_valid.
Qed.

Lemma conv_value_col_slow o col g :
  first_non_nil col = Some g ->
  conv_value_col o col =
  match gclass g with
  | Some ClsInt => option_map (finish CI64) (slow 0 (to_int64 o) col)
  | Some ClsFloat => option_map (finish CF64) (slow 0%N (to_float64 o) col)
  | Some ClsStr => option_map (finish CStr) (slow [] (fun g => match g with GStr s => Some s | _ => None end) col)
  | Some ClsBool => option_map (finish CBool) (slow false (fun g => match g with GBool b => Some b | _ => None end) col)
  | _ => None
  end.
Proof.
  intros Hf. unfold conv_value_col. rewrite Hf.
  destruct g; cbn [gclass]; try reflexivity.
  - unfold zc_bool. apply branch_zc. intros [] x; try discriminate. intros [= <-]. auto.
  - unfold zc_i64. apply branch_zc. intros [| |k' z'| | | | | | | |] x; try discriminate.
    destruct k'; cbn; try discriminate. intros [= <-]. auto.
  - unfold zc_f64. apply branch_zc. intros [] x; try discriminate. intros [= <-]. auto.
  - unfold zc_f64. apply branch_zc. intros [] x; try discriminate. intros [= <-]. auto.
  - unfold zc_str. apply branch_zc. intros [] x; try discriminate. intros [= <-]. auto.
Qed.

(* per-element agreement of the typed coercions with toInt64 / toFloat64 / assertions *)
Definition cell_pair {A} (proj : cell -> A) (x : cell) : A * bool := (proj x, cell_valid x).

Lemma slow_cells {A} o c (zero : A) (conv : gval -> option A) (proj : cell -> A) elems :
  proj VNull = zero ->
  (forall e x, is_mnil e = false -> elem_cell o c e = Some x ->
               is_gnil (san_val o (box e)) = false /\ conv (san_val o (box e)) = Some (proj x) /\ cell_valid x = true) ->
  forall cells, map_opt (cell_of o c) elems = Some cells ->
  slow zero conv (gcol o elems) = Some (map (cell_pair proj) cells).
Proof.
  intros Hz He. unfold slow, gcol. induction elems as [|e r IH]; intros cells H.
  - cbn in H. injection H as <-. reflexivity.
  - cbn [map_opt] in H. destruct (cell_of o c e) as [x|] eqn:Ex; [|discriminate].
    destruct (map_opt (cell_of o c) r) as [xs|] eqn:Er; [|discriminate]. injection H as <-.
    cbn [map map_opt]. rewrite (IH _ eq_refl).
    destruct (is_mnil e) eqn:En.
    + destruct e; try discriminate. cbn in Ex. injection Ex as <-. cbn. unfold cell_pair. cbn. now rewrite Hz.
    + assert (Ex' : elem_cell o c e = Some x) by (destruct e; try discriminate; exact Ex).
      destruct (He _ _ En Ex') as (Hn & Hc & Hv). rewrite Hn, Hc. unfold cell_pair. now rewrite Hv.
Qed.

Lemma finish_cells {A} (mk : list A -> coldata) (proj : cell -> A) cells :
  finish mk (map (cell_pair proj) cells) =
  (mk (map proj cells),
   if existsb (fun x => negb (cell_valid x)) cells then Some (map cell_valid cells) else None).
Proof.
  unfold finish. rewrite !map_map. cbn [cell_pair fst snd].
  replace (existsb (fun c => negb (snd c)) (map (cell_pair proj) cells))
    with (existsb (fun x => negb (cell_valid x)) cells); [reflexivity|].
  induction cells as [|x r IH]; cbn; [reflexivity|]. now rewrite IH.
Qed.

Lemma map_const_len {A B C} (x : C) (a : list A) (b : list B) :
  List.length a = List.length b -> map (fun _ => x) a = map (fun _ => x) b.
Proof.
  revert b. induction a as [|y a IH]; destruct b; cbn; try discriminate; [reflexivity|].
  intros [= H]. now rewrite (IH _ H).
Qed.

Lemma cells_scalar o c elems cells :
  map_opt (cell_of o c) elems = Some cells -> forallb scalar elems = true.
Proof.
  revert cells. induction elems as [|e r IH]; intros cells H; [reflexivity|].
  cbn [map_opt] in H. destruct (cell_of o c e) eqn:Ex; [|discriminate].
  destruct (map_opt (cell_of o c) r) eqn:Er; [|discriminate].
  cbn [forallb]. rewrite (IH _ eq_refl), andb_true_r.
  destruct e; try reflexivity; destruct c; discriminate.
Qed.

Lemma all_nil_scalar elems : forallb is_mnil elems = true -> forallb scalar elems = true.
Proof.
  induction elems as [|e r IH]; [reflexivity|]. cbn [forallb]. intros H.
  apply andb_prop in H as [He Hr]. destruct e; try discriminate. cbn. now apply IH.
Qed.

Lemma typed_value_scalar o elems c : typed_value o elems = Some c -> forallb scalar elems = true.
Proof.
  unfold typed_value. destruct (value_loop o ClsUnknown elems) as [[cl cells]|] eqn:E; [|discriminate].
  intros _. destruct (value_loop_unknown _ _ _ _ E) as [(_ & Hn & _)|(_ & _ & Hm)].
  - now apply all_nil_scalar.
  - eapply cells_scalar; eassumption.
Qed.

Theorem value_col_equiv o elems c :
  typed_value o elems = Some c -> conv_value_col o (gcol o elems) = Some c.
Proof.
  unfold typed_value. destruct (value_loop o ClsUnknown elems) as [[cl cells]|] eqn:E; [|discriminate].
  destruct (value_loop_unknown _ _ _ _ E) as [(-> & Hn & ->)|(Hk & Hf & Hm)].
  - intros [= <-]. unfold conv_value_col. rewrite (fnn_all_nil o elems Hn). f_equal. f_equal.
    + f_equal. apply map_const_len. unfold gcol. now rewrite !map_length.
    + f_equal. apply map_const_len. unfold gcol. now rewrite !map_length.
  - destruct (fnn_class o elems cl Hf) as [g [Hg Hc]].
    rewrite (conv_value_col_slow o _ g Hg), Hc.
    destruct cl; [congruence| | | |]; intros [= <-].
    + erewrite (slow_cells o ClsInt 0 (to_int64 o) cell_i elems eq_refl); [|clear; intros e x En Ex|exact Hm].
      * cbn [option_map]. now rewrite finish_cells.
      * destruct e; try discriminate; cbn in Ex |- *.
        -- destruct k; try (injection Ex as <-; auto).
           destruct (z >? max_i64); [discriminate|]. injection Ex as <-. auto.
        -- destruct (o_oob o (o_widen o bits)); [discriminate|]. injection Ex as <-. auto.
        -- destruct (o_oob o bits); [discriminate|]. injection Ex as <-. auto.
    + erewrite (slow_cells o ClsFloat 0%N (to_float64 o) cell_f elems eq_refl); [|clear; intros e x En Ex|exact Hm].
      * cbn [option_map]. now rewrite finish_cells.
      * destruct e; try discriminate; cbn in Ex |- *; injection Ex as <-; auto.
    + erewrite (slow_cells o ClsStr [] (fun g => match g with GStr s => Some s | _ => None end) cell_s elems eq_refl);
        [|clear; intros e x En Ex|exact Hm].
      * cbn [option_map]. now rewrite finish_cells.
      * destruct e; try discriminate; cbn in Ex |- *; injection Ex as <-; auto.
    + erewrite (slow_cells o ClsBool false (fun g => match g with GBool b => Some b | _ => None end) cell_b elems eq_refl);
        [|clear; intros e x En Ex|exact Hm].
      * cbn [option_map]. now rewrite finish_cells.
      * destruct e; try discriminate; cbn in Ex |- *; injection Ex as <-; auto.
Qed.

(* ------------------------------------------------------------------------------------ *)
(* the time column: decodeTimeColumnTyped = normalizeTimestampColumns + the time chokepoint *)

Lemma ts_of_elem_box o e ts :
  ts_of_elem o e = Some ts -> scalar e = true /\ to_int64_ts o (box e) = Some ts.
Proof. destruct e; cbn; try discriminate; auto. Qed.

Definition norm_elem (o : ops) (mult : Z) (g : gval) : option gval :=
  option_map (fun ts => GInt KI64 (scale mult ts)) (to_int64_ts o g).

Lemma time_loop_norm o mult elems : forall arr,
  time_loop o mult elems = Some arr ->
  forallb scalar elems = true /\
  map_opt (norm_elem o mult) (map box elems) = Some (map (GInt KI64) arr) /\
  List.length arr = List.length elems.
Proof.
  induction elems as [|e r IH]; intros arr H.
  - cbn in H. injection H as <-. auto.
  - cbn [time_loop] in H. destruct (ts_of_elem o e) as [ts|] eqn:Et; [|discriminate].
    destruct (time_loop o mult r) as [l|] eqn:Er; [|discriminate]. injection H as <-.
    destruct (ts_of_elem_box _ _ _ Et) as [Hs Hb]. destruct (IH _ eq_refl) as (Hsr & Hm & Hl).
    cbn [forallb map map_opt List.length]. rewrite Hs, Hsr. unfold norm_elem at 1. rewrite Hb. cbn [option_map].
    rewrite Hm. auto.
Qed.

Lemma conv_time_ints_aux o l :
  map_opt (fun g => match g with GInt KI64 z => Some z | GNil => None | _ => to_int64 o g end)
          (map (san_val o) (map (GInt KI64) l)) = Some l.
Proof. induction l as [|y l IH]; [reflexivity|]. cbn [map san_val map_opt]. now rewrite IH. Qed.

Lemma conv_time_ints o arr :
  arr <> [] -> conv_time_col o (map (san_val o) (map (GInt KI64) arr)) = Some (CI64 arr, None).
Proof.
  intros Hne. unfold conv_time_col. rewrite conv_time_ints_aux.
  destruct arr as [|z r]; [congruence|]. reflexivity.
Qed.

Lemma typed_time_norm o elems arr :
  typed_time o elems = Some arr ->
  exists e0 r ts0,
    elems = e0 :: r /\ to_int64_ts o (box e0) = Some ts0 /\
    forallb scalar elems = true /\
    map_opt (norm_elem o (mult_of ts0)) (map box elems) = Some (map (GInt KI64) arr) /\
    List.length arr = List.length elems.
Proof.
  unfold typed_time. destruct elems as [|e0 r]; [discriminate|].
  destruct (ts_of_elem o e0) as [ts0|] eqn:E0; [|discriminate]. intros H.
  destruct (ts_of_elem_box _ _ _ E0) as [_ Hb].
  destruct (time_loop_norm _ _ _ _ H) as (Hs & Hm & Hl).
  exists e0, r, ts0. auto.
Qed.

(* ------------------------------------------------------------------------------------ *)
(* decodeTypedColumns as a function of the last binding of every column name              *)

Definition conv_typed (o : ops) (name : bytes) (elems : list ast) : option (coldata * option (list bool)) :=
  if bytes_eqb name k_time
  then option_map (fun arr => (CI64 arr, @None (list bool))) (typed_time o elems)
  else typed_value o elems.

Lemma typed_cols_step_arr o s elems r expected acc res :
  typed_cols o ((MStr s, MArr elems) :: r) expected acc = TOk res ->
  let n := Z.of_nat (List.length elems) in
  0 < n /\ n <= max_typed_elems /\ (forall e, expected = Some e -> n = e) /\
  lookupb s acc = None /\
  exists c, conv_typed o s elems = Some c /\ typed_cols o r (Some n) (acc ++ [(s, c)]) = TOk res.
Proof.
  cbn [typed_cols]. fold (conv_typed o s elems).
  destruct (_ || _) eqn:E1; [discriminate|].
  apply orb_false_elim in E1 as [E1 E2].
  destruct (match expected with None => true | Some e => _ end) eqn:E3; [|discriminate].
  destruct (lookupb s acc) eqn:E4; [discriminate|].
  destruct (conv_typed o s elems) as [c|] eqn:E5; [|discriminate].
  intros H. unfold max_typed_elems in *. repeat split; try lia.
  - intros e ->. lia.
  - exists c. auto.
Qed.

(* a non-array value: no array was decoded for that key before, and the value is decodable *)
Lemma typed_cols_step_non o s v r expected acc res :
  is_arr v = false ->
  typed_cols o ((MStr s, v) :: r) expected acc = TOk res ->
  lookupb s acc = None /\ lib_ok o v = true /\ typed_cols o r expected acc = TOk res.
Proof.
  intros Hv H.
  assert (H' : match lookupb s acc with
               | Some _ => TBail
               | None => discard o v (typed_cols o r expected acc)
               end = TOk res) by (destruct v; try discriminate; exact H).
  clear H. destruct (lookupb s acc); [discriminate|]. unfold discard, lib_ok in *.
  destruct (lib_decode o v); try discriminate. auto.
Qed.

Lemma is_arr_inv v : is_arr v = true -> exists l, v = MArr l.
Proof. destruct v; try discriminate. eauto. Qed.

Lemma typed_cols_str_keys o entries : forall expected acc res,
  typed_cols o entries expected acc = TOk res -> str_keys entries = true.
Proof.
  induction entries as [|[k v] r IH]; intros expected acc res H; [reflexivity|].
  destruct k; try discriminate. cbn [str_keys forallb fst is_str_code andb].
  destruct (is_arr v) eqn:Ea.
  - destruct (is_arr_inv _ Ea) as [l ->].
    destruct (typed_cols_step_arr _ _ _ _ _ _ _ H) as (_ & _ & _ & _ & c & _ & H'). eapply IH; exact H'.
  - destruct (typed_cols_step_non _ _ _ _ _ _ _ Ea H) as (_ & _ & H'). eapply IH; exact H'.
Qed.

Lemma typed_cols_lookup o entries : forall expected acc exp' cols',
  typed_cols o entries expected acc = TOk (exp', cols') ->
  forall name,
    lookupb name cols' =
    match last_val name entries with
    | Some (MArr elems) => conv_typed o name elems
    | Some _ => None
    | None => lookupb name acc
    end.
Proof.
  induction entries as [|[k v] r IH]; intros expected acc exp' cols' H name.
  - cbn in H. injection H as <- <-. reflexivity.
  - destruct k; try discriminate. cbn [last_val].
    destruct (is_arr v) eqn:Ea.
    + destruct (is_arr_inv _ Ea) as [l ->].
      destruct (typed_cols_step_arr _ _ _ _ _ _ _ H) as (_ & _ & _ & Hs & c & Hc & H').
      rewrite (IH _ _ _ _ H' name).
      destruct (last_val name r); [reflexivity|].
      rewrite lk_app. destruct (bytes_eqb_spec name s) as [->|Hne].
      * rewrite Hs. cbn. unfold lookupb; cbn. rewrite bytes_eqb_refl. now rewrite Hc.
      * destruct (lookupb name acc); [reflexivity|]. unfold lookupb; cbn. now rewrite (bytes_eqb_neq _ _ Hne).
    + destruct (typed_cols_step_non _ _ _ _ _ _ _ Ea H) as (Hs & _ & H').
      rewrite (IH _ _ _ _ H' name).
      destruct (last_val name r); [reflexivity|].
      destruct (bytes_eqb_spec name s) as [->|]; [|reflexivity].
      rewrite Hs. destruct v; try reflexivity; discriminate.
Qed.

(* every array entry was decoded: same length, scalars only *)
Lemma typed_cols_arrays o entries : forall expected acc exp' cols',
  typed_cols o entries expected acc = TOk (exp', cols') ->
  (forall e, expected = Some e -> exp' = Some e) /\
  forall name elems, In (MStr name, MArr elems) entries ->
    exp' = Some (Z.of_nat (List.length elems)) /\ 0 < Z.of_nat (List.length elems) /\
    conv_typed o name elems <> None.
Proof.
  induction entries as [|[k v] r IH]; intros expected acc exp' cols' H.
  - cbn in H. injection H as <- <-. split; [auto|]. intros ? ? [].
  - destruct k; try discriminate.
    destruct (is_arr v) eqn:Ea.
    + destruct (is_arr_inv _ Ea) as [l ->].
      destruct (typed_cols_step_arr _ _ _ _ _ _ _ H) as (Hpos & _ & Hexp & _ & c & Hc & H').
      destruct (IH _ _ _ _ H') as [He Ha]. split.
      * intros e ->. rewrite (He _ eq_refl). f_equal. now apply Hexp.
      * intros name elems [Hin|Hin].
        -- injection Hin as <- <-. split; [now apply He|]. split; [exact Hpos|]. congruence.
        -- now apply Ha.
    + destruct (typed_cols_step_non _ _ _ _ _ _ _ Ea H) as (_ & _ & H').
      destruct (IH _ _ _ _ H') as [He Ha]. split; [exact He|].
      intros name elems [Hin|Hin]; [|now apply Ha]. injection Hin as _ ->. discriminate.
Qed.

Lemma last_val_in key entries v :
  last_val key entries = Some v -> In (MStr key, v) entries.
Proof.
  induction entries as [|[k v'] r IH]; cbn [last_val]; [discriminate|].
  destruct k; try (intros H; right; now apply IH).
  destruct (last_val key r) eqn:E.
  - intros [= <-]. right. now apply IH.
  - destruct (bytes_eqb_spec key s) as [->|]; [|discriminate]. intros [= <-]. now left.
Qed.

(* ------------------------------------------------------------------------------------ *)
(* generic side: pieces of decodeColumnar / convertColumnsToTyped as lookup functions     *)

Lemma keep_arrays_keys cm x : In x (keys (keep_arrays cm)) -> In x (keys cm).
Proof.
  induction cm as [|[k g] r IH]; cbn; [tauto|].
  destruct g; cbn; try (intros H; right; now apply IH).
  intros [->|H]; [now left|right; now apply IH].
Qed.

Lemma keep_arrays_nodup cm : NoDup (keys cm) -> NoDup (keys (keep_arrays cm)).
Proof.
  induction cm as [|[k g] r IH]; cbn; intros H; [constructor|].
  inversion H as [|? ? Hn Hd]; subst.
  destruct g; try (now apply IH). cbn. constructor; [|now apply IH].
  intros Hin. apply Hn. now apply keep_arrays_keys.
Qed.

Lemma notin_lk_none {V} k (l : list (bytes * V)) : ~ In k (keys l) -> lookupb k l = None.
Proof.
  induction l as [|[k' v] r IH]; cbn; [reflexivity|]. intros H.
  destruct (bytes_eqb_spec k k') as [->|]; [exfalso; apply H; now left|].
  apply IH. intros Hin. apply H. now right.
Qed.

Lemma keep_arrays_lookup cm name :
  NoDup (keys cm) ->
  lookupb name (keep_arrays cm) = match lookupb name cm with Some (GArr vs) => Some vs | _ => None end.
Proof.
  induction cm as [|[k g] r IH]; cbn; intros H; [reflexivity|].
  inversion H as [|? ? Hn Hd]; subst.
  destruct (bytes_eqb_spec name k) as [->|Hne].
  - assert (Hr : lookupb k (keep_arrays r) = None).
    { apply notin_lk_none. intros Hin. apply Hn. now apply keep_arrays_keys. }
    destruct g; try exact Hr. cbn. now rewrite bytes_eqb_refl.
  - destruct g; try (now apply IH). cbn. rewrite (bytes_eqb_neq _ _ Hne). now apply IH.
Qed.

Lemma sanitize_lookup o cols name :
  lookupb name (sanitize o cols) = option_map (map (san_val o)) (lookupb name cols).
Proof.
  induction cols as [|[k c] r IH]; cbn; [reflexivity|].
  destruct (bytes_eqb name k); [reflexivity|exact IH].
Qed.

Lemma sanitize_keys o cols : keys (sanitize o cols) = keys cols.
Proof. unfold sanitize, keys. rewrite map_map. reflexivity. Qed.

Definition convf (o : ops) (name : bytes) (col : list gval) :=
  if bytes_eqb name k_time then conv_time_col o col else conv_value_col o col.

Lemma conv_cols_spec o cols :
  (forall name col, In (name, col) cols -> col <> [] /\ exists c, convf o name col = Some c) ->
  exists cs, conv_cols o cols = Some cs /\
             forall name, lookupb name cs =
                          match lookupb name cols with Some col => convf o name col | None => None end.
Proof.
  induction cols as [|[k col] r IH]; intros H.
  - exists []. split; reflexivity.
  - destruct (H k col (or_introl eq_refl)) as [Hne [c Hc]].
    destruct IH as [cs [Hcs Hl]]; [intros; apply H; now right|].
    exists ((k, c) :: cs). split.
    + cbn [conv_cols]. destruct col as [|g col']; [congruence|].
      fold (convf o k (g :: col')). rewrite Hc, Hcs. reflexivity.
    + intros name. cbn. destruct (bytes_eqb name k) eqn:E; [|apply Hl].
      apply bytes_eqb_eq in E. subst. now rewrite Hc.
Qed.

Lemma all_len_intro n (cols : gcols) :
  (forall name col, In (name, col) cols -> (List.length col = n)%nat) -> all_len n cols = true.
Proof.
  intros H. unfold all_len. apply forallb_forall. intros [k c] Hin. cbn.
  apply Nat.eqb_eq. eapply H; eassumption.
Qed.

Lemma map_opt_repeat {A B} (f : A -> option B) x y n :
  f x = Some y -> map_opt f (repeat x n) = Some (repeat y n).
Proof. intros H. induction n; cbn; [reflexivity|]. now rewrite H, IHn. Qed.

Lemma map_repeat {A B} (f : A -> B) x n : map f (repeat x n) = repeat (f x) n.
Proof. induction n; cbn; congruence. Qed.

Lemma norm_generated o now n (gc : gcols) :
  (0 < n)%nat ->
  normalize o (insertb k_time (repeat (GInt KI64 now) n) gc) =
  Some (insertb k_time (map (GInt KI64) (repeat (scale (mult_of now) now) n))
          (insertb k_time (repeat (GInt KI64 now) n) gc)).
Proof.
  intros Hn. unfold normalize. rewrite lk_ins_same.
  remember (insertb k_time (repeat (GInt KI64 now) n) gc) as c1.
  destruct n as [|n']; [lia|].
  change (repeat (GInt KI64 now) (S n')) with (GInt KI64 now :: repeat (GInt KI64 now) n').
  cbn [to_int64_ts].
  change (GInt KI64 now :: repeat (GInt KI64 now) n') with (repeat (GInt KI64 now) (S n')).
  rewrite (map_opt_repeat _ (GInt KI64 now) (GInt KI64 (scale (mult_of now) now))); [|reflexivity].
  now rewrite map_repeat.
Qed.

Lemma decode_columnar_unfold o now mv m (cols : gcols) n :
  extract_measurement mv = Some m -> cols <> [] ->
  (forall name col, In (name, col) cols -> (List.length col = n)%nat) ->
  decode_columnar o now mv cols =
  match normalize o (match lookupb k_time cols with
                     | None | Some [] => insertb k_time (repeat (GInt KI64 now) n) cols
                     | Some _ => cols
                     end) with
  | None => None
  | Some cols2 => Some (ICol m (convert o (sanitize o cols2)))
  end.
Proof.
  intros Hm Hne Hlen. unfold decode_columnar. rewrite Hm.
  destruct cols as [|[nm0 c0] rest] eqn:Eg; [congruence|]. rewrite <- Eg in *.
  assert (Hc0 : List.length c0 = n) by (apply (Hlen nm0); rewrite Eg; now left).
  rewrite Hc0. now rewrite (all_len_intro n cols Hlen).
Qed.

(* the columnar pipeline on a duplicate-free column map all of whose columns were accepted
   by the typed decoders; [src name] = the array elements the column [name] was decoded from *)
Section Columnar.
  Variables (o : ops) (now : Z) (mv : option gval) (m : bytes).
  Variables (gc : gcols) (tc : list tcol) (n : nat) (src : bytes -> option (list ast)).
  Hypothesis Hm : extract_measurement mv = Some m.
  Hypothesis Hnd : NoDup (keys gc).
  Hypothesis Hn : (0 < n)%nat.
  Hypothesis Hrel : forall name,
    match src name with
    | Some elems => lookupb name gc = Some (map box elems) /\ (List.length elems = n)%nat /\ exists c, conv_typed o name elems = Some c /\ lookupb name tc = Some c
    | None => lookupb name gc = None /\ lookupb name tc = None
    end.
  Hypothesis Hne : tc <> [].

  Lemma gc_src name col : lookupb name gc = Some col ->
    exists elems c, src name = Some elems /\ col = map box elems /\ (List.length elems = n)%nat /\ conv_typed o name elems = Some c /\ lookupb name tc = Some c.
  Proof.
    intros Hl. pose proof (Hrel name) as H. destruct (src name) as [elems|].
    - destruct H as (Hg & Hlen & c & Hc & Ht). rewrite Hg in Hl. injection Hl as <-.
      exists elems, c. auto.
    - destruct H as [Hg _]. congruence.
  Qed.

  Lemma gc_len name col : In (name, col) gc -> (List.length col = n)%nat.
  Proof.
    intros Hin. destruct (gc_src _ _ (in_lk _ _ _ Hnd Hin)) as (elems & c & _ & -> & Hl & _).
    now rewrite map_length.
  Qed.

  Lemma gc_nonempty : gc <> [].
  Proof.
    destruct tc as [|[k c] r] eqn:E; [congruence|]. intros Hg.
    pose proof (Hrel k) as H. rewrite Hg in H. unfold lookupb in H. cbn in H.
    rewrite bytes_eqb_refl in H. destruct (src k); [destruct H; discriminate|destruct H; discriminate].
  Qed.

  (* columns after the time handling of decodeColumnar *)
  Definition cols1 : gcols :=
    match lookupb k_time gc with
    | None | Some [] => insertb k_time (repeat (GInt KI64 now) n) gc
    | Some _ => gc
    end.

  Lemma cols1_nodup : NoDup (keys cols1).
  Proof. unfold cols1. destruct (lookupb k_time gc) as [[|]|]; auto using nodup_ins. Qed.

  Lemma cols1_other name : name <> k_time -> lookupb name cols1 = lookupb name gc.
  Proof.
    intros Hne'. unfold cols1. destruct (lookupb k_time gc) as [[|]|]; auto using lk_ins_other.
  Qed.

  Lemma norm_ok :
    exists arr : list Z, arr <> [] /\ List.length arr = n /\
      normalize o cols1 = Some (insertb k_time (map (GInt KI64) arr) cols1) /\
      (forall elems, src k_time = Some elems -> conv_typed o k_time elems = Some (CI64 arr, None)).
  Proof.
    pose proof (Hrel k_time) as H. unfold cols1, normalize.
    destruct (src k_time) as [elems|] eqn:Es.
    - destruct H as (Hg & Hl & c & Hc & _).
      unfold conv_typed in Hc. rewrite bytes_eqb_refl in Hc.
      destruct (typed_time o elems) as [arr|] eqn:Et; [|discriminate].
      destruct (typed_time_norm _ _ _ Et) as (e0 & r & ts0 & -> & Hb & _ & Hmap & Hlen).
      exists arr. split; [|split; [|split]].
      + intros ->. cbn in Hlen. discriminate.
      + congruence.
      + rewrite Hg. cbn [map]. rewrite Hg. cbn [map] in Hmap |- *. rewrite Hb. unfold norm_elem in Hmap.
        now rewrite Hmap.
      + intros elems' [= <-]. unfold conv_typed. now rewrite bytes_eqb_refl, Et.
    - destruct H as [Hg _]. rewrite Hg.
      exists (repeat (scale (mult_of now) now) n). split; [|split; [|split]].
      + destruct n; [lia|]. discriminate.
      + apply repeat_length.
      + apply norm_generated; assumption.
      + intros elems He. discriminate.
  Qed.

  Lemma conv_typed_value name elems c :
    name <> k_time -> conv_typed o name elems = Some c -> convf o name (gcol o elems) = Some c.
  Proof.
    intros Hne' Hc. unfold conv_typed in Hc. unfold convf. rewrite (bytes_eqb_neq _ _ Hne') in *.
    now apply value_col_equiv.
  Qed.

  Lemma columnar_ok :
    exists b', decode_columnar o now mv gc = Some (ICol m (Some b')) /\
      b_n b' = Z.of_nat n /\
      (forall name, (name <> k_time \/ src k_time <> None) -> lookupb name (b_cols b') = lookupb name tc) /\
      lookupb k_time (b_cols b') <> None.
  Proof.
    destruct norm_ok as (arr & Harr & Hlen & Hnorm & Htime).
    set (tc' := map (GInt KI64) arr) in *.
    set (cols2 := insertb k_time tc' cols1) in *.
    assert (Hnd2 : NoDup (keys (sanitize o cols2))).
    { rewrite sanitize_keys. apply nodup_ins, cols1_nodup. }
    assert (Hlk2 : forall name, lookupb name (sanitize o cols2) =
                     if bytes_eqb name k_time then Some (map (san_val o) tc')
                     else option_map (map (san_val o)) (lookupb name gc)).
    { intros name. rewrite sanitize_lookup. unfold cols2.
      destruct (bytes_eqb_spec name k_time) as [->|Hne'].
      - now rewrite lk_ins_same.
      - now rewrite lk_ins_other, cols1_other. }
    assert (Htc' : convf o k_time (map (san_val o) tc') = Some (CI64 arr, None)).
    { unfold convf. rewrite bytes_eqb_refl. now apply conv_time_ints. }
    destruct (conv_cols_spec o (sanitize o cols2)) as [cs [Hcs Hlcs]].
    { intros name col Hin. pose proof (in_lk _ _ _ Hnd2 Hin) as Hl. rewrite Hlk2 in Hl.
      destruct (bytes_eqb_spec name k_time) as [->|Hne'].
      - injection Hl as <-. split; [|eauto]. unfold tc'. destruct arr; [congruence|discriminate].
      - destruct (lookupb name gc) as [col0|] eqn:Eg; [|discriminate]. injection Hl as <-.
        destruct (gc_src _ _ Eg) as (elems & c & _ & -> & Hl' & Hc & _). split.
        + destruct elems; [cbn in Hl'; lia|discriminate].
        + exists c. now apply conv_typed_value. }
    exists {| b_n := Z.of_nat n; b_cols := cs |}. split; [|split; [reflexivity|split]].
    - rewrite (decode_columnar_unfold o now mv m gc n Hm gc_nonempty gc_len).
      pose proof Hnorm as Hnorm'. unfold cols2 in Hnorm'. unfold cols1 at 1 in Hnorm'. rewrite Hnorm'. clear Hnorm'.
      fold cols2. unfold convert. rewrite Hcs. cbn [option_map].
      do 3 f_equal. unfold cols2, insertb, insert, sanitize. cbn [map fst snd first_len].
      unfold tc'. destruct arr as [|a arr']; [congruence|]. cbn [map first_len].
      cbn [map List.length] in *. rewrite !map_length. now rewrite <- Hlen.
    - intros name Hcase. cbn [b_cols]. rewrite Hlcs, Hlk2.
      pose proof (Hrel name) as Hr.
      destruct (bytes_eqb_spec name k_time) as [->|Hne'].
      + destruct Hcase as [Hc|Hc]; [congruence|].
        destruct (src k_time) as [elems|] eqn:Es; [|congruence].
        destruct Hr as (_ & _ & c & Hc' & Ht). rewrite (Htime _ eq_refl) in Hc'. injection Hc' as <-.
        now rewrite Htc', Ht.
      + destruct (src name) as [elems|].
        * destruct Hr as (Hg & _ & c & Hc' & Ht). rewrite Hg. cbn [option_map].
          fold (gcol o elems). now rewrite (conv_typed_value _ _ _ Hne' Hc'), Ht.
        * destruct Hr as [Hg Ht]. now rewrite Hg, Ht.
    - cbn [b_cols]. rewrite Hlcs, Hlk2, bytes_eqb_refl, Htc'. discriminate.
  Qed.
End Columnar.

(* ------------------------------------------------------------------------------------ *)
(* the columns map: typed success => the generic decode sees the same columns              *)

Lemma conv_typed_scalar o name elems c :
  conv_typed o name elems = Some c -> forallb scalar elems = true.
Proof.
  unfold conv_typed. destruct (bytes_eqb name k_time).
  - destruct (typed_time o elems) as [arr|] eqn:E; [|discriminate]. intros _.
    destruct (typed_time_norm _ _ _ E) as (? & ? & ? & _ & _ & Hs & _). exact Hs.
  - apply typed_value_scalar.
Qed.

Lemma lib_decode_scalar_arr o elems :
  forallb scalar elems = true -> lib_decode o (MArr elems) = LOk (GArr (map box elems)).
Proof. intros H. now rewrite lib_decode_arr, (lib_decode_list_scalars o elems H). Qed.

Lemma cols_values_ok o entries : forall expected acc res,
  typed_cols o entries expected acc = TOk res ->
  forallb (fun kv => lib_ok o (snd kv)) entries = true.
Proof.
  induction entries as [|[k v] r IH]; intros expected acc res H; [reflexivity|].
  destruct k; try discriminate. cbn [forallb snd].
  destruct (is_arr v) eqn:Ea.
  - destruct (is_arr_inv _ Ea) as [l ->].
    destruct (typed_cols_step_arr _ _ _ _ _ _ _ H) as (_ & _ & _ & _ & c & Hc & H').
    unfold lib_ok at 1. rewrite (lib_decode_scalar_arr o l (conv_typed_scalar _ _ _ _ Hc)).
    cbn [andb]. eapply IH; eassumption.
  - destruct (typed_cols_step_non _ _ _ _ _ _ _ Ea H) as (_ & Hv & H'). rewrite Hv.
    cbn [andb]. eapply IH; eassumption.
Qed.

Definition src_of (centries : list (ast * ast)) (name : bytes) : option (list ast) :=
  match last_val name centries with Some (MArr e) => Some e | _ => None end.

Lemma cols_bridge o centries nz tcols :
  typed_cols o centries None [] = TOk (Some nz, tcols) ->
  tcols <> [] ->
  exists cm,
    lib_decode o (MMap centries) = LOk (GMap cm) /\ NoDup (keys cm) /\
    forall name,
      match src_of centries name with
      | Some elems => lookupb name (keep_arrays cm) = Some (map box elems) /\
                      (List.length elems = Z.to_nat nz)%nat /\
                      exists c, conv_typed o name elems = Some c /\ lookupb name tcols = Some c
      | None => lookupb name (keep_arrays cm) = None /\ lookupb name tcols = None
      end.
Proof.
  intros H Hne.
  pose proof (typed_cols_str_keys _ _ _ _ _ H) as Hs.
  pose proof (cols_values_ok _ _ _ _ _ H) as Hok.
  destruct (smap_ok o centries [] Hs Hok) as [cm Hcm].
  pose proof (smap_nodup _ _ _ _ Hcm (NoDup_nil _)) as Hnd.
  pose proof (smap_lookup _ _ _ _ Hs Hcm) as Hlk.
  pose proof (typed_cols_lookup _ _ _ _ _ _ H) as Htl.
  destruct (typed_cols_arrays _ _ _ _ _ _ H) as [_ Harr].
  exists cm. split; [|split; [exact Hnd|]].
  - destruct centries as [|[k0 v0] r0].
    + cbn in H. injection H as _ <-. congruence.
    + cbn [str_keys forallb fst] in Hs. apply andb_prop in Hs as [Hk0 _].
      destruct k0; try discriminate. now rewrite lib_decode_smap_str, Hcm.
  - intros name. unfold src_of. rewrite keep_arrays_lookup by exact Hnd.
    rewrite Hlk, Htl. destruct (last_val name centries) as [v|] eqn:El; [|now split].
    pose proof (last_val_in _ _ _ El) as Hin.
    assert (Hv : lib_ok o v = true).
    { rewrite forallb_forall in Hok. exact (Hok _ Hin). }
    destruct (is_arr v) eqn:Ea.
    + destruct v; try discriminate.
      destruct (Harr _ _ Hin) as (He & Hpos & Hc).
      destruct (conv_typed o name l) as [c|] eqn:Ec; [|congruence].
      cbn [dec_opt]. rewrite (lib_decode_scalar_arr o l (conv_typed_scalar _ _ _ _ Ec)).
      split; [reflexivity|]. split; [|eauto]. injection He as ->. lia.
    + assert (Hna : match dec_opt o (Some v) with Some (GArr vs) => Some vs | _ => None end = None).
      { cbn [dec_opt]. destruct (lib_decode o v) as [g| |] eqn:Ed; try reflexivity.
        destruct g; try reflexivity. apply lib_decode_garr_inv in Ed. congruence. }
      destruct v; try discriminate; now split.
Qed.

(* ------------------------------------------------------------------------------------ *)
(* the top-level map                                                                      *)

Lemma last_val_cons_other key s v r :
  bytes_eqb s key = false -> last_val key ((MStr s, v) :: r) = last_val key r.
Proof.
  intros H. cbn [last_val]. rewrite bytes_eqb_sym, H. now destruct (last_val key r).
Qed.

Lemma last_val_cons_same key v r :
  last_val key ((MStr key, v) :: r) = match last_val key r with Some v' => Some v' | None => Some v end.
Proof. cbn [last_val]. now rewrite bytes_eqb_refl. Qed.

Lemma last_val_none_notin key entries v :
  last_val key entries = None -> ~ In (MStr key, v) entries.
Proof.
  induction entries as [|[k v'] r IH]; cbn [last_val]; [tauto|].
  destruct k; try (intros H [Hin|Hin]; [discriminate|now apply IH]).
  destruct (last_val key r); [discriminate|].
  destruct (bytes_eqb_spec key s) as [->|Hne]; [discriminate|].
  intros _ [Hin|Hin]; [congruence|now apply IH].
Qed.

Lemma typed_top_spec o entries : forall st st',
  typed_top o entries st = TOk st' ->
  str_keys entries = true /\
  last_val k_batch entries = None /\
  match last_val k_m entries with
  | Some vm => ts_m st = None /\ typed_measurement vm = ts_m st' /\ ts_m st' <> None
  | None => ts_m st' = ts_m st
  end /\
  match last_val k_columns entries with
  | Some vc => ts_cols st = None /\ exists c, typed_columns o vc = TOk c /\ ts_cols st' = Some c
  | None => ts_cols st' = ts_cols st
  end /\
  (forall v, In (MStr k_m, v) entries -> typed_measurement v <> None) /\
  (forall v, In (MStr k_columns, v) entries -> last_val k_columns entries = Some v) /\
  (forall key v, In (MStr key, v) entries -> is_known_key key = false -> lib_ok o v = true).
Proof.
  induction entries as [|[k v] r IH]; intros st st' H.
  - cbn in H. injection H as <-. cbn. repeat split; tauto.
  - destruct k; try discriminate. cbn [typed_top] in H. cbn [str_keys forallb fst is_str_code andb].
    destruct (bytes_eqb s k_batch) eqn:Eb; [discriminate|].
    destruct (bytes_eqb s k_m) eqn:Em.
    + apply bytes_eqb_eq in Em. subst s.
      destruct (ts_m st) eqn:Esm; [discriminate|].
      destruct (typed_measurement v) as [m0|] eqn:Etm; [|discriminate].
      destruct (IH _ _ H) as (Hs & Hb & Hm & Hc & Hin1 & Hin2 & Hin3). cbn [ts_m ts_cols] in *.
      split; [exact Hs|]. split; [rewrite last_val_cons_other; [exact Hb|reflexivity]|].
      split; [|split; [|split; [|split]]].
      * rewrite last_val_cons_same. destruct (last_val k_m r).
        -- destruct Hm as [Hm _]. discriminate.
        -- rewrite Hm. split; [reflexivity|]. split; [exact Etm|discriminate].
      * rewrite last_val_cons_other by reflexivity. exact Hc.
      * intros v' [Hin|Hin]; [injection Hin as <-; congruence|now apply Hin1].
      * intros v' [Hin|Hin]; [discriminate|]. rewrite last_val_cons_other by reflexivity. now apply Hin2.
      * intros key v' [Hin|Hin] Hk; [injection Hin as <- _; discriminate|eapply Hin3; eassumption].
    + destruct (bytes_eqb s k_columns) eqn:Ec.
      * apply bytes_eqb_eq in Ec. subst s.
        destruct (ts_cols st) eqn:Esc; [discriminate|].
        destruct (typed_columns o v) as [c0| |] eqn:Etc; try discriminate.
        destruct (IH _ _ H) as (Hs & Hb & Hm & Hc & Hin1 & Hin2 & Hin3). cbn [ts_m ts_cols] in *.
        split; [exact Hs|]. split; [rewrite last_val_cons_other; [exact Hb|reflexivity]|].
        assert (Hnone : last_val k_columns r = None).
        { destruct (last_val k_columns r); [|reflexivity]. destruct Hc as [Hc _]. discriminate. }
        split; [|split; [|split; [|split]]].
        -- rewrite last_val_cons_other by reflexivity. exact Hm.
        -- rewrite last_val_cons_same, Hnone. rewrite Hnone in Hc.
           split; [reflexivity|]. exists c0. split; [exact Etc|exact Hc].
        -- intros v' [Hin|Hin]; [discriminate|now apply Hin1].
        -- intros v' [Hin|Hin].
           ++ injection Hin as <-. now rewrite last_val_cons_same, Hnone.
           ++ exfalso. eapply last_val_none_notin; eassumption.
        -- intros key v' [Hin|Hin] Hk; [injection Hin as <- _; discriminate|eapply Hin3; eassumption].
      * unfold discard in H. destruct (lib_decode o v) as [gv| |] eqn:Ev; try discriminate.
        destruct (IH _ _ H) as (Hs & Hb & Hm & Hc & Hin1 & Hin2 & Hin3).
        split; [exact Hs|]. rewrite !last_val_cons_other by assumption.
        repeat split; try assumption.
        -- intros v' [Hin|Hin]; [injection Hin as -> _; now rewrite bytes_eqb_refl in Em|now apply Hin1].
        -- intros v' [Hin|Hin]; [injection Hin as -> _; now rewrite bytes_eqb_refl in Ec|now apply Hin2].
        -- intros key v' [Hin|Hin] Hk; [|eapply Hin3; eassumption].
           injection Hin as <- <-. unfold lib_ok. now rewrite Ev.
Qed.

Lemma typed_measurement_generic o v m :
  typed_measurement v = Some m ->
  exists g, lib_decode o v = LOk g /\ extract_measurement (Some g) = Some m.
Proof.
  destruct v; cbn; try discriminate; intros [= <-]; eexists; split; reflexivity.
Qed.

Lemma payload_no_batch o now m :
  lookupb k_batch m = None -> payload o now (GMap m) = one_item (decode_item o now m).
Proof.
  intros H. cbn [payload].
  assert (G : forall l, lookupb k_batch l = None ->
              (fix scan (l : list (bytes * gval)) : pres :=
                 match l with
                 | [] => one_item (decode_item o now m)
                 | (k, v) :: r =>
                     if bytes_eqb k_batch k
                     then match v with
                          | GArr items =>
                              PMany ((fix go (items : list gval) : list item :=
                                        match items with
                                        | [] => []
                                        | it :: r' =>
                                            match payload o now it with
                                            | PErr => go r'
                                            | PNotMap => go r'
                                            | POne i => i :: go r'
                                            | PMany _ => IBad :: go r'
                                            end
                                        end) items)
                          | _ => one_item (decode_item o now m)
                          end
                     else scan r
                 end) l = one_item (decode_item o now m)).
  { induction l as [|[k v] r IH]; [reflexivity|]. unfold lookupb. cbn [lookup].
    fold (@lookupb gval k_batch r). destruct (bytes_eqb k_batch k); [discriminate|]. exact IH. }
  now apply G.
Qed.

Lemma typed_cols_acc_mono o entries : forall expected acc exp' cols' name c,
  typed_cols o entries expected acc = TOk (exp', cols') ->
  lookupb name acc = Some c -> lookupb name cols' = Some c.
Proof.
  induction entries as [|[k v] r IH]; intros expected acc exp' cols' name c H Hl.
  - cbn in H. now injection H as <- <-.
  - destruct k; try discriminate.
    destruct (is_arr v) eqn:Ea.
    + destruct (is_arr_inv _ Ea) as [l ->].
      destruct (typed_cols_step_arr _ _ _ _ _ _ _ H) as (_ & _ & _ & _ & c0 & _ & H').
      eapply IH; [exact H'|]. now rewrite lk_app, Hl.
    + destruct (typed_cols_step_non _ _ _ _ _ _ _ Ea H) as (_ & _ & H'). eapply IH; eassumption.
Qed.

Lemma typed_cols_has o entries : forall expected acc exp' cols' name elems,
  typed_cols o entries expected acc = TOk (exp', cols') ->
  In (MStr name, MArr elems) entries -> lookupb name cols' <> None.
Proof.
  induction entries as [|[k v] r IH]; intros expected acc exp' cols' name elems H Hin; [destruct Hin|].
  destruct k; try discriminate.
  destruct (is_arr v) eqn:Ea.
  - destruct (is_arr_inv _ Ea) as [l ->].
    destruct (typed_cols_step_arr _ _ _ _ _ _ _ H) as (_ & _ & _ & Hs & c0 & _ & H').
    destruct Hin as [Hin|Hin]; [|eapply IH; eassumption].
    injection Hin as <- <-.
    erewrite typed_cols_acc_mono; [discriminate|exact H'|].
    rewrite lk_app, Hs. unfold lookupb. cbn. now rewrite bytes_eqb_refl.
  - destruct (typed_cols_step_non _ _ _ _ _ _ _ Ea H) as (_ & _ & H').
    destruct Hin as [Hin|Hin]; [injection Hin as _ ->; discriminate|eapply IH; eassumption].
Qed.

Theorem equiv o now_t now_g a m b :
  typed o now_t a = TOk (m, b) ->
  exists b', generic o now_g a = OOk [ICol m (Some b')] /\ same_batch (payload_has_time a) b b'.
Proof.
  intros Ht.
  destruct a as [| | | | | | | |entries|]; try discriminate.
  destruct entries as [|e0 erest] eqn:Ee; [discriminate|]. rewrite <- Ee in *.
  assert (Ht' : match typed_top o entries {| ts_m := None; ts_cols := None |} with
                | TOk {| ts_m := Some m0; ts_cols := Some (n, cols) |} =>
                    TOk (m0, {| b_n := n; b_cols := add_time now_t n cols |})
                | TOk _ => TBail
                | TBail => TBail
                | TPanic => TPanic
                end = TOk (m, b)) by (rewrite Ee in *; exact Ht).
  clear Ht. destruct (typed_top o entries _) as [[sm sc]| |] eqn:Etop; try discriminate.
  destruct sm as [m0|]; [|discriminate]. destruct sc as [[nz tcols]|]; [|discriminate].
  injection Ht' as -> <-.
  destruct (typed_top_spec _ _ _ _ Etop) as (Hs & Hb & Hm & Hc & Hin1 & Hin2 & Hin3). cbn [ts_m ts_cols] in *.
  destruct (last_val k_m entries) as [vm|] eqn:Evm; [|discriminate].
  destruct Hm as (_ & Hvm & _).
  destruct (last_val k_columns entries) as [vc|] eqn:Evc; [|discriminate].
  destruct Hc as (_ & c1 & Hvc & Hc1). injection Hc1 as <-.
  (* the columns value *)
  unfold typed_columns in Hvc. destruct vc as [| | | | | | | |centries|]; try discriminate.
  destruct centries as [|c0 crest] eqn:Ece; [discriminate|]. rewrite <- Ece in *.
  assert (Hvc' : match typed_cols o centries None [] with
                 | TOk (Some n, (_ :: _) as cols) => if n <=? 0 then TBail else TOk (n, cols)
                 | TOk _ => TBail
                 | TBail => TBail
                 | TPanic => TPanic
                 end = TOk (nz, tcols)) by (rewrite Ece in *; exact Hvc).
  clear Hvc. destruct (typed_cols o centries None []) as [[[n'|] tcs]| |] eqn:Etc; try discriminate.
  destruct tcs as [|tc0 tcr] eqn:Etcs; [discriminate|]. rewrite <- Etcs in *.
  assert (Hvc'' : (if n' <=? 0 then TBail else TOk (n', tcs)) = TOk (nz, tcols))
    by (rewrite Etcs in *; exact Hvc').
  clear Hvc'. destruct (n' <=? 0) eqn:Epos; [discriminate|]. injection Hvc'' as -> ->.
  assert (Htne : tcols <> []) by (rewrite Etcs; discriminate).
  pose proof (last_val_in _ _ _ Evc) as Hinc.
  destruct (cols_bridge o centries nz tcols Etc Htne) as (cm & Hcm & Hndcm & Hrel).
  (* every top-level value decodes *)
  assert (Hok : forallb (fun kv => lib_ok o (snd kv)) entries = true).
  { apply forallb_forall. intros [k v] Hin. cbn [snd].
    assert (Hk : is_str_code k = true).
    { unfold str_keys in Hs. rewrite forallb_forall in Hs. exact (Hs _ Hin). }
    destruct k; try discriminate.
    destruct (bytes_eqb_spec s k_batch) as [->|Hnb].
    { exfalso. eapply last_val_none_notin; eassumption. }
    destruct (bytes_eqb_spec s k_m) as [->|Hnm].
    { destruct (typed_measurement v) as [mm|] eqn:E; [|exfalso; now apply (Hin1 _ Hin)].
      destruct (typed_measurement_generic o _ _ E) as (g & Hgd' & _). unfold lib_ok. now rewrite Hgd'. }
    destruct (bytes_eqb_spec s k_columns) as [->|Hnc].
    { pose proof (Hin2 _ Hin) as E. injection E as <-. unfold lib_ok. now rewrite Hcm. }
    apply (Hin3 _ _ Hin). unfold is_known_key.
    now rewrite (bytes_eqb_neq _ _ Hnm), (bytes_eqb_neq _ _ Hnc), (bytes_eqb_neq _ _ Hnb). }
  destruct (smap_ok o entries [] Hs Hok) as [gm Hgm].
  pose proof (smap_lookup _ _ _ _ Hs Hgm) as Hlk.
  assert (Hdec : lib_decode o (MMap entries) = LOk (GMap gm)).
  { rewrite Ee in *. destruct e0 as [k0 v0]. cbn [str_keys forallb fst] in Hs.
    apply andb_prop in Hs as [Hk0 _]. destruct k0; try discriminate.
    now rewrite lib_decode_smap_str, Hgm. }
  destruct (typed_measurement_generic o _ _ Hvm) as (gmv & Hgmv & Hex).
  assert (Hlm : lookupb k_m gm = Some gmv).
  { rewrite Hlk, Evm. cbn [dec_opt]. now rewrite Hgmv. }
  assert (Hlc : lookupb k_columns gm = Some (GMap cm)).
  { rewrite Hlk, Evc. cbn [dec_opt]. now rewrite Hcm. }
  assert (Hlb : lookupb k_batch gm = None).
  { now rewrite Hlk, Hb. }
  assert (Hnzpos : (0 < Z.to_nat nz)%nat) by lia.
  destruct (columnar_ok o now_g (lookupb k_m gm) m (keep_arrays cm) tcols (Z.to_nat nz) (src_of centries))
    as (b' & Hdc & Hbn & Hbl & Hbt).
  { now rewrite Hlm. }
  { now apply keep_arrays_nodup. }
  { exact Hnzpos. }
  { exact Hrel. }
  { exact Htne. }
  exists b'. split.
  - unfold generic. rewrite Hdec, (payload_no_batch o now_g gm Hlb).
    unfold decode_item. rewrite Hlc, Hdc. reflexivity.
  - (* time given <-> the typed columns contain "time" *)
    assert (Htime : payload_has_time (MMap entries) = true <-> src_of centries k_time <> None).
    { cbn [payload_has_time]. split.
      - intros H. apply existsb_exists in H as [[k v] [Hin H]].
        destruct k; try discriminate. destruct v; try discriminate.
        apply andb_prop in H as [Hk Ht]. apply bytes_eqb_eq in Hk. subst s.
        pose proof (Hin2 _ Hin) as E. injection E as <-.
        unfold cols_have_time in Ht. apply existsb_exists in Ht as [[k v] [Hin' H']].
        destruct k; try discriminate. destruct v; try discriminate.
        apply bytes_eqb_eq in H'. subst s.
        pose proof (typed_cols_has _ _ _ _ _ _ _ _ Etc Hin') as Hhas.
        pose proof (Hrel k_time) as Hr. destruct (src_of centries k_time); [discriminate|].
        destruct Hr as [_ Hr]. congruence.
      - intros H. apply existsb_exists. exists (MStr k_columns, MMap centries). split; [exact Hinc|].
        cbn. unfold cols_have_time. apply existsb_exists.
        unfold src_of in H. destruct (last_val k_time centries) as [v|] eqn:El; [|congruence].
        destruct v; try congruence. exists (MStr k_time, MArr l). split; [now apply last_val_in|].
        apply bytes_eqb_refl. }
    assert (Hadd : forall name, name <> k_time -> lookupb name (add_time now_t nz tcols) = lookupb name tcols).
    { intros name Hne. unfold add_time. destruct (lookupb k_time tcols); [reflexivity|].
      rewrite lk_app. destruct (lookupb name tcols); [reflexivity|].
      unfold lookupb. cbn. now rewrite (bytes_eqb_neq _ _ Hne). }
    assert (Haddt : lookupb k_time (add_time now_t nz tcols) <> None).
    { unfold add_time. destruct (lookupb k_time tcols) eqn:E; [congruence|].
      rewrite lk_app, E. unfold lookupb. cbn. discriminate. }
    unfold same_batch. cbn [b_n b_cols]. split; [rewrite Hbn; lia|]. split.
    + intros name Hcase. destruct (bytes_eqb_spec name k_time) as [->|Hne].
      * destruct Hcase as [Hc|Hc]; [|congruence]. apply Htime in Hc.
        rewrite Hbl by (now right). unfold add_time.
        pose proof (Hrel k_time) as Hr. destruct (src_of centries k_time); [|congruence].
        destruct Hr as (_ & _ & c & _ & Hl). now rewrite Hl.
      * rewrite Hadd by exact Hne. symmetry. apply Hbl. now left.
    + intros name. destruct (bytes_eqb_spec name k_time) as [->|Hne].
      * split; intros H; congruence.
      * rewrite Hadd by exact Hne. rewrite Hbl by (now left). tauto.
Qed.

(* ------------------------------------------------------------------------------------ *)
(* fall-back, panics and acceptance                                                       *)

Lemma fallback_total o now a : typed o now a = TBail -> decode_with_typed o now a = generic o now a.
Proof. unfold decode_with_typed. now intros ->. Qed.

Lemma smap_ok_inv o entries : forall acc m,
  lib_decode_smap o entries acc = LOk m -> forall k v, In (k, v) entries -> lib_ok o v = true.
Proof.
  induction entries as [|[k0 v0] r IH]; intros acc m H k v Hin; [destruct Hin|].
  cbn [lib_decode_smap] in H. destruct (string_key k0); cbn [lbind] in H; try discriminate.
  destruct (lib_decode o v0) eqn:Ev; cbn [lbind] in H; try discriminate.
  destruct Hin as [Hin|Hin]; [injection Hin as <- <-; unfold lib_ok; now rewrite Ev|eapply IH; eassumption].
Qed.

Lemma map_bad_value o s0 v0 r0 k v :
  In (k, v) ((MStr s0, v0) :: r0) -> lib_ok o v = false -> lib_ok o (MMap ((MStr s0, v0) :: r0)) = false.
Proof.
  intros Hin Hv. unfold lib_ok at 1. rewrite lib_decode_smap_str.
  destruct (lib_decode_smap o _ []) eqn:E; cbn [lbind]; try reflexivity.
  rewrite (smap_ok_inv _ _ _ _ E _ _ Hin) in Hv. discriminate.
Qed.

Lemma typed_cols_panic o entries : forall expected acc,
  typed_cols o entries expected acc = TPanic ->
  exists s0 v0 r0 k v, entries = (MStr s0, v0) :: r0 /\ In (k, v) entries /\ lib_ok o v = false.
Proof.
  induction entries as [|[k0 v0] r IH]; intros expected acc H; [discriminate|].
  destruct k0; try discriminate. exists s, v0, r.
  assert (Hrec : forall e a, typed_cols o r e a = TPanic ->
                 exists k v, In (k, v) ((MStr s, v0) :: r) /\ lib_ok o v = false).
  { intros e a Hp. destruct (IH _ _ Hp) as (_ & _ & _ & k & v & _ & Hin & Hv). exists k, v. split; [now right|exact Hv]. }
  assert (Hnon : match lookupb s acc with
                 | Some _ => TBail
                 | None => discard o v0 (typed_cols o r expected acc)
                 end = TPanic ->
                 exists k v, In (k, v) ((MStr s, v0) :: r) /\ lib_ok o v = false).
  { destruct (lookupb s acc); [discriminate|]. unfold discard.
    destruct (lib_decode o v0) eqn:Ev; try discriminate.
    - apply Hrec.
    - intros _. exists (MStr s), v0. split; [now left|]. unfold lib_ok. now rewrite Ev. }
  destruct v0; try (destruct (Hnon H) as (kk & vv & Hin & Hv); exists kk, vv; auto).
  cbn [typed_cols] in H.
  destruct (_ || _); [discriminate|].
  destruct (match expected with None => true | Some e => _ end); [|discriminate].
  destruct (lookupb s acc); [discriminate|].
  destruct (if bytes_eqb s k_time then _ else _); [|discriminate].
  destruct (Hrec _ _ H) as (k & v & Hin & Hv). exists k, v. auto.
Qed.

Lemma typed_columns_panic o v : typed_columns o v = TPanic -> lib_ok o v = false.
Proof.
  unfold typed_columns. destruct v; try discriminate. destruct l as [|e r] eqn:El; [discriminate|].
  rewrite <- El. destruct (typed_cols o l None []) as [[[n|] [|? ?]]| |] eqn:E; try discriminate.
  - destruct (n <=? 0); discriminate.
  - intros _. destruct (typed_cols_panic _ _ _ _ E) as (s0 & v0 & r0 & k & v & -> & Hin & Hv).
    eapply map_bad_value; eassumption.
Qed.

Lemma typed_top_panic o entries : forall st,
  typed_top o entries st = TPanic ->
  exists s0 v0 r0 k v, entries = (MStr s0, v0) :: r0 /\ In (k, v) entries /\ lib_ok o v = false.
Proof.
  induction entries as [|[k0 v0] r IH]; intros st H; [discriminate|].
  destruct k0; try discriminate. exists s, v0, r.
  assert (Hrec : forall st1, typed_top o r st1 = TPanic ->
                 exists k v, In (k, v) ((MStr s, v0) :: r) /\ lib_ok o v = false).
  { intros st1 Hp. destruct (IH _ Hp) as (_ & _ & _ & k & v & _ & Hin & Hv). exists k, v. split; [now right|exact Hv]. }
  cbn [typed_top] in H.
  destruct (bytes_eqb s k_batch); [discriminate|].
  destruct (bytes_eqb s k_m).
  - destruct (ts_m st); [discriminate|]. destruct (typed_measurement v0); [|discriminate].
    destruct (Hrec _ H) as (k & v & Hin & Hv). exists k, v. auto.
  - destruct (bytes_eqb s k_columns).
    + destruct (ts_cols st); [discriminate|]. destruct (typed_columns o v0) eqn:Ec; try discriminate.
      * destruct (Hrec _ H) as (k & v & Hin & Hv). exists k, v. auto.
      * exists (MStr s), v0. split; [reflexivity|]. split; [now left|now apply typed_columns_panic].
    + unfold discard in H. destruct (lib_decode o v0) eqn:Ev; try discriminate.
      * destruct (Hrec _ H) as (k & v & Hin & Hv). exists k, v. auto.
      * exists (MStr s), v0. split; [reflexivity|]. split; [now left|]. unfold lib_ok. now rewrite Ev.
Qed.

(* when the typed path panics, the generic path cannot decode the document either *)
Lemma typed_panic_generic o now_t now_g a :
  typed o now_t a = TPanic -> accepted (generic o now_g a) = false.
Proof.
  intros H. destruct a; try discriminate. destruct l as [|e r] eqn:El; [discriminate|]. rewrite <- El in *.
  assert (H' : typed_top o l {| ts_m := None; ts_cols := None |} = TPanic).
  { rewrite El in *. cbn [typed] in H.
    destruct (typed_top o (e :: r) _) as [[[?|] [[? ?]|]]| |]; try discriminate. reflexivity. }
  destruct (typed_top_panic _ _ _ H') as (s0 & v0 & r0 & k & v & -> & Hin & Hv).
  pose proof (map_bad_value o _ _ _ _ _ Hin Hv) as Hbad.
  unfold generic. unfold lib_ok in Hbad. destruct (lib_decode o _); [discriminate|reflexivity|reflexivity].
Qed.

Lemma accept_iff o now_t now_g a :
  (forall r, typed o now_t a = TOk r ->
     accepted (decode_with_typed o now_t a) = true /\ accepted (generic o now_g a) = true) /\
  (typed o now_t a = TBail -> decode_with_typed o now_t a = generic o now_t a) /\
  (typed o now_t a = TPanic ->
     accepted (decode_with_typed o now_t a) = false /\ accepted (generic o now_g a) = false).
Proof.
  split; [|split; [apply fallback_total|]].
  - intros [m b] Et. split.
    + unfold decode_with_typed. rewrite Et. reflexivity.
    + destruct (equiv o now_t now_g a m b Et) as (b' & -> & _). reflexivity.
  - intros Et. split; [unfold decode_with_typed; now rewrite Et|].
    eapply typed_panic_generic; eassumption.
Qed.

(* ------------------------------------------------------------------------------------ *)
(* regression witnesses: the inputs on which the code before commit 1ff6fb4 differed       *)

Definition w_cpu : ast := MStr [99%N; 112%N; 117%N].     (* "cpu" *)
Definition w_a : bytes := [97%N].                         (* "a" *)

(* {m:"cpu", columns:{time:[1700000000], a:[1], a:5}} *)
Definition witness_dup : ast :=
  MMap [(MStr k_m, w_cpu);
        (MStr k_columns, MMap [(MStr k_time, MArr [MInt KU32 1700000000]);
                               (MStr w_a, MArr [MInt KFix 1]);
                               (MStr w_a, MInt KFix 5)])].

(* {m:"cpu", columns:{a:[1], a:5}} *)
Definition witness_dup_reject : ast :=
  MMap [(MStr k_m, w_cpu);
        (MStr k_columns, MMap [(MStr w_a, MArr [MInt KFix 1]); (MStr w_a, MInt KFix 5)])].

(* {m:"cpu", columns:{time:[1700000000], a:[1]}, x: ext(5, "ab")} *)
Definition witness_skip : ast :=
  MMap [(MStr k_m, w_cpu);
        (MStr k_columns, MMap [(MStr k_time, MArr [MInt KU32 1700000000]); (MStr w_a, MArr [MInt KFix 1])]);
        (MStr [120%N], MExt 5 [97%N; 98%N])].

(* {..., x: {nil: 2}}: the library panics; now in both modes *)
Definition witness_panic : ast :=
  MMap [(MStr k_m, w_cpu);
        (MStr k_columns, MMap [(MStr k_time, MArr [MInt KU32 1700000000]); (MStr w_a, MArr [MInt KFix 1])]);
        (MStr [120%N], MMap [(MNil, MInt KFix 2)])].

Lemma old_witnesses_fall_back o now :
  typed o now witness_dup = TBail /\ typed o now witness_dup_reject = TBail /\
  typed o now witness_skip = TBail /\ typed o now witness_panic = TPanic /\
  generic o now witness_panic = OPanic.
Proof. repeat split. Qed.
