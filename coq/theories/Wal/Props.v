(* C06 - The WAL reader returns only intact entries in append order.
   Only property statements live here; proofs are in Proofs.v.

   `crc` (hash/crc32.ChecksumIEEE), `classify` (the msgpack decoding at the end of readEntry)
   and `maxp` (MaxWALPayloadSize) are arbitrary; what a theorem needs from them is an explicit
   premise:
     maxp < 2^32          the cap fits the 32-bit length field (re-checked for the value in the
                          source by Obligations.C06_params_layout)
     crc p < 2^32
     crc_detects_1byte    changing one byte of a byte string changes its checksum
   Nothing is assumed about `classify`.  The model is the code after commit 591fc4b (ReadAll
   stops at an oversize length or a checksum mismatch; ParseEnvelope computes in int). *)
From Coq Require Import List Arith NArith Bool Lia.
From ArcGen Require Import Params_Wal.
From Arc Require Import Wal.Model Wal.Proofs.
Import ListNotations.
Open Scope N_scope.

(* ---- intact files ------------------------------------------------------------------------ *)

(* Reading a file the writer produced returns exactly the decodable appended entries, each
   with its timestamp, format, database and payload bytes, in append order; the others are
   counted as corrupted.  For ALL entry sequences. *)
Theorem C06_intact : forall (crc : list N -> N) (classify : list N -> cls) (maxp : N),
  maxp < 256 ^ N.of_nat 4 -> (forall p, crc p < 256 ^ N.of_nat 4) ->
  forall es, Forall (wf_entry maxp) es ->
  read_all crc classify maxp (file crc es) = FOk (emitted classify es) (undecodable classify es).
Proof. exact intact. Qed.
Print Assumptions C06_intact.

(* From the append CALLS to what is read back, for every sequence of AppendRaw / Append /
   AppendRawWithMeta calls of ANY size: exactly the calls the writer accepts come back -
   AppendRaw(p) as p in the default database, AppendRawWithMeta(db, p) as p in database db -
   because what the writer accepts fits the cap ON DISK, envelope included (a call it rejects
   writes nothing). *)
Theorem C06_intact_appends : forall (crc : list N -> N) (classify : list N -> cls) (maxp : N),
  maxp < 256 ^ N.of_nat 4 -> (forall p, crc p < 256 ^ N.of_nat 4) ->
  forall ops, Forall wf_call ops ->
  exists c, read_all crc classify maxp (file crc (map op_entry (accepted maxp ops))) =
            FOk (flat_map (op_spec classify) (accepted maxp ops)) c.
Proof. exact intact_appends. Qed.
Print Assumptions C06_intact_appends.

(* the writer's size test: an accepted call fits the cap with its envelope *)
Theorem C06_accepted_fits_cap : forall (maxp : N) o, append_outcome maxp o = AOk ->
  len_N (e_payload (op_entry o)) <= maxp /\ match o with OpMeta _ db _ => len_N db <= 255 | _ => True end.
Proof. exact outcome_ok_fits. Qed.
Print Assumptions C06_accepted_fits_cap.

(* Rotation: whatever MaxSizeBytes is, replaying all files in rotation order yields every
   decodable appended entry once, in append order. *)
Theorem C06_rotation_recover : forall (crc : list N -> N) (classify : list N -> cls) (maxp : N),
  maxp < 256 ^ N.of_nat 4 -> (forall p, crc p < 256 ^ N.of_nat 4) ->
  forall maxsize es, Forall (wf_entry maxp) es ->
  recover crc classify maxp (writer_files crc maxsize es) = filter delivered (emitted classify es).
Proof. exact rotation_recover. Qed.
Print Assumptions C06_rotation_recover.

(* ---- truncation at EVERY offset ------------------------------------------------------------ *)

(* For every k, the first k bytes of the file read back as exactly the entries whose frames lie
   completely within those k bytes: nothing torn is returned, nothing complete is hidden. *)
Theorem C06_truncation : forall (crc : list N -> N) (classify : list N -> cls) (maxp : N),
  maxp < 256 ^ N.of_nat 4 -> (forall p, crc p < 256 ^ N.of_nat 4) ->
  forall es k, Forall (wf_entry maxp) es ->
  exists c, read_all crc classify maxp (truncate k (file crc es)) =
            FOk (emitted classify (prefix_within crc (k - 7) es)) c.
Proof. exact truncation. Qed.
Print Assumptions C06_truncation.

(* prefix_within k es IS the maximal prefix that fits into k bytes of the frame area *)
Theorem C06_truncation_prefix_maximal : forall (crc : list N -> N) es k, exists rest,
  es = prefix_within crc k es ++ rest /\
  (length (frames crc (prefix_within crc k es)) <= k)%nat /\
  match rest with
  | [] => True
  | e :: _ => (k < length (frames crc (prefix_within crc k es)) + length (frame crc e))%nat
  end.
Proof. intros crc es k. exact (prefix_within_spec crc 0 eq_refl es k). Qed.
Print Assumptions C06_truncation_prefix_maximal.

(* the fuel given to the model of the `for` loop of ReadAll always suffices *)
Theorem C06_reader_terminates : forall (crc : list N -> N) (classify : list N -> cls) (maxp : N),
  maxp < 256 ^ N.of_nat 4 -> (forall p, crc p < 256 ^ N.of_nat 4) ->
  forall f, read_all crc classify maxp f <> FOutOfFuel.
Proof. exact read_all_never_out_of_fuel. Qed.
Print Assumptions C06_reader_terminates.

(* ---- one substituted byte ------------------------------------------------------------------ *)

(* For ALL entry sequences, EVERY position i of the file and EVERY byte value b: the reader
   returns a subsequence of the appended (format, database, payload bytes) triples, in order -
   or rejects the file (damaged magic).  There is no panic outcome in the model any more.
   Damage to the file header, a timestamp, a checksum or a payload needs no proviso at all.
   When i is one of the four LENGTH bytes of a frame - the one field no checksum covers - the
   reader tests a byte range of another length against the stored CRC, and the statement needs
   that this test fails (length_alias_free: no range of another length starting where an
   appended payload starts has that payload's checksum).  This is a fact about the CRC of the
   data, 2^-32 for unrelated bytes, not about the reader: C06_length_alias_needed shows that the
   byte-level statement is false without it.  The ghost-frame proviso of the previous version
   (a well-formed frame anywhere inside a payload) is gone: the reader no longer walks through
   payload bytes. *)
Theorem C06_corruption : forall (crc : list N -> N) (classify : list N -> cls) (maxp : N),
  maxp < 256 ^ N.of_nat 4 -> (forall p, crc p < 256 ^ N.of_nat 4) ->
  (forall p i b, bytes p -> b < 256 -> (i < length p)%nat -> nth i p 0 <> b -> crc (set_byte i b p) <> crc p) ->
  forall es i b,
  Forall (wf_entry maxp) es -> b < 256 -> (i < length (file crc es))%nat ->
  (in_len_field crc i es = true -> length_alias_free crc maxp es) ->
  match read_all crc classify maxp (set_byte i b (file crc es)) with
  | FOk res _ => sublist (map strip res) (map strip (emitted classify es))
  | FErr => True
  | FOutOfFuel => False
  end.
Proof. exact corruption. Qed.
Print Assumptions C06_corruption.

(* the proviso is needed for the byte-level statement (real CRC-32, crafted payload whose
   14-byte prefix has the checksum of all 18 bytes, one changed length byte): the reader
   returns the prefix.  The prefix decodes to the same msgpack document, so no decoded content
   differs. *)
Theorem C06_length_alias_needed :
  Forall (wf_entry max_payload) alias_es /\ in_len_field crc32 10 alias_es = true /\
  ~ length_alias_free crc32 max_payload alias_es /\
  read_all crc32 classify_shape max_payload (set_byte 10 14 (file crc32 alias_es)) =
    FOk [mkR 9 KCol [] (unhex "82a16da163a7636f6c756d6e7380"%bs)] 0 /\
  emitted classify_shape alias_es = [mkR 9 KCol [] (unhex "82a16da163a7636f6c756d6e73805e89b259"%bs)].
Proof.
  split; [apply wf_entryb_sound; vm_compute; reflexivity|].
  split; [vm_compute; reflexivity|]. split; [exact alias_not_free|].
  split; [exact alias_read|]. vm_compute. reflexivity.
Qed.
Print Assumptions C06_length_alias_needed.

(* necessity of the fix, as a statement about the model variant read_all_old (the loop
   `continue`s after an oversize length / checksum mismatch, as before 591fc4b): with the real
   CRC-32, one changed length byte makes it return a row-format record for database "other"
   that nobody appended *)
Theorem C06_old_continue_fabricates :
  exists es i b res c,
    Forall (wf_entry max_payload) es /\ b < 256 /\ (i < length (file crc32 es))%nat /\
    read_all_old crc32 classify_shape max_payload (set_byte i b (file crc32 es)) = FOk res c /\
    ~ sublist (map strip res) (map strip (emitted classify_shape es)).
Proof. exact old_continue_fabricates. Qed.
Print Assumptions C06_old_continue_fabricates.

(* ---- non-vacuity ------------------------------------------------------------------------------ *)

(* every premise of C06_corruption holds simultaneously for a concrete checksum, log and
   length-byte position (so the theorem is not vacuous, in particular not in its guarded branch) *)
Example C06_corruption_hypotheses_satisfiable :
  max_payload < 256 ^ N.of_nat 4 /\
  (forall p, crc_sum p < 256 ^ N.of_nat 4) /\
  (forall p i b, bytes p -> b < 256 -> (i < length p)%nat -> nth i p 0 <> b -> crc_sum (set_byte i b p) <> crc_sum p) /\
  Forall (wf_entry max_payload) tiny_es /\
  (10 < length (file crc_sum tiny_es))%nat /\ in_len_field crc_sum 10 tiny_es = true /\
  length_alias_free crc_sum max_payload tiny_es /\
  read_all crc_sum classify_shape max_payload (file crc_sum tiny_es) = FOk [mkR 5 KRow [] [144]] 0.
Proof.
  split; [reflexivity|]. split; [exact crc_sum_range|]. split; [exact crc_sum_detects|].
  split; [apply wf_entryb_sound; reflexivity|].
  split; [vm_compute; lia|]. split; [reflexivity|]. split; [exact tiny_alias_free|]. reflexivity.
Qed.

(* a three-entry log (raw columnar, enveloped columnar, row format) meets the premises of
   C06_intact / C06_truncation / C06_rotation_recover with the toy checksum; intact it reads back
   as its three entries, cut at byte 100 (inside the second frame) as the first one only, with
   MaxSizeBytes = 60 the writer model spreads it over two files plus the (header-only) open one,
   and with the real CRC-32 the damaged length byte of the old witness now stops the reader
   after the first entry *)
Example C06_intact_truncation_nonvacuous :
  Forall (wf_entry max_payload) wit_es /\
  map r_ts (match read_all crc_sum classify_shape max_payload (file crc_sum wit_es) with FOk es _ => es | _ => [] end)
    = [1700000000000000; 1700000000000002; 1700000000000003] /\
  map r_db (match read_all crc_sum classify_shape max_payload (file crc_sum wit_es) with FOk es _ => es | _ => [] end)
    = [[]; [109; 121; 100; 98]; []] /\
  map r_ts (match read_all crc_sum classify_shape max_payload (truncate 100 (file crc_sum wit_es)) with FOk es _ => es | _ => [] end)
    = [1700000000000000] /\
  length (writer_files crc_sum 60 wit_es) = 3%nat /\
  recover crc_sum classify_shape max_payload (writer_files crc_sum 60 wit_es) = emitted classify_shape wit_es /\
  map r_ts (match read_all crc32 classify_shape max_payload (set_byte wit_pos wit_byte (file crc32 wit_es)) with FOk es _ => es | _ => [] end)
    = [1700000000000000].
Proof.
  split; [apply wf_entryb_sound; vm_compute; reflexivity|].
  vm_compute. repeat split; reflexivity.
Qed.

(* the writer's size test counts the envelope: with a cap of 40 bytes a 36-byte payload is
   accepted by AppendRaw and by AppendRawWithMeta("d", .) (36+4 = 40), a 37-byte one only by
   AppendRaw; a 256-byte database name panics *)
Example C06_append_outcomes :
  let p36 := repeat 144 36 in let p37 := repeat 144 37 in
  map (append_outcome 40) [OpRaw 1 p36; OpMeta 1 [100] p36; OpRaw 1 p37; OpMeta 1 [100] p37; OpRaw 1 (repeat 144 41);
                           OpMeta 1 (repeat 100 256) []]
  = [AOk; AOk; AOk; AErr; AErr; AErr] /\
  append_outcome max_payload (OpMeta 1 (repeat 100 256) []) = APanic.
Proof. split; vm_compute; reflexivity. Qed.

(* a CRC-valid payload 01 FF FD .. is no longer taken for an envelope with a wrapped length *)
Example C06_envelope_length_no_wrap :
  parse_envelope [1; 255; 253; 0] = EnvOk [] [1; 255; 253; 0] /\
  read_all crc32 classify_shape max_payload (file crc32 [mkEntry 7 [1; 255; 253; 0]]) = FOk [] 1.
Proof. exact envelope_length_no_wrap. Qed.

(* the "raw payload does not start with the marker byte" premise of wf_call is needed: such a raw
   payload is read back as an envelope (other database, shorter payload) - which is what the
   replication receiver relies on when it appends an already enveloped payload *)
Example C06_raw_marker_counterexample :
  parse_envelope [1; 0; 1; 100; 144] = EnvOk [100] [144].
Proof. reflexivity. Qed.
