(* C06 - The WAL reader returns only intact entries in append order.
   Only property statements live here; proofs are in Proofs.v.

   `crc` (hash/crc32.ChecksumIEEE) and `classify` (the msgpack decoding at the end of readEntry)
   are arbitrary functions; what a theorem needs from CRC-32 is an explicit premise:
     crc_range          crc p < 2^32
     crc_detects_1byte  changing one byte of a byte string changes its checksum
   Nothing is assumed about `classify`. *)
From Coq Require Import List Arith NArith Bool Lia.
From ArcGen Require Import Params_Wal.
From Arc Require Import Wal.Model Wal.Proofs.
Import ListNotations.
Open Scope N_scope.

(* ---- intact files ------------------------------------------------------------------------ *)

(* Reading a file the writer produced returns exactly the decodable appended entries, each
   with its timestamp, format, database and payload bytes, in append order; the others are
   counted as corrupted.  For ALL entry sequences. *)
Theorem C06_intact : forall (crc : list N -> N) (classify : list N -> cls),
  (forall p, crc p < 256 ^ N.of_nat 4) ->
  forall es, Forall wf_entry es -> no_panic classify es ->
  read_all crc classify (file crc es) = FOk (emitted classify es) (undecodable classify es).
Proof. exact intact. Qed.
Print Assumptions C06_intact.

(* The same at the level of the three append calls: AppendRaw(p) / Append(records) come back as
   p in the default database, AppendRawWithMeta(db, p) comes back as p in database db. *)
Theorem C06_intact_ops : forall (crc : list N -> N) (classify : list N -> cls),
  (forall p, crc p < 256 ^ N.of_nat 4) ->
  forall ops, Forall wf_op ops ->
  exists c, read_all crc classify (file crc (map op_entry ops)) = FOk (flat_map (op_spec classify) ops) c.
Proof. exact intact_ops. Qed.
Print Assumptions C06_intact_ops.

(* Rotation: whatever MaxSizeBytes is, replaying all files in rotation order yields every
   decodable appended entry once, in append order. *)
Theorem C06_rotation_recover : forall (crc : list N -> N) (classify : list N -> cls),
  (forall p, crc p < 256 ^ N.of_nat 4) ->
  forall maxsize es, Forall wf_entry es -> no_panic classify es ->
  recover crc classify (writer_files crc maxsize es) = Some (filter delivered (emitted classify es)).
Proof. exact rotation_recover. Qed.
Print Assumptions C06_rotation_recover.

(* ---- truncation at EVERY offset ------------------------------------------------------------ *)

(* For every k, the first k bytes of the file read back as exactly the entries whose frames lie
   completely within those k bytes: nothing torn is returned, nothing complete is hidden. *)
Theorem C06_truncation : forall (crc : list N -> N) (classify : list N -> cls),
  (forall p, crc p < 256 ^ N.of_nat 4) ->
  forall es k, Forall wf_entry es -> no_panic classify es ->
  exists c, read_all crc classify (truncate k (file crc es)) =
            FOk (emitted classify (prefix_within crc (k - 7) es)) c.
Proof. exact truncation. Qed.
Print Assumptions C06_truncation.

(* prefix_within k es IS the maximal prefix that fits into k bytes of the frame area *)
Theorem C06_truncation_prefix_maximal : forall (crc : list N -> N) es k, exists rest,
  es = prefix_within crc k es ++ rest /\
  (length (frames crc (prefix_within crc k es)) <= k)%nat /\
  match rest with
  | [] => True
  | e :: _ => (k < length (frames crc (prefix_within crc k es)) + length (frame crc e))%nat
  end.
Proof. exact prefix_within_spec. Qed.
Print Assumptions C06_truncation_prefix_maximal.

(* the fuel given to the model of the `for` loop of ReadAll always suffices *)
Theorem C06_reader_terminates : forall (crc : list N -> N) (classify : list N -> cls),
  (forall p, crc p < 256 ^ N.of_nat 4) ->
  forall f, read_all crc classify f <> FOutOfFuel.
Proof. exact read_all_never_out_of_fuel. Qed.
Print Assumptions C06_reader_terminates.

(* ---- one substituted byte ------------------------------------------------------------------ *)

(* REFUTED as stated in the property: with the real CRC-32, there is a log (a columnar write
   into "mydb" whose string value ends with a well-formed frame, between two ordinary entries)
   and ONE changed byte (a length byte) such that the reader returns an entry nobody appended:
   a row-format record for database "other". *)
Theorem C06_corruption_refuted :
  exists es i b res c,
    Forall wf_entry es /\ no_panic classify_shape es /\ b < 256 /\ (i < length (file crc32 es))%nat /\
    read_all crc32 classify_shape (set_byte i b (file crc32 es)) = FOk res c /\
    ~ sublist (map strip res) (map strip (emitted classify_shape es)).
Proof. exact corruption_refuted. Qed.
Print Assumptions C06_corruption_refuted.

(* Guarded: for ALL entry sequences, EVERY position i of the file and EVERY byte value b, the
   reader does not panic and returns a subsequence of the appended (format, database, payload)
   triples - or rejects the file (damaged magic) - provided that, WHEN i is one of the four
   length bytes of a frame, the frame area contains no ghost frame (a byte range, at any offset
   and of any length, that passes the CRC test against the four bytes before it and decodes).
   Damage to the file header, timestamps, checksums and payloads needs no such proviso. *)
Theorem C06_corruption_guarded : forall (crc : list N -> N) (classify : list N -> cls),
  (forall p, crc p < 256 ^ N.of_nat 4) ->
  (forall p i b, bytes p -> b < 256 -> (i < length p)%nat -> nth i p 0 <> b -> crc (set_byte i b p) <> crc p) ->
  forall es i b,
  Forall wf_entry es -> no_panic classify es -> b < 256 -> (i < length (file crc es))%nat ->
  (in_len_field crc i es = true -> ghost_free crc classify es) ->
  match read_all crc classify (set_byte i b (file crc es)) with
  | FOk res _ => sublist (map strip res) (map strip (emitted classify es))
  | FErr => True
  | FPanic | FOutOfFuel => False
  end.
Proof. exact corruption_guarded. Qed.
Print Assumptions C06_corruption_guarded.

(* the executable certificate the check uses to recognise the excluded class is sound *)
Theorem C06_ghost_cert_sound : forall (crc : list N -> N) (classify : list N -> cls) es p len,
  ghost_cert crc classify es p len = true -> ~ ghost_free crc classify es.
Proof. exact ghost_cert_sound. Qed.
Print Assumptions C06_ghost_cert_sound.

(* ---- non-vacuity ------------------------------------------------------------------------------ *)

(* every premise of C06_corruption_guarded holds simultaneously for a concrete checksum, log
   and length-byte position (so the theorem is not vacuous, in particular not in its guarded
   branch) *)
Example C06_guarded_hypotheses_satisfiable :
  (forall p, crc_sum p < 256 ^ N.of_nat 4) /\
  (forall p i b, bytes p -> b < 256 -> (i < length p)%nat -> nth i p 0 <> b -> crc_sum (set_byte i b p) <> crc_sum p) /\
  Forall wf_entry tiny_es /\ no_panic classify_shape tiny_es /\
  (10 < length (file crc_sum tiny_es))%nat /\ in_len_field crc_sum 10 tiny_es = true /\
  ghost_free crc_sum classify_shape tiny_es /\
  read_all crc_sum classify_shape (file crc_sum tiny_es) = FOk [mkR 5 KRow [] [144]] 0.
Proof.
  split; [exact crc_sum_range|]. split; [exact crc_sum_detects|].
  split; [apply wf_entryb_sound; reflexivity|]. split; [apply no_panicb_sound; reflexivity|].
  split; [vm_compute; lia|]. split; [reflexivity|]. split; [exact tiny_ghost_free|]. reflexivity.
Qed.

(* the excluded class is not empty: the refutation witness has a ghost (Coq-checked
   certificate) and its damaged byte is a length byte *)
Example C06_excluded_class_nonempty :
  in_len_field crc32 wit_pos wit_es = true /\ ~ ghost_free crc32 classify_shape wit_es.
Proof.
  split; [exact wit_in_len_field|]. eapply ghost_cert_sound. exact wit_has_ghost.
Qed.

(* the no_panic premise is needed: an appended payload 01 FF FD .. (CRC-valid) makes
   ParseEnvelope's uint16 arithmetic wrap and the reader panic on the INTACT file *)
Example C06_no_panic_needed :
  Forall wf_entry [mkEntry 7 [1; 255; 253; 0]] /\
  read_all crc32 classify_shape (file crc32 [mkEntry 7 [1; 255; 253; 0]]) = FPanic.
Proof. split; [apply wf_entryb_sound; reflexivity|exact envelope_wrap_panics]. Qed.

(* the "raw payload does not start with the marker byte" premise of wf_op is needed: such a raw
   payload is read back as an envelope (other database, shorter payload) *)
Example C06_raw_marker_counterexample :
  parse_envelope [1; 0; 1; 100; 144] = EnvOk [100] [144].
Proof. reflexivity. Qed.

(* a three-entry log (raw columnar, enveloped columnar, row format) meets the premises of
   C06_intact / C06_truncation / C06_rotation_recover with the toy checksum; intact it reads back
   as its three entries, cut at byte 100 (inside the second frame) as the first one only, and
   with MaxSizeBytes = 60 the writer model spreads it over two files plus the (header-only) open one *)
Example C06_intact_truncation_nonvacuous :
  Forall wf_entry wit_es /\ no_panic classify_shape wit_es /\
  map r_ts (match read_all crc_sum classify_shape (file crc_sum wit_es) with FOk es _ => es | _ => [] end)
    = [1700000000000000; 1700000000000002; 1700000000000003] /\
  map r_db (match read_all crc_sum classify_shape (file crc_sum wit_es) with FOk es _ => es | _ => [] end)
    = [[]; [109; 121; 100; 98]; []] /\
  map r_ts (match read_all crc_sum classify_shape (truncate 100 (file crc_sum wit_es)) with FOk es _ => es | _ => [] end)
    = [1700000000000000] /\
  length (writer_files crc_sum 60 wit_es) = 3%nat /\
  recover crc_sum classify_shape (writer_files crc_sum 60 wit_es) = Some (emitted classify_shape wit_es).
Proof.
  split; [apply wf_entryb_sound; vm_compute; reflexivity|].
  split; [apply no_panicb_sound; vm_compute; reflexivity|].
  vm_compute. repeat split; reflexivity.
Qed.
