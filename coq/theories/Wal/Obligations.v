(* Obligations on the WAL format constants regenerated from /repo/internal/wal/wal.go on every
   run (coq/gen/Params_Wal.v): the layout the model and the proofs of area Wal rely on. *)
From Coq Require Import List NArith Bool Lia.
From ArcGen Require Import Params_Wal.
From Arc Require Import Wal.Model Wal.Proofs.
Import ListNotations.
Open Scope N_scope.

(* entry header = len32 + ts64 + crc32; file header = magic + version16 + checksum type; the
   size cap fits the 32-bit length field; the envelope marker cannot start a msgpack map/array *)
Theorem C06_params_layout :
  entry_header_size = 4 + 8 + 4 /\
  file_header_size = len_N wal_magic + 2 + 1 /\
  length wal_magic = 4%nat /\ bytes wal_magic /\ wal_version < 65536 /\ checksum_type < 256 /\
  0 < max_payload /\ max_payload < 256 ^ N.of_nat 4 /\
  envelope_marker < 128.
Proof. vm_compute. repeat split; try reflexivity; repeat constructor. Qed.
Print Assumptions C06_params_layout.

(* the header the model writes is the header ReadAll accepts, with the regenerated constants *)
Theorem C06_params_header_accepted : forall crc classify,
  read_all crc classify max_payload (file_header ++ []) = FOk [] 0.
Proof. intros. vm_compute. reflexivity. Qed.
Print Assumptions C06_params_header_accepted.
