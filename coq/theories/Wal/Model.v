(* Byte-level model of the write-ahead log of /repo/internal/wal.

   wal.go      Writer.rotate (file header), AppendRaw / AppendRawWithMeta / Append (entry
               framing: [len32][ts64][crc32][payload], envelope [0x01][dblen16][db][msgpack]),
               writeEntry (size-triggered rotation), ParseEnvelope
   reader.go   Reader.ReadAll / readEntry (torn header => stop; oversize length or CRC mismatch
               => errFramingLost: count it and STOP (since commit 591fc4b; before, the loop
               `continue`d from the current offset - kept below as read_all_old for the
               necessity example only); short payload => skip then EOF; undecodable payload
               => skip and go on after the payload)
   recovery.go Recovery.RecoverWithOptions (files in rotation order, unreadable file skipped,
               one callback per entry)

   Bytes are N (< 256) in lists.  The constants come from coq/gen/Params_Wal.v, regenerated
   from the Go source on every run; the payload size cap is a parameter `maxp` of the model
   (instantiated with Params_Wal.max_payload, or with the lowered cap of the boundary run).  CRC-32 (hash/crc32) and the msgpack decoding that
   follows the envelope (msgpack library + parseColumnarEntry) are PARAMETERS of the model
   (Section variables): the theorems state what they need from them as hypotheses; the
   correspondence instantiates them with the executable crc32 below / the decoding table
   produced by the real library.  Definitions only; proofs are in Proofs.v. *)
From Coq Require Import List Arith NArith Bool FMapPositive.
From Coq Require Import Strings.Byte.
From ArcGen Require Import Params_Wal.
Import ListNotations.
Open Scope N_scope.

(* ---- bytes ------------------------------------------------------------------------- *)

(* binary.BigEndian.Uint16/32/64 *)
Definition be_decode (l : list N) : N := fold_left (fun a b => a * 256 + b) l 0.

(* binary.BigEndian.PutUintXX of a value converted to that width (uintXX(v) = v mod 2^XX) *)
Fixpoint be_encode (n : nat) (v : N) : list N :=
  match n with
  | O => []
  | S k => be_encode k (v / 256) ++ [v mod 256]
  end.

Fixpoint list_eqb (a b : list N) : bool :=
  match a, b with
  | [], [] => true
  | x :: r, y :: s => (x =? y) && list_eqb r s
  | _, _ => false
  end.

(* the two kinds of damage the property quantifies over *)
Fixpoint set_byte (i : nat) (b : N) (l : list N) : list N :=
  match l, i with
  | [], _ => []
  | _ :: r, O => b :: r
  | x :: r, S j => x :: set_byte j b r
  end.

Definition truncate (k : nat) (l : list N) : list N := firstn k l.

Definition len_N (l : list N) : N := N.of_nat (length l).

(* ---- what is appended ---------------------------------------------------------------- *)

Record entry := mkEntry { e_ts : N; e_payload : list N }.

(* AppendRawWithMeta: [marker][uint16(len(db))][db][payload] *)
Definition envelope (db p : list N) : list N :=
  envelope_marker :: be_encode 2 (len_N db) ++ db ++ p.

(* Append(records) = AppendRaw(msgpack.Marshal(records)): at byte level an OpRaw *)
Inductive op :=
| OpRaw (ts : N) (p : list N)
| OpMeta (ts : N) (db p : list N).

Definition op_entry (o : op) : entry :=
  match o with
  | OpRaw ts p => mkEntry ts p
  | OpMeta ts db p => mkEntry ts (envelope db p)
  end.

(* ---- decoded entries ------------------------------------------------------------------- *)

(* outcome of the msgpack decoding at the end of readEntry (oracle): array of maps (row
   format; a msgpack nil decodes to a nil slice, which Recovery then ignores), map with "m"
   and "columns" (columnar), or neither *)
Inductive cls := CRow | CRowNil | CCol | CBad.
Inductive kind := KRow | KRowNil | KCol.

(* wal.Entry as far as bytes determine it: timestamp, format, database (columnar only - the
   Entry of a row-format payload has no database field), the bytes that were decoded *)
Record rentry := mkR { r_ts : N; r_kind : kind; r_db : list N; r_data : list N }.

Inductive env_res := EnvOk (db inner : list N).

(* ParseEnvelope(payload, ""): `end := 3 + int(dbLen)` (int arithmetic since 591fc4b) *)
Definition parse_envelope (p : list N) : env_res :=
  match p with
  | m :: h :: l :: _ =>
      if (3 <? len_N p) && (m =? envelope_marker) then
        let dblen := h * 256 + l in
        if 3 + dblen <=? len_N p then
          EnvOk (firstn (N.to_nat dblen) (skipn 3 p)) (skipn (N.to_nat (3 + dblen)) p)
        else EnvOk [] p
      else EnvOk [] p
  | _ => EnvOk [] p
  end.

Inductive dres := DBad | DOk (k : kind) (db data : list N).

Definition kind_eqb (a b : kind) : bool :=
  match a, b with KRow, KRow | KRowNil, KRowNil | KCol, KCol => true | _, _ => false end.

Definition hdr_n : nat := N.to_nat entry_header_size.
Definition fhdr_n : nat := N.to_nat file_header_size.

(* one readEntry call: clean/torn end | framing lost (counted, loop stops) | entry skipped
   (counted, loop goes on with `rest`) | entry returned *)
Inductive rd := RStop | RLost | RSkip (rest : list N) | REmit (e : rentry) (rest : list N).
Inductive lres := LOk (es : list rentry) (corrupted : N).
Inductive fres := FOutOfFuel | FErr | FOk (es : list rentry) (corrupted : N).
(* outcome of an Append* call *)
Inductive aout := AOk | AErr | APanic.

Section Wal.
  Variable crc : list N -> N.          (* crc32.ChecksumIEEE *)
  Variable classify : list N -> cls.   (* msgpack.Unmarshal x2 + parseColumnarEntry *)
  Variable maxp : N.                   (* MaxWALPayloadSize *)

  (* -- writer -- *)
  Definition frame (e : entry) : list N :=
    be_encode 4 (len_N (e_payload e)) ++ be_encode 8 (e_ts e) ++ be_encode 4 (crc (e_payload e)) ++ e_payload e.

  Definition frames (es : list entry) : list N := flat_map frame es.

  (* Writer.rotate: Magic(4) + Version(2) + ChecksumType(1) *)
  Definition file_header : list N := wal_magic ++ be_encode 2 wal_version ++ [checksum_type].

  Definition file (es : list entry) : list N := file_header ++ frames es.

  (* AppendRaw: len(payload) > Max => ErrPayloadTooLarge.  AppendRawWithMeta: envelope header +
     payload > Max => ErrPayloadTooLarge (the size that goes on disk is what counts); then the
     envelope header is built in a [258]byte array sliced with 3+len(db): a database name of
     more than 255 bytes panics.  Nothing is written unless the outcome is AOk. *)
  Definition append_outcome (o : op) : aout :=
    if maxp <? len_N (e_payload (op_entry o)) then AErr
    else match o with
         | OpMeta _ db _ => if 255 <? len_N db then APanic else AOk
         | OpRaw _ _ => AOk
         end.

  Definition accepted (ops : list op) : list op :=
    filter (fun o => match append_outcome o with AOk => true | _ => false end) ops.

  (* Writer.writeEntry: after an entry is written, currentSize >= MaxSizeBytes starts a new
     file (the age trigger, 1 h by default, is not modelled).  The result lists the entries of
     every file in rotation order; the last group is the file that is still open (it is
     header-only when the last write triggered a rotation). *)
  Fixpoint rotate_split (maxsize size : N) (es : list entry) : list (list entry) :=
    match es with
    | [] => [[]]
    | e :: r =>
        let size' := size + len_N (frame e) in
        if maxsize <=? size' then [e] :: rotate_split maxsize file_header_size r
        else match rotate_split maxsize size' r with
             | g :: gs => (e :: g) :: gs
             | [] => [[e]]
             end
    end.

  Definition writer_files (maxsize : N) (es : list entry) : list (list N) :=
    map file (rotate_split maxsize file_header_size es).

  (* -- reader -- *)
  Definition decode_payload (p : list N) : dres :=
    match parse_envelope p with
    | EnvOk db inner =>
        match classify inner with
        | CRow => DOk KRow [] inner
        | CRowNil => DOk KRowNil [] inner
        | CCol => DOk KCol db inner
        | CBad => DBad
        end
    end.

  (* readEntry on the unread rest `s` of the file.  `lenient` = the behaviour before 591fc4b. *)
  Definition read_entry_gen (lenient : bool) (s : list N) : rd :=
    if len_N s <? entry_header_size then RStop             (* io.EOF / io.ErrUnexpectedEOF *)
    else
      let len := be_decode (firstn 4 s) in
      let ts := be_decode (firstn 8 (skipn 4 s)) in
      let sum := be_decode (firstn 4 (skipn 12 s)) in
      let rest := skipn hdr_n s in
      if maxp <? len then (if lenient then RSkip rest else RLost)   (* errFramingLost + ErrPayloadTooLarge *)
      else if len_N rest <? len then RSkip []                        (* ReadFull consumed the tail, error *)
      else
        let p := firstn (N.to_nat len) rest in
        let rest' := skipn (N.to_nat len) rest in
        if crc p =? sum then
          match decode_payload p with
          | DBad => RSkip rest'
          | DOk k db d => REmit (mkR ts k db d) rest'
          end
        else (if lenient then RSkip rest' else RLost).               (* errFramingLost: checksum mismatch *)

  Definition read_entry : list N -> rd := read_entry_gen false.

  (* the `for` loop of ReadAll *)
  Fixpoint read_loop_gen (lenient : bool) (fuel : nat) (s : list N) : option lres :=
    match fuel with
    | O => None
    | S f =>
        match read_entry_gen lenient s with
        | RStop => Some (LOk [] 0)
        | RLost => Some (LOk [] 1)
        | RSkip rest =>
            match read_loop_gen lenient f rest with
            | Some (LOk es c) => Some (LOk es (c + 1))
            | None => None
            end
        | REmit e rest =>
            match read_loop_gen lenient f rest with
            | Some (LOk es c) => Some (LOk (e :: es) c)
            | None => None
            end
        end
    end.

  Definition read_loop : nat -> list N -> option lres := read_loop_gen false.

  Definition read_all_gen (lenient : bool) (f : list N) : fres :=
    if len_N f <? file_header_size then FOk [] 0                 (* "WAL file too short" *)
    else if negb (list_eqb (firstn 4 f) wal_magic) then FErr      (* invalid magic; version only warns *)
    else match read_loop_gen lenient (S (length f)) (skipn fhdr_n f) with
         | None => FOutOfFuel
         | Some (LOk es c) => FOk es c
         end.

  Definition read_all : list N -> fres := read_all_gen false.
  (* the reader as it was before commit 591fc4b (`continue` after a lost frame) *)
  Definition read_all_old : list N -> fres := read_all_gen true.

  (* -- recovery: every file in order; ReadAll error => file skipped; callback per entry
        (columnar always, row format only when Records != nil) -- *)
  Definition delivered (e : rentry) : bool :=
    match r_kind e with KRowNil => false | _ => true end.

  Fixpoint recover (files : list (list N)) : list rentry :=
    match files with
    | [] => []
    | f :: r =>
        match read_all f with
        | FOk es _ => filter delivered es ++ recover r
        | _ => recover r
        end
    end.

  (* -- specification side -- *)
  (* what reading back an appended entry must give *)
  Definition emit (e : entry) : option rentry :=
    match decode_payload (e_payload e) with
    | DOk k db d => Some (mkR (e_ts e) k db d)
    | DBad => None
    end.

  Definition emitted (es : list entry) : list rentry :=
    flat_map (fun e => match emit e with Some r => [r] | None => [] end) es.

  Definition undecodable (es : list entry) : N :=
    N.of_nat (length (filter (fun e => match emit e with Some _ => false | None => true end) es)).

  (* the longest prefix of es whose frames lie completely within the first k bytes of the
     frame area *)
  Fixpoint prefix_within (k : nat) (es : list entry) : list entry :=
    match es with
    | [] => []
    | e :: r => if (length (frame e) <=? k)%nat then e :: prefix_within (k - length (frame e))%nat r else []
    end.

  (* is byte i of `file es` one of the four length bytes of a frame? *)
  Fixpoint in_len_field_body (i : nat) (es : list entry) : bool :=
    match es with
    | [] => false
    | e :: r => if (i <? 4)%nat then true
                else if (i <? length (frame e))%nat then false
                else in_len_field_body (i - length (frame e))%nat r
    end.

  Definition in_len_field (i : nat) (es : list entry) : bool :=
    if (i <? length file_header)%nat then false else in_len_field_body (i - length file_header)%nat es.
End Wal.

(* ---- subsequences ---------------------------------------------------------------------- *)

Inductive sublist {A} : list A -> list A -> Prop :=
| sub_nil : forall l, sublist [] l
| sub_take : forall x a l, sublist a l -> sublist (x :: a) (x :: l)
| sub_skip : forall x a l, sublist a l -> sublist a (x :: l).

Fixpoint sublistb {A} (eqb : A -> A -> bool) (a l : list A) : bool :=
  match a, l with
  | [], _ => true
  | _ :: _, [] => false
  | x :: a', y :: l' => if eqb x y then sublistb eqb a' l' else sublistb eqb a l'
  end.

(* what the property compares: format, database, payload bytes (not the timestamp, which the
   CRC does not cover and Recovery never uses) *)
Definition strip (r : rentry) : kind * list N * list N := (r_kind r, r_db r, r_data r).

(* ---- executable CRC-32 (IEEE, reflected, as hash/crc32.ChecksumIEEE) ----------------------- *)

Definition crc_poly : N := 3988292384.     (* 0xEDB88320 *)
Definition crc_bit (c : N) : N :=
  if N.testbit c 0 then N.lxor (N.shiftr c 1) crc_poly else N.shiftr c 1.
Definition crc_tab_entry (i : N) : N :=
  crc_bit (crc_bit (crc_bit (crc_bit (crc_bit (crc_bit (crc_bit (crc_bit i))))))).
Fixpoint upto (n : nat) : list N :=
  match n with O => [] | S k => upto k ++ [N.of_nat k] end.
Definition crc_table : PositiveMap.t N :=
  Eval vm_compute in
    fold_left (fun m i => PositiveMap.add (N.succ_pos i) (crc_tab_entry i) m) (upto 256) (PositiveMap.empty N).
Definition crc_lookup (i : N) : N :=
  match PositiveMap.find (N.succ_pos i) crc_table with Some v => v | None => 0 end.
Definition crc_step (c b : N) : N :=
  N.lxor (crc_lookup (N.land (N.lxor c b) 255)) (N.shiftr c 8).
Definition crc32 (p : list N) : N := N.lxor (fold_left crc_step p 4294967295) 4294967295.

(* a toy checksum that provably has the two properties the theorems ask of CRC-32 (used only
   to show that the hypotheses are satisfiable) *)
Definition crc_sum (p : list N) : N := fold_left N.add p 0 mod 4294967296.

(* first-byte msgpack shape test, used only for closed examples (fixarray/array16/array32 =>
   rows, fixmap/map16/map32 => columnar); the correspondence uses the real library's verdicts *)
Definition classify_shape (p : list N) : cls :=
  match p with
  | [] => CBad
  | b :: _ => if ((144 <=? b) && (b <=? 159)) || (b =? 220) || (b =? 221) then CRow
              else if ((128 <=? b) && (b <=? 143)) || (b =? 222) || (b =? 223) then CCol
              else if (b =? 192) && (len_N p =? 1) then CRowNil
              else CBad
  end.

(* ---- correspondence cases (evaluated with vm_compute by tools/props/C06.py) ---------------- *)

(* byte strings travel as hex string literals: far cheaper for coqc to parse than numerals *)
Inductive bstr := BStr (l : list Byte.byte).
Definition bstr_of (s : list Byte.byte) : bstr := BStr s.
Definition of_bstr (s : bstr) : list Byte.byte := match s with BStr l => l end.
Declare Scope bstr_scope.
Delimit Scope bstr_scope with bs.
String Notation bstr bstr_of of_bstr : bstr_scope.

Definition hexval (b : Byte.byte) : N :=
  let n := Byte.to_N b in if n <? 58 then n - 48 else n - 87.
Fixpoint unhex_l (l : list Byte.byte) : list N :=
  match l with
  | a :: b :: r => (16 * hexval a + hexval b) :: unhex_l r
  | _ => []
  end.
Definition unhex (s : bstr) : list N := unhex_l (of_bstr s).
(* fixed-width hex numbers: `w` digits each *)
Fixpoint hexnum (l : list Byte.byte) (acc : N) : N :=
  match l with [] => acc | a :: r => hexnum r (16 * acc + hexval a) end.
Fixpoint hexfields (fuel : nat) (w : nat) (l : list Byte.byte) : list N :=
  match fuel with
  | O => []
  | S f => match l with [] => [] | _ => hexnum (firstn w l) 0 :: hexfields f w (skipn w l) end
  end.

(* decoding table produced by the real msgpack library: bytes -> (class, fingerprint of the
   decoded content).  A miss classifies as a row entry with fingerprint 0, which no observation
   carries, so that an uncovered query shows up as a disagreement instead of hiding one. *)
Definition cls_of_N (n : N) : cls :=
  match n with 0 => CRow | 1 => CCol | 3 => CRowNil | _ => CBad end.
Definition class_table := list (list N * (N * N)).
Fixpoint tab_find (t : class_table) (p : list N) : option (N * N) :=
  match t with
  | [] => None
  | (q, v) :: r => if list_eqb q p then Some v else tab_find r p
  end.
Definition tab_classify (t : class_table) (p : list N) : cls :=
  match tab_find t p with Some (k, _) => cls_of_N k | None => CRow end.
Definition tab_fp (t : class_table) (p : list N) : N :=
  match tab_find t p with Some (_, fp) => fp | None => 0 end.

Definition kind_N (k : kind) : N := match k with KRow => 0 | KCol => 1 | KRowNil => 0 end.

(* an observed wal.Entry: (timestamp, kind 0 row / 1 columnar, database, fingerprint) *)
Definition oentry := (N * N * list N * N)%type.
Definition oentry_eqb (a b : oentry) : bool :=
  let '(t1, k1, d1, f1) := a in let '(t2, k2, d2, f2) := b in
  (t1 =? t2) && (k1 =? k2) && list_eqb d1 d2 && (f1 =? f2).
Definition oentry_eqb_nots (a b : oentry) : bool :=
  let '(_, k1, d1, f1) := a in let '(_, k2, d2, f2) := b in
  (k1 =? k2) && list_eqb d1 d2 && (f1 =? f2).

Definition obs_of_rentry (t : class_table) (r : rentry) : oentry :=
  (r_ts r, kind_N (r_kind r), r_db r, tab_fp t (r_data r)).

(* an observation of Reader.ReadAll: status 0 ok / 1 error / 2 panic / 3 model out of fuel,
   entries, Reader.CorruptedEntries *)
Definition obs := (N * list oentry * N)%type.
Fixpoint olist_eqb (eqb : oentry -> oentry -> bool) (a b : list oentry) : bool :=
  match a, b with
  | [], [] => true
  | x :: r, y :: s => eqb x y && olist_eqb eqb r s
  | _, _ => false
  end.
Definition obs_eqb (a b : obs) : bool :=
  let '(s1, e1, c1) := a in let '(s2, e2, c2) := b in
  (s1 =? s2) && olist_eqb oentry_eqb e1 e2 && (c1 =? c2).

Definition obs_of_fres (t : class_table) (r : fres) : obs :=
  match r with
  | FOk es c => (0, map (obs_of_rentry t) es, c)
  | FErr => (1, [], 0)
  | FOutOfFuel => (3, [], 0)
  end.

(* mutation: kind 0 none / 1 truncate at pos / 2 substitute byte pos by b *)
Definition mutate (k pos b : N) (f : list N) : list N :=
  match k with
  | 1 => truncate (N.to_nat pos) f
  | 2 => set_byte (N.to_nat pos) b f
  | _ => f
  end.

Definition model_read (t : class_table) (maxp : N) (f : list N) : obs :=
  obs_of_fres t (read_all crc32 (tab_classify t) maxp f).

(* Recovery: callbacks in order (timestamps are not passed to the callbacks) *)
Fixpoint set_nth {A} (i : nat) (x : A) (l : list A) : list A :=
  match l, i with
  | [], _ => []
  | _ :: r, O => x :: r
  | y :: r, S j => y :: set_nth j x r
  end.
Definition model_recover (t : class_table) (maxp : N) (files : list (list N)) : obs :=
  (0, map (fun r => (0, kind_N (r_kind r), r_db r, tab_fp t (r_data r))) (recover crc32 (tab_classify t) maxp files), 0).

(* ---- the property as an executable predicate on OBSERVED behaviour (oracle) ------------------ *)

(* what an appended op must come back as: OpMeta db p carries its database explicitly; an
   OpRaw payload is msgpack, or an envelope when it was received through replication *)
Definition op_expect (deliv : bool) (t : class_table) (o : op) : list oentry :=
  match o with
  | OpMeta ts db p =>
      match tab_classify t p with
      | CRow => [(ts, 0, [], tab_fp t p)]
      | CRowNil => if deliv then [] else [(ts, 0, [], tab_fp t p)]
      | CCol => [(ts, 1, db, tab_fp t p)]
      | CBad => []
      end
  | OpRaw ts p =>
      match decode_payload (tab_classify t) p with
      | DOk KRowNil db d => if deliv then [] else [(ts, 0, db, tab_fp t d)]
      | DOk k db d => [(ts, kind_N k, db, tab_fp t d)]
      | DBad => []
      end
  end.

(* entries ReadAll must return / entries Recovery must hand to its callbacks (a row-format
   entry that decoded to a nil slice is returned by ReadAll but not replayed) *)
Definition expected (t : class_table) (ops : list op) : list oentry := flat_map (op_expect false t) ops.
Definition expected_delivered (t : class_table) (ops : list op) : list oentry := flat_map (op_expect true t) ops.

Fixpoint ops_within (k : nat) (ops : list op) : list op :=
  match ops with
  | [] => []
  | o :: r => let n := (16 + length (e_payload (op_entry o)))%nat in
              if (n <=? k)%nat then o :: ops_within (k - n)%nat r else []
  end.

(* oracle for one mutated read of a file that holds `ops`:
   intact      => exactly the appended entries, in order
   truncate k  => exactly the entries whose frame ends within the first k bytes
   substitute  => no panic, and a subsequence of the appended (format, database, payload) *)
Definition oracle_read (t : class_table) (ops : list op) (exp : list oentry) (flen : nat) (k pos b : N) (orig : N) (o : obs) : bool :=
  let '(st, es, _) := o in
  match k with
  | 1 => if (st =? 0) then olist_eqb oentry_eqb es (expected t (ops_within (N.to_nat pos - fhdr_n)%nat ops)) else false
  | 2 => if (b =? orig) || negb (N.to_nat pos <? flen)%nat
         then (st =? 0) && olist_eqb oentry_eqb es exp
         else negb (st =? 2) && negb (st =? 3) && sublistb oentry_eqb_nots es exp
  | _ => (st =? 0) && olist_eqb oentry_eqb es exp
  end.

(* ---- one log of the correspondence run -------------------------------------------------------- *)

Record wlog := mkLog {
  l_maxsize : N;                              (* Writer MaxSizeBytes the log was written with *)
  l_maxp : N;                                 (* MaxWALPayloadSize of the build the log was run against *)
  l_literal : bool;                           (* true: l_files are given literally (malformed stream), no ops *)
  l_ops : list (N * N * bstr * bstr);         (* 0 AppendRaw/Append, 1 AppendRawWithMeta; timestamp; db; payload *)
  l_outcomes : list N;                        (* observed outcome of each append: 0 ok, 1 error, 2 panic *)
  l_hook : list bstr;                         (* payload the replication hook saw for each accepted op *)
  l_files : list bstr;                        (* what the real Writer left on disk, rotation order *)
  l_classes : list (bstr * N * N);            (* decoding table of the real msgpack library *)
  l_entries : list (N * N * bstr * N);        (* interned observed entries *)
  l_obs : list (N * list N * N);              (* interned observations: status, entries, corrupted *)
  l_muts : list bstr;                         (* Reader.ReadAll runs, 10 hex digits each: file(1) kind(1) pos(3) byte(2) obs(3); in pieces *)
  l_recs : list bstr                          (* Recovery runs, same packing *)
}.

Definition log_ops (l : wlog) : list op :=
  map (fun x => let '(k, ts, db, p) := x in
                match k with 1 => OpMeta ts (unhex db) (unhex p) | _ => OpRaw ts (unhex p) end) (l_ops l).
Definition log_table (l : wlog) : class_table :=
  map (fun x => let '(p, k, fp) := x in (unhex p, (k, fp))) (l_classes l).
Definition log_entries (l : wlog) : list oentry :=
  map (fun x => let '(ts, k, db, fp) := x in (ts, k, unhex db, fp)) (l_entries l).
Definition log_obs (l : wlog) (entries : list oentry) (i : N) : obs :=
  let '(st, idx, c) := nth (N.to_nat i) (l_obs l) (9, [], 0) in
  (st, map (fun j => nth (N.to_nat j) entries (0, 9, [], 0)) idx, c).

Fixpoint split_by {A} (sizes : list nat) (l : list A) : list (list A) :=
  match sizes with
  | [] => []
  | n :: r => firstn n l :: split_by r (skipn n l)
  end.

(* the ops the writer accepted, and which of them ended up in each file, according to the model *)
Definition log_accepted (l : wlog) : list op := accepted (l_maxp l) (log_ops l).
Definition log_groups (l : wlog) : list (list op) :=
  let ops := log_accepted l in
  split_by (map (@length entry) (rotate_split crc32 (l_maxsize l) file_header_size (map op_entry ops))) ops.

Fixpoint lists_eqb (a b : list (list N)) : bool :=
  match a, b with
  | [], [] => true
  | x :: r, y :: s => list_eqb x y && lists_eqb r s
  | _, _ => false
  end.

Definition aout_N (a : aout) : N := match a with AOk => 0 | AErr => 1 | APanic => 2 end.

(* tie of the writer: which appends are accepted, the bytes on disk and the payloads handed to
   the replication hook are the model's *)
Definition writer_ok (l : wlog) : bool :=
  if l_literal l then true
  else
    let es := map op_entry (log_accepted l) in
    list_eqb (l_outcomes l) (map (fun o => aout_N (append_outcome (l_maxp l) o)) (log_ops l)) &&
    lists_eqb (map unhex (l_files l)) (writer_files crc32 (l_maxsize l) es) &&
    lists_eqb (map unhex (l_hook l)) (map e_payload es).

Definition unpack (r : N) : N * N * N * N * N :=      (* file, kind, pos, byte, obs *)
  (r / 68719476736, (r / 4294967296) mod 16, (r / 1048576) mod 4096, (r / 4096) mod 256, r mod 4096).

Definition mut_records (ss : list bstr) : list N :=
  flat_map (fun s => let l := of_bstr s in hexfields (S (length l / 10)) 10 l) ss.

Record verdict := mkVerdict {
  v_writer : bool;
  v_disagree : list N;        (* ReadAll runs where model and implementation differ *)
  v_oracle : list N;          (* ReadAll runs where the implementation violates the property *)
  v_rdisagree : list N;       (* Recovery runs where model and implementation differ *)
  v_roracle : list N
}.

Fixpoint bad_indices (l : list bool) (i : N) : list N :=
  match l with
  | [] => []
  | x :: r => if x then i :: bad_indices r (i + 1) else bad_indices r (i + 1)
  end.

Definition check_log (l : wlog) : verdict :=
  let t := log_table l in
  let maxp := l_maxp l in
  let files := map unhex (l_files l) in
  let groups := log_groups l in
  let entries := log_entries l in
  let expect := map (expected t) groups in
  let all := flat_map (expected_delivered t) groups in
  let read_bad (r : N) : bool * bool :=       (* disagree, oracle fails *)
    let '(f, k, pos, b, o) := unpack r in
    let file := nth (N.to_nat f) files [] in
    let ops := nth (N.to_nat f) groups [] in
    let impl := log_obs l entries o in
    let dis := negb (obs_eqb (model_read t maxp (mutate k pos b file)) impl) in
    let orf := if l_literal l then false
               else negb (oracle_read t ops (nth (N.to_nat f) expect []) (length file) k pos b (nth (N.to_nat pos) file 256) impl) in
    (dis, orf) in
  let rec_bad (r : N) : bool * bool :=
    let '(f, k, pos, b, o) := unpack r in
    let file := nth (N.to_nat f) files [] in
    let '(st, es, _) := log_obs l entries o in
    let '(mst, mes, _) := model_recover t maxp (set_nth (N.to_nat f) (mutate k pos b file) files) in
    let dis := negb ((st =? mst) && olist_eqb oentry_eqb_nots es mes) in
    let changed := (k =? 1) || ((k =? 2) && negb (b =? nth (N.to_nat pos) file 256)) in
    let orf := if l_literal l then false
               else if changed then negb ((st =? 0) && sublistb oentry_eqb_nots es all)
               else negb ((st =? 0) && olist_eqb oentry_eqb_nots es all) in
    (dis, orf) in
  let rb := map read_bad (mut_records (l_muts l)) in
  let cb := map rec_bad (mut_records (l_recs l)) in
  mkVerdict (writer_ok l)
    (bad_indices (map fst rb) 0) (bad_indices (map snd rb) 0)
    (bad_indices (map fst cb) 0) (bad_indices (map snd cb) 0).
