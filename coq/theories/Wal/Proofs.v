(* Proofs about the WAL model (area Wal).  Property statements are restated in Props.v. *)
From Coq Require Import List Arith NArith ZArith Bool Lia ZifyBool ZifyN ZifyNat.
From ArcGen Require Import Params_Wal.
From Arc Require Import Wal.Model.
Import ListNotations.
Open Scope N_scope.
Ltac Zify.zify_post_hook ::= Z.div_mod_to_equations.

(* ---------------------------------------------------------------------------------------- *)
(* Part A: bytes and lists                                                                  *)
(* ---------------------------------------------------------------------------------------- *)

Definition bytes (l : list N) : Prop := Forall (fun x => x < 256) l.

Lemma be_decode_snoc : forall l b, be_decode (l ++ [b]) = be_decode l * 256 + b.
Proof. intros. unfold be_decode. rewrite fold_left_app. reflexivity. Qed.

Lemma be_encode_length : forall n v, length (be_encode n v) = n.
Proof.
  induction n; intros; simpl; [reflexivity|].
  rewrite app_length, IHn. simpl. lia.
Qed.

Lemma be_encode_bytes : forall n v, bytes (be_encode n v).
Proof.
  induction n; intros; simpl; [constructor|].
  apply Forall_app; split; [apply IHn|]. constructor; [|constructor].
  apply N.mod_lt. discriminate.
Qed.

Lemma be_decode_encode : forall n v, be_decode (be_encode n v) = v mod 256 ^ N.of_nat n.
Proof.
  induction n; intros.
  - simpl. rewrite N.mod_1_r. reflexivity.
  - cbn [be_encode]. rewrite be_decode_snoc, IHn.
    replace (N.of_nat (S n)) with (N.succ (N.of_nat n)) by lia.
    rewrite N.pow_succ_r'.
    rewrite (N.mod_mul_r v 256 (256 ^ N.of_nat n)); [lia | discriminate |].
    apply N.pow_nonzero. discriminate.
Qed.

Lemma be_decode_encode_small : forall n v, v < 256 ^ N.of_nat n -> be_decode (be_encode n v) = v.
Proof. intros. rewrite be_decode_encode. apply N.mod_small. assumption. Qed.

Lemma be_encode_decode : forall l, bytes l -> be_encode (length l) (be_decode l) = l.
Proof.
  induction l using rev_ind; intros Hb; [reflexivity|].
  apply Forall_app in Hb. destruct Hb as [Hl Hx]. inversion Hx; subst.
  rewrite app_length. simpl. rewrite Nat.add_1_r. cbn [be_encode].
  rewrite be_decode_snoc.
  replace ((be_decode l * 256 + x) / 256) with (be_decode l) by lia.
  replace ((be_decode l * 256 + x) mod 256) with x by lia.
  rewrite IHl by assumption. reflexivity.
Qed.

Lemma be_decode_inj : forall a b, length a = length b -> bytes a -> bytes b ->
  be_decode a = be_decode b -> a = b.
Proof.
  intros a b Hl Ha Hb He.
  rewrite <- (be_encode_decode a Ha), <- (be_encode_decode b Hb), Hl, He. reflexivity.
Qed.

Lemma firstn_app_len : forall (a b : list N) n, length a = n -> firstn n (a ++ b) = a.
Proof.
  intros. subst. rewrite firstn_app, Nat.sub_diag, firstn_all. simpl. apply app_nil_r.
Qed.

Lemma skipn_app_len : forall (a b : list N) n, length a = n -> skipn n (a ++ b) = b.
Proof.
  intros. subst. rewrite skipn_app, Nat.sub_diag, skipn_all. reflexivity.
Qed.

Lemma set_byte_length : forall l i b, length (set_byte i b l) = length l.
Proof. induction l; intros; destruct i; simpl; auto. Qed.

Lemma set_byte_app_l : forall a c i b, (i < length a)%nat -> set_byte i b (a ++ c) = set_byte i b a ++ c.
Proof.
  induction a; intros; simpl in *; [lia|]. destruct i; [reflexivity|].
  simpl. rewrite IHa by lia. reflexivity.
Qed.

Lemma set_byte_app_r : forall a c j b, set_byte (length a + j) b (a ++ c) = a ++ set_byte j b c.
Proof. induction a; intros; simpl; [reflexivity|]. rewrite IHa. reflexivity. Qed.

Lemma set_byte_same : forall l i b, nth i l 0 = b -> (i < length l)%nat -> set_byte i b l = l.
Proof.
  induction l; intros; simpl in *; [lia|]. destruct i; simpl in *; [subst; reflexivity|].
  rewrite IHl; auto. lia.
Qed.

Lemma set_byte_nth : forall l i b, (i < length l)%nat -> nth i (set_byte i b l) 0 = b.
Proof.
  induction l; intros; simpl in *; [lia|]. destruct i; simpl; [reflexivity|]. apply IHl. lia.
Qed.

Lemma set_byte_neq : forall l i b, (i < length l)%nat -> nth i l 0 <> b -> set_byte i b l <> l.
Proof.
  intros l i b Hi Hn He. apply Hn. rewrite <- He at 1. apply set_byte_nth. assumption.
Qed.

Lemma set_byte_bytes : forall l i b, bytes l -> b < 256 -> bytes (set_byte i b l).
Proof.
  induction l; intros i b Hl Hb; destruct i; simpl; auto; inversion Hl; subst; constructor; auto.
  apply IHl; assumption.
Qed.

Lemma nth_app_l : forall (a c : list N) i, (i < length a)%nat -> nth i (a ++ c) 0 = nth i a 0.
Proof. intros. apply app_nth1. assumption. Qed.

Lemma nth_app_r : forall (a c : list N) j, nth (length a + j) (a ++ c) 0 = nth j c 0.
Proof. intros. rewrite app_nth2 by lia. f_equal. lia. Qed.

Lemma list_eqb_refl : forall l, list_eqb l l = true.
Proof. induction l; simpl; [reflexivity|]. rewrite N.eqb_refl, IHl. reflexivity. Qed.

Lemma list_eqb_eq : forall a b, list_eqb a b = true -> a = b.
Proof.
  induction a; destruct b; simpl; intros H; try discriminate; [reflexivity|].
  apply andb_true_iff in H. destruct H as [H1 H2]. apply N.eqb_eq in H1. subst. f_equal. auto.
Qed.

(* ---- subsequences ---- *)

Lemma sublist_refl : forall A (l : list A), sublist l l.
Proof. induction l; constructor; assumption. Qed.

Lemma sublist_app : forall A (a b c d : list A), sublist a b -> sublist c d -> sublist (a ++ c) (b ++ d).
Proof.
  intros A a b c d H. induction H; intros Hc; simpl.
  - induction l; simpl; [assumption|]. constructor. assumption.
  - constructor. auto.
  - constructor. auto.
Qed.

Lemma sublist_app_r : forall A (a p l : list A), sublist a l -> sublist a (p ++ l).
Proof. intros. induction p; simpl; [assumption|]. constructor. assumption. Qed.

Lemma sublist_map : forall A B (f : A -> B) a l, sublist a l -> sublist (map f a) (map f l).
Proof. intros A B f a l H. induction H; simpl; constructor; assumption. Qed.

Lemma sublist_trans : forall A (a b c : list A), sublist a b -> sublist b c -> sublist a c.
Proof.
  intros A a b c H1 H2. revert a H1. induction H2; intros a0 H1.
  - inversion H1; subst. constructor.
  - inversion H1; subst; constructor; auto.
  - constructor. auto.
Qed.

Lemma sublist_length : forall A (a l : list A), sublist a l -> (length a <= length l)%nat.
Proof. intros A a l H. induction H; simpl; lia. Qed.

Lemma sublistb_sound : forall A (eqb : A -> A -> bool) (R : A -> A -> Prop),
  (forall x y, eqb x y = true -> R x y) ->
  forall a l, sublistb eqb a l = true -> exists l', sublist l' l /\ Forall2 R a l'.
Proof.
  intros A eqb R HR a l. revert a. induction l; intros a0 H.
  - destruct a0; simpl in H; [|discriminate]. exists []. split; constructor.
  - destruct a0; simpl in H.
    + exists []. split; constructor.
    + destruct (eqb a0 a) eqn:E.
      * destruct (IHl _ H) as [l' [Hs Hf]]. exists (a :: l'). split; constructor; auto.
      * destruct (IHl _ H) as [l' [Hs Hf]]. exists l'. split; [constructor|]; assumption.
Qed.

(* ---------------------------------------------------------------------------------------- *)
(* Part B: one step of the reader                                                             *)
(* ---------------------------------------------------------------------------------------- *)

Lemma hdr_n_eq : hdr_n = 16%nat. Proof. reflexivity. Qed.
Lemma fhdr_n_eq : fhdr_n = 7%nat. Proof. reflexivity. Qed.
Lemma entry_header_size_eq : entry_header_size = 16. Proof. reflexivity. Qed.
Lemma max_payload_lt : max_payload < 256 ^ N.of_nat 4. Proof. reflexivity. Qed.

Lemma skipn_skipn' : forall (l : list N) a b, skipn a (skipn b l) = skipn (b + a) l.
Proof.
  intros l a b. revert l. induction b; intros l; simpl; [reflexivity|].
  destruct l; [destruct a; reflexivity|]. apply IHb.
Qed.

Section WalProofs.
  Variable crc : list N -> N.
  Variable classify : list N -> cls.

  Notation frame := (frame crc).
  Notation frames := (frames crc).
  Notation file := (file crc).
  Notation read_entry := (read_entry crc classify).
  Notation read_loop := (read_loop crc classify).
  Notation read_all := (read_all crc classify).
  Notation decode_payload := (decode_payload classify).
  Notation emit := (emit classify).
  Notation emitted := (emitted classify).

  Definition wf_entry (e : entry) : Prop :=
    e_ts e < 256 ^ N.of_nat 8 /\ len_N (e_payload e) <= max_payload /\ bytes (e_payload e).

  Definition no_panic (es : list entry) : Prop :=
    Forall (fun e => decode_payload (e_payload e) <> DPanic) es.

  (* what readEntry does once the three header fields and the rest are named *)
  Definition after_header (len ts sum : N) (R : list N) : rd :=
    if max_payload <? len then RSkip R
    else if len_N R <? len then RSkip []
    else
      let p := firstn (N.to_nat len) R in
      let rest' := skipn (N.to_nat len) R in
      if crc p =? sum then
        match decode_payload p with
        | DPanic => RPanic
        | DBad => RSkip rest'
        | DOk k db d => REmit (mkR ts k db d) rest'
        end
      else RSkip rest'.

  Lemma read_entry_parts : forall L T C R,
    length L = 4%nat -> length T = 8%nat -> length C = 4%nat ->
    read_entry (L ++ T ++ C ++ R) = after_header (be_decode L) (be_decode T) (be_decode C) R.
  Proof.
    intros L T C R HL HT HC. unfold Model.read_entry, after_header.
    replace (len_N (L ++ T ++ C ++ R) <? entry_header_size) with false.
    2:{ symmetry. apply N.ltb_ge. unfold len_N. rewrite !app_length, HL, HT, HC. rewrite entry_header_size_eq. lia. }
    rewrite hdr_n_eq.
    assert (H1 : firstn 4 (L ++ T ++ C ++ R) = L) by (apply firstn_app_len; assumption).
    assert (H2 : firstn 8 (skipn 4 (L ++ T ++ C ++ R)) = T).
    { rewrite (skipn_app_len L _ 4 HL). apply firstn_app_len; assumption. }
    assert (H3 : firstn 4 (skipn 12 (L ++ T ++ C ++ R)) = C).
    { replace (L ++ T ++ C ++ R) with ((L ++ T) ++ C ++ R) by (rewrite <- app_assoc; reflexivity).
      rewrite (skipn_app_len (L ++ T) _ 12) by (rewrite app_length; lia). apply firstn_app_len; assumption. }
    assert (H4 : skipn 16 (L ++ T ++ C ++ R) = R).
    { replace (L ++ T ++ C ++ R) with ((L ++ T ++ C) ++ R) by (rewrite <- !app_assoc; reflexivity).
      apply skipn_app_len. rewrite !app_length; lia. }
    rewrite H1, H2, H3, H4. reflexivity.
  Qed.

  Hypothesis crc_range : forall p, crc p < 256 ^ N.of_nat 4.

  Definition step_of (e : entry) (ts : N) (rest : list N) : rd :=
    match decode_payload (e_payload e) with
    | DPanic => RPanic
    | DBad => RSkip rest
    | DOk k db d => REmit (mkR ts k db d) rest
    end.

  Lemma after_header_exact : forall P ts rest,
    len_N P <= max_payload ->
    after_header (len_N P) ts (crc P) (P ++ rest) =
    match decode_payload P with
    | DPanic => RPanic | DBad => RSkip rest | DOk k db d => REmit (mkR ts k db d) rest end.
  Proof.
    intros P ts rest Hmax. unfold after_header.
    replace (max_payload <? len_N P) with false by (symmetry; apply N.ltb_ge; assumption).
    replace (len_N (P ++ rest) <? len_N P) with false
      by (symmetry; apply N.ltb_ge; unfold len_N; rewrite app_length; lia).
    unfold len_N. rewrite Nat2N.id.
    rewrite (firstn_app_len P rest _ eq_refl), (skipn_app_len P rest _ eq_refl).
    rewrite N.eqb_refl. reflexivity.
  Qed.

  Lemma frame_length : forall e, length (frame e) = (16 + length (e_payload e))%nat.
  Proof. intros. unfold Model.frame. rewrite !app_length, !be_encode_length. lia. Qed.

  Lemma read_entry_frame : forall e rest, wf_entry e ->
    read_entry (frame e ++ rest) = step_of e (e_ts e) rest.
  Proof.
    intros e rest [Hts [Hmax Hb]]. unfold Model.frame. rewrite <- !app_assoc.
    rewrite read_entry_parts by apply be_encode_length.
    rewrite (be_decode_encode_small 4) by (pose proof max_payload_lt; lia).
    rewrite (be_decode_encode_small 8) by assumption.
    rewrite (be_decode_encode_small 4) by apply crc_range.
    apply after_header_exact. assumption.
  Qed.

  (* inversion: what an arbitrary rest must look like for readEntry to emit / panic / skip *)
  Definition hdr_ok (s : list N) (len : nat) : Prop :=
    (16 + len <= length s)%nat /\ N.of_nat len <= max_payload /\ N.of_nat len = be_decode (firstn 4 s) /\
    crc (firstn len (skipn 16 s)) = be_decode (firstn 4 (skipn 12 s)).

  Lemma read_entry_inv : forall s,
    match read_entry s with
    | RStop => (length s < 16)%nat
    | RSkip rest => (16 <= length s)%nat /\ exists k, (16 <= k)%nat /\ rest = skipn k s
    | RPanic => exists len, hdr_ok s len /\ decode_payload (firstn len (skipn 16 s)) = DPanic
    | REmit x rest => exists len k db d, hdr_ok s len /\
          decode_payload (firstn len (skipn 16 s)) = DOk k db d /\
          x = mkR (be_decode (firstn 8 (skipn 4 s))) k db d /\ rest = skipn (16 + len) s
    end.
  Proof.
    intros s. unfold Model.read_entry. rewrite entry_header_size_eq, hdr_n_eq.
    destruct (len_N s <? 16) eqn:E1.
    { apply N.ltb_lt in E1. unfold len_N in E1. lia. }
    apply N.ltb_ge in E1. unfold len_N in E1.
    assert (H16 : (16 <= length s)%nat) by lia.
    destruct (max_payload <? be_decode (firstn 4 s)) eqn:E2.
    { split; [assumption|]. exists 16%nat. split; [lia|reflexivity]. }
    apply N.ltb_ge in E2.
    destruct (len_N (skipn 16 s) <? be_decode (firstn 4 s)) eqn:E3.
    { split; [assumption|]. exists (length s). split; [lia|]. rewrite skipn_all. reflexivity. }
    apply N.ltb_ge in E3. unfold len_N in E3. rewrite skipn_length in E3.
    set (len := N.to_nat (be_decode (firstn 4 s))) in *.
    assert (Hlen : N.of_nat len = be_decode (firstn 4 s)) by (unfold len; lia).
    assert (Hok : crc (firstn len (skipn 16 s)) = be_decode (firstn 4 (skipn 12 s)) -> hdr_ok s len).
    { intros Hc. repeat split; try assumption; lia. }
    assert (Hrest : skipn len (skipn 16 s) = skipn (16 + len) s) by (rewrite skipn_skipn'; reflexivity).
    destruct (crc (firstn len (skipn 16 s)) =? be_decode (firstn 4 (skipn 12 s))) eqn:E4.
    - apply N.eqb_eq in E4.
      destruct (decode_payload (firstn len (skipn 16 s))) eqn:E5.
      + exists len. split; [apply Hok; assumption|assumption].
      + split; [assumption|]. exists (16 + len)%nat. split; [lia|]. assumption.
      + exists len, k, db, data. split; [apply Hok; assumption|]. split; [assumption|]. split; [reflexivity|]. exact Hrest.
    - split; [assumption|]. exists (16 + len)%nat. split; [lia|]. assumption.
  Qed.

  (* -------------------------------------------------------------------------------------- *)
  (* Part C: the loop, fuel                                                                    *)
  (* -------------------------------------------------------------------------------------- *)

  Definition bump (r : lres) : lres := match r with LOk es c => LOk es (c + 1) | LPanic => LPanic end.
  Definition push (e : rentry) (r : lres) : lres := match r with LOk es c => LOk (e :: es) c | LPanic => LPanic end.

  Lemma read_loop_S : forall f s,
    read_loop (S f) s =
    match read_entry s with
    | RStop => Some (LOk [] 0)
    | RPanic => Some LPanic
    | RSkip rest => option_map bump (read_loop f rest)
    | REmit e rest => option_map (push e) (read_loop f rest)
    end.
  Proof.
    intros. cbn [Model.read_loop]. destruct (read_entry s); try reflexivity;
      destruct (read_loop f rest) as [[|]|]; reflexivity.
  Qed.

  Lemma read_loop_mono : forall n s r, read_loop n s = Some r -> read_loop (S n) s = Some r.
  Proof.
    induction n; intros s r H; [discriminate|].
    rewrite read_loop_S in H. rewrite read_loop_S.
    destruct (read_entry s); try assumption.
    - destruct (read_loop n rest) eqn:E; [|discriminate]. rewrite (IHn _ _ E). assumption.
    - destruct (read_loop n rest) eqn:E; [|discriminate]. rewrite (IHn _ _ E). assumption.
  Qed.

  Lemma read_loop_mono_le : forall n m s r, (n <= m)%nat -> read_loop n s = Some r -> read_loop m s = Some r.
  Proof. intros n m s r Hle H. induction Hle; [assumption|]. apply read_loop_mono. assumption. Qed.

  Definition reads (s : list N) (r : lres) : Prop := exists n, read_loop n s = Some r.

  Lemma reads_fun : forall s r1 r2, reads s r1 -> reads s r2 -> r1 = r2.
  Proof.
    intros s r1 r2 [n1 H1] [n2 H2].
    apply (read_loop_mono_le n1 (max n1 n2)) in H1; [|lia].
    apply (read_loop_mono_le n2 (max n1 n2)) in H2; [|lia]. congruence.
  Qed.

  Lemma reads_stop : forall s, read_entry s = RStop -> reads s (LOk [] 0).
  Proof. intros s H. exists 1%nat. rewrite read_loop_S, H. reflexivity. Qed.

  Lemma reads_panic : forall s, read_entry s = RPanic -> reads s LPanic.
  Proof. intros s H. exists 1%nat. rewrite read_loop_S, H. reflexivity. Qed.

  Lemma reads_skip : forall s rest r, read_entry s = RSkip rest -> reads rest r -> reads s (bump r).
  Proof. intros s rest r H [n Hn]. exists (S n). rewrite read_loop_S, H, Hn. reflexivity. Qed.

  Lemma reads_emit : forall s e rest r, read_entry s = REmit e rest -> reads rest r -> reads s (push e r).
  Proof. intros s e rest r H [n Hn]. exists (S n). rewrite read_loop_S, H, Hn. reflexivity. Qed.

  Lemma reads_nil : reads [] (LOk [] 0).
  Proof. apply reads_stop. reflexivity. Qed.

  (* every iteration but the last consumes a whole header: the fuel ReadAll is given suffices *)
  Lemma read_loop_enough : forall n s, (length s < 16 * n)%nat -> exists r, read_loop n s = Some r.
  Proof.
    induction n; intros s H; [lia|].
    rewrite read_loop_S. pose proof (read_entry_inv s) as Hinv.
    destruct (read_entry s).
    - eexists; reflexivity.
    - eexists; reflexivity.
    - destruct Hinv as [H16 [k [Hk Hr]]]. subst rest.
      destruct (IHn (skipn k s)) as [r Hr]. { rewrite skipn_length. lia. }
      rewrite Hr. eexists; reflexivity.
    - destruct Hinv as [len [k [db [d [[Hl _] [_ [_ Hr]]]]]]]. subst rest.
      destruct (IHn (skipn (16 + len) s)) as [r Hr]. { rewrite skipn_length. lia. }
      rewrite Hr. eexists; reflexivity.
  Qed.

  Definition fres_of (r : lres) : fres := match r with LPanic => FPanic | LOk es c => FOk es c end.

  Lemma file_header_eq : file_header = wal_magic ++ be_encode 2 wal_version ++ [checksum_type].
  Proof. reflexivity. Qed.

  Lemma file_header_length : length file_header = 7%nat.
  Proof. reflexivity. Qed.

  (* a file that starts with an intact file header *)
  Lemma read_all_reads : forall body r, reads body r -> read_all (file_header ++ body) = fres_of r.
  Proof.
    intros body r Hr. unfold Model.read_all.
    replace (len_N (file_header ++ body) <? file_header_size) with false.
    2:{ symmetry. apply N.ltb_ge. unfold len_N. rewrite app_length, file_header_length.
        change file_header_size with 7. lia. }
    replace (firstn 4 (file_header ++ body)) with wal_magic by reflexivity.
    rewrite list_eqb_refl. cbn [negb].
    rewrite fhdr_n_eq. rewrite (skipn_app_len file_header body 7 file_header_length).
    destruct (read_loop_enough (S (length (file_header ++ body))) body) as [r' Hr'].
    { rewrite app_length. lia. }
    rewrite Hr'. assert (r' = r) by (eapply reads_fun; [eexists; eassumption|assumption]). subst.
    destruct r; reflexivity.
  Qed.

  Lemma read_all_never_out_of_fuel : forall f, read_all f <> FOutOfFuel.
  Proof.
    intros f. unfold Model.read_all.
    destruct (len_N f <? file_header_size); [discriminate|].
    destruct (negb (list_eqb (firstn 4 f) wal_magic)); [discriminate|].
    destruct (read_loop_enough (S (length f)) (skipn fhdr_n f)) as [r Hr].
    { rewrite skipn_length. lia. }
    rewrite Hr. destruct r; discriminate.
  Qed.

  (* -------------------------------------------------------------------------------------- *)
  (* Part D: intact frames                                                                     *)
  (* -------------------------------------------------------------------------------------- *)

  Definition prepend (es : list entry) (r : lres) : lres :=
    match r with
    | LPanic => LPanic
    | LOk l c => LOk (emitted es ++ l) (c + undecodable classify es)
    end.

  Lemma emitted_cons : forall e es, emitted (e :: es) = (match emit e with Some r => [r] | None => [] end) ++ emitted es.
  Proof. reflexivity. Qed.

  Lemma emitted_app : forall a b, emitted (a ++ b) = emitted a ++ emitted b.
  Proof. intros. unfold Model.emitted. rewrite flat_map_app. reflexivity. Qed.

  Lemma frames_app : forall a b, frames (a ++ b) = frames a ++ frames b.
  Proof. intros. unfold Model.frames. rewrite flat_map_app. reflexivity. Qed.

  Lemma frames_cons : forall e es, frames (e :: es) = frame e ++ frames es.
  Proof. reflexivity. Qed.

  Lemma undecodable_cons : forall e es,
    undecodable classify (e :: es) = (match emit e with Some _ => 0 | None => 1 end) + undecodable classify es.
  Proof.
    intros. unfold undecodable. cbn [filter]. destruct (emit e); cbn [length]; lia.
  Qed.

  Lemma reads_frame : forall e rest r, wf_entry e -> decode_payload (e_payload e) <> DPanic ->
    reads rest r -> reads (frame e ++ rest) (prepend [e] r).
  Proof.
    intros e rest r Hwf Hnp Hr.
    pose proof (read_entry_frame e rest Hwf) as Hstep. unfold step_of in Hstep.
    unfold prepend. rewrite undecodable_cons. unfold Model.emitted. cbn [flat_map]. rewrite app_nil_r.
    unfold Model.emit. unfold undecodable. cbn [filter length].
    destruct (decode_payload (e_payload e)) eqn:E.
    - contradiction.
    - replace (match r with LPanic => LPanic | LOk l c => LOk ([] ++ l) (c + (1 + N.of_nat 0)) end) with (bump r)
        by (destruct r; simpl; [reflexivity|f_equal; lia]).
      eapply reads_skip; eassumption.
    - replace (match r with LPanic => LPanic | LOk l c => LOk ([{| r_ts := e_ts e; r_kind := k; r_db := db; r_data := data |}] ++ l) (c + (0 + N.of_nat 0)) end)
        with (push (mkR (e_ts e) k db data) r) by (destruct r; simpl; [reflexivity|f_equal; lia]).
      eapply reads_emit; eassumption.
  Qed.

  Lemma prepend_app : forall a b r, prepend (a ++ b) r = prepend a (prepend b r).
  Proof.
    intros. destruct r; simpl; [reflexivity|]. rewrite emitted_app, <- app_assoc. f_equal.
    unfold undecodable. rewrite filter_app, app_length. lia.
  Qed.

  Lemma reads_frames : forall es rest r, Forall wf_entry es -> no_panic es ->
    reads rest r -> reads (frames es ++ rest) (prepend es r).
  Proof.
    induction es; intros rest r Hwf Hnp Hr.
    - replace (prepend [] r) with r; [exact Hr|]. destruct r; [reflexivity|]. unfold prepend, undecodable. simpl. rewrite N.add_0_r. reflexivity.
    - inversion Hwf; subst. inversion Hnp; subst.
      rewrite frames_cons, <- app_assoc.
      change (a :: es) with ([a] ++ es). rewrite prepend_app.
      apply reads_frame; auto.
  Qed.

  Theorem intact : forall es, Forall wf_entry es -> no_panic es ->
    read_all (file es) = FOk (emitted es) (undecodable classify es).
  Proof.
    intros es Hwf Hnp. unfold Model.file.
    rewrite (read_all_reads (frames es) (prepend es (LOk [] 0))).
    - simpl. rewrite app_nil_r. reflexivity.
    - rewrite <- (app_nil_r (frames es)). apply reads_frames; auto. apply reads_nil.
  Qed.

  (* -------------------------------------------------------------------------------------- *)
  (* Part E: truncation at every offset                                                        *)
  (* -------------------------------------------------------------------------------------- *)

  Lemma read_entry_short : forall s, (length s < 16)%nat -> read_entry s = RStop.
  Proof.
    intros s H. unfold Model.read_entry. rewrite entry_header_size_eq.
    replace (len_N s <? 16) with true; [reflexivity|]. symmetry. apply N.ltb_lt. unfold len_N. lia.
  Qed.

  Lemma reads_torn : forall e k, wf_entry e -> (k < length (frame e))%nat ->
    exists c, reads (firstn k (frame e)) (LOk [] c).
  Proof.
    intros e k [Hts [Hmax Hb]] Hk.
    destruct (Nat.lt_ge_cases k 16) as [Hlt|Hge].
    - exists 0. apply reads_stop. apply read_entry_short. rewrite firstn_length. lia.
    - exists 1. rewrite frame_length in Hk.
      assert (Hf : firstn k (frame e) =
                   be_encode 4 (len_N (e_payload e)) ++ be_encode 8 (e_ts e) ++ be_encode 4 (crc (e_payload e)) ++
                   firstn (k - 16) (e_payload e)).
      { unfold Model.frame.
        replace (be_encode 4 (len_N (e_payload e)) ++ be_encode 8 (e_ts e) ++ be_encode 4 (crc (e_payload e)) ++ e_payload e)
          with ((be_encode 4 (len_N (e_payload e)) ++ be_encode 8 (e_ts e) ++ be_encode 4 (crc (e_payload e))) ++ e_payload e)
          by (rewrite <- !app_assoc; reflexivity).
        rewrite firstn_app. rewrite !app_length, !be_encode_length.
        rewrite firstn_all2 by (rewrite !app_length, !be_encode_length; lia).
        rewrite <- !app_assoc. reflexivity. }
      rewrite Hf. change (LOk [] 1) with (bump (LOk [] 0)).
      eapply reads_skip; [|apply reads_nil].
      rewrite read_entry_parts by apply be_encode_length.
      rewrite (be_decode_encode_small 4) by (pose proof max_payload_lt; lia).
      unfold after_header.
      replace (max_payload <? len_N (e_payload e)) with false by (symmetry; apply N.ltb_ge; assumption).
      replace (len_N (firstn (k - 16) (e_payload e)) <? len_N (e_payload e)) with true; [reflexivity|].
      symmetry. apply N.ltb_lt. unfold len_N. rewrite firstn_length. lia.
  Qed.

  Lemma prefix_within_spec : forall es k, exists rest,
    es = prefix_within crc k es ++ rest /\
    (length (frames (prefix_within crc k es)) <= k)%nat /\
    match rest with [] => True | e :: _ => (k < length (frames (prefix_within crc k es)) + length (frame e))%nat end.
  Proof.
    induction es; intros k.
    - exists []. simpl. repeat split; lia.
    - cbn [prefix_within]. destruct (length (frame a) <=? k)%nat eqn:E.
      + apply Nat.leb_le in E. destruct (IHes (k - length (frame a))%nat) as [rest [H1 [H2 H3]]].
        exists rest. split; [simpl; f_equal; assumption|].
        rewrite frames_cons, app_length. split; [lia|]. destruct rest; [exact I|]. lia.
      + apply Nat.leb_gt in E. exists (a :: es). split; [reflexivity|].
        cbn [Model.frames flat_map length]. split; lia.
  Qed.

  Lemma firstn_frames : forall es k, Forall wf_entry es ->
    exists torn c, firstn k (frames es) = frames (prefix_within crc k es) ++ torn /\ reads torn (LOk [] c).
  Proof.
    induction es; intros k Hwf.
    - exists [], 0. simpl. rewrite firstn_nil. split; [reflexivity|apply reads_nil].
    - inversion Hwf; subst. cbn [prefix_within]. rewrite frames_cons, firstn_app.
      destruct (length (frame a) <=? k)%nat eqn:E.
      + apply Nat.leb_le in E. destruct (IHes (k - length (frame a))%nat H2) as [torn [c [H3 H4]]].
        exists torn, c. split; [|assumption].
        rewrite firstn_all2 by assumption. rewrite H3, frames_cons, <- app_assoc. reflexivity.
      + apply Nat.leb_gt in E. destruct (reads_torn a k H1 E) as [c Hc].
        exists (firstn k (frame a)), c. split; [|assumption].
        replace (k - length (frame a))%nat with 0%nat by lia. simpl. rewrite app_nil_r. reflexivity.
  Qed.

  Lemma frames_nonempty : forall e, (16 <= length (frame e))%nat.
  Proof. intros. rewrite frame_length. lia. Qed.

  Theorem truncation : forall es k, Forall wf_entry es -> no_panic es ->
    exists c, read_all (truncate k (file es)) = FOk (emitted (prefix_within crc (k - 7) es)) c.
  Proof.
    intros es k Hwf Hnp. unfold truncate, Model.file.
    destruct (Nat.lt_ge_cases k 7) as [Hlt|Hge].
    - exists 0. unfold Model.read_all.
      replace (len_N (firstn k (file_header ++ frames es)) <? file_header_size) with true.
      2:{ symmetry. apply N.ltb_lt. unfold len_N. rewrite firstn_length. change file_header_size with 7. lia. }
      replace (k - 7)%nat with 0%nat by lia.
      destruct es; [reflexivity|]. cbn [prefix_within].
      pose proof (frames_nonempty e). destruct (length (frame e) <=? 0)%nat eqn:E; [apply Nat.leb_le in E; lia|].
      reflexivity.
    - rewrite firstn_app, file_header_length. rewrite firstn_all2 by (rewrite file_header_length; lia).
      destruct (firstn_frames es (k - 7) Hwf) as [torn [c [H1 H2]]]. rewrite H1.
      destruct (prefix_within_spec es (k - 7)) as [rest [H3 _]].
      assert (Hwf' : Forall wf_entry (prefix_within crc (k - 7) es)).
      { rewrite H3 in Hwf. apply Forall_app in Hwf. tauto. }
      assert (Hnp' : no_panic (prefix_within crc (k - 7) es)).
      { unfold no_panic in *. rewrite H3 in Hnp. apply Forall_app in Hnp. tauto. }
      eexists. rewrite (read_all_reads _ _ (reads_frames _ _ _ Hwf' Hnp' H2)).
      simpl. rewrite app_nil_r. reflexivity.
  Qed.

  (* -------------------------------------------------------------------------------------- *)
  (* Part F: reading from an arbitrary offset of a ghost-free frame area                       *)
  (* -------------------------------------------------------------------------------------- *)

  (* a byte range that readEntry would accept if it started at offset p and took len for the
     length; a ghost is such a range that is not one of the appended frames *)
  Definition valid_at (body : list N) (p len : nat) : Prop :=
    (p + 16 + len <= length body)%nat /\ N.of_nat len <= max_payload /\
    crc (firstn len (skipn (p + 16) body)) = be_decode (firstn 4 (skipn (p + 12) body)) /\
    decode_payload (firstn len (skipn (p + 16) body)) <> DBad.

  Definition genuine (es : list entry) (p len : nat) : Prop :=
    exists pre e post, es = pre ++ e :: post /\ p = length (frames pre) /\ len = length (e_payload e).

  Definition ghost_free (es : list entry) : Prop :=
    forall p len, valid_at (frames es) p len -> genuine es p len.

  Lemma drop_until_suffix : forall es q, exists pre, es = pre ++ drop_until crc q es.
  Proof.
    induction es; intros q; [exists []; reflexivity|].
    cbn [drop_until]. destruct q; [exists []; reflexivity|].
    destruct (IHes (S q - length (frame a))%nat) as [pre Hp]. exists (a :: pre). simpl. f_equal. assumption.
  Qed.

  Lemma drop_until_mono : forall es q k, exists pre, drop_until crc q es = pre ++ drop_until crc (q + k) es.
  Proof.
    induction es; intros q k; [exists []; reflexivity|].
    destruct q.
    - cbn [drop_until Nat.add]. apply (drop_until_suffix (a :: es) k).
    - cbn [drop_until Nat.add].
      destruct (IHes (S q - length (frame a))%nat ((S (q + k) - length (frame a)) - (S q - length (frame a)))%nat) as [pre Hp].
      exists pre. rewrite Hp. do 2 f_equal. lia.
  Qed.

  Lemma drop_until_boundary : forall pre l, drop_until crc (length (frames pre)) (pre ++ l) = l.
  Proof.
    induction pre; intros l.
    - cbn. destruct l; reflexivity.
    - rewrite frames_cons, app_length. cbn [app drop_until].
      pose proof (frames_nonempty a).
      destruct (length (frame a) + length (frames pre))%nat eqn:E; [lia|].
      rewrite <- E. replace (length (frame a) + length (frames pre) - length (frame a))%nat with (length (frames pre)) by lia.
      apply IHpre.
  Qed.

  Lemma emitted_suffix_sublist : forall a b, sublist (emitted b) (emitted (a ++ b)).
  Proof. intros. rewrite emitted_app. apply sublist_app_r. apply sublist_refl. Qed.

  Lemma frames_length_inj : forall pre1 e1 post1 pre2 e2 post2,
    pre1 ++ e1 :: post1 = pre2 ++ e2 :: post2 -> length (frames pre1) = length (frames pre2) ->
    pre1 = pre2 /\ e1 = e2 /\ post1 = post2.
  Proof.
    induction pre1; intros e1 post1 pre2 e2 post2 Heq Hlen.
    - destruct pre2.
      + simpl in Heq. inversion Heq. auto.
      + rewrite frames_cons, app_length in Hlen. pose proof (frames_nonempty e). simpl in Hlen. lia.
    - destruct pre2.
      + rewrite frames_cons, app_length in Hlen. pose proof (frames_nonempty a). simpl in Hlen. lia.
      + simpl in Heq. inversion Heq; subst. rewrite !frames_cons, !app_length in Hlen.
        destruct (IHpre1 _ _ _ _ _ H1) as [A [B C]]; [lia|]. subst. auto.
  Qed.

  Lemma skipn_app_ge : forall (a x : list N) k, (length a <= k)%nat -> skipn k (a ++ x) = skipn (k - length a) x.
  Proof. intros. rewrite skipn_app. rewrite skipn_all2 by assumption. reflexivity. Qed.

  Lemma frame_payload_slice : forall e rest,
    firstn (length (e_payload e)) (skipn 16 (frame e ++ rest)) = e_payload e.
  Proof.
    intros. unfold Model.frame.
    replace ((be_encode 4 (len_N (e_payload e)) ++ be_encode 8 (e_ts e) ++ be_encode 4 (crc (e_payload e)) ++ e_payload e) ++ rest)
      with ((be_encode 4 (len_N (e_payload e)) ++ be_encode 8 (e_ts e) ++ be_encode 4 (crc (e_payload e))) ++ e_payload e ++ rest)
      by (rewrite <- !app_assoc; reflexivity).
    rewrite skipn_app_len by (rewrite !app_length, !be_encode_length; reflexivity).
    apply firstn_app_len. reflexivity.
  Qed.

  Lemma skipn_body : forall pre x, skipn (length (frames pre)) (frames pre ++ x) = x.
  Proof. intros. apply skipn_app_len. reflexivity. Qed.

  (* hdr_ok at the rest that starts at offset q is valid_at q *)
  Lemma hdr_ok_valid_at : forall body q len,
    hdr_ok (skipn q body) len -> decode_payload (firstn len (skipn 16 (skipn q body))) <> DBad ->
    valid_at body q len.
  Proof.
    intros body q len [H1 [H2 [H3 H4]]] H5. rewrite skipn_length in H1.
    rewrite !skipn_skipn' in *. repeat split; try assumption. lia.
  Qed.

  Lemma read_from_offset : forall es, ghost_free es -> Forall wf_entry es -> no_panic es ->
    forall n q r, read_loop n (skipn q (frames es)) = Some r ->
    exists res c, r = LOk res c /\ sublist res (emitted (drop_until crc q es)).
  Proof.
    intros es Hgf Hwf Hnp. induction n; intros q r H; [discriminate|].
    rewrite read_loop_S in H.
    pose proof (read_entry_inv (skipn q (frames es))) as Hinv.
    destruct (read_entry (skipn q (frames es))) eqn:E.
    - inversion H; subst. exists [], 0. split; [reflexivity|constructor].
    - (* panic: the range would be a ghost, or a genuine entry that panics *)
      exfalso. destruct Hinv as [len [Hok Hd]].
      assert (Hv : valid_at (frames es) q len) by (apply hdr_ok_valid_at; [assumption|congruence]).
      destruct (Hgf _ _ Hv) as [pre [e [post [He [Hq Hl]]]]]. subst es q len.
      rewrite frames_app, frames_cons, skipn_body, frame_payload_slice in Hd.
      unfold no_panic in Hnp. apply Forall_app in Hnp. destruct Hnp as [_ Hnp]. inversion Hnp; subst. contradiction.
    - destruct Hinv as [_ [k [Hk Hrest]]]. subst rest. rewrite skipn_skipn' in H.
      destruct (read_loop n (skipn (q + k) (frames es))) eqn:E2; [|discriminate].
      destruct (IHn _ _ E2) as [res [c [Hr Hs]]]. subst l. inversion H; subst.
      exists res, (c + 1). split; [reflexivity|].
      destruct (drop_until_mono es q k) as [pre Hp]. rewrite Hp.
      eapply sublist_trans; [eassumption|apply emitted_suffix_sublist].
    - destruct Hinv as [len [k [db [d [Hok [Hd _]]]]]].
      assert (Hv : valid_at (frames es) q len) by (apply hdr_ok_valid_at; [assumption|congruence]).
      clear Hd Hok k db d.
      destruct (Hgf _ _ Hv) as [pre [e' [post [He [Hq Hl]]]]]. subst es q len.
      assert (Hwfe : wf_entry e') by (apply Forall_app in Hwf; destruct Hwf as [_ Hwf]; inversion Hwf; assumption).
      rewrite frames_app, frames_cons, skipn_body in E.
      rewrite (read_entry_frame e' (frames post) Hwfe) in E. unfold step_of in E.
      destruct (decode_payload (e_payload e')) eqn:Ed; try discriminate. inversion E; subst e rest. clear E.
      destruct (read_loop n (frames post)) eqn:E2; [|discriminate].
      assert (Hpost : frames post = skipn (length (frames (pre ++ [e']))) (frames ((pre ++ [e']) ++ post))).
      { rewrite (frames_app (pre ++ [e']) post). symmetry. apply skipn_app_len. reflexivity. }
      rewrite Hpost in E2. rewrite <- app_assoc in E2. cbn [app] in E2.
      destruct (IHn _ _ E2) as [res [c [Hr Hs]]]. subst l. inversion H; subst.
      exists ({| r_ts := e_ts e'; r_kind := k; r_db := db; r_data := data |} :: res), c. split; [reflexivity|].
      rewrite drop_until_boundary.
      replace (pre ++ e' :: post) with ((pre ++ [e']) ++ post) in Hs by (rewrite <- app_assoc; reflexivity).
      rewrite drop_until_boundary in Hs.
      rewrite emitted_cons. unfold Model.emit. rewrite Ed. cbn [app]. constructor. assumption.
  Qed.

  (* -------------------------------------------------------------------------------------- *)
  (* Part G: one substituted byte                                                              *)
  (* -------------------------------------------------------------------------------------- *)

  Hypothesis crc_detects_1byte : forall p i b, bytes p -> b < 256 -> (i < length p)%nat ->
    nth i p 0 <> b -> crc (set_byte i b p) <> crc p.

  Lemma locate : forall es j, (j < length (frames es))%nat ->
    exists pre e post k, es = pre ++ e :: post /\ j = (length (frames pre) + k)%nat /\ (k < length (frame e))%nat.
  Proof.
    induction es; intros j Hj; [simpl in Hj; lia|].
    rewrite frames_cons, app_length in Hj.
    destruct (Nat.lt_ge_cases j (length (frame a))) as [Hlt|Hge].
    - exists [], a, es, j. repeat split; auto.
    - destruct (IHes (j - length (frame a))%nat) as [pre [e [post [k [H1 [H2 H3]]]]]]; [lia|].
      exists (a :: pre), e, post, k. subst es. split; [reflexivity|]. rewrite frames_cons, app_length. split; lia.
  Qed.

  Lemma in_len_field_body_locate : forall pre e post k, (k < length (frame e))%nat ->
    in_len_field_body crc (length (frames pre) + k) (pre ++ e :: post) = (k <? 4)%nat.
  Proof.
    induction pre; intros e post k Hk.
    - cbn [app Model.frames flat_map length Nat.add in_len_field_body].
      destruct (k <? 4)%nat eqn:E; [reflexivity|].
      replace (k <? length (frame e))%nat with true by (symmetry; apply Nat.ltb_lt; assumption). reflexivity.
    - rewrite frames_cons, app_length. cbn [app in_len_field_body].
      pose proof (frames_nonempty a).
      replace (length (frame a) + length (frames pre) + k <? 4)%nat with false by (symmetry; apply Nat.ltb_ge; lia).
      replace (length (frame a) + length (frames pre) + k <? length (frame a))%nat with false by (symmetry; apply Nat.ltb_ge; lia).
      replace (length (frame a) + length (frames pre) + k - length (frame a))%nat with (length (frames pre) + k)%nat by lia.
      apply IHpre. assumption.
  Qed.

  Definition fL (e : entry) := be_encode 4 (len_N (e_payload e)).
  Definition fT (e : entry) := be_encode 8 (e_ts e).
  Definition fC (e : entry) := be_encode 4 (crc (e_payload e)).

  Lemma frame_parts : forall e, frame e = fL e ++ fT e ++ fC e ++ e_payload e.
  Proof. reflexivity. Qed.

  Lemma wf_len_decode : forall e, wf_entry e -> be_decode (fL e) = len_N (e_payload e).
  Proof.
    intros e [_ [Hmax _]]. unfold fL. apply be_decode_encode_small. pose proof max_payload_lt. lia.
  Qed.

  (* the reader's step on a frame whose timestamp bytes were replaced *)
  Lemma step_ts : forall e T' rest, wf_entry e -> length T' = 8%nat ->
    read_entry (fL e ++ T' ++ fC e ++ e_payload e ++ rest) = step_of e (be_decode T') rest.
  Proof.
    intros e T' rest Hwf HT. rewrite read_entry_parts by (try apply be_encode_length; assumption).
    rewrite (wf_len_decode e Hwf). unfold fC. rewrite (be_decode_encode_small 4) by apply crc_range.
    destruct Hwf as [_ [Hmax _]]. apply after_header_exact. assumption.
  Qed.

  Lemma step_crc : forall e C' ts rest, wf_entry e -> length C' = 4%nat -> be_decode C' <> crc (e_payload e) ->
    after_header (len_N (e_payload e)) ts (be_decode C') (e_payload e ++ rest) = RSkip rest.
  Proof.
    intros e C' ts rest [_ [Hmax _]] HC Hne. unfold after_header.
    replace (max_payload <? len_N (e_payload e)) with false by (symmetry; apply N.ltb_ge; assumption).
    replace (len_N (e_payload e ++ rest) <? len_N (e_payload e)) with false
      by (symmetry; apply N.ltb_ge; unfold len_N; rewrite app_length; lia).
    unfold len_N. rewrite Nat2N.id.
    rewrite (firstn_app_len _ rest _ eq_refl), (skipn_app_len _ rest _ eq_refl).
    replace (crc (e_payload e) =? be_decode C') with false; [reflexivity|].
    symmetry. apply N.eqb_neq. congruence.
  Qed.

  Lemma step_payload : forall e P' ts rest, wf_entry e -> length P' = length (e_payload e) ->
    crc P' <> crc (e_payload e) ->
    after_header (len_N (e_payload e)) ts (crc (e_payload e)) (P' ++ rest) = RSkip rest.
  Proof.
    intros e P' ts rest [_ [Hmax _]] HP Hne. unfold after_header.
    replace (max_payload <? len_N (e_payload e)) with false by (symmetry; apply N.ltb_ge; assumption).
    replace (len_N (P' ++ rest) <? len_N (e_payload e)) with false
      by (symmetry; apply N.ltb_ge; unfold len_N; rewrite app_length; lia).
    unfold len_N. rewrite Nat2N.id. rewrite <- HP.
    rewrite (firstn_app_len _ rest _ eq_refl), (skipn_app_len _ rest _ eq_refl).
    replace (crc P' =? crc (e_payload e)) with false; [reflexivity|].
    symmetry. apply N.eqb_neq. assumption.
  Qed.

  (* the rest of the file after the damaged frame is read normally *)
  Lemma reads_post : forall post, Forall wf_entry post -> no_panic post ->
    reads (frames post) (LOk (emitted post) (undecodable classify post)).
  Proof.
    intros post Hwf Hnp. rewrite <- (app_nil_r (frames post)).
    replace (LOk (emitted post) (undecodable classify post)) with (prepend post (LOk [] 0))
      by (simpl; rewrite app_nil_r; reflexivity).
    apply reads_frames; auto. apply reads_nil.
  Qed.

  Definition payloads_ok (res : list rentry) (es : list entry) : Prop :=
    sublist (map strip res) (map strip (emitted es)).

  Lemma emitted_split : forall pre e post,
    emitted (pre ++ e :: post) = emitted pre ++ (match emit e with Some r => [r] | None => [] end) ++ emitted post.
  Proof. intros. rewrite emitted_app, emitted_cons. reflexivity. Qed.

  (* damage outside the length field: the damaged frame is dropped, or (timestamp bytes) comes
     back with its payload intact; everything else is read as if nothing had happened *)
  Lemma substituted_non_length : forall pre e post k b,
    Forall wf_entry (pre ++ e :: post) -> no_panic (pre ++ e :: post) -> b < 256 ->
    (4 <= k < length (frame e))%nat -> nth k (frame e) 0 <> b ->
    exists res c, reads (frames pre ++ set_byte k b (frame e) ++ frames post) (LOk res c) /\
                  payloads_ok res (pre ++ e :: post).
  Proof.
    intros pre e post k b Hwf Hnp Hb Hk Hne.
    apply Forall_app in Hwf. destruct Hwf as [Hwf1 Hwf2]. inversion Hwf2 as [|? ? Hwfe Hwf3]; subst.
    unfold no_panic in Hnp. apply Forall_app in Hnp. destruct Hnp as [Hnp1 Hnp2]. inversion Hnp2 as [|? ? Hnpe Hnp3]; subst.
    pose proof (reads_post post Hwf3 Hnp3) as Hpost.
    assert (HLl : length (fL e) = 4%nat) by apply be_encode_length.
    assert (HTl : length (fT e) = 8%nat) by apply be_encode_length.
    assert (HCl : length (fC e) = 4%nat) by apply be_encode_length.
    rewrite frame_length in Hk. rewrite frame_parts in Hne |- *.
    (* the step on the damaged frame *)
    assert (Hstep : exists st, read_entry (set_byte k b (fL e ++ fT e ++ fC e ++ e_payload e) ++ frames post) = st /\
              (st = RSkip (frames post) \/
               exists ts' kd db d, decode_payload (e_payload e) = DOk kd db d /\ st = REmit (mkR ts' kd db d) (frames post))).
    { destruct (Nat.lt_ge_cases k 12) as [H12|H12].
      - (* timestamp *)
        replace k with (length (fL e) + (k - 4))%nat in Hne |- * by lia.
        rewrite set_byte_app_r. rewrite set_byte_app_l by lia. rewrite <- !app_assoc.
        rewrite step_ts by (try assumption; rewrite set_byte_length; assumption).
        eexists; split; [reflexivity|]. unfold step_of.
        destruct (decode_payload (e_payload e)) eqn:Ed; [contradiction|left; reflexivity|].
        right. do 4 eexists. split; reflexivity.
      - destruct (Nat.lt_ge_cases k 16) as [H16|H16].
        + (* checksum *)
          replace k with (length (fL e) + (length (fT e) + (k - 12)))%nat in Hne |- * by lia.
          rewrite set_byte_app_r, set_byte_app_r. rewrite set_byte_app_l by lia.
          rewrite nth_app_r, nth_app_r, nth_app_l in Hne by lia.
          rewrite <- !app_assoc.
          rewrite read_entry_parts by (try assumption; rewrite set_byte_length; assumption).
          rewrite (wf_len_decode e Hwfe). unfold fT. rewrite (be_decode_encode_small 8) by (destruct Hwfe; assumption).
          eexists; split; [|left; reflexivity].
          apply step_crc; [assumption|rewrite set_byte_length; assumption|].
          intros Heq. apply (set_byte_neq (fC e) (k - 12) b); [lia|assumption|].
          apply be_decode_inj.
          * apply set_byte_length.
          * apply set_byte_bytes; [apply be_encode_bytes|assumption].
          * apply be_encode_bytes.
          * rewrite Heq. unfold fC. symmetry. apply be_decode_encode_small. apply crc_range.
        + (* payload *)
          replace k with (length (fL e) + (length (fT e) + (length (fC e) + (k - 16))))%nat in Hne |- * by lia.
          rewrite !set_byte_app_r. rewrite !nth_app_r in Hne.
          rewrite <- !app_assoc.
          rewrite read_entry_parts by assumption.
          rewrite (wf_len_decode e Hwfe). unfold fT, fC.
          rewrite (be_decode_encode_small 8) by (destruct Hwfe; assumption).
          rewrite (be_decode_encode_small 4) by apply crc_range.
          eexists; split; [|left; reflexivity].
          apply step_payload; [assumption|apply set_byte_length|].
          apply crc_detects_1byte; [destruct Hwfe as [_ [_ Hbytes]]; exact Hbytes|assumption|lia|assumption]. }
    destruct Hstep as [st [Hst Hcase]].
    destruct Hcase as [Hskip|[ts' [kd [db [d [Hd Hemit]]]]]]; subst st.
    - exists (emitted pre ++ emitted post), (undecodable classify post + 1 + undecodable classify pre). split.
      + replace (LOk (emitted pre ++ emitted post) (undecodable classify post + 1 + undecodable classify pre))
          with (prepend pre (bump (LOk (emitted post) (undecodable classify post)))) by reflexivity.
        apply reads_frames; auto. eapply reads_skip; eassumption.
      + unfold payloads_ok. rewrite emitted_split, !map_app.
        apply sublist_app; [apply sublist_refl|]. apply sublist_app_r. apply sublist_refl.
    - exists (emitted pre ++ mkR ts' kd db d :: emitted post), (undecodable classify post + undecodable classify pre). split.
      + replace (LOk (emitted pre ++ mkR ts' kd db d :: emitted post) (undecodable classify post + undecodable classify pre))
          with (prepend pre (push (mkR ts' kd db d) (LOk (emitted post) (undecodable classify post)))) by reflexivity.
        apply reads_frames; auto. eapply reads_emit; eassumption.
      + unfold payloads_ok. rewrite emitted_split. unfold Model.emit. rewrite Hd. rewrite !map_app. cbn [map app strip r_kind r_db r_data].
        apply sublist_refl.
  Qed.

  Lemma skipn_agree : forall (L1 L2 X : list N) k, length L1 = length L2 -> (length L1 <= k)%nat ->
    skipn k (L1 ++ X) = skipn k (L2 ++ X).
  Proof. intros. rewrite !skipn_app_ge by lia. rewrite H. reflexivity. Qed.

  (* damage inside a length field: harmless when the frame area contains no ghost *)
  Lemma substituted_length : forall pre e post k b,
    Forall wf_entry (pre ++ e :: post) -> no_panic (pre ++ e :: post) -> ghost_free (pre ++ e :: post) ->
    b < 256 -> (k < 4)%nat -> nth k (frame e) 0 <> b ->
    exists res c, reads (frames pre ++ set_byte k b (frame e) ++ frames post) (LOk res c) /\
                  payloads_ok res (pre ++ e :: post).
  Proof.
    intros pre e post k b Hwf Hnp Hgf Hb Hk Hne.
    pose proof Hwf as Hwf0. pose proof Hnp as Hnp0.
    apply Forall_app in Hwf. destruct Hwf as [Hwf1 Hwf2]. inversion Hwf2 as [|? ? Hwfe Hwf3]; subst.
    unfold no_panic in Hnp. apply Forall_app in Hnp. destruct Hnp as [Hnp1 Hnp2].
    assert (HLl : length (fL e) = 4%nat) by apply be_encode_length.
    rewrite frame_parts in Hne |- *. rewrite set_byte_app_l by lia. rewrite nth_app_l in Hne by lia.
    rewrite <- !app_assoc.
    set (L' := set_byte k b (fL e)) in *.
    set (X := fT e ++ fC e ++ e_payload e ++ frames post) in *.
    assert (HL'l : length L' = 4%nat) by (unfold L'; rewrite set_byte_length; assumption).
    assert (HL'ne : be_decode L' <> len_N (e_payload e)).
    { intros Heq. apply (set_byte_neq (fL e) k b); [lia|assumption|]. fold L'.
      apply be_decode_inj; [lia| |apply be_encode_bytes|].
      - unfold L'. apply set_byte_bytes; [apply be_encode_bytes|assumption].
      - rewrite Heq. symmetry. apply wf_len_decode. assumption. }
    assert (Hs : frame e ++ frames post = fL e ++ X) by (rewrite frame_parts; unfold X; rewrite <- !app_assoc; reflexivity).
    assert (Hbody : frames (pre ++ e :: post) = frames pre ++ fL e ++ X)
      by (rewrite frames_app, frames_cons, Hs; reflexivity).
    assert (Hagree : forall j, (4 <= j)%nat -> skipn j (L' ++ X) = skipn (length (frames pre) + j) (frames (pre ++ e :: post))).
    { intros j Hj. rewrite Hbody. rewrite <- skipn_skipn', skipn_body. apply skipn_agree; lia. }
    destruct (read_loop_enough (S (length (L' ++ X))) (L' ++ X)) as [r Hr]; [lia|].
    rewrite read_loop_S in Hr.
    pose proof (read_entry_inv (L' ++ X)) as Hinv.
    assert (Hghost : forall len, hdr_ok (L' ++ X) len -> decode_payload (firstn len (skipn 16 (L' ++ X))) <> DBad -> False).
    { intros len [H1 [H2 [H3 H4]]] H5.
      assert (Hv : valid_at (frames (pre ++ e :: post)) (length (frames pre)) len).
      { rewrite (Hagree 16%nat) in H4, H5 by lia. rewrite (Hagree 12%nat) in H4 by lia.
        repeat split; try assumption.
        rewrite Hbody, !app_length, HLl. rewrite app_length, HL'l in H1. lia. }
      destruct (Hgf _ _ Hv) as [pre2 [e2 [post2 [He [Hq Hl]]]]].
      destruct (frames_length_inj _ _ _ _ _ _ He Hq) as [A [B C]]. subst pre2 e2 post2.
      rewrite (firstn_app_len L' X 4 HL'l) in H3. apply HL'ne. rewrite <- H3, Hl. reflexivity. }
    assert (Hfin : forall res c, r = LOk res c -> sublist res (emitted (e :: post)) ->
              exists res0 c0, reads (frames pre ++ L' ++ X) (LOk res0 c0) /\ payloads_ok res0 (pre ++ e :: post)).
    { intros res c Hrr Hsub. subst r.
      exists (emitted pre ++ res), (c + undecodable classify pre). split.
      - change (LOk (emitted pre ++ res) (c + undecodable classify pre)) with (prepend pre (LOk res c)).
        apply reads_frames; auto.
        exists (S (length (L' ++ X))). rewrite read_loop_S. exact Hr.
      - unfold payloads_ok. apply sublist_map. rewrite emitted_app.
        apply sublist_app; [apply sublist_refl|assumption]. }
    destruct (read_entry (L' ++ X)) eqn:E.
    - inversion Hr; subst. apply (Hfin [] 0 eq_refl). constructor.
    - exfalso. destruct Hinv as [len [Hok Hd]]. apply (Hghost len Hok). congruence.
    - destruct Hinv as [_ [j [Hj Hrest]]]. subst rest.
      rewrite Hagree in Hr by lia.
      destruct (read_loop (length (L' ++ X)) (skipn (length (frames pre) + j) (frames (pre ++ e :: post)))) eqn:E2; [|discriminate].
      destruct (read_from_offset _ Hgf Hwf0 Hnp0 _ _ _ E2) as [res [c [Hl Hsub]]]. subst l.
      inversion Hr; subst. apply (Hfin res (c + 1)).
      + reflexivity.
      + destruct (drop_until_mono (pre ++ e :: post) (length (frames pre)) j) as [pre' Hp].
        rewrite drop_until_boundary in Hp. rewrite Hp.
        eapply sublist_trans; [eassumption|apply emitted_suffix_sublist].
    - exfalso. destruct Hinv as [len [kd [db [d [Hok [Hd _]]]]]]. apply (Hghost len Hok). congruence.
  Qed.

  Lemma list_eqb_neq : forall a b, a <> b -> list_eqb a b = false.
  Proof. intros a b H. destruct (list_eqb a b) eqn:E; [|reflexivity]. apply list_eqb_eq in E. contradiction. Qed.

  Lemma read_all_header : forall h body, length h = 7%nat ->
    (firstn 4 h <> wal_magic -> read_all (h ++ body) = FErr) /\
    (firstn 4 h = wal_magic -> forall r, reads body r -> read_all (h ++ body) = fres_of r).
  Proof.
    intros h body Hh.
    assert (Hf : firstn 4 (h ++ body) = firstn 4 h).
    { rewrite firstn_app. replace (4 - length h)%nat with 0%nat by lia. simpl. apply app_nil_r. }
    assert (Hl : len_N (h ++ body) <? file_header_size = false).
    { apply N.ltb_ge. unfold len_N. rewrite app_length, Hh. change file_header_size with 7. lia. }
    split.
    - intros Hm. unfold Model.read_all. rewrite Hl, Hf, (list_eqb_neq _ _ Hm). reflexivity.
    - intros Hm r Hr. unfold Model.read_all. rewrite Hl, Hf, Hm, list_eqb_refl. cbn [negb].
      rewrite fhdr_n_eq, (skipn_app_len h body 7 Hh).
      destruct (read_loop_enough (S (length (h ++ body))) body) as [r' Hr'].
      { rewrite app_length. lia. }
      rewrite Hr'. assert (r' = r) by (eapply reads_fun; [eexists; eassumption|assumption]). subst.
      destruct r; reflexivity.
  Qed.

  Lemma payloads_ok_refl : forall es, payloads_ok (emitted es) es.
  Proof. intros. apply sublist_refl. Qed.

  Theorem corruption_guarded : forall es i b,
    Forall wf_entry es -> no_panic es -> b < 256 -> (i < length (file es))%nat ->
    (in_len_field crc i es = true -> ghost_free es) ->
    match read_all (set_byte i b (file es)) with
    | FOk res _ => payloads_ok res es
    | FErr => True
    | FPanic | FOutOfFuel => False
    end.
  Proof.
    intros es i b Hwf Hnp Hb Hi Hguard.
    destruct (N.eq_dec (nth i (file es) 0) b) as [Hsame|Hne].
    { rewrite set_byte_same by assumption. rewrite intact by assumption. apply payloads_ok_refl. }
    unfold Model.file in *. rewrite app_length, file_header_length in Hi.
    destruct (Nat.lt_ge_cases i 7) as [Hlt|Hge].
    - (* file header *)
      rewrite set_byte_app_l by (rewrite file_header_length; assumption).
      destruct (read_all_header (set_byte i b file_header) (frames es)) as [Hbad Hgood].
      { rewrite set_byte_length. apply file_header_length. }
      destruct (list_eq_dec N.eq_dec (firstn 4 (set_byte i b file_header)) wal_magic) as [Hm|Hm].
      + rewrite (Hgood Hm _ (reads_post es Hwf Hnp)). apply payloads_ok_refl.
      + rewrite (Hbad Hm). exact I.
    - (* frame area *)
      replace i with (length file_header + (i - 7))%nat in Hne |- * by (rewrite file_header_length; lia).
      rewrite set_byte_app_r. rewrite nth_app_r in Hne.
      destruct (locate es (i - 7)) as [pre [e [post [k [Hes [Hj Hk]]]]]]; [lia|].
      assert (Hfield : in_len_field crc i es = (k <? 4)%nat).
      { unfold in_len_field. rewrite file_header_length.
        replace (i <? 7)%nat with false by (symmetry; apply Nat.ltb_ge; assumption).
        rewrite Hj, Hes. apply in_len_field_body_locate. assumption. }
      rewrite Hj in Hne |- *. subst es.
      rewrite frames_app, frames_cons in Hne |- *.
      rewrite set_byte_app_r. rewrite nth_app_r in Hne.
      rewrite set_byte_app_l by assumption. rewrite nth_app_l in Hne by assumption.
      assert (Hres : exists res c, reads (frames pre ++ set_byte k b (frame e) ++ frames post) (LOk res c) /\
                                   payloads_ok res (pre ++ e :: post)).
      { destruct (Nat.lt_ge_cases k 4) as [H4|H4].
        - apply substituted_length; try assumption. apply Hguard. rewrite Hfield. apply Nat.ltb_lt. assumption.
        - apply substituted_non_length; try assumption. lia. }
      destruct Hres as [res [c [Hreads Hok]]].
      destruct (read_all_header file_header (frames pre ++ set_byte k b (frame e) ++ frames post) file_header_length) as [_ Hgood].
      rewrite (Hgood eq_refl _ Hreads). exact Hok.
  Qed.

End WalProofs.

(* ---------------------------------------------------------------------------------------- *)
(* Part H: envelopes, append operations                                                       *)
(* ---------------------------------------------------------------------------------------- *)

Lemma be_encode_2 : forall v, be_encode 2 v = [(v / 256) mod 256; v mod 256].
Proof. reflexivity. Qed.

Lemma envelope_marker_byte : envelope_marker < 256. Proof. reflexivity. Qed.

Lemma parse_envelope_envelope : forall db p, len_N db <= 255 -> (db <> [] \/ p <> []) ->
  parse_envelope (envelope db p) = EnvOk db p.
Proof.
  intros db p Hdb Hne. unfold envelope. rewrite be_encode_2. cbn [app]. unfold parse_envelope.
  set (whole := envelope_marker :: (len_N db / 256) mod 256 :: len_N db mod 256 :: db ++ p).
  assert (Hlen : len_N whole = 3 + len_N db + len_N p).
  { unfold whole, len_N. cbn [length]. rewrite app_length. lia. }
  assert (Hpos : 0 < len_N db + len_N p).
  { unfold len_N. destruct Hne as [H|H]; [destruct db|destruct p]; try congruence; cbn [length]; lia. }
  replace (3 <? len_N whole) with true by (symmetry; apply N.ltb_lt; lia).
  rewrite N.eqb_refl. cbn [andb].
  replace ((len_N db / 256) mod 256 * 256 + len_N db mod 256) with (len_N db) by lia.
  replace ((3 + len_N db) mod 65536) with (3 + len_N db) by lia.
  replace (3 + len_N db <=? len_N whole) with true by (symmetry; apply N.leb_le; lia).
  replace (3 + len_N db <? 3) with false by (symmetry; apply N.ltb_ge; lia).
  unfold whole. cbn [skipn]. f_equal.
  - unfold len_N. rewrite Nat2N.id. apply firstn_app_len. reflexivity.
  - replace (N.to_nat (3 + len_N db)) with (3 + length db)%nat by (unfold len_N; lia).
    cbn [Nat.add skipn]. apply skipn_app_len. reflexivity.
Qed.

Lemma parse_envelope_raw : forall p, hd 0 p <> envelope_marker -> parse_envelope p = EnvOk [] p.
Proof.
  intros p H. destruct p as [|m [|h [|l r]]]; try reflexivity.
  unfold parse_envelope. cbn [hd] in H.
  replace (m =? envelope_marker) with false by (symmetry; apply N.eqb_neq; assumption).
  rewrite andb_false_r. reflexivity.
Qed.

Section WalOps.
  Variable crc : list N -> N.
  Variable classify : list N -> cls.
  Hypothesis crc_range : forall p, crc p < 256 ^ N.of_nat 4.

  (* what reading back must give for an append operation: payload bytes and database *)
  Definition op_spec (o : op) : list rentry :=
    match o with
    | OpRaw ts p =>
        match classify p with
        | CRow => [mkR ts KRow [] p] | CRowNil => [mkR ts KRowNil [] p] | CCol => [mkR ts KCol [] p] | CBad => []
        end
    | OpMeta ts db p =>
        match classify p with
        | CRow => [mkR ts KRow [] p] | CRowNil => [mkR ts KRowNil [] p] | CCol => [mkR ts KCol db p] | CBad => []
        end
    end.

  (* AppendRaw of a msgpack document (never starts with the marker byte); AppendRawWithMeta with a
     database name the writer's 258-byte envelope buffer can hold *)
  Definition wf_op (o : op) : Prop :=
    match o with
    | OpRaw ts p => ts < 256 ^ N.of_nat 8 /\ len_N p <= max_payload /\ bytes p /\ hd 0 p <> envelope_marker
    | OpMeta ts db p => ts < 256 ^ N.of_nat 8 /\ len_N (envelope db p) <= max_payload /\ bytes db /\ bytes p /\
                        len_N db <= 255 /\ (db <> [] \/ p <> [])
    end.

  Lemma wf_op_entry : forall o, wf_op o ->
    wf_entry (op_entry o) /\ decode_payload classify (e_payload (op_entry o)) <> DPanic /\
    (match emit classify (op_entry o) with Some r => [r] | None => [] end) = op_spec o.
  Proof.
    intros [ts p|ts db p]; cbn [wf_op op_entry e_payload e_ts].
    - intros [Hts [Hmax [Hb Hhd]]]. unfold emit, decode_payload. cbn [e_payload e_ts].
      rewrite (parse_envelope_raw p Hhd). unfold wf_entry. cbn [e_payload e_ts op_spec].
      repeat split; try assumption; destruct (classify p); try discriminate; reflexivity.
    - intros [Hts [Hmax [Hbd [Hbp [Hdb Hne]]]]]. unfold emit, decode_payload. cbn [e_payload e_ts].
      rewrite (parse_envelope_envelope db p Hdb Hne). unfold wf_entry. cbn [e_payload e_ts op_spec].
      split; [|split; destruct (classify p); try discriminate; reflexivity].
      repeat split; try assumption. unfold envelope. constructor; [apply envelope_marker_byte|].
      apply Forall_app; split; [apply be_encode_bytes|]. apply Forall_app; split; assumption.
  Qed.

  Theorem intact_ops : forall ops, Forall wf_op ops ->
    exists c, read_all crc classify (file crc (map op_entry ops)) = FOk (flat_map op_spec ops) c.
  Proof.
    intros ops Hwf. eexists. rewrite intact; [f_equal| | |].
    - induction Hwf as [|o ops Ho Hops IH]; [reflexivity|].
      cbn [map flat_map]. rewrite emitted_cons, IH.
      destruct (wf_op_entry o Ho) as [_ [_ He]]. rewrite He. reflexivity.
    - assumption.
    - induction Hwf as [|o ops Ho Hops IH]; constructor; [apply wf_op_entry; assumption|assumption].
    - induction Hwf as [|o ops Ho Hops IH]; constructor; [apply wf_op_entry; assumption|assumption].
  Qed.

  (* ---- rotation and recovery ---- *)

  Lemma rotate_split_concat : forall m es size, concat (rotate_split crc m size es) = es.
  Proof.
    induction es; intros size; [reflexivity|]. cbn [rotate_split].
    destruct (m <=? size + len_N (frame crc a)).
    - cbn [concat app]. rewrite IHes. reflexivity.
    - specialize (IHes (size + len_N (frame crc a))).
      destruct (rotate_split crc m (size + len_N (frame crc a)) es) as [|g gs].
      + cbn in IHes. subst es. reflexivity.
      + cbn [concat] in *. rewrite <- IHes. reflexivity.
  Qed.

  Lemma Forall_concat_groups : forall A (P : A -> Prop) gs, Forall P (concat gs) -> Forall (Forall P) gs.
  Proof.
    induction gs; intros H; constructor; cbn [concat] in H; apply Forall_app in H; destruct H; auto.
  Qed.

  Lemma recover_groups : forall gs, Forall (Forall wf_entry) gs -> Forall (no_panic classify) gs ->
    recover crc classify (map (file crc) gs) = Some (filter delivered (emitted classify (concat gs))).
  Proof.
    induction gs; intros Hwf Hnp; [reflexivity|].
    inversion Hwf; subst. inversion Hnp; subst.
    cbn [map recover concat]. rewrite intact by assumption.
    rewrite IHgs by assumption. rewrite emitted_app, filter_app. reflexivity.
  Qed.

  (* whatever size limit makes the writer rotate, replaying all files in rotation order yields
     every decodable appended entry, in append order *)
  Theorem rotation_recover : forall m es, Forall wf_entry es -> no_panic classify es ->
    recover crc classify (writer_files crc m es) = Some (filter delivered (emitted classify es)).
  Proof.
    intros m es Hwf Hnp. unfold writer_files.
    pose proof (rotate_split_concat m es file_header_size) as Hc.
    rewrite recover_groups.
    - rewrite Hc. reflexivity.
    - apply Forall_concat_groups. rewrite Hc. assumption.
    - apply Forall_concat_groups. rewrite Hc. assumption.
  Qed.

  (* ---- ghost certificates ---- *)

  Lemma valid_at_b_sound : forall body p len,
    valid_at_b crc classify body p len = true -> valid_at crc classify body p len.
  Proof.
    intros body p len H. unfold valid_at_b in H.
    apply andb_true_iff in H. destruct H as [H H4].
    apply andb_true_iff in H. destruct H as [H H3].
    apply andb_true_iff in H. destruct H as [H1 H2].
    apply Nat.leb_le in H1. apply N.leb_le in H2. apply N.eqb_eq in H3.
    repeat split; try assumption.
    intros Hd. rewrite Hd in H4. discriminate.
  Qed.

  Lemma genuine_b_complete : forall es p len, genuine crc es p len -> genuine_b crc es p len = true.
  Proof.
    intros es p len [pre [e [post [He [Hp Hl]]]]]. subst es p len.
    induction pre.
    - cbn. apply Nat.eqb_refl.
    - rewrite frames_cons, app_length. cbn [app genuine_b].
      pose proof (frames_nonempty crc a).
      destruct (length (frame crc a) + length (frames crc pre))%nat eqn:E; [lia|]. rewrite <- E.
      replace (length (frame crc a) + length (frames crc pre) <? length (frame crc a))%nat with false
        by (symmetry; apply Nat.ltb_ge; lia).
      replace (length (frame crc a) + length (frames crc pre) - length (frame crc a))%nat with (length (frames crc pre)) by lia.
      assumption.
  Qed.

  Theorem ghost_cert_sound : forall es p len,
    ghost_cert crc classify es p len = true -> ~ ghost_free crc classify es.
  Proof.
    intros es p len H Hgf. unfold ghost_cert in H. apply andb_true_iff in H. destruct H as [Hv Hg].
    apply valid_at_b_sound in Hv. apply Hgf in Hv. apply genuine_b_complete in Hv.
    rewrite Hv in Hg. discriminate.
  Qed.
End WalOps.

(* ---- boolean well-formedness, for closed examples ---- *)

Definition wf_entryb (e : entry) : bool :=
  (e_ts e <? 256 ^ N.of_nat 8) && (len_N (e_payload e) <=? max_payload) && forallb (fun x => x <? 256) (e_payload e).

Lemma wf_entryb_sound : forall es, forallb wf_entryb es = true -> Forall wf_entry es.
Proof.
  intros es H. apply Forall_forall. intros e He. rewrite forallb_forall in H. specialize (H e He).
  unfold wf_entryb in H. apply andb_true_iff in H. destruct H as [H H3]. apply andb_true_iff in H. destruct H as [H1 H2].
  apply N.ltb_lt in H1. apply N.leb_le in H2. repeat split; try assumption.
  apply Forall_forall. intros x Hx. rewrite forallb_forall in H3. apply N.ltb_lt. auto.
Qed.

Definition no_panicb (classify : list N -> cls) (es : list entry) : bool :=
  forallb (fun e => match decode_payload classify (e_payload e) with DPanic => false | _ => true end) es.

Lemma no_panicb_sound : forall classify es, no_panicb classify es = true -> no_panic classify es.
Proof.
  intros classify es H. apply Forall_forall. intros e He. unfold no_panicb in H. rewrite forallb_forall in H.
  specialize (H e He). intros Hd. rewrite Hd in H. discriminate.
Qed.

Lemma sublist_incl : forall A (a l : list A), sublist a l -> incl a l.
Proof.
  intros A a l H. induction H; intros y Hy.
  - destruct Hy.
  - destruct Hy as [Hy|Hy]; [left; assumption|right; auto].
  - right. auto.
Qed.

(* ---------------------------------------------------------------------------------------- *)
(* Part I: the toy checksum has the two properties asked of CRC-32                             *)
(* ---------------------------------------------------------------------------------------- *)

Lemma fold_add_acc : forall l a, fold_left N.add l a = a + fold_left N.add l 0.
Proof.
  induction l; intros a0; cbn [fold_left]; [lia|]. rewrite (IHl (a0 + a)), (IHl (0 + a)). lia.
Qed.

Lemma sum_set_byte : forall p i b, (i < length p)%nat ->
  fold_left N.add (set_byte i b p) 0 + nth i p 0 = fold_left N.add p 0 + b.
Proof.
  induction p; intros i b Hi; [simpl in Hi; lia|].
  destruct i; cbn [set_byte nth fold_left].
  - rewrite (fold_add_acc p (0 + b)), (fold_add_acc p (0 + a)). lia.
  - rewrite (fold_add_acc (set_byte i b p) (0 + a)), (fold_add_acc p (0 + a)).
    specialize (IHp i b). simpl in Hi. lia.
Qed.

Lemma crc_sum_range : forall p, crc_sum p < 256 ^ N.of_nat 4.
Proof. intros. unfold crc_sum. change (256 ^ N.of_nat 4) with 4294967296. apply N.mod_lt. discriminate. Qed.

Lemma nth_bytes : forall p i, bytes p -> (i < length p)%nat -> nth i p 0 < 256.
Proof. intros p i Hb Hi. unfold bytes in Hb. rewrite Forall_forall in Hb. apply Hb. apply nth_In. assumption. Qed.

Lemma crc_sum_detects : forall p i b, bytes p -> b < 256 -> (i < length p)%nat ->
  nth i p 0 <> b -> crc_sum (set_byte i b p) <> crc_sum p.
Proof.
  intros p i b Hp Hb Hi Hne. unfold crc_sum.
  pose proof (sum_set_byte p i b Hi). pose proof (nth_bytes p i Hp Hi). lia.
Qed.

(* ---------------------------------------------------------------------------------------- *)
(* Part J: the refutation witness and the closed examples                                      *)
(* ---------------------------------------------------------------------------------------- *)

(* a columnar write into database "mydb" whose string value ends with a complete frame that
   carries a row-format record for database "other" (payload offset 32), between two ordinary
   entries *)
Definition wit_evil : list N :=
  unhex "9183a95f6461746162617365a56f74686572ac5f6d6561737572656d656e74a3637075a176cd029a"%bs.
Definition wit_outer_msgpack : list N :=
  unhex "82a16da3637075a7636f6c756d6e7381a46e6f746591d939780000002800060a24181e4001031c240c9183a95f6461746162617365a56f74686572ac5f6d6561737572656d656e74a3637075a176cd029a"%bs.
Definition wit_ops : list op :=
  [ OpRaw 1700000000000000 (unhex "82a16da3637075a7636f6c756d6e7381a176920102"%bs);
    OpMeta 1700000000000002 (unhex "6d796462"%bs) wit_outer_msgpack;
    OpRaw 1700000000000003 (unhex "9183a95f6461746162617365a46d796462ac5f6d6561737572656d656e74a36d656da17507"%bs) ].
Definition wit_es : list entry := map op_entry wit_ops.
Definition wit_pos : nat := 47.     (* lowest byte of the second entry's length field (0x58) *)
Definition wit_byte : N := 32.      (* 0x20 *)

Lemma wit_read :
  read_all crc32 classify_shape (set_byte wit_pos wit_byte (file crc32 wit_es)) =
  FOk [ mkR 1700000000000000 KCol [] (unhex "82a16da3637075a7636f6c756d6e7381a176920102"%bs);
        mkR 1700000000000001 KRow [] wit_evil;
        mkR 1700000000000003 KRow [] (unhex "9183a95f6461746162617365a46d796462ac5f6d6561737572656d656e74a36d656da17507"%bs) ] 1.
Proof. vm_compute. reflexivity. Qed.

Theorem corruption_refuted :
  exists es i b res c,
    Forall wf_entry es /\ no_panic classify_shape es /\ b < 256 /\ (i < length (file crc32 es))%nat /\
    read_all crc32 classify_shape (set_byte i b (file crc32 es)) = FOk res c /\
    ~ payloads_ok classify_shape res es.
Proof.
  exists wit_es, wit_pos, wit_byte. eexists. eexists.
  split; [apply wf_entryb_sound; vm_compute; reflexivity|].
  split; [apply no_panicb_sound; vm_compute; reflexivity|].
  split; [reflexivity|].
  split; [vm_compute; lia|].
  split; [apply wit_read|].
  unfold payloads_ok. intros Hs. apply sublist_incl in Hs.
  specialize (Hs (KRow, [], wit_evil)). 
  assert (Hin : In (KRow, @nil N, wit_evil) (map strip (emitted classify_shape wit_es))).
  { apply Hs. cbn [map strip r_kind r_db r_data]. right. left. reflexivity. }
  vm_compute in Hin. intuition discriminate.
Qed.

(* the witness log is outside the guard: it contains a ghost frame (certificate: payload offset
   32 of the second entry, length 40) and the damaged byte is a length byte *)
Lemma wit_has_ghost : ghost_cert crc32 classify_shape wit_es (37 + 16 + 32) 40 = true.
Proof. vm_compute. reflexivity. Qed.

Lemma wit_in_len_field : in_len_field crc32 wit_pos wit_es = true.
Proof. vm_compute. reflexivity. Qed.

(* all hypotheses of corruption_guarded are satisfiable together, for a length-field position:
   toy checksum (provably detects single-byte changes), a one-entry log without ghosts *)
Definition tiny_es : list entry := [mkEntry 5 [144]].

Lemma tiny_ghost_free : ghost_free crc_sum classify_shape tiny_es.
Proof.
  intros p len [H1 [H2 [H3 H4]]].
  assert (Hl : length (frames crc_sum tiny_es) = 17%nat) by reflexivity. rewrite Hl in H1.
  assert (Hc : ((p = 0 /\ len = 1) \/ (p = 0 /\ len = 0) \/ (p = 1 /\ len = 0))%nat) by lia.
  destruct Hc as [[-> ->]|[[-> ->]|[-> ->]]].
  - exists [], (mkEntry 5 [144]), []. repeat split.
  - vm_compute in H3. discriminate.
  - vm_compute in H3. discriminate.
Qed.

(* a CRC-valid payload 01 FF FD .. makes ParseEnvelope's uint16 length arithmetic wrap: the
   reader panics, even on an intact file *)
Lemma envelope_wrap_panics :
  read_all crc32 classify_shape (file crc32 [mkEntry 7 [1; 255; 253; 0]]) = FPanic.
Proof. vm_compute. reflexivity. Qed.
