(* Proofs about the WAL model (area Wal).  Property statements are restated in Props.v. *)
From Coq Require Import List Arith NArith ZArith Bool Lia ZifyBool ZifyN ZifyNat.
From ArcGen Require Import Params_Wal.
From Arc Require Import Wal.Model.
Import ListNotations.
Open Scope N_scope.
Ltac Zify.zify_post_hook ::= Z.div_mod_to_equations.

(* ---------------------------------------------------------------------------------------- *)
(* Part A: bytes and lists                                                                  *)
(* ---------------------------------------------------------------------------------------- *)

Definition bytes (l : list N) : Prop := Forall (fun x => x < 256) l.

Lemma be_decode_snoc : forall l b, be_decode (l ++ [b]) = be_decode l * 256 + b.
Proof. intros. unfold be_decode. rewrite fold_left_app. reflexivity. Qed.

Lemma be_encode_length : forall n v, length (be_encode n v) = n.
Proof.
  induction n; intros; simpl; [reflexivity|].
  rewrite app_length, IHn. simpl. lia.
Qed.

Lemma be_encode_bytes : forall n v, bytes (be_encode n v).
Proof.
  induction n; intros; simpl; [constructor|].
  apply Forall_app; split; [apply IHn|]. constructor; [|constructor].
  apply N.mod_lt. discriminate.
Qed.

Lemma be_decode_encode : forall n v, be_decode (be_encode n v) = v mod 256 ^ N.of_nat n.
Proof.
  induction n; intros.
  - simpl. rewrite N.mod_1_r. reflexivity.
  - cbn [be_encode]. rewrite be_decode_snoc, IHn.
    replace (N.of_nat (S n)) with (N.succ (N.of_nat n)) by lia.
    rewrite N.pow_succ_r'.
    rewrite (N.mod_mul_r v 256 (256 ^ N.of_nat n)); [lia | discriminate |].
    apply N.pow_nonzero. discriminate.
Qed.

Lemma be_decode_encode_small : forall n v, v < 256 ^ N.of_nat n -> be_decode (be_encode n v) = v.
Proof. intros. rewrite be_decode_encode. apply N.mod_small. assumption. Qed.

Lemma be_encode_decode : forall l, bytes l -> be_encode (length l) (be_decode l) = l.
Proof.
  induction l using rev_ind; intros Hb; [reflexivity|].
  apply Forall_app in Hb. destruct Hb as [Hl Hx]. inversion Hx; subst.
  rewrite app_length. simpl. rewrite Nat.add_1_r. cbn [be_encode].
  rewrite be_decode_snoc.
  replace ((be_decode l * 256 + x) / 256) with (be_decode l) by lia.
  replace ((be_decode l * 256 + x) mod 256) with x by lia.
  rewrite IHl by assumption. reflexivity.
Qed.

Lemma be_decode_inj : forall a b, length a = length b -> bytes a -> bytes b ->
  be_decode a = be_decode b -> a = b.
Proof.
  intros a b Hl Ha Hb He.
  rewrite <- (be_encode_decode a Ha), <- (be_encode_decode b Hb), Hl, He. reflexivity.
Qed.

Lemma firstn_app_len : forall (a b : list N) n, length a = n -> firstn n (a ++ b) = a.
Proof.
  intros. subst. rewrite firstn_app, Nat.sub_diag, firstn_all. simpl. apply app_nil_r.
Qed.

Lemma skipn_app_len : forall (a b : list N) n, length a = n -> skipn n (a ++ b) = b.
Proof.
  intros. subst. rewrite skipn_app, Nat.sub_diag, skipn_all. reflexivity.
Qed.

Lemma set_byte_length : forall l i b, length (set_byte i b l) = length l.
Proof. induction l; intros; destruct i; simpl; auto. Qed.

Lemma set_byte_app_l : forall a c i b, (i < length a)%nat -> set_byte i b (a ++ c) = set_byte i b a ++ c.
Proof.
  induction a; intros; simpl in *; [lia|]. destruct i; [reflexivity|].
  simpl. rewrite IHa by lia. reflexivity.
Qed.

Lemma set_byte_app_r : forall a c j b, set_byte (length a + j) b (a ++ c) = a ++ set_byte j b c.
Proof. induction a; intros; simpl; [reflexivity|]. rewrite IHa. reflexivity. Qed.

Lemma set_byte_same : forall l i b, nth i l 0 = b -> (i < length l)%nat -> set_byte i b l = l.
Proof.
  induction l; intros; simpl in *; [lia|]. destruct i; simpl in *; [subst; reflexivity|].
  rewrite IHl; auto. lia.
Qed.

Lemma set_byte_nth : forall l i b, (i < length l)%nat -> nth i (set_byte i b l) 0 = b.
Proof.
  induction l; intros; simpl in *; [lia|]. destruct i; simpl; [reflexivity|]. apply IHl. lia.
Qed.

Lemma set_byte_neq : forall l i b, (i < length l)%nat -> nth i l 0 <> b -> set_byte i b l <> l.
Proof.
  intros l i b Hi Hn He. apply Hn. rewrite <- He at 1. apply set_byte_nth. assumption.
Qed.

Lemma set_byte_bytes : forall l i b, bytes l -> b < 256 -> bytes (set_byte i b l).
Proof.
  induction l; intros i b Hl Hb; destruct i; simpl; auto; inversion Hl; subst; constructor; auto.
  apply IHl; assumption.
Qed.

Lemma nth_app_l : forall (a c : list N) i, (i < length a)%nat -> nth i (a ++ c) 0 = nth i a 0.
Proof. intros. apply app_nth1. assumption. Qed.

Lemma nth_app_r : forall (a c : list N) j, nth (length a + j) (a ++ c) 0 = nth j c 0.
Proof. intros. rewrite app_nth2 by lia. f_equal. lia. Qed.

Lemma list_eqb_refl : forall l, list_eqb l l = true.
Proof. induction l; simpl; [reflexivity|]. rewrite N.eqb_refl, IHl. reflexivity. Qed.

Lemma list_eqb_eq : forall a b, list_eqb a b = true -> a = b.
Proof.
  induction a; destruct b; simpl; intros H; try discriminate; [reflexivity|].
  apply andb_true_iff in H. destruct H as [H1 H2]. apply N.eqb_eq in H1. subst. f_equal. auto.
Qed.

(* ---- subsequences ---- *)

Lemma sublist_refl : forall A (l : list A), sublist l l.
Proof. induction l; constructor; assumption. Qed.

Lemma sublist_app : forall A (a b c d : list A), sublist a b -> sublist c d -> sublist (a ++ c) (b ++ d).
Proof.
  intros A a b c d H. induction H; intros Hc; simpl.
  - induction l; simpl; [assumption|]. constructor. assumption.
  - constructor. auto.
  - constructor. auto.
Qed.

Lemma sublist_app_r : forall A (a p l : list A), sublist a l -> sublist a (p ++ l).
Proof. intros. induction p; simpl; [assumption|]. constructor. assumption. Qed.

Lemma sublist_map : forall A B (f : A -> B) a l, sublist a l -> sublist (map f a) (map f l).
Proof. intros A B f a l H. induction H; simpl; constructor; assumption. Qed.

Lemma sublist_trans : forall A (a b c : list A), sublist a b -> sublist b c -> sublist a c.
Proof.
  intros A a b c H1 H2. revert a H1. induction H2; intros a0 H1.
  - inversion H1; subst. constructor.
  - inversion H1; subst; constructor; auto.
  - constructor. auto.
Qed.

Lemma sublist_length : forall A (a l : list A), sublist a l -> (length a <= length l)%nat.
Proof. intros A a l H. induction H; simpl; lia. Qed.

Lemma sublistb_sound : forall A (eqb : A -> A -> bool) (R : A -> A -> Prop),
  (forall x y, eqb x y = true -> R x y) ->
  forall a l, sublistb eqb a l = true -> exists l', sublist l' l /\ Forall2 R a l'.
Proof.
  intros A eqb R HR a l. revert a. induction l; intros a0 H.
  - destruct a0; simpl in H; [|discriminate]. exists []. split; constructor.
  - destruct a0; simpl in H.
    + exists []. split; constructor.
    + destruct (eqb a0 a) eqn:E.
      * destruct (IHl _ H) as [l' [Hs Hf]]. exists (a :: l'). split; constructor; auto.
      * destruct (IHl _ H) as [l' [Hs Hf]]. exists l'. split; [constructor|]; assumption.
Qed.

(* ---------------------------------------------------------------------------------------- *)
(* Part B: one step of the reader                                                             *)
(* ---------------------------------------------------------------------------------------- *)

Lemma hdr_n_eq : hdr_n = 16%nat. Proof. reflexivity. Qed.
Lemma fhdr_n_eq : fhdr_n = 7%nat. Proof. reflexivity. Qed.
Lemma entry_header_size_eq : entry_header_size = 16. Proof. reflexivity. Qed.

Lemma skipn_skipn' : forall (l : list N) a b, skipn a (skipn b l) = skipn (b + a) l.
Proof.
  intros l a b. revert l. induction b; intros l; simpl; [reflexivity|].
  destruct l; [destruct a; reflexivity|]. apply IHb.
Qed.

Section WalProofs.
  Variable crc : list N -> N.
  Variable classify : list N -> cls.
  Variable maxp : N.

  Notation frame := (frame crc).
  Notation frames := (frames crc).
  Notation file := (file crc).
  Notation read_entry := (read_entry crc classify maxp).
  Notation read_loop := (read_loop crc classify maxp).
  Notation read_all := (read_all crc classify maxp).
  Notation decode_payload := (decode_payload classify).
  Notation emit := (emit classify).
  Notation emitted := (emitted classify).

  Definition wf_entry (e : entry) : Prop :=
    e_ts e < 256 ^ N.of_nat 8 /\ len_N (e_payload e) <= maxp /\ bytes (e_payload e).

  (* what readEntry does once the three header fields and the rest are named *)
  Definition after_header (len ts sum : N) (R : list N) : rd :=
    if maxp <? len then RLost
    else if len_N R <? len then RSkip []
    else
      let p := firstn (N.to_nat len) R in
      let rest' := skipn (N.to_nat len) R in
      if crc p =? sum then
        match decode_payload p with
        | DBad => RSkip rest'
        | DOk k db d => REmit (mkR ts k db d) rest'
        end
      else RLost.

  Lemma read_entry_parts : forall L T C R,
    length L = 4%nat -> length T = 8%nat -> length C = 4%nat ->
    read_entry (L ++ T ++ C ++ R) = after_header (be_decode L) (be_decode T) (be_decode C) R.
  Proof.
    intros L T C R HL HT HC. unfold Model.read_entry, Model.read_entry_gen, after_header.
    replace (len_N (L ++ T ++ C ++ R) <? entry_header_size) with false.
    2:{ symmetry. apply N.ltb_ge. unfold len_N. rewrite !app_length, HL, HT, HC. rewrite entry_header_size_eq. lia. }
    rewrite hdr_n_eq.
    assert (H1 : firstn 4 (L ++ T ++ C ++ R) = L) by (apply firstn_app_len; assumption).
    assert (H2 : firstn 8 (skipn 4 (L ++ T ++ C ++ R)) = T).
    { rewrite (skipn_app_len L _ 4 HL). apply firstn_app_len; assumption. }
    assert (H3 : firstn 4 (skipn 12 (L ++ T ++ C ++ R)) = C).
    { replace (L ++ T ++ C ++ R) with ((L ++ T) ++ C ++ R) by (rewrite <- app_assoc; reflexivity).
      rewrite (skipn_app_len (L ++ T) _ 12) by (rewrite app_length; lia). apply firstn_app_len; assumption. }
    assert (H4 : skipn 16 (L ++ T ++ C ++ R) = R).
    { replace (L ++ T ++ C ++ R) with ((L ++ T ++ C) ++ R) by (rewrite <- !app_assoc; reflexivity).
      apply skipn_app_len. rewrite !app_length; lia. }
    rewrite H1, H2, H3, H4. reflexivity.
  Qed.

  Hypothesis maxp_lt : maxp < 256 ^ N.of_nat 4.
  Hypothesis crc_range : forall p, crc p < 256 ^ N.of_nat 4.

  Definition step_of (e : entry) (ts : N) (rest : list N) : rd :=
    match decode_payload (e_payload e) with
    | DBad => RSkip rest
    | DOk k db d => REmit (mkR ts k db d) rest
    end.

  Lemma after_header_exact : forall P ts rest,
    len_N P <= maxp ->
    after_header (len_N P) ts (crc P) (P ++ rest) =
    match decode_payload P with
    | DBad => RSkip rest | DOk k db d => REmit (mkR ts k db d) rest end.
  Proof.
    intros P ts rest Hmax. unfold after_header.
    replace (maxp <? len_N P) with false by (symmetry; apply N.ltb_ge; assumption).
    replace (len_N (P ++ rest) <? len_N P) with false
      by (symmetry; apply N.ltb_ge; unfold len_N; rewrite app_length; lia).
    unfold len_N. rewrite Nat2N.id.
    rewrite (firstn_app_len P rest _ eq_refl), (skipn_app_len P rest _ eq_refl).
    rewrite N.eqb_refl. reflexivity.
  Qed.

  Lemma frame_length : forall e, length (frame e) = (16 + length (e_payload e))%nat.
  Proof. intros. unfold Model.frame. rewrite !app_length, !be_encode_length. lia. Qed.

  Lemma read_entry_frame : forall e rest, wf_entry e ->
    read_entry (frame e ++ rest) = step_of e (e_ts e) rest.
  Proof.
    intros e rest [Hts [Hmax Hb]]. unfold Model.frame. rewrite <- !app_assoc.
    rewrite read_entry_parts by apply be_encode_length.
    rewrite (be_decode_encode_small 4) by lia.
    rewrite (be_decode_encode_small 8) by assumption.
    rewrite (be_decode_encode_small 4) by apply crc_range.
    apply after_header_exact. assumption.
  Qed.

  (* every outcome but RStop needs a complete header; a skip or an emit leaves a proper suffix *)
  Lemma read_entry_inv : forall s,
    match read_entry s with
    | RStop => (length s < 16)%nat
    | RLost => (16 <= length s)%nat
    | RSkip rest => (16 <= length s)%nat /\ exists k, (16 <= k)%nat /\ rest = skipn k s
    | REmit x rest => (16 <= length s)%nat /\ exists k, (16 <= k)%nat /\ rest = skipn k s
    end.
  Proof.
    intros s. unfold Model.read_entry, Model.read_entry_gen. rewrite entry_header_size_eq, hdr_n_eq.
    destruct (len_N s <? 16) eqn:E1.
    { apply N.ltb_lt in E1. unfold len_N in E1. lia. }
    apply N.ltb_ge in E1. unfold len_N in E1.
    assert (H16 : (16 <= length s)%nat) by lia.
    destruct (maxp <? be_decode (firstn 4 s)) eqn:E2; [assumption|].
    destruct (len_N (skipn 16 s) <? be_decode (firstn 4 s)) eqn:E3.
    { split; [assumption|]. exists (length s). split; [lia|]. rewrite skipn_all. reflexivity. }
    set (len := N.to_nat (be_decode (firstn 4 s))) in *.
    assert (Hrest : skipn len (skipn 16 s) = skipn (16 + len) s) by (rewrite skipn_skipn'; reflexivity).
    destruct (crc (firstn len (skipn 16 s)) =? be_decode (firstn 4 (skipn 12 s))); [|assumption].
    destruct (decode_payload (firstn len (skipn 16 s))).
    - split; [assumption|]. exists (16 + len)%nat. split; [lia|]. assumption.
    - split; [assumption|]. exists (16 + len)%nat. split; [lia|]. assumption.
  Qed.

  (* -------------------------------------------------------------------------------------- *)
  (* Part C: the loop, fuel                                                                    *)
  (* -------------------------------------------------------------------------------------- *)

  Definition bump (r : lres) : lres := match r with LOk es c => LOk es (c + 1) end.
  Definition push (e : rentry) (r : lres) : lres := match r with LOk es c => LOk (e :: es) c end.

  Lemma read_loop_S : forall f s,
    read_loop (S f) s =
    match read_entry s with
    | RStop => Some (LOk [] 0)
    | RLost => Some (LOk [] 1)
    | RSkip rest => option_map bump (read_loop f rest)
    | REmit e rest => option_map (push e) (read_loop f rest)
    end.
  Proof.
    intros. unfold Model.read_loop, Model.read_entry. cbn [Model.read_loop_gen].
    destruct (read_entry_gen crc classify maxp false s); try reflexivity;
      destruct (read_loop_gen crc classify maxp false f rest) as [[]|]; reflexivity.
  Qed.

  Lemma read_loop_mono : forall n s r, read_loop n s = Some r -> read_loop (S n) s = Some r.
  Proof.
    induction n; intros s r H; [discriminate|].
    rewrite read_loop_S in H. rewrite read_loop_S.
    destruct (read_entry s); try assumption.
    - destruct (read_loop n rest) eqn:E; [|discriminate]. rewrite (IHn _ _ E). assumption.
    - destruct (read_loop n rest) eqn:E; [|discriminate]. rewrite (IHn _ _ E). assumption.
  Qed.

  Lemma read_loop_mono_le : forall n m s r, (n <= m)%nat -> read_loop n s = Some r -> read_loop m s = Some r.
  Proof. intros n m s r Hle H. induction Hle; [assumption|]. apply read_loop_mono. assumption. Qed.

  Definition reads (s : list N) (r : lres) : Prop := exists n, read_loop n s = Some r.

  Lemma reads_fun : forall s r1 r2, reads s r1 -> reads s r2 -> r1 = r2.
  Proof.
    intros s r1 r2 [n1 H1] [n2 H2].
    apply (read_loop_mono_le n1 (max n1 n2)) in H1; [|lia].
    apply (read_loop_mono_le n2 (max n1 n2)) in H2; [|lia]. congruence.
  Qed.

  Lemma reads_stop : forall s, read_entry s = RStop -> reads s (LOk [] 0).
  Proof. intros s H. exists 1%nat. rewrite read_loop_S, H. reflexivity. Qed.

  Lemma reads_lost : forall s, read_entry s = RLost -> reads s (LOk [] 1).
  Proof. intros s H. exists 1%nat. rewrite read_loop_S, H. reflexivity. Qed.

  Lemma reads_skip : forall s rest r, read_entry s = RSkip rest -> reads rest r -> reads s (bump r).
  Proof. intros s rest r H [n Hn]. exists (S n). rewrite read_loop_S, H, Hn. reflexivity. Qed.

  Lemma reads_emit : forall s e rest r, read_entry s = REmit e rest -> reads rest r -> reads s (push e r).
  Proof. intros s e rest r H [n Hn]. exists (S n). rewrite read_loop_S, H, Hn. reflexivity. Qed.

  Lemma read_entry_short : forall s, (length s < 16)%nat -> read_entry s = RStop.
  Proof.
    intros s H. unfold Model.read_entry, Model.read_entry_gen. rewrite entry_header_size_eq.
    replace (len_N s <? 16) with true; [reflexivity|]. symmetry. apply N.ltb_lt. unfold len_N. lia.
  Qed.

  Lemma reads_nil : reads [] (LOk [] 0).
  Proof. apply reads_stop. apply read_entry_short. simpl. lia. Qed.

  (* every iteration but the last consumes a whole header: the fuel ReadAll is given suffices *)
  Lemma read_loop_enough : forall n s, (length s < 16 * n)%nat -> exists r, read_loop n s = Some r.
  Proof.
    induction n; intros s H; [lia|].
    rewrite read_loop_S. pose proof (read_entry_inv s) as Hinv.
    destruct (read_entry s).
    - eexists; reflexivity.
    - eexists; reflexivity.
    - destruct Hinv as [H16 [k [Hk Hr]]]. subst rest.
      destruct (IHn (skipn k s)) as [r Hr]. { rewrite skipn_length. lia. }
      rewrite Hr. eexists; reflexivity.
    - destruct Hinv as [H16 [k [Hk Hr]]]. subst rest.
      destruct (IHn (skipn k s)) as [r Hr]. { rewrite skipn_length. lia. }
      rewrite Hr. eexists; reflexivity.
  Qed.

  Definition fres_of (r : lres) : fres := match r with LOk es c => FOk es c end.

  Lemma file_header_length : length file_header = 7%nat.
  Proof. reflexivity. Qed.

  Lemma list_eqb_neq : forall a b, a <> b -> list_eqb a b = false.
  Proof. intros a b H. destruct (list_eqb a b) eqn:E; [|reflexivity]. apply list_eqb_eq in E. contradiction. Qed.

  (* a file with a 7-byte header: rejected when the magic is damaged, otherwise the loop runs
     on the rest *)
  Lemma read_all_header : forall h body, length h = 7%nat ->
    (firstn 4 h <> wal_magic -> read_all (h ++ body) = FErr) /\
    (firstn 4 h = wal_magic -> forall r, reads body r -> read_all (h ++ body) = fres_of r).
  Proof.
    intros h body Hh.
    assert (Hf : firstn 4 (h ++ body) = firstn 4 h).
    { rewrite firstn_app. replace (4 - length h)%nat with 0%nat by lia. simpl. apply app_nil_r. }
    assert (Hl : len_N (h ++ body) <? file_header_size = false).
    { apply N.ltb_ge. unfold len_N. rewrite app_length, Hh. change file_header_size with 7. lia. }
    split.
    - intros Hm. unfold Model.read_all, Model.read_all_gen. rewrite Hl, Hf, (list_eqb_neq _ _ Hm). reflexivity.
    - intros Hm r Hr. unfold Model.read_all, Model.read_all_gen. rewrite Hl, Hf, Hm, list_eqb_refl. cbn [negb].
      rewrite fhdr_n_eq, (skipn_app_len h body 7 Hh).
      destruct (read_loop_enough (S (length (h ++ body))) body) as [r' Hr'].
      { rewrite app_length. lia. }
      unfold Model.read_loop in Hr'. rewrite Hr'.
      assert (r' = r) by (eapply reads_fun; [eexists; eassumption|assumption]). subst.
      destruct r; reflexivity.
  Qed.

  Lemma read_all_reads : forall body r, reads body r -> read_all (file_header ++ body) = fres_of r.
  Proof.
    intros body r Hr. destruct (read_all_header file_header body file_header_length) as [_ H]. apply H; auto.
  Qed.

  Lemma read_all_never_out_of_fuel : forall f, read_all f <> FOutOfFuel.
  Proof.
    intros f. unfold Model.read_all, Model.read_all_gen.
    destruct (len_N f <? file_header_size); [discriminate|].
    destruct (negb (list_eqb (firstn 4 f) wal_magic)); [discriminate|].
    destruct (read_loop_enough (S (length f)) (skipn fhdr_n f)) as [r Hr].
    { rewrite skipn_length. lia. }
    unfold Model.read_loop in Hr. rewrite Hr. destruct r; discriminate.
  Qed.

  (* -------------------------------------------------------------------------------------- *)
  (* Part D: intact frames                                                                     *)
  (* -------------------------------------------------------------------------------------- *)

  Definition prepend (es : list entry) (r : lres) : lres :=
    match r with LOk l c => LOk (emitted es ++ l) (c + undecodable classify es) end.

  Lemma emitted_cons : forall e es, emitted (e :: es) = (match emit e with Some r => [r] | None => [] end) ++ emitted es.
  Proof. reflexivity. Qed.

  Lemma emitted_app : forall a b, emitted (a ++ b) = emitted a ++ emitted b.
  Proof. intros. unfold Model.emitted. rewrite flat_map_app. reflexivity. Qed.

  Lemma frames_app : forall a b, frames (a ++ b) = frames a ++ frames b.
  Proof. intros. unfold Model.frames. rewrite flat_map_app. reflexivity. Qed.

  Lemma frames_cons : forall e es, frames (e :: es) = frame e ++ frames es.
  Proof. reflexivity. Qed.

  Lemma undecodable_cons : forall e es,
    undecodable classify (e :: es) = (match emit e with Some _ => 0 | None => 1 end) + undecodable classify es.
  Proof.
    intros. unfold undecodable. cbn [filter]. destruct (emit e); cbn [length]; lia.
  Qed.

  Lemma reads_frame : forall e rest r, wf_entry e ->
    reads rest r -> reads (frame e ++ rest) (prepend [e] r).
  Proof.
    intros e rest r Hwf Hr.
    pose proof (read_entry_frame e rest Hwf) as Hstep. unfold step_of in Hstep.
    unfold prepend. rewrite undecodable_cons. unfold Model.emitted. cbn [flat_map]. rewrite app_nil_r.
    unfold Model.emit. unfold undecodable. cbn [filter length].
    destruct (decode_payload (e_payload e)) eqn:E.
    - replace (match r with LOk l c => LOk ([] ++ l) (c + (1 + N.of_nat 0)) end) with (bump r)
        by (destruct r; simpl; f_equal; lia).
      eapply reads_skip; eassumption.
    - replace (match r with LOk l c => LOk ([{| r_ts := e_ts e; r_kind := k; r_db := db; r_data := data |}] ++ l) (c + (0 + N.of_nat 0)) end)
        with (push (mkR (e_ts e) k db data) r) by (destruct r; simpl; f_equal; lia).
      eapply reads_emit; eassumption.
  Qed.

  Lemma prepend_app : forall a b r, prepend (a ++ b) r = prepend a (prepend b r).
  Proof.
    intros. destruct r; simpl. rewrite emitted_app, <- app_assoc. f_equal.
    unfold undecodable. rewrite filter_app, app_length. lia.
  Qed.

  Lemma reads_frames : forall es rest r, Forall wf_entry es ->
    reads rest r -> reads (frames es ++ rest) (prepend es r).
  Proof.
    induction es; intros rest r Hwf Hr.
    - replace (prepend [] r) with r; [exact Hr|]. destruct r. unfold prepend, undecodable. simpl. rewrite N.add_0_r. reflexivity.
    - inversion Hwf; subst.
      rewrite frames_cons, <- app_assoc.
      change (a :: es) with ([a] ++ es). rewrite prepend_app.
      apply reads_frame; auto.
  Qed.

  Theorem intact : forall es, Forall wf_entry es ->
    read_all (file es) = FOk (emitted es) (undecodable classify es).
  Proof.
    intros es Hwf. unfold Model.file.
    rewrite (read_all_reads (frames es) (prepend es (LOk [] 0))).
    - simpl. rewrite app_nil_r. reflexivity.
    - rewrite <- (app_nil_r (frames es)). apply reads_frames; auto. apply reads_nil.
  Qed.

  (* -------------------------------------------------------------------------------------- *)
  (* Part E: truncation at every offset                                                        *)
  (* -------------------------------------------------------------------------------------- *)

  Lemma reads_torn : forall e k, wf_entry e -> (k < length (frame e))%nat ->
    exists c, reads (firstn k (frame e)) (LOk [] c).
  Proof.
    intros e k [Hts [Hmax Hb]] Hk.
    destruct (Nat.lt_ge_cases k 16) as [Hlt|Hge].
    - exists 0. apply reads_stop. apply read_entry_short. rewrite firstn_length. lia.
    - exists 1. rewrite frame_length in Hk.
      assert (Hf : firstn k (frame e) =
                   be_encode 4 (len_N (e_payload e)) ++ be_encode 8 (e_ts e) ++ be_encode 4 (crc (e_payload e)) ++
                   firstn (k - 16) (e_payload e)).
      { unfold Model.frame.
        replace (be_encode 4 (len_N (e_payload e)) ++ be_encode 8 (e_ts e) ++ be_encode 4 (crc (e_payload e)) ++ e_payload e)
          with ((be_encode 4 (len_N (e_payload e)) ++ be_encode 8 (e_ts e) ++ be_encode 4 (crc (e_payload e))) ++ e_payload e)
          by (rewrite <- !app_assoc; reflexivity).
        rewrite firstn_app. rewrite !app_length, !be_encode_length.
        rewrite firstn_all2 by (rewrite !app_length, !be_encode_length; lia).
        rewrite <- !app_assoc. reflexivity. }
      rewrite Hf. change (LOk [] 1) with (bump (LOk [] 0)).
      eapply reads_skip; [|apply reads_nil].
      rewrite read_entry_parts by apply be_encode_length.
      rewrite (be_decode_encode_small 4) by lia.
      unfold after_header.
      replace (maxp <? len_N (e_payload e)) with false by (symmetry; apply N.ltb_ge; assumption).
      replace (len_N (firstn (k - 16) (e_payload e)) <? len_N (e_payload e)) with true; [reflexivity|].
      symmetry. apply N.ltb_lt. unfold len_N. rewrite firstn_length. lia.
  Qed.

  Lemma prefix_within_spec : forall es k, exists rest,
    es = prefix_within crc k es ++ rest /\
    (length (frames (prefix_within crc k es)) <= k)%nat /\
    match rest with [] => True | e :: _ => (k < length (frames (prefix_within crc k es)) + length (frame e))%nat end.
  Proof.
    induction es; intros k.
    - exists []. simpl. repeat split; lia.
    - cbn [prefix_within]. destruct (length (frame a) <=? k)%nat eqn:E.
      + apply Nat.leb_le in E. destruct (IHes (k - length (frame a))%nat) as [rest [H1 [H2 H3]]].
        exists rest. split; [simpl; f_equal; assumption|].
        rewrite frames_cons, app_length. split; [lia|]. destruct rest; [exact I|]. lia.
      + apply Nat.leb_gt in E. exists (a :: es). split; [reflexivity|].
        cbn [Model.frames flat_map length]. split; lia.
  Qed.

  Lemma firstn_frames : forall es k, Forall wf_entry es ->
    exists torn c, firstn k (frames es) = frames (prefix_within crc k es) ++ torn /\ reads torn (LOk [] c).
  Proof.
    induction es; intros k Hwf.
    - exists [], 0. simpl. rewrite firstn_nil. split; [reflexivity|apply reads_nil].
    - inversion Hwf; subst. cbn [prefix_within]. rewrite frames_cons, firstn_app.
      destruct (length (frame a) <=? k)%nat eqn:E.
      + apply Nat.leb_le in E. destruct (IHes (k - length (frame a))%nat H2) as [torn [c [H3 H4]]].
        exists torn, c. split; [|assumption].
        rewrite firstn_all2 by assumption. rewrite H3, frames_cons, <- app_assoc. reflexivity.
      + apply Nat.leb_gt in E. destruct (reads_torn a k H1 E) as [c Hc].
        exists (firstn k (frame a)), c. split; [|assumption].
        replace (k - length (frame a))%nat with 0%nat by lia. simpl. rewrite app_nil_r. reflexivity.
  Qed.

  Lemma frames_nonempty : forall e, (16 <= length (frame e))%nat.
  Proof. intros. rewrite frame_length. lia. Qed.

  Theorem truncation : forall es k, Forall wf_entry es ->
    exists c, read_all (truncate k (file es)) = FOk (emitted (prefix_within crc (k - 7) es)) c.
  Proof.
    intros es k Hwf. unfold truncate, Model.file.
    destruct (Nat.lt_ge_cases k 7) as [Hlt|Hge].
    - exists 0. unfold Model.read_all, Model.read_all_gen.
      replace (len_N (firstn k (file_header ++ frames es)) <? file_header_size) with true.
      2:{ symmetry. apply N.ltb_lt. unfold len_N. rewrite firstn_length. change file_header_size with 7. lia. }
      replace (k - 7)%nat with 0%nat by lia.
      destruct es; [reflexivity|]. cbn [prefix_within].
      pose proof (frames_nonempty e). destruct (length (frame e) <=? 0)%nat eqn:E; [apply Nat.leb_le in E; lia|].
      reflexivity.
    - rewrite firstn_app, file_header_length. rewrite firstn_all2 by (rewrite file_header_length; lia).
      destruct (firstn_frames es (k - 7) Hwf) as [torn [c [H1 H2]]]. rewrite H1.
      destruct (prefix_within_spec es (k - 7)) as [rest [H3 _]].
      assert (Hwf' : Forall wf_entry (prefix_within crc (k - 7) es)).
      { rewrite H3 in Hwf. apply Forall_app in Hwf. tauto. }
      eexists. rewrite (read_all_reads _ _ (reads_frames _ _ _ Hwf' H2)).
      simpl. rewrite app_nil_r. reflexivity.
  Qed.

  (* -------------------------------------------------------------------------------------- *)
  (* Part G: one substituted byte                                                              *)
  (* -------------------------------------------------------------------------------------- *)

  Hypothesis crc_detects_1byte : forall p i b, bytes p -> b < 256 -> (i < length p)%nat ->
    nth i p 0 <> b -> crc (set_byte i b p) <> crc p.

  Lemma locate : forall es j, (j < length (frames es))%nat ->
    exists pre e post k, es = pre ++ e :: post /\ j = (length (frames pre) + k)%nat /\ (k < length (frame e))%nat.
  Proof.
    induction es; intros j Hj; [simpl in Hj; lia|].
    rewrite frames_cons, app_length in Hj.
    destruct (Nat.lt_ge_cases j (length (frame a))) as [Hlt|Hge].
    - exists [], a, es, j. repeat split; auto.
    - destruct (IHes (j - length (frame a))%nat) as [pre [e [post [k [H1 [H2 H3]]]]]]; [lia|].
      exists (a :: pre), e, post, k. subst es. split; [reflexivity|]. rewrite frames_cons, app_length. split; lia.
  Qed.

  Lemma in_len_field_body_locate : forall pre e post k, (k < length (frame e))%nat ->
    in_len_field_body crc (length (frames pre) + k) (pre ++ e :: post) = (k <? 4)%nat.
  Proof.
    induction pre; intros e post k Hk.
    - cbn [app Model.frames flat_map length Nat.add in_len_field_body].
      destruct (k <? 4)%nat eqn:E; [reflexivity|].
      replace (k <? length (frame e))%nat with true by (symmetry; apply Nat.ltb_lt; assumption). reflexivity.
    - rewrite frames_cons, app_length. cbn [app in_len_field_body].
      pose proof (frames_nonempty a).
      replace (length (frame a) + length (frames pre) + k <? 4)%nat with false by (symmetry; apply Nat.ltb_ge; lia).
      replace (length (frame a) + length (frames pre) + k <? length (frame a))%nat with false by (symmetry; apply Nat.ltb_ge; lia).
      replace (length (frame a) + length (frames pre) + k - length (frame a))%nat with (length (frames pre) + k)%nat by lia.
      apply IHpre. assumption.
  Qed.

  Definition fL (e : entry) := be_encode 4 (len_N (e_payload e)).
  Definition fT (e : entry) := be_encode 8 (e_ts e).
  Definition fC (e : entry) := be_encode 4 (crc (e_payload e)).

  Lemma frame_parts : forall e, frame e = fL e ++ fT e ++ fC e ++ e_payload e.
  Proof. reflexivity. Qed.

  Lemma wf_len_decode : forall e, wf_entry e -> be_decode (fL e) = len_N (e_payload e).
  Proof.
    intros e [_ [Hmax _]]. unfold fL. apply be_decode_encode_small. lia.
  Qed.

  (* the reader's step on a frame whose timestamp bytes were replaced *)
  Lemma step_ts : forall e T' rest, wf_entry e -> length T' = 8%nat ->
    read_entry (fL e ++ T' ++ fC e ++ e_payload e ++ rest) = step_of e (be_decode T') rest.
  Proof.
    intros e T' rest Hwf HT. rewrite read_entry_parts by (try apply be_encode_length; assumption).
    rewrite (wf_len_decode e Hwf). unfold fC. rewrite (be_decode_encode_small 4) by apply crc_range.
    destruct Hwf as [_ [Hmax _]]. apply after_header_exact. assumption.
  Qed.

  (* a frame whose stored checksum / payload no longer match: framing lost *)
  Lemma step_mismatch : forall e P' ts sum rest, wf_entry e -> length P' = length (e_payload e) ->
    crc P' <> sum ->
    after_header (len_N (e_payload e)) ts sum (P' ++ rest) = RLost.
  Proof.
    intros e P' ts sum rest [_ [Hmax _]] HP Hne. unfold after_header.
    replace (maxp <? len_N (e_payload e)) with false by (symmetry; apply N.ltb_ge; assumption).
    replace (len_N (P' ++ rest) <? len_N (e_payload e)) with false
      by (symmetry; apply N.ltb_ge; unfold len_N; rewrite app_length; lia).
    unfold len_N. rewrite Nat2N.id. rewrite <- HP.
    rewrite (firstn_app_len _ rest _ eq_refl), (skipn_app_len _ rest _ eq_refl).
    replace (crc P' =? sum) with false; [reflexivity|].
    symmetry. apply N.eqb_neq. assumption.
  Qed.

  (* the rest of the file after the damaged frame is read normally *)
  Lemma reads_post : forall post, Forall wf_entry post ->
    reads (frames post) (LOk (emitted post) (undecodable classify post)).
  Proof.
    intros post Hwf. rewrite <- (app_nil_r (frames post)).
    replace (LOk (emitted post) (undecodable classify post)) with (prepend post (LOk [] 0))
      by (simpl; rewrite app_nil_r; reflexivity).
    apply reads_frames; auto. apply reads_nil.
  Qed.

  Definition payloads_ok (res : list rentry) (es : list entry) : Prop :=
    sublist (map strip res) (map strip (emitted es)).

  Lemma emitted_split : forall pre e post,
    emitted (pre ++ e :: post) = emitted pre ++ (match emit e with Some r => [r] | None => [] end) ++ emitted post.
  Proof. intros. rewrite emitted_app, emitted_cons. reflexivity. Qed.

  Lemma payloads_ok_prefix : forall pre e post, payloads_ok (emitted pre) (pre ++ e :: post).
  Proof.
    intros. unfold payloads_ok. rewrite emitted_app, map_app.
    rewrite <- (app_nil_r (map strip (emitted pre))) at 1.
    apply sublist_app; [apply sublist_refl|constructor].
  Qed.

  (* damage outside the length field: the reader stops at the damaged frame (checksum or payload
     bytes), or (timestamp bytes) returns it with its payload intact and reads on *)
  Lemma substituted_non_length : forall pre e post k b,
    Forall wf_entry (pre ++ e :: post) -> b < 256 ->
    (4 <= k < length (frame e))%nat -> nth k (frame e) 0 <> b ->
    exists res c, reads (frames pre ++ set_byte k b (frame e) ++ frames post) (LOk res c) /\
                  payloads_ok res (pre ++ e :: post).
  Proof.
    intros pre e post k b Hwf Hb Hk Hne.
    apply Forall_app in Hwf. destruct Hwf as [Hwf1 Hwf2]. inversion Hwf2 as [|? ? Hwfe Hwf3]; subst.
    pose proof (reads_post post Hwf3) as Hpost.
    assert (HLl : length (fL e) = 4%nat) by apply be_encode_length.
    assert (HTl : length (fT e) = 8%nat) by apply be_encode_length.
    assert (HCl : length (fC e) = 4%nat) by apply be_encode_length.
    rewrite frame_length in Hk. rewrite frame_parts in Hne |- *.
    assert (Hstep : exists st, read_entry (set_byte k b (fL e ++ fT e ++ fC e ++ e_payload e) ++ frames post) = st /\
              (st = RLost \/ st = RSkip (frames post) \/
               exists ts' kd db d, decode_payload (e_payload e) = DOk kd db d /\ st = REmit (mkR ts' kd db d) (frames post))).
    { destruct (Nat.lt_ge_cases k 12) as [H12|H12].
      - (* timestamp *)
        replace k with (length (fL e) + (k - 4))%nat in Hne |- * by lia.
        rewrite set_byte_app_r. rewrite set_byte_app_l by lia. rewrite <- !app_assoc.
        rewrite step_ts by (try assumption; rewrite set_byte_length; assumption).
        eexists; split; [reflexivity|]. unfold step_of.
        destruct (decode_payload (e_payload e)) eqn:Ed; [right; left; reflexivity|].
        right; right. do 4 eexists. split; reflexivity.
      - destruct (Nat.lt_ge_cases k 16) as [H16|H16].
        + (* checksum *)
          replace k with (length (fL e) + (length (fT e) + (k - 12)))%nat in Hne |- * by lia.
          rewrite set_byte_app_r, set_byte_app_r. rewrite set_byte_app_l by lia.
          rewrite nth_app_r, nth_app_r, nth_app_l in Hne by lia.
          rewrite <- !app_assoc.
          rewrite read_entry_parts by (try assumption; rewrite set_byte_length; assumption).
          rewrite (wf_len_decode e Hwfe).
          eexists; split; [|left; reflexivity].
          apply step_mismatch; [assumption|reflexivity|].
          intros Heq. apply (set_byte_neq (fC e) (k - 12) b); [lia|assumption|].
          apply be_decode_inj.
          * apply set_byte_length.
          * apply set_byte_bytes; [apply be_encode_bytes|assumption].
          * apply be_encode_bytes.
          * rewrite <- Heq. unfold fC. symmetry. apply be_decode_encode_small. apply crc_range.
        + (* payload *)
          replace k with (length (fL e) + (length (fT e) + (length (fC e) + (k - 16))))%nat in Hne |- * by lia.
          rewrite !set_byte_app_r. rewrite !nth_app_r in Hne.
          rewrite <- !app_assoc.
          rewrite read_entry_parts by assumption.
          rewrite (wf_len_decode e Hwfe). unfold fC.
          rewrite (be_decode_encode_small 4) by apply crc_range.
          eexists; split; [|left; reflexivity].
          apply step_mismatch; [assumption|apply set_byte_length|].
          apply crc_detects_1byte; [destruct Hwfe as [_ [_ Hbytes]]; exact Hbytes|assumption|lia|assumption]. }
    destruct Hstep as [st [Hst Hcase]].
    destruct Hcase as [Hlost|[Hskip|[ts' [kd [db [d [Hd Hemit]]]]]]]; subst st.
    - exists (emitted pre), (1 + undecodable classify pre). split.
      + replace (LOk (emitted pre) (1 + undecodable classify pre)) with (prepend pre (LOk [] 1))
          by (simpl; rewrite app_nil_r; reflexivity).
        apply reads_frames; auto. apply reads_lost. assumption.
      + apply payloads_ok_prefix.
    - exists (emitted pre ++ emitted post), (undecodable classify post + 1 + undecodable classify pre). split.
      + replace (LOk (emitted pre ++ emitted post) (undecodable classify post + 1 + undecodable classify pre))
          with (prepend pre (bump (LOk (emitted post) (undecodable classify post)))) by reflexivity.
        apply reads_frames; auto. eapply reads_skip; eassumption.
      + unfold payloads_ok. rewrite emitted_split, !map_app.
        apply sublist_app; [apply sublist_refl|]. apply sublist_app_r. apply sublist_refl.
    - exists (emitted pre ++ mkR ts' kd db d :: emitted post), (undecodable classify post + undecodable classify pre). split.
      + replace (LOk (emitted pre ++ mkR ts' kd db d :: emitted post) (undecodable classify post + undecodable classify pre))
          with (prepend pre (push (mkR ts' kd db d) (LOk (emitted post) (undecodable classify post)))) by reflexivity.
        apply reads_frames; auto. eapply reads_emit; eassumption.
      + unfold payloads_ok. rewrite emitted_split. unfold Model.emit. rewrite Hd. rewrite !map_app. cbn [map app strip r_kind r_db r_data].
        apply sublist_refl.
  Qed.

  (* The length field is the only thing that delimits a payload and no checksum covers it.  When
     a length byte is damaged the reader takes a byte range of another length, starting at the
     same place, for the payload; it is stopped by the size cap, by the end of the file, or by
     the CRC test of that range against the stored checksum.  The last test is all that stands
     between a damaged length and a wrong payload, so it is what the theorem has to ask for:
     no range of another length that starts where an appended payload starts has that payload's
     checksum. *)
  Definition length_alias_free (es : list entry) : Prop :=
    forall pre e post len', es = pre ++ e :: post ->
      len' <> length (e_payload e) -> (len' <= length (e_payload e ++ frames post))%nat -> N.of_nat len' <= maxp ->
      crc (firstn len' (e_payload e ++ frames post)) <> crc (e_payload e).

  Lemma substituted_length : forall pre e post k b,
    Forall wf_entry (pre ++ e :: post) -> length_alias_free (pre ++ e :: post) ->
    b < 256 -> (k < 4)%nat -> nth k (frame e) 0 <> b ->
    exists res c, reads (frames pre ++ set_byte k b (frame e) ++ frames post) (LOk res c) /\
                  payloads_ok res (pre ++ e :: post).
  Proof.
    intros pre e post k b Hwf Hfree Hb Hk Hne.
    apply Forall_app in Hwf. destruct Hwf as [Hwf1 Hwf2]. inversion Hwf2 as [|? ? Hwfe Hwf3]; subst.
    assert (HLl : length (fL e) = 4%nat) by apply be_encode_length.
    rewrite frame_parts in Hne |- *. rewrite set_byte_app_l by lia. rewrite nth_app_l in Hne by lia.
    rewrite <- !app_assoc.
    set (L' := set_byte k b (fL e)) in *.
    assert (HL'l : length L' = 4%nat) by (unfold L'; rewrite set_byte_length; assumption).
    assert (HL'ne : be_decode L' <> len_N (e_payload e)).
    { intros Heq. apply (set_byte_neq (fL e) k b); [lia|assumption|]. fold L'.
      apply be_decode_inj; [lia| |apply be_encode_bytes|].
      - unfold L'. apply set_byte_bytes; [apply be_encode_bytes|assumption].
      - rewrite Heq. symmetry. apply wf_len_decode. assumption. }
    exists (emitted pre), (1 + undecodable classify pre). split; [|apply payloads_ok_prefix].
    replace (LOk (emitted pre) (1 + undecodable classify pre)) with (prepend pre (LOk [] 1))
      by (simpl; rewrite app_nil_r; reflexivity).
    apply reads_frames; auto.
    assert (Hstep : read_entry (L' ++ fT e ++ fC e ++ e_payload e ++ frames post) = RLost \/
                    read_entry (L' ++ fT e ++ fC e ++ e_payload e ++ frames post) = RSkip []).
    { rewrite read_entry_parts by (try apply be_encode_length; assumption).
      unfold after_header.
      destruct (maxp <? be_decode L') eqn:E1; [left; reflexivity|]. apply N.ltb_ge in E1.
      destruct (len_N (e_payload e ++ frames post) <? be_decode L') eqn:E2; [right; reflexivity|]. apply N.ltb_ge in E2.
      left. unfold fC. rewrite (be_decode_encode_small 4) by apply crc_range.
      replace (crc (firstn (N.to_nat (be_decode L')) (e_payload e ++ frames post)) =? crc (e_payload e)) with false; [reflexivity|].
      symmetry. apply N.eqb_neq. apply (Hfree pre e post); [reflexivity| | |].
      - unfold len_N in HL'ne. lia.
      - unfold len_N in E2. lia.
      - lia. }
    destruct Hstep as [H|H].
    - apply reads_lost. assumption.
    - change (LOk [] 1) with (bump (LOk [] 0)). eapply reads_skip; [eassumption|apply reads_nil].
  Qed.

  Lemma payloads_ok_refl : forall es, payloads_ok (emitted es) es.
  Proof. intros. apply sublist_refl. Qed.

  Theorem corruption : forall es i b,
    Forall wf_entry es -> b < 256 -> (i < length (file es))%nat ->
    (in_len_field crc i es = true -> length_alias_free es) ->
    match read_all (set_byte i b (file es)) with
    | FOk res _ => payloads_ok res es
    | FErr => True
    | FOutOfFuel => False
    end.
  Proof.
    intros es i b Hwf Hb Hi Hguard.
    destruct (N.eq_dec (nth i (file es) 0) b) as [Hsame|Hne].
    { rewrite set_byte_same by assumption. rewrite intact by assumption. apply payloads_ok_refl. }
    unfold Model.file in *. rewrite app_length, file_header_length in Hi.
    destruct (Nat.lt_ge_cases i 7) as [Hlt|Hge].
    - (* file header *)
      rewrite set_byte_app_l by (rewrite file_header_length; assumption).
      destruct (read_all_header (set_byte i b file_header) (frames es)) as [Hbad Hgood].
      { rewrite set_byte_length. apply file_header_length. }
      destruct (list_eq_dec N.eq_dec (firstn 4 (set_byte i b file_header)) wal_magic) as [Hm|Hm].
      + rewrite (Hgood Hm _ (reads_post es Hwf)). apply payloads_ok_refl.
      + rewrite (Hbad Hm). exact I.
    - (* frame area *)
      replace i with (length file_header + (i - 7))%nat in Hne |- * by (rewrite file_header_length; lia).
      rewrite set_byte_app_r. rewrite nth_app_r in Hne.
      destruct (locate es (i - 7)) as [pre [e [post [k [Hes [Hj Hk]]]]]]; [lia|].
      assert (Hfield : in_len_field crc i es = (k <? 4)%nat).
      { unfold in_len_field. rewrite file_header_length.
        replace (i <? 7)%nat with false by (symmetry; apply Nat.ltb_ge; assumption).
        rewrite Hj, Hes. apply in_len_field_body_locate. assumption. }
      rewrite Hj in Hne |- *. subst es.
      rewrite frames_app, frames_cons in Hne |- *.
      rewrite set_byte_app_r. rewrite nth_app_r in Hne.
      rewrite set_byte_app_l by assumption. rewrite nth_app_l in Hne by assumption.
      assert (Hres : exists res c, reads (frames pre ++ set_byte k b (frame e) ++ frames post) (LOk res c) /\
                                   payloads_ok res (pre ++ e :: post)).
      { destruct (Nat.lt_ge_cases k 4) as [H4|H4].
        - apply substituted_length; try assumption. apply Hguard. rewrite Hfield. apply Nat.ltb_lt. assumption.
        - apply substituted_non_length; try assumption. lia. }
      destruct Hres as [res [c [Hreads Hok]]].
      rewrite (read_all_reads _ _ Hreads). exact Hok.
  Qed.
End WalProofs.

(* ---------------------------------------------------------------------------------------- *)
(* Part H: envelopes, append operations, rotation                                             *)
(* ---------------------------------------------------------------------------------------- *)

Lemma be_encode_2 : forall v, be_encode 2 v = [(v / 256) mod 256; v mod 256].
Proof. reflexivity. Qed.

Lemma envelope_marker_byte : envelope_marker < 256. Proof. reflexivity. Qed.

Lemma parse_envelope_envelope : forall db p, len_N db <= 255 -> (db <> [] \/ p <> []) ->
  parse_envelope (envelope db p) = EnvOk db p.
Proof.
  intros db p Hdb Hne. unfold envelope. rewrite be_encode_2. cbn [app]. unfold parse_envelope.
  set (whole := envelope_marker :: (len_N db / 256) mod 256 :: len_N db mod 256 :: db ++ p).
  assert (Hlen : len_N whole = 3 + len_N db + len_N p).
  { unfold whole, len_N. cbn [length]. rewrite app_length. lia. }
  assert (Hpos : 0 < len_N db + len_N p).
  { unfold len_N. destruct Hne as [H|H]; [destruct db|destruct p]; try congruence; cbn [length]; lia. }
  replace (3 <? len_N whole) with true by (symmetry; apply N.ltb_lt; lia).
  rewrite N.eqb_refl. cbn [andb].
  replace ((len_N db / 256) mod 256 * 256 + len_N db mod 256) with (len_N db) by lia.
  replace (3 + len_N db <=? len_N whole) with true by (symmetry; apply N.leb_le; lia).
  unfold whole. cbn [skipn]. f_equal.
  - unfold len_N. rewrite Nat2N.id. apply firstn_app_len. reflexivity.
  - replace (N.to_nat (3 + len_N db)) with (3 + length db)%nat by (unfold len_N; lia).
    cbn [Nat.add skipn]. apply skipn_app_len. reflexivity.
Qed.

Lemma parse_envelope_raw : forall p, hd 0 p <> envelope_marker -> parse_envelope p = EnvOk [] p.
Proof.
  intros p H. destruct p as [|m [|h [|l r]]]; try reflexivity.
  unfold parse_envelope. cbn [hd] in H.
  replace (m =? envelope_marker) with false by (symmetry; apply N.eqb_neq; assumption).
  rewrite andb_false_r. reflexivity.
Qed.

Section WalOps.
  Variable crc : list N -> N.
  Variable classify : list N -> cls.
  Variable maxp : N.
  Hypothesis maxp_lt : maxp < 256 ^ N.of_nat 4.
  Hypothesis crc_range : forall p, crc p < 256 ^ N.of_nat 4.

  (* what reading back must give for an append operation: payload bytes and database *)
  Definition op_spec (o : op) : list rentry :=
    match o with
    | OpRaw ts p =>
        match classify p with
        | CRow => [mkR ts KRow [] p] | CRowNil => [mkR ts KRowNil [] p] | CCol => [mkR ts KCol [] p] | CBad => []
        end
    | OpMeta ts db p =>
        match classify p with
        | CRow => [mkR ts KRow [] p] | CRowNil => [mkR ts KRowNil [] p] | CCol => [mkR ts KCol db p] | CBad => []
        end
    end.

  (* an Append* CALL: AppendRaw of a msgpack document (never starts with the marker byte) or
     AppendRawWithMeta; bytes are bytes, the clock is a uint64.  NO assumption on sizes or on
     the length of the database name: the writer decides (append_outcome). *)
  Definition wf_call (o : op) : Prop :=
    match o with
    | OpRaw ts p => ts < 256 ^ N.of_nat 8 /\ bytes p /\ hd 0 p <> envelope_marker
    | OpMeta ts db p => ts < 256 ^ N.of_nat 8 /\ bytes db /\ bytes p /\ (db <> [] \/ p <> [])
    end.

  Lemma accepted_outcome : forall ops o, In o (accepted maxp ops) -> append_outcome maxp o = AOk.
  Proof.
    intros ops o H. unfold accepted in H. apply filter_In in H. destruct H as [_ H].
    destruct (append_outcome maxp o); [reflexivity|discriminate|discriminate].
  Qed.

  (* whatever the writer accepts fits the cap ON DISK (envelope included) *)
  Lemma outcome_ok_fits : forall o, append_outcome maxp o = AOk ->
    len_N (e_payload (op_entry o)) <= maxp /\ match o with OpMeta _ db _ => len_N db <= 255 | _ => True end.
  Proof.
    intros o H. unfold append_outcome in H.
    destruct (maxp <? len_N (e_payload (op_entry o))) eqn:E; [discriminate|]. apply N.ltb_ge in E.
    split; [assumption|]. destruct o; [exact I|].
    destruct (255 <? len_N db) eqn:E2; [discriminate|]. apply N.ltb_ge in E2. assumption.
  Qed.

  Lemma accepted_call_entry : forall o, wf_call o -> append_outcome maxp o = AOk ->
    wf_entry maxp (op_entry o) /\
    (match emit classify (op_entry o) with Some r => [r] | None => [] end) = op_spec o.
  Proof.
    intros o Hc Ho. destruct (outcome_ok_fits o Ho) as [Hfit Hdb].
    destruct o as [ts p|ts db p]; cbn [wf_call op_entry e_payload e_ts] in *.
    - destruct Hc as [Hts [Hb Hhd]]. unfold emit, decode_payload. cbn [e_payload e_ts].
      rewrite (parse_envelope_raw p Hhd). unfold wf_entry. cbn [e_payload e_ts op_spec].
      repeat split; try assumption; destruct (classify p); reflexivity.
    - destruct Hc as [Hts [Hbd [Hbp Hne]]]. unfold emit, decode_payload. cbn [e_payload e_ts].
      rewrite (parse_envelope_envelope db p Hdb Hne). unfold wf_entry. cbn [e_payload e_ts op_spec].
      split; [|destruct (classify p); reflexivity].
      repeat split; try assumption. unfold envelope. constructor; [apply envelope_marker_byte|].
      apply Forall_app; split; [apply be_encode_bytes|]. apply Forall_app; split; assumption.
  Qed.

  Lemma accepted_entries_wf : forall ops, Forall wf_call ops ->
    Forall (wf_entry maxp) (map op_entry (accepted maxp ops)) /\
    emitted classify (map op_entry (accepted maxp ops)) = flat_map op_spec (accepted maxp ops).
  Proof.
    intros ops Hc.
    assert (H : forall o, In o (accepted maxp ops) -> wf_call o /\ append_outcome maxp o = AOk).
    { intros o Hin. split; [|eapply accepted_outcome; eassumption].
      rewrite Forall_forall in Hc. apply Hc. unfold accepted in Hin. apply filter_In in Hin. tauto. }
    induction (accepted maxp ops) as [|o l IH]; [split; [constructor|reflexivity]|].
    destruct (H o (or_introl eq_refl)) as [Hw Ho].
    destruct (accepted_call_entry o Hw Ho) as [He Hs].
    destruct IH as [IH1 IH2]. { intros o' Hin. apply H. right. assumption. }
    split; [constructor; assumption|].
    cbn [map flat_map]. rewrite emitted_cons, IH2, Hs. reflexivity.
  Qed.

  (* From the append CALLS to the entries read back, for every sequence of calls of any size:
     the calls the writer accepts (and only those) come back, each with the payload bytes and
     the database it was appended with, in order. *)
  Theorem intact_appends : forall ops, Forall wf_call ops ->
    exists c, read_all crc classify maxp (file crc (map op_entry (accepted maxp ops))) =
              FOk (flat_map op_spec (accepted maxp ops)) c.
  Proof.
    intros ops Hc. destruct (accepted_entries_wf ops Hc) as [Hwf Hem].
    eexists. rewrite intact by assumption. rewrite Hem. reflexivity.
  Qed.

  (* ---- rotation and recovery ---- *)

  Lemma rotate_split_concat : forall m es size, concat (rotate_split crc m size es) = es.
  Proof.
    induction es; intros size; [reflexivity|]. cbn [rotate_split].
    destruct (m <=? size + len_N (frame crc a)).
    - cbn [concat app]. rewrite IHes. reflexivity.
    - specialize (IHes (size + len_N (frame crc a))).
      destruct (rotate_split crc m (size + len_N (frame crc a)) es) as [|g gs].
      + cbn in IHes. subst es. reflexivity.
      + cbn [concat] in *. rewrite <- IHes. reflexivity.
  Qed.

  Lemma Forall_concat_groups : forall A (P : A -> Prop) gs, Forall P (concat gs) -> Forall (Forall P) gs.
  Proof.
    induction gs; intros H; constructor; cbn [concat] in H; apply Forall_app in H; destruct H; auto.
  Qed.

  Lemma recover_groups : forall gs, Forall (Forall (wf_entry maxp)) gs ->
    recover crc classify maxp (map (file crc) gs) = filter delivered (emitted classify (concat gs)).
  Proof.
    induction gs; intros Hwf; [reflexivity|].
    inversion Hwf; subst.
    cbn [map recover concat]. rewrite intact by assumption.
    rewrite IHgs by assumption. rewrite emitted_app, filter_app. reflexivity.
  Qed.

  (* whatever size limit makes the writer rotate, replaying all files in rotation order yields
     every decodable appended entry, in append order *)
  Theorem rotation_recover : forall m es, Forall (wf_entry maxp) es ->
    recover crc classify maxp (writer_files crc m es) = filter delivered (emitted classify es).
  Proof.
    intros m es Hwf. unfold writer_files.
    pose proof (rotate_split_concat m es file_header_size) as Hc.
    rewrite recover_groups.
    - rewrite Hc. reflexivity.
    - apply Forall_concat_groups. rewrite Hc. assumption.
  Qed.
End WalOps.

(* ---- boolean well-formedness, for closed examples ---- *)

Definition wf_entryb (maxp : N) (e : entry) : bool :=
  (e_ts e <? 256 ^ N.of_nat 8) && (len_N (e_payload e) <=? maxp) && forallb (fun x => x <? 256) (e_payload e).

Lemma wf_entryb_sound : forall maxp es, forallb (wf_entryb maxp) es = true -> Forall (wf_entry maxp) es.
Proof.
  intros maxp es H. apply Forall_forall. intros e He. rewrite forallb_forall in H. specialize (H e He).
  unfold wf_entryb in H. apply andb_true_iff in H. destruct H as [H H3]. apply andb_true_iff in H. destruct H as [H1 H2].
  apply N.ltb_lt in H1. apply N.leb_le in H2. repeat split; try assumption.
  apply Forall_forall. intros x Hx. rewrite forallb_forall in H3. apply N.ltb_lt. auto.
Qed.

Lemma sublist_incl : forall A (a l : list A), sublist a l -> incl a l.
Proof.
  intros A a l H. induction H; intros y Hy.
  - destruct Hy.
  - destruct Hy as [Hy|Hy]; [left; assumption|right; auto].
  - right. auto.
Qed.

(* ---------------------------------------------------------------------------------------- *)
(* Part I: the toy checksum has the two properties asked of CRC-32                             *)
(* ---------------------------------------------------------------------------------------- *)

Lemma fold_add_acc : forall l a, fold_left N.add l a = a + fold_left N.add l 0.
Proof.
  induction l; intros a0; cbn [fold_left]; [lia|]. rewrite (IHl (a0 + a)), (IHl (0 + a)). lia.
Qed.

Lemma sum_set_byte : forall p i b, (i < length p)%nat ->
  fold_left N.add (set_byte i b p) 0 + nth i p 0 = fold_left N.add p 0 + b.
Proof.
  induction p; intros i b Hi; [simpl in Hi; lia|].
  destruct i; cbn [set_byte nth fold_left].
  - rewrite (fold_add_acc p (0 + b)), (fold_add_acc p (0 + a)). lia.
  - rewrite (fold_add_acc (set_byte i b p) (0 + a)), (fold_add_acc p (0 + a)).
    specialize (IHp i b). simpl in Hi. lia.
Qed.

Lemma crc_sum_range : forall p, crc_sum p < 256 ^ N.of_nat 4.
Proof. intros. unfold crc_sum. change (256 ^ N.of_nat 4) with 4294967296. apply N.mod_lt. discriminate. Qed.

Lemma nth_bytes : forall p i, bytes p -> (i < length p)%nat -> nth i p 0 < 256.
Proof. intros p i Hb Hi. unfold bytes in Hb. rewrite Forall_forall in Hb. apply Hb. apply nth_In. assumption. Qed.

Lemma crc_sum_detects : forall p i b, bytes p -> b < 256 -> (i < length p)%nat ->
  nth i p 0 <> b -> crc_sum (set_byte i b p) <> crc_sum p.
Proof.
  intros p i b Hp Hb Hi Hne. unfold crc_sum.
  pose proof (sum_set_byte p i b Hi). pose proof (nth_bytes p i Hp Hi). lia.
Qed.

(* ---------------------------------------------------------------------------------------- *)
(* Part J: closed examples                                                                     *)
(* ---------------------------------------------------------------------------------------- *)

(* a columnar write into database "mydb" whose string value ends with a complete frame that
   carries a row-format record for database "other" (payload offset 32), between two ordinary
   entries: the witness against the reader as it was BEFORE commit 591fc4b *)
Definition wit_evil : list N :=
  unhex "9183a95f6461746162617365a56f74686572ac5f6d6561737572656d656e74a3637075a176cd029a"%bs.
Definition wit_outer_msgpack : list N :=
  unhex "82a16da3637075a7636f6c756d6e7381a46e6f746591d939780000002800060a24181e4001031c240c9183a95f6461746162617365a56f74686572ac5f6d6561737572656d656e74a3637075a176cd029a"%bs.
Definition wit_ops : list op :=
  [ OpRaw 1700000000000000 (unhex "82a16da3637075a7636f6c756d6e7381a176920102"%bs);
    OpMeta 1700000000000002 (unhex "6d796462"%bs) wit_outer_msgpack;
    OpRaw 1700000000000003 (unhex "9183a95f6461746162617365a46d796462ac5f6d6561737572656d656e74a36d656da17507"%bs) ].
Definition wit_es : list entry := map op_entry wit_ops.
Definition wit_pos : nat := 47.     (* lowest byte of the second entry's length field (0x58) *)
Definition wit_byte : N := 32.      (* 0x20 *)

(* the reader before 591fc4b: a fabricated row-format entry for database "other" *)
Lemma wit_read_old :
  read_all_old crc32 classify_shape max_payload (set_byte wit_pos wit_byte (file crc32 wit_es)) =
  FOk [ mkR 1700000000000000 KCol [] (unhex "82a16da3637075a7636f6c756d6e7381a176920102"%bs);
        mkR 1700000000000001 KRow [] wit_evil;
        mkR 1700000000000003 KRow [] (unhex "9183a95f6461746162617365a46d796462ac5f6d6561737572656d656e74a36d656da17507"%bs) ] 1.
Proof. vm_compute. reflexivity. Qed.

(* the reader now: it stops at the damaged entry *)
Lemma wit_read_now :
  read_all crc32 classify_shape max_payload (set_byte wit_pos wit_byte (file crc32 wit_es)) =
  FOk [ mkR 1700000000000000 KCol [] (unhex "82a16da3637075a7636f6c756d6e7381a176920102"%bs) ] 1.
Proof. vm_compute. reflexivity. Qed.

Theorem old_continue_fabricates :
  exists es i b res c,
    Forall (wf_entry max_payload) es /\ b < 256 /\ (i < length (file crc32 es))%nat /\
    read_all_old crc32 classify_shape max_payload (set_byte i b (file crc32 es)) = FOk res c /\
    ~ payloads_ok classify_shape res es.
Proof.
  exists wit_es, wit_pos, wit_byte. eexists. eexists.
  split; [apply wf_entryb_sound; vm_compute; reflexivity|].
  split; [reflexivity|].
  split; [vm_compute; lia|].
  split; [apply wit_read_old|].
  unfold payloads_ok. intros Hs. apply sublist_incl in Hs.
  specialize (Hs (KRow, [], wit_evil)).
  assert (Hin : In (KRow, @nil N, wit_evil) (map strip (emitted classify_shape wit_es))).
  { apply Hs. cbn [map strip r_kind r_db r_data]. right. left. reflexivity. }
  vm_compute in Hin. intuition discriminate.
Qed.

(* all premises of `corruption` are satisfiable together, for a length-field position: toy
   checksum (provably detects single-byte changes), a one-entry log *)
Definition tiny_es : list entry := [mkEntry 5 [144]].

Lemma tiny_alias_free : length_alias_free crc_sum max_payload tiny_es.
Proof.
  intros pre e post len' Hes Hne Hle Hmax.
  destruct pre as [|x pre].
  - inversion Hes; subst e post. cbn in Hle, Hne. assert (len' = 0)%nat by lia. subst. vm_compute. discriminate.
  - inversion Hes as [[Hx Hp]]. destruct pre; discriminate Hp.
Qed.

(* the proviso of `corruption` cannot simply be dropped, even for the reader as it is now: a
   payload whose first 14 bytes have the same CRC-32 as all 18 (four forged trailing bytes) and
   one changed length byte (18 -> 14) make the reader return the 14-byte prefix as the payload.
   (It decodes to the same content - a msgpack decoder stops at the end of the document - so
   this is a difference in bytes only; see checks/C06.json.) *)
Definition alias_es : list entry := [mkEntry 9 (unhex "82a16da163a7636f6c756d6e73805e89b259"%bs)].

Lemma alias_read :
  read_all crc32 classify_shape max_payload (set_byte 10 14 (file crc32 alias_es)) =
  FOk [mkR 9 KCol [] (unhex "82a16da163a7636f6c756d6e7380"%bs)] 0.
Proof. vm_compute. reflexivity. Qed.

Lemma alias_not_free : ~ length_alias_free crc32 max_payload alias_es.
Proof.
  intros H. apply (H [] (mkEntry 9 (unhex "82a16da163a7636f6c756d6e73805e89b259"%bs)) [] 14%nat); try reflexivity.
  - vm_compute. discriminate.
  - vm_compute. lia.
  - vm_compute. discriminate.
Qed.

(* a CRC-valid payload 01 FF FD .. no longer makes ParseEnvelope's length arithmetic wrap: it is
   not an envelope (the database name would not fit), the payload is handed to msgpack as is *)
Lemma envelope_length_no_wrap :
  parse_envelope [1; 255; 253; 0] = EnvOk [] [1; 255; 253; 0] /\
  read_all crc32 classify_shape max_payload (file crc32 [mkEntry 7 [1; 255; 253; 0]]) = FOk [] 1.
Proof. split; vm_compute; reflexivity. Qed.
