(* C30 - model of request routing in a cluster.
   Transcribes, from the Go code that exists:
     internal/cluster/role.go      NodeRole.GetCapabilities          -> [capabilities]
     internal/cluster/registry.go  GetPrimaryWriter/GetWriters/GetReaders -> [primary_writers] [writers] [readers]
     internal/cluster/router.go    CanRouteLocally, RouteWrite, RouteQuery (up to target selection),
                                   doForward (outbound X-Arc-Forwarded-By = LocalNode.ID)
     internal/api/routing.go       decideForward (and its wrappers), the switch every consulting
                                   handler performs (msgpack.go, lineprotocol.go, tle.go, query.go)
   and composes the nodes of a cluster: a forwarded request enters the SAME handler on the
   target node, carrying the marker header.

   Target selection (Go map iteration order, round robin, least connections) is not
   determined by the model: [serve] takes the list of chosen target ids as an argument and
   checks each against the candidate set; theorems quantify over ALL such lists.
   Definitions only - proofs are in Proofs.v. *)
From Coq Require Import List NArith Bool.
Import ListNotations.
Open Scope N_scope.

Definition bytes := list N.

Fixpoint bytes_eqb (a b : bytes) : bool :=
  match a, b with
  | [], [] => true
  | x :: a', y :: b' => (x =? y) && bytes_eqb a' b'
  | _, _ => false
  end.

Definition is_empty (b : bytes) : bool := match b with [] => true | _ => false end.

(* ---- roles and capabilities (role.go) ------------------------------------------------ *)

Inductive role := Standalone | Writer | Reader | Compactor | OtherRole.   (* OtherRole: any unrecognised string *)

Definition role_eqb (a b : role) : bool :=
  match a, b with
  | Standalone, Standalone | Writer, Writer | Reader, Reader | Compactor, Compactor | OtherRole, OtherRole => true
  | _, _ => false
  end.

Record caps := { can_ingest : bool; can_query : bool; can_compact : bool; can_coordinate : bool }.

Definition capabilities (r : role) : caps :=
  match r with
  | Writer => {| can_ingest := true; can_query := true; can_compact := false; can_coordinate := true |}
  | Reader => {| can_ingest := false; can_query := true; can_compact := false; can_coordinate := false |}
  | Compactor => {| can_ingest := false; can_query := false; can_compact := true; can_coordinate := false |}
  | Standalone => {| can_ingest := true; can_query := true; can_compact := true; can_coordinate := false |}
  | OtherRole => {| can_ingest := false; can_query := false; can_compact := false; can_coordinate := false |}
  end.

Inductive kind := KWrite | KQuery.

Definition can_serve (r : role) (k : kind) : bool :=
  match k with
  | KWrite => can_ingest (capabilities r)
  | KQuery => can_query (capabilities r)
  end.

(* ---- registry entries (node.go, registry.go) ---------------------------------------- *)

Inductive nstate := SUnknown | SHealthy | SUnhealthy | SDead | SJoining | SLeaving.
Inductive wstate := WNone | WPrimary | WStandby.

Record node := { n_id : bytes; n_role : role; n_ws : wstate; n_state : nstate }.

Definition is_healthy (n : node) : bool := match n_state n with SHealthy => true | _ => false end.
Definition is_primary (n : node) : bool := match n_ws n with WPrimary => true | _ => false end.

Definition primary_writers (reg : list node) : list node :=
  filter (fun n => role_eqb (n_role n) Writer && is_primary n && is_healthy n) reg.
Definition writers (reg : list node) : list node :=
  filter (fun n => role_eqb (n_role n) Writer && is_healthy n) reg.
Definition readers (reg : list node) : list node :=
  filter (fun n => role_eqb (n_role n) Reader && is_healthy n) reg.

(* ---- router (router.go) --------------------------------------------------------------- *)

(* r_local = RouterConfig.LocalNode (nil only in hand-built configurations) *)
Record router := { r_local : option node; r_reg : list node }.

Definition can_route_locally (r : router) (k : kind) : bool :=
  match r_local r with
  | None => false
  | Some n => can_serve (n_role n) k
  end.

Inductive route_result :=
  | RLocalCanHandle                 (* ErrLocalNodeCanHandle *)
  | RNoWriter                       (* ErrNoWriterAvailable *)
  | RNoReader                       (* ErrNoReaderAvailable *)
  | RCandidates (cs : list node).   (* forwardRequest to one of cs *)

Definition route_write (r : router) : route_result :=
  if match r_local r with Some n => can_ingest (capabilities (n_role n)) | None => false end
  then RLocalCanHandle
  else match primary_writers (r_reg r) with
       | (_ :: _) as ps => RCandidates ps
       | [] => match writers (r_reg r) with
               | [] => RNoWriter
               | ws => RCandidates ws
               end
       end.

Definition route_query (r : router) : route_result :=
  if match r_local r with Some n => can_query (capabilities (n_role n)) | None => false end
  then RLocalCanHandle
  else match readers (r_reg r) with
       | (_ :: _) as rs => RCandidates rs
       | [] => match writers (r_reg r) with
               | [] => RNoReader
               | ws => RCandidates ws
               end
       end.

Definition route (r : router) (k : kind) : route_result :=
  match k with KWrite => route_write r | KQuery => route_query r end.

(* ---- header values on the wire ------------------------------------------------------- *)

Definition is_sp (b : N) : bool := b =? 32.
Definition is_ows (b : N) : bool := (b =? 32) || (b =? 9).

Fixpoint drop_while (f : N -> bool) (l : bytes) : bytes :=
  match l with
  | [] => []
  | x :: r => if f x then drop_while f r else l
  end.
Definition trim (f : N -> bool) (l : bytes) : bytes := rev (drop_while f (rev (drop_while f l))).

(* what c.Get returns for a header value received on the wire (fasthttp strips spaces) *)
Definition fasthttp_value (v : bytes) : bytes := trim is_sp v.
(* what net/http puts on the wire for Header.Set(k, v) (textproto.TrimString) ... *)
Definition nethttp_value (v : bytes) : bytes := trim is_ows v.
(* ... provided the value is a valid field value; otherwise http.Client.Do fails *)
Definition nethttp_valid (v : bytes) : bool :=
  forallb (fun b => (b =? 9) || ((32 <=? b) && negb (b =? 127))) v.

(* c.Get(ForwardedByHeader) for the values of all X-Arc-Forwarded-By lines a client sent *)
Definition seen_of_client (vals : list bytes) : bytes :=
  match vals with [] => [] | v :: _ => fasthttp_value v end.
(* c.Get(ForwardedByHeader) on the node that receives a request forwarded by node [id] *)
Definition seen_of_marker (id : bytes) : bytes := fasthttp_value (nethttp_value id).

(* ---- decideForward (routing.go) --------------------------------------------------------- *)

Inductive decision := DLocal | DToPeer | DAlreadyForwarded.

Definition decide_forward (r : option router) (seen : bytes) (k : kind) : decision :=
  match r with
  | None => DLocal
  | Some rt =>
      if can_route_locally rt k then DLocal
      else if negb (is_empty seen) then DAlreadyForwarded
      else DToPeer
  end.

(* ---- the switch at the top of a consulting handler --------------------------------------- *)

Inductive step :=
  | StLocal | StLoop | StNoWriter | StNoReader
  | StPanic                                    (* doForward dereferences a nil LocalNode *)
  | StRouteFail                                (* marker is not a valid header value: Do fails *)
  | StForward (marker : bytes) (cs : list node).

Definition handler_step (r : option router) (seen : bytes) (k : kind) : step :=
  match decide_forward r seen k with
  | DLocal => StLocal
  | DAlreadyForwarded => StLoop
  | DToPeer =>
      match r with
      | None => StLocal
      | Some rt =>
          match route rt k with
          | RLocalCanHandle => StLocal            (* goto localProcessing *)
          | RNoWriter => StNoWriter
          | RNoReader => StNoReader
          | RCandidates cs =>
              match r_local rt with
              | None => StPanic
              | Some me => if nethttp_valid (n_id me) then StForward (n_id me) cs else StRouteFail
              end
          end
      end
  end.

(* an endpoint whose handler never looks at the routing decision processes locally *)
Definition endpoint_step (consults : bool) (r : option router) (seen : bytes) (k : kind) : step :=
  if consults then handler_step r seen k else StLocal.

(* ---- a cluster ---------------------------------------------------------------------------- *)

(* a_router = the handler's h.router (nil when clustering is off) *)
Record anode := { a_id : bytes; a_router : option router }.
Definition cluster := list anode.

(* the registry entry's address leads to the node that registered under that id *)
Definition deliver (cl : cluster) (t : node) : option anode :=
  find (fun a => bytes_eqb (a_id a) (n_id t)) cl.

Inductive outcome :=
  | Processed (a : anode) (hops : nat)
  | LoopRejected (a : anode) (hops : nat)
  | NoWriterAvail (a : anode) (hops : nat)
  | NoReaderAvail (a : anode) (hops : nat)
  | Panicked (a : anode) (hops : nat)
  | RouteFailed (a : anode) (hops : nat)
  | BadChoice (a : anode) (hops : nat)        (* [ch] names a target outside the candidate set *)
  | OutOfFuel (a : anode) (hops : nat).

Fixpoint serve (consults : bool) (fuel : nat) (ch : list bytes) (cl : cluster)
         (a : anode) (seen : bytes) (k : kind) (hops : nat) : outcome :=
  match fuel with
  | O => OutOfFuel a hops
  | S f =>
      match endpoint_step consults (a_router a) seen k with
      | StLocal => Processed a hops
      | StLoop => LoopRejected a hops
      | StNoWriter => NoWriterAvail a hops
      | StNoReader => NoReaderAvail a hops
      | StPanic => Panicked a hops
      | StRouteFail => RouteFailed a hops
      | StForward marker cs =>
          match ch with
          | [] => BadChoice a hops
          | c :: ch' =>
              match find (fun t => bytes_eqb (n_id t) c) cs with
              | None => BadChoice a hops
              | Some t =>
                  match deliver cl t with
                  | None => RouteFailed a hops
                  | Some a' => serve consults f ch' cl a' (seen_of_marker marker) k (S hops)
                  end
              end
          end
      end
  end.

Definition serve_client (consults : bool) (fuel : nat) (ch : list bytes) (cl : cluster)
           (a : anode) (hdrs : list bytes) (k : kind) : outcome :=
  serve consults fuel ch cl a (seen_of_client hdrs) k 0.

Definition hops_of (o : outcome) : nat :=
  match o with
  | Processed _ h | LoopRejected _ h | NoWriterAvail _ h | NoReaderAvail _ h
  | Panicked _ h | RouteFailed _ h | BadChoice _ h | OutOfFuel _ h => h
  end.
Definition node_of (o : outcome) : anode :=
  match o with
  | Processed a _ | LoopRejected a _ | NoWriterAvail a _ | NoReaderAvail a _
  | Panicked a _ | RouteFailed a _ | BadChoice a _ | OutOfFuel a _ => a
  end.

(* the (node id, value of c.Get(ForwardedByHeader)) pairs along the path - correspondence only *)
Fixpoint serve_log (consults : bool) (fuel : nat) (ch : list bytes) (cl : cluster)
         (a : anode) (seen : bytes) (k : kind) : list (bytes * bytes) :=
  match fuel with
  | O => [(a_id a, seen)]
  | S f =>
      (a_id a, seen) ::
      match endpoint_step consults (a_router a) seen k, ch with
      | StForward marker cs, c :: ch' =>
          match find (fun t => bytes_eqb (n_id t) c) cs with
          | Some t => match deliver cl t with
                      | Some a' => serve_log consults f ch' cl a' (seen_of_marker marker) k
                      | None => []
                      end
          | None => []
          end
      | _, _ => []
      end
  end.

(* capability of the node that ends up processing: its router is absent (clustering off,
   the node is a standalone deployment) or its own role can serve the request *)
Definition capable_here (a : anode) (k : kind) : bool :=
  match a_router a with
  | None => true
  | Some r => can_route_locally r k
  end.

(* ======================================================================================= *)
(* executable correspondence / oracle predicates (evaluated inside coqc on observations)   *)
(* ======================================================================================= *)

(* response classes reported by the harness *)
Definition c_local : N := 0.
Definition c_loop : N := 1.
Definition c_nowriter : N := 2.
Definition c_noreader : N := 3.
Definition c_forwarded : N := 4.
Definition c_routefail : N := 5.
Definition c_panic : N := 6.
Definition c_hoplimit : N := 7.

Definition class_of_step (s : step) : N :=
  match s with
  | StLocal => c_local | StLoop => c_loop | StNoWriter => c_nowriter | StNoReader => c_noreader
  | StPanic => c_panic | StRouteFail => c_routefail | StForward _ _ => c_forwarded
  end.

Definition class_of_outcome (o : outcome) : N :=
  match o with
  | Processed _ _ => c_local | LoopRejected _ _ => c_loop | NoWriterAvail _ _ => c_nowriter
  | NoReaderAvail _ _ => c_noreader | Panicked _ _ => c_panic | RouteFailed _ _ => c_routefail
  | BadChoice _ _ => 100 | OutOfFuel _ _ => c_hoplimit
  end.

(* local configuration of the node under test *)
(* lc_local: id, role and writer state of RouterConfig.LocalNode *)
Record local_cfg := { lc_router : bool; lc_local : option (bytes * role * wstate) }.
Definition ntype := (role * wstate * nstate)%type.

Definition ascii_p : N := 112.
Definition peer_id (i : nat) : bytes := [ascii_p; 48 + N.of_nat i].    (* "p1", "p2", ... *)

Fixpoint peers_from (i : nat) (ts : list ntype) : list node :=
  match ts with
  | [] => []
  | (r, w, s) :: rest => {| n_id := peer_id i; n_role := r; n_ws := w; n_state := s |} :: peers_from (S i) rest
  end.

Definition local_node (l : local_cfg) : option node :=
  match lc_local l with
  | None => None
  | Some (id, r, w) => Some {| n_id := id; n_role := r; n_ws := w; n_state := SHealthy |}
  end.

(* NewRegistry registers the local node, then the peers are Registered *)
Definition mk_router (l : local_cfg) (peers : list node) : option router :=
  if lc_router l then
    Some {| r_local := local_node l;
            r_reg := match local_node l with Some n => n :: peers | None => peers end |}
  else None.

Definition spoof_value : bytes :=   (* "spoofed-by-client" *)
  [115; 112; 111; 111; 102; 101; 100; 45; 98; 121; 45; 99; 108; 105; 101; 110; 116].

Definition nth_default {A} (d : A) (l : list A) (i : N) : A := nth (N.to_nat i) l d.
Definition default_local : local_cfg := {| lc_router := false; lc_local := None |}.
Definition default_type : ntype := (OtherRole, WNone, SUnknown).

(* --- sweep: one handler invocation on a node with a real Router/Registry; peers are stubs *)
Record sweep_case := {
  sw_local : N; sw_kind : kind; sw_hdr : bool; sw_peers : list N;
  sw_obs : list (N * N * bytes)            (* per trial: class, peer index hit (1-based), marker seen by the peer *)
}.

Definition sweep_step (locals : list local_cfg) (types : list ntype) (c : sweep_case) : step :=
  let l := nth_default default_local locals (sw_local c) in
  let peers := peers_from 1 (map (nth_default default_type types) (sw_peers c)) in
  handler_step (mk_router l peers) (if sw_hdr c then seen_of_client [spoof_value] else []) (sw_kind c).

Definition obs_matches_step (s : step) (o : N * N * bytes) : bool :=
  let '(cls, tgt, mk) := o in
  (cls =? class_of_step s) &&
  match s with
  | StForward marker cs =>
      existsb (fun t => bytes_eqb (n_id t) (peer_id (N.to_nat tgt))) cs && bytes_eqb mk (seen_of_marker marker)
  | _ => true
  end.

Definition sweep_agrees (locals : list local_cfg) (types : list ntype) (c : sweep_case) : bool :=
  match sw_obs c with [] => false | _ => true end && forallb (obs_matches_step (sweep_step locals types c)) (sw_obs c).

(* property oracle on the implementation's own output: who ended up serving the request *)
Definition sweep_oracle (locals : list local_cfg) (types : list ntype) (c : sweep_case) : bool :=
  let l := nth_default default_local locals (sw_local c) in
  let k := sw_kind c in
  let capable := negb (lc_router l) || match lc_local l with Some (_, r, _) => can_serve r k | None => false end in
  forallb (fun o : N * N * bytes =>
    let '(cls, tgt, mk) := o in
    if cls =? c_local then capable
    else if cls =? c_forwarded then
      negb capable && negb (sw_hdr c) && negb (is_empty mk) &&
      match nth_error (map (nth_default default_type types) (sw_peers c)) (N.to_nat tgt - 1) with
      | Some (r, _, s) => can_serve r k && match s with SHealthy => true | _ => false end
      | None => false
      end
    else negb capable) (sw_obs c).

(* The sweep space is enumerated here, in the order tools/props/C30.py sends it to the harness
   (itertools.combinations_with_replacement order), so that only the observations have to be
   shipped into coqc: multisets of size k over type codes lo..n-1, as non-decreasing lists. *)
Fixpoint msets (k : nat) (lo n : nat) : list (list N) :=
  match k with
  | O => [[]]
  | S k' => flat_map (fun i => map (cons (N.of_nat i)) (msets k' i n)) (seq lo (n - lo))
  end.

Definition sweep_inputs (nlocals ntypes maxpeers : nat) : list (N * kind * bool * list N) :=
  flat_map (fun k =>
    flat_map (fun peers =>
      flat_map (fun l =>
        flat_map (fun kd => map (fun h => (N.of_nat l, kd, h, peers)) [false; true]) [KWrite; KQuery])
      (seq 0 nlocals))
    (msets k 0 ntypes))
  (seq 0 (S maxpeers)).

(* observation code = class + 8 * (peer index + 8 * index into the table of marker values seen) *)
Definition obs_of_code (markers : list bytes) (code : N) : N * N * bytes :=
  (code mod 8, (code / 8) mod 8, nth (N.to_nat (code / 64)) markers [255]).

Definition sweep_case_of (markers : list bytes) (i : N * kind * bool * list N) (code : N) : sweep_case :=
  let '(l, kd, h, peers) := i in
  {| sw_local := l; sw_kind := kd; sw_hdr := h; sw_peers := peers; sw_obs := [obs_of_code markers code] |}.

Fixpoint sweep_cases_of (markers : list bytes) (is : list (N * kind * bool * list N)) (codes : list N) : list sweep_case :=
  match is, codes with
  | i :: is', c :: codes' => sweep_case_of markers i c :: sweep_cases_of markers is' codes'
  | _, _ => []
  end.

Fixpoint list_N_eqb (a b : list N) : bool :=
  match a, b with
  | [], [] => true
  | x :: a', y :: b' => (x =? y) && list_N_eqb a' b'
  | _, _ => false
  end.
Definition kind_eqb (a b : kind) : bool := match a, b with KWrite, KWrite | KQuery, KQuery => true | _, _ => false end.
Definition input_eqb (a b : N * kind * bool * list N) : bool :=
  let '(l1, k1, h1, p1) := a in let '(l2, k2, h2, p2) := b in
  (l1 =? l2) && kind_eqb k1 k2 && Bool.eqb h1 h2 && list_N_eqb p1 p2.
(* the enumeration here and the one in C30.py agree at the given positions *)
Definition spots_ok (is : list (N * kind * bool * list N)) (spots : list (nat * (N * kind * bool * list N))) : bool :=
  forallb (fun s : nat * (N * kind * bool * list N) =>
             match nth_error is (fst s) with Some i => input_eqb i (snd s) | None => false end) spots.

Fixpoint failing {A} (f : A -> bool) (n : nat) (l : list A) : list nat :=
  match l with
  | [] => []
  | x :: r => if f x then failing f (S n) r else n :: failing f (S n) r
  end.

(* indices (binary) of the cases on which [f] is false *)
Fixpoint failingN {A} (f : A -> bool) (n : N) (l : list A) : list N :=
  match l with
  | [] => []
  | x :: r => if f x then failingN f (N.succ n) r else n :: failingN f (N.succ n) r
  end.
Definition summaryN (l : list N) : N * list N := (N.of_nat (length l), firstn 60 l).

(* --- decide: decideForward and its wrappers on a wire-parsed request *)
Record decide_case := {
  dc_local : N; dc_kind : kind; dc_vals : list bytes;        (* values of the X-Arc-Forwarded-By lines sent *)
  dc_seen : bytes; dc_decision : N; dc_wrapper : N; dc_should : bool
}.
Definition decision_code (d : decision) : N :=
  match d with DLocal => 0 | DToPeer => 1 | DAlreadyForwarded => 2 end.
Definition decide_agrees (locals : list local_cfg) (c : decide_case) : bool :=
  let l := nth_default default_local locals (dc_local c) in
  let d := decide_forward (mk_router l []) (seen_of_client (dc_vals c)) (dc_kind c) in
  bytes_eqb (dc_seen c) (seen_of_client (dc_vals c)) &&
  (dc_decision c =? decision_code d) && (dc_wrapper c =? decision_code d) &&
  Bool.eqb (dc_should c) (match d with DToPeer => true | _ => false end).
Definition decide_oracle (locals : list local_cfg) (c : decide_case) : bool :=
  let l := nth_default default_local locals (dc_local c) in
  let capable := negb (lc_router l) || match lc_local l with Some (_, r, _) => can_serve r (dc_kind c) | None => false end in
  Bool.eqb (dc_decision c =? 0) capable &&
  (* a request that shows a marker is never forwarded *)
  (is_empty (dc_seen c) || negb (dc_decision c =? 1)).

(* --- endpoints: real handlers behind their own RegisterRoutes; six scenarios each *)
Record endpoint_case := { ep_consults : bool; ep_kind : kind; ep_obs : list (N * N * bytes) }.

Definition ascii_L : bytes := [76].
Definition endpoint_scenarios (k : kind) : list (option router * bytes) :=
  let peer := {| n_id := peer_id 1; n_role := Writer; n_ws := WNone; n_state := SHealthy |} in
  let incapable := match k with KWrite => Reader | KQuery => Compactor end in
  let mk r w := mk_router {| lc_router := true; lc_local := Some (ascii_L, r, w) |} [peer] in
  [ (mk incapable WNone, []); (mk incapable WNone, seen_of_client [spoof_value]); (mk Writer WNone, []); (None, []);
    (mk Writer WStandby, seen_of_client [spoof_value]); (mk Writer WPrimary, seen_of_client [spoof_value]) ].

Definition endpoint_agrees (c : endpoint_case) : bool :=
  Nat.eqb (length (ep_obs c)) (length (endpoint_scenarios (ep_kind c))) &&
  forallb (fun p : (option router * bytes) * (N * N * bytes) =>
             obs_matches_step (endpoint_step (ep_consults c) (fst (fst p)) (snd (fst p)) (ep_kind c)) (snd p))
          (combine (endpoint_scenarios (ep_kind c)) (ep_obs c)).
(* scenarios 0 and 1 run on a node whose role cannot serve the request: it must not process it;
   scenarios 2..5 run on a node that can (no router, or a writer in any writer state, with or
   without a client marker): it must process it *)
Definition endpoint_oracle (c : endpoint_case) : bool :=
  match ep_obs c with
  | (c0, _, _) :: (c1, _, _) :: rest =>
      negb (c0 =? c_local) && negb (c1 =? c_local) &&
      Nat.eqb (length rest) 4 && forallb (fun o : N * N * bytes => fst (fst o) =? c_local) rest
  | _ => false
  end.

(* --- e2e: every node is a real handler+router+registry; the observation is the path *)
Record e2e_case := {
  ee_consults : bool;
  ee_cluster : cluster; ee_entry : N; ee_kind : kind; ee_hdrs : list bytes;
  ee_choices : list bytes;                     (* ids of the targets dialled, in order *)
  ee_hits : list (bytes * bytes);              (* (node id, marker value seen) per visit *)
  ee_class : N                                 (* class of the response at the last node visited *)
}.
Definition e2e_fuel : nat := 6.
Definition default_anode : anode := {| a_id := []; a_router := None |}.

Fixpoint log_eqb (a b : list (bytes * bytes)) : bool :=
  match a, b with
  | [], [] => true
  | (i, s) :: a', (j, t) :: b' => bytes_eqb i j && bytes_eqb s t && log_eqb a' b'
  | _, _ => false
  end.

Definition e2e_outcome (c : e2e_case) : outcome :=
  serve_client (ee_consults c) e2e_fuel (ee_choices c) (ee_cluster c)
               (nth_default default_anode (ee_cluster c) (ee_entry c)) (ee_hdrs c) (ee_kind c).

(* the harness cuts the 7th visit off (class hop-limit); the model runs out of fuel there *)
Definition e2e_agrees (c : e2e_case) : bool :=
  let o := e2e_outcome c in
  let log := serve_log (ee_consults c) e2e_fuel (ee_choices c) (ee_cluster c)
                       (nth_default default_anode (ee_cluster c) (ee_entry c)) (seen_of_client (ee_hdrs c)) (ee_kind c) in
  (class_of_outcome o =? ee_class c) && log_eqb log (ee_hits c) &&
  Nat.eqb (length (ee_hits c)) (S (hops_of o)).

Definition marker_visible (id : bytes) : bool := negb (is_empty (seen_of_marker id)).

(* oracle on the observed path alone: at most one forward when the entry node's id yields a
   visible marker (hypothesis of C30_one_hop); a node that processes is capable *)
Definition e2e_oracle (c : e2e_case) : bool :=
  let entry := nth_default default_anode (ee_cluster c) (ee_entry c) in
  let entry_marker_ok :=
    match a_router entry with
    | Some {| r_local := Some me |} => marker_visible (n_id me)
    | _ => true
    end in
  (negb entry_marker_ok || Nat.leb (length (ee_hits c)) 2) &&
  (* a node that can serve the request serves it: the last node visited, when capable, processed *)
  match rev (ee_hits c) with
  | (id, _) :: _ => match find (fun a => bytes_eqb (a_id a) id) (ee_cluster c) with
                    | Some a => negb (capable_here a (ee_kind c)) || (ee_class c =? c_local)
                    | None => false
                    end
  | [] => false
  end &&
  (negb (capable_here entry (ee_kind c)) || Nat.eqb (length (ee_hits c)) 1) &&
  (negb (ee_class c =? c_local) ||
   match rev (ee_hits c) with
   | (id, _) :: _ => match find (fun a => bytes_eqb (a_id a) id) (ee_cluster c) with
                     | Some a => capable_here a (ee_kind c)
                     | None => false
                     end
   | [] => false
   end).
