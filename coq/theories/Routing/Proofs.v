(* C30 - proofs about the routing model. *)
From Coq Require Import List NArith Bool Lia.
From Arc Require Import Routing.Model.
Import ListNotations.
Open Scope N_scope.

(* ---- small facts ----------------------------------------------------------------------- *)

Lemma bytes_eqb_spec : forall a b, reflect (a = b) (bytes_eqb a b).
Proof.
  induction a as [|x a IH]; destruct b as [|y b]; cbn; try (constructor; congruence).
  destruct (N.eqb_spec x y); cbn.
  - destruct (IH b); constructor; congruence.
  - constructor; congruence.
Qed.

Lemma bytes_eqb_refl a : bytes_eqb a a = true.
Proof. destruct (bytes_eqb_spec a a); congruence. Qed.

Lemma is_empty_false_iff (b : bytes) : is_empty b = false <-> b <> [].
Proof. destruct b; cbn; split; congruence. Qed.

Lemma is_empty_true_iff (b : bytes) : is_empty b = true <-> b = [].
Proof. destruct b; cbn; split; congruence. Qed.

(* ---- target selection only offers healthy nodes whose role can serve the request --------- *)

Lemma role_eqb_eq a b : role_eqb a b = true -> a = b.
Proof. destruct a, b; cbn; congruence. Qed.

Lemma route_candidates_capable r k cs t :
  route r k = RCandidates cs -> In t cs ->
  can_serve (n_role t) k = true /\ is_healthy t = true /\ In t (r_reg r).
Proof.
  unfold route, route_write, route_query. intros H Hin.
  destruct k.
  - destruct (match r_local r with Some n => can_ingest (capabilities (n_role n)) | None => false end); [discriminate|].
    destruct (primary_writers (r_reg r)) as [|p ps] eqn:Ep.
    + destruct (writers (r_reg r)) as [|w ws] eqn:Ew; [discriminate|].
      injection H as <-. rewrite <- Ew in Hin. unfold writers in Hin.
      apply filter_In in Hin as [Hreg Hf]. apply andb_prop in Hf as [Hr Hh].
      apply role_eqb_eq in Hr. rewrite Hr. cbn. auto.
    + injection H as <-. rewrite <- Ep in Hin. unfold primary_writers in Hin.
      apply filter_In in Hin as [Hreg Hf]. apply andb_prop in Hf as [Hf Hh].
      apply andb_prop in Hf as [Hr _]. apply role_eqb_eq in Hr. rewrite Hr. cbn. auto.
  - destruct (match r_local r with Some n => can_query (capabilities (n_role n)) | None => false end); [discriminate|].
    destruct (readers (r_reg r)) as [|p ps] eqn:Ep.
    + destruct (writers (r_reg r)) as [|w ws] eqn:Ew; [discriminate|].
      injection H as <-. rewrite <- Ew in Hin. unfold writers in Hin.
      apply filter_In in Hin as [Hreg Hf]. apply andb_prop in Hf as [Hr Hh].
      apply role_eqb_eq in Hr. rewrite Hr. cbn. auto.
    + injection H as <-. rewrite <- Ep in Hin. unfold readers in Hin.
      apply filter_In in Hin as [Hreg Hf]. apply andb_prop in Hf as [Hr Hh].
      apply role_eqb_eq in Hr. rewrite Hr. cbn. auto.
Qed.

Lemma route_local_iff r k : route r k = RLocalCanHandle <-> can_route_locally r k = true.
Proof.
  unfold route, route_write, route_query, can_route_locally, can_serve.
  destruct k; destruct (r_local r) as [n|]; cbn.
  - destruct (can_ingest (capabilities (n_role n))); [tauto|].
    split; [|discriminate]. destruct (primary_writers (r_reg r)); [destruct (writers (r_reg r))|]; discriminate.
  - split; [|discriminate]. destruct (primary_writers (r_reg r)); [destruct (writers (r_reg r))|]; discriminate.
  - destruct (can_query (capabilities (n_role n))); [tauto|].
    split; [|discriminate]. destruct (readers (r_reg r)); [destruct (writers (r_reg r))|]; discriminate.
  - split; [|discriminate]. destruct (readers (r_reg r)); [destruct (writers (r_reg r))|]; discriminate.
Qed.

(* ---- decideForward ------------------------------------------------------------------------- *)

Lemma decide_local_iff r seen k :
  decide_forward r seen k = DLocal <->
  match r with None => True | Some rt => can_route_locally rt k = true end.
Proof.
  unfold decide_forward. destruct r as [rt|]; [|tauto].
  destruct (can_route_locally rt k); [tauto|].
  destruct (is_empty seen); cbn; split; discriminate.
Qed.

Lemma decide_marked_never_forwards r seen k : seen <> [] -> decide_forward r seen k <> DToPeer.
Proof.
  intros Hs. unfold decide_forward. destruct r as [rt|]; [|discriminate].
  destruct (can_route_locally rt k); [discriminate|].
  apply is_empty_false_iff in Hs. rewrite Hs. discriminate.
Qed.

Lemma decide_header_irrelevant_for_local r s1 s2 k :
  decide_forward r s1 k = DLocal <-> decide_forward r s2 k = DLocal.
Proof. rewrite !decide_local_iff. tauto. Qed.

(* ---- the handler switch --------------------------------------------------------------------- *)

Lemma handler_step_local r seen k :
  handler_step r seen k = StLocal <->
  match r with None => True | Some rt => can_route_locally rt k = true end.
Proof.
  unfold handler_step, decide_forward. destruct r as [rt|]; [|tauto].
  destruct (can_route_locally rt k) eqn:E; [tauto|].
  destruct (is_empty seen); cbn; [|split; discriminate].
  destruct (route rt k) eqn:Er.
  - apply route_local_iff in Er. congruence.
  - split; discriminate.
  - split; discriminate.
  - destruct (r_local rt) as [me|]; [destruct (nethttp_valid (n_id me))|]; split; discriminate.
Qed.

Lemma handler_step_marked r seen k :
  seen <> [] -> handler_step r seen k = StLocal \/ handler_step r seen k = StLoop.
Proof.
  intros Hs. unfold handler_step, decide_forward. destruct r as [rt|]; [|auto].
  destruct (can_route_locally rt k); [auto|].
  apply is_empty_false_iff in Hs. rewrite Hs. cbn. auto.
Qed.

Lemma handler_step_forward r seen k m cs :
  handler_step r seen k = StForward m cs ->
  seen = [] /\ exists rt me, r = Some rt /\ r_local rt = Some me /\ m = n_id me /\
                             nethttp_valid m = true /\ can_route_locally rt k = false /\
                             route rt k = RCandidates cs.
Proof.
  unfold handler_step, decide_forward. destruct r as [rt|]; [|discriminate].
  destruct (can_route_locally rt k) eqn:E; [discriminate|].
  destruct (is_empty seen) eqn:Es; cbn; [|discriminate].
  apply is_empty_true_iff in Es.
  destruct (route rt k) eqn:Er; try discriminate.
  destruct (r_local rt) as [me|] eqn:El; [|discriminate].
  destruct (nethttp_valid (n_id me)) eqn:Ev; [|discriminate].
  intros H. injection H as <- <-. split; [exact Es|]. exists rt, me. repeat split; auto.
Qed.

(* ---- composition over a cluster --------------------------------------------------------------- *)

(* a request that shows a marker is handled (or refused) where it arrives: never forwarded *)
Lemma serve_marked consults f ch cl a seen k h :
  seen <> [] ->
  serve consults (S f) ch cl a seen k h = Processed a h \/
  serve consults (S f) ch cl a seen k h = LoopRejected a h.
Proof.
  intros Hs. cbn [serve]. unfold endpoint_step. destruct consults; [|auto].
  destruct (handler_step_marked (a_router a) seen k Hs) as [E|E]; rewrite E; auto.
Qed.

(* whoever processes is capable - no hypothesis on the cluster, the ids, the headers, the choices *)
Lemma serve_processed_capable : forall f ch cl a seen k h a' h',
  serve true f ch cl a seen k h = Processed a' h' -> capable_here a' k = true.
Proof.
  induction f as [|f IH]; intros ch cl a seen k h a' h' H; cbn [serve] in H; [discriminate|].
  unfold endpoint_step in H.
  destruct (handler_step (a_router a) seen k) eqn:Es; try discriminate.
  - injection H as <- <-. apply handler_step_local in Es. unfold capable_here.
    destruct (a_router a); auto.
  - destruct ch as [|c ch']; [discriminate|].
    destruct (find (fun t => bytes_eqb (n_id t) c) cs) as [t|]; [|discriminate].
    destruct (deliver cl t) as [a''|]; [|discriminate].
    eapply IH; eauto.
Qed.

Definition marker_ok (a : anode) : Prop :=
  forall r me, a_router a = Some r -> r_local r = Some me -> seen_of_marker (n_id me) <> [].

Lemma serve_S consults f ch cl a seen k hops :
  serve consults (S f) ch cl a seen k hops =
  match endpoint_step consults (a_router a) seen k with
  | StLocal => Processed a hops
  | StLoop => LoopRejected a hops
  | StNoWriter => NoWriterAvail a hops
  | StNoReader => NoReaderAvail a hops
  | StPanic => Panicked a hops
  | StRouteFail => RouteFailed a hops
  | StForward marker cs =>
      match ch with
      | [] => BadChoice a hops
      | c :: ch' =>
          match find (fun t => bytes_eqb (n_id t) c) cs with
          | None => BadChoice a hops
          | Some t =>
              match deliver cl t with
              | None => RouteFailed a hops
              | Some a' => serve consults f ch' cl a' (seen_of_marker marker) k (S hops)
              end
          end
      end
  end.
Proof. reflexivity. Qed.

Lemma serve_one_hop consults f ch cl a seen k :
  marker_ok a ->
  let o := serve consults (S (S f)) ch cl a seen k 0 in
  (hops_of o <= 1)%nat /\ (forall b n, o <> OutOfFuel b n).
Proof.
  intros Hm. cbv zeta. rewrite serve_S. unfold endpoint_step.
  destruct consults; [|cbn; split; [lia|discriminate]].
  destruct (handler_step (a_router a) seen k) eqn:Es; try (cbn; split; [lia|discriminate]).
  apply handler_step_forward in Es as [_ (rt & me & Hr & Hl & Hmk & _)].
  destruct ch as [|c ch']; [cbn; split; [lia|discriminate]|].
  destruct (find (fun t => bytes_eqb (n_id t) c) cs) as [t|]; [|cbn; split; [lia|discriminate]].
  destruct (deliver cl t) as [a'|]; [|cbn; split; [lia|discriminate]].
  assert (Hs : seen_of_marker marker <> []) by (subst marker; eapply Hm; eauto).
  destruct (serve_marked true f ch' cl a' (seen_of_marker marker) k 1 Hs) as [E|E];
    rewrite E; cbn; split; try lia; discriminate.
Qed.

(* ---- liveness on a consistent cluster ----------------------------------------------------------- *)

(* node [a] is wired the way cmd/arc/main.go wires a clustered node: its handlers hold a router
   whose LocalNode carries the node's own id, which is a valid, visible header value *)
Definition wired (a : anode) (ro : role) : Prop :=
  exists r me, a_router a = Some r /\ r_local r = Some me /\ n_id me = a_id a /\ n_role me = ro /\
               nethttp_valid (a_id a) = true /\ seen_of_marker (a_id a) <> [].

(* every registry entry of [a] leads to a wired node that really has the role the entry says *)
Definition view_consistent (cl : cluster) (a : anode) : Prop :=
  forall r t, a_router a = Some r -> In t (r_reg r) ->
              exists a', deliver cl t = Some a' /\ wired a' (n_role t).

Lemma find_some_in {A} (f : A -> bool) l x : find f l = Some x -> In x l /\ f x = true.
Proof. apply find_some. Qed.

Lemma serve_consistent f ch cl a ro k :
  wired a ro -> view_consistent cl a ->
  let o := serve true (S (S f)) ch cl a [] k 0 in
  (can_serve ro k = true /\ o = Processed a 0) \/
  (can_serve ro k = false /\
   ((exists a' ro', o = Processed a' 1 /\ wired a' ro' /\ can_serve ro' k = true /\ In a' cl) \/
    o = NoWriterAvail a 0 \/ o = NoReaderAvail a 0 \/ o = BadChoice a 0)).
Proof.
  intros (r & me & Hr & Hl & Hid & Hro & Hv & Hm) Hview. cbv zeta. rewrite serve_S. unfold endpoint_step.
  assert (Hcrl : can_route_locally r k = can_serve ro k)
    by (unfold can_route_locally; rewrite Hl, Hro; reflexivity).
  destruct (handler_step (a_router a) [] k) eqn:Es.
  - apply handler_step_local in Es. rewrite Hr in Es. left. split; [congruence|reflexivity].
  - exfalso. unfold handler_step, decide_forward in Es. rewrite Hr in Es.
    destruct (can_route_locally r k); [discriminate|]. cbn in Es.
    destruct (route r k); try discriminate. rewrite Hl in Es.
    destruct (nethttp_valid (n_id me)); discriminate.
  - right. split; [|auto].
    destruct (can_serve ro k) eqn:E; [|reflexivity]. exfalso.
    assert (handler_step (a_router a) [] k = StLocal) by (apply handler_step_local; rewrite Hr; congruence).
    congruence.
  - right. split; [|auto].
    destruct (can_serve ro k) eqn:E; [|reflexivity]. exfalso.
    assert (handler_step (a_router a) [] k = StLocal) by (apply handler_step_local; rewrite Hr; congruence).
    congruence.
  - exfalso. unfold handler_step, decide_forward in Es. rewrite Hr in Es.
    destruct (can_route_locally r k); [discriminate|]. cbn in Es.
    destruct (route r k); try discriminate. rewrite Hl in Es.
    destruct (nethttp_valid (n_id me)); discriminate.
  - exfalso. unfold handler_step, decide_forward in Es. rewrite Hr in Es.
    destruct (can_route_locally r k); [discriminate|]. cbn in Es.
    destruct (route r k); try discriminate. rewrite Hl in Es. rewrite Hid, Hv in Es. discriminate.
  - right. apply handler_step_forward in Es as [_ (rt & me' & Hr' & Hl' & Hmk & _ & Hno & Hroute)].
    rewrite Hr in Hr'. injection Hr' as <-. rewrite Hl in Hl'. injection Hl' as <-.
    split; [congruence|].
    destruct ch as [|c ch']; [auto|].
    destruct (find (fun t => bytes_eqb (n_id t) c) cs) as [t|] eqn:Ef; [|auto].
    apply find_some_in in Ef as [Hin _].
    destruct (route_candidates_capable r k cs t Hroute Hin) as (Hcap & _ & Hreg).
    destruct (Hview r t Hr Hreg) as (a' & Hd & Hw'). rewrite Hd.
    left. exists a', (n_role t).
    assert (Hin' : In a' cl) by (unfold deliver in Hd; apply find_some in Hd; tauto).
    destruct Hw' as (r' & me' & Hr' & Hl' & Hid' & Hro' & Hv' & Hm').
    assert (Hstep : handler_step (a_router a') (seen_of_marker marker) k = StLocal).
    { apply handler_step_local. rewrite Hr'. unfold can_route_locally. rewrite Hl', Hro'. exact Hcap. }
    rewrite serve_S. unfold endpoint_step. rewrite Hstep.
    repeat split; auto. exists r', me'. repeat split; auto.
Qed.

(* ---- an endpoint that never consults the decision ------------------------------------------------ *)

Lemma serve_unrouted f ch cl a seen k h : serve false (S f) ch cl a seen k h = Processed a h.
Proof. reflexivity. Qed.
