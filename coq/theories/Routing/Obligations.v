(* C30 obligations on the parameters regenerated from /repo on every run
   (coq/gen/Params_Routing.v, written by tools/props/C30.py through tools/goast and the Go
   compiler):
     - the role -> capability table of role.go is the one the proofs were done for;
     - every registered write / query / import endpoint reaches the routing decision, except
       the endpoints pinned below (open known findings; each is re-confirmed on the real
       handlers by the harness on every run);
     - every handler type that owns a consulting endpoint gets the router in cmd/arc/main.go. *)
From Coq Require Import List NArith Bool String.
From Arc Require Import Routing.Model Routing.Proofs Routing.Props.
From ArcGen Require Import Params_Routing.
Import ListNotations.
Open Scope string_scope.

(* ---- capability table ------------------------------------------------------------------- *)

Definition role_of_const (c : string) : option role :=
  if String.eqb c "RoleStandalone" then Some Standalone
  else if String.eqb c "RoleWriter" then Some Writer
  else if String.eqb c "RoleReader" then Some Reader
  else if String.eqb c "RoleCompactor" then Some Compactor
  else None.

(* the columns the routing proofs depend on: CanIngest and CanQuery *)
Definition row_ok (row : string * string * bool * bool * bool * bool) : bool :=
  let '(c, _, ing, qry, _, _) := row in
  match role_of_const c with
  | Some r => Bool.eqb ing (can_ingest (capabilities r)) && Bool.eqb qry (can_query (capabilities r))
  | None => false          (* a role constant the model does not know *)
  end.

Definition covers (c : string) : bool :=
  existsb (fun row : string * string * bool * bool * bool * bool => let '(c', _, _, _, _, _) := row in String.eqb c c') role_table.

Definition unknown_ok (u : bool * bool * bool * bool) : bool :=
  let '(ing, qry, _, _) := u in
  Bool.eqb ing (can_ingest (capabilities OtherRole)) && Bool.eqb qry (can_query (capabilities OtherRole)).

Theorem C30_capability_table :
  forallb row_ok role_table = true /\
  forallb covers ["RoleStandalone"; "RoleWriter"; "RoleReader"; "RoleCompactor"] = true /\
  unknown_role_caps <> [] /\ forallb unknown_ok unknown_role_caps = true.
Proof. vm_compute. repeat split; try reflexivity; discriminate. Qed.
Print Assumptions C30_capability_table.

(* ---- endpoints ---------------------------------------------------------------------------- *)

Definition ep_name (e : string * string * string * bool * bool) : string := let '(n, _, _, _, _) := e in n.
Definition ep_type (e : string * string * string * bool * bool) : string := let '(_, t, _, _, _) := e in t.
Definition ep_is_write (e : string * string * string * bool * bool) : bool := let '(_, _, _, w, _) := e in w.
Definition ep_consults (e : string * string * string * bool * bool) : bool := let '(_, _, _, _, c) := e in c.
Definition ep_kind_of (e : string * string * string * bool * bool) : kind := if ep_is_write e then KWrite else KQuery.

Definition mem (s : string) (l : list string) : bool := existsb (String.eqb s) l.

(* OPEN known findings (known_findings/C30.json, signature "unrouted-endpoint:<METHOD route>"):
   endpoints whose handler never consults the routing decision.  Empty since /repo 1a7376f
   routed the import / estimate / measurement / Arrow endpoints (8 findings, now fixed). *)
Definition known_unrouted : list string := [].

Theorem C30_endpoints_consult_or_known :
  endpoints <> [] /\
  forallb (fun e => ep_consults e || mem (ep_name e) known_unrouted) endpoints = true.
Proof. vm_compute. split; [discriminate|reflexivity]. Qed.
Print Assumptions C30_endpoints_consult_or_known.

Theorem C30_consulting_handlers_wired :
  forallb (fun e => negb (ep_consults e) || mem (ep_type e) router_wired) endpoints = true.
Proof. vm_compute. reflexivity. Qed.
Print Assumptions C30_consulting_handlers_wired.

(* the deployed endpoints that consult the decision enjoy the theorems (instantiation) *)
Theorem C30_deployed_routed_endpoints : forall e, In e endpoints -> ep_consults e = true ->
  forall fuel ch cl a hdrs,
    (forall a' h, serve_client (ep_consults e) fuel ch cl a hdrs (ep_kind_of e) = Processed a' h ->
                  capable_here a' (ep_kind_of e) = true) /\
    (marker_ok a ->
     (hops_of (serve_client (ep_consults e) (S (S fuel)) ch cl a hdrs (ep_kind_of e)) <= 1)%nat).
Proof.
  intros e _ Hc fuel ch cl a hdrs. rewrite Hc. split.
  - intros a' h H. eapply C30_processor_capable; eauto.
  - intros Hm. apply (C30_one_hop true fuel ch cl a hdrs (ep_kind_of e) Hm).
Qed.
Print Assumptions C30_deployed_routed_endpoints.

(* ... and the ones that do not are served by whatever node receives them *)
Theorem C30_deployed_unrouted_endpoints : forall e, In e endpoints -> ep_consults e = false ->
  forall fuel ch cl a hdrs,
    serve_client (ep_consults e) (S fuel) ch cl a hdrs (ep_kind_of e) = Processed a 0.
Proof. intros e _ Hc fuel ch cl a hdrs. rewrite Hc. apply C30_unrouted_endpoint_refuted. Qed.
Print Assumptions C30_deployed_unrouted_endpoints.
