(* C30 - Requests are served by a capable node after at most one forward.
   Only property statements live here; proofs are in Proofs.v.

   Reading guide.  [serve consults fuel ch cl a seen k hops] runs the handler of an endpoint
   on node [a] of cluster [cl] for a request of kind [k] whose X-Arc-Forwarded-By header is
   seen as [seen]; when the handler forwards, the request enters the same handler on the
   chosen target.  [ch] is the list of target ids chosen by the load balancer (ANY list:
   map iteration order, round robin and least-connections are all covered), [cl] is ANY list
   of nodes with ANY registry views (they need not agree with each other or with reality),
   [consults = true] for an endpoint whose handler performs the routing switch. *)
From Coq Require Import List NArith Bool Lia.
From Arc Require Import Routing.Model Routing.Proofs.
Import ListNotations.
Open Scope N_scope.

(* At most one forward, for clusters of any size and any registry contents, any client
   headers, any target choices: the only hypothesis is that the id of the node the client
   talks to survives as a header value (it contains a byte other than space / tab). *)
Theorem C30_one_hop : forall consults fuel ch cl a hdrs k,
  marker_ok a ->
  let o := serve_client consults (S (S fuel)) ch cl a hdrs k in
  (hops_of o <= 1)%nat /\ (forall b n, o <> OutOfFuel b n).
Proof. intros. apply serve_one_hop. assumption. Qed.
Print Assumptions C30_one_hop.

(* The node that processes the request is capable: its handlers have no router (clustering
   off: a standalone deployment) or its own role can serve the request kind.  No hypothesis
   on the cluster, the views, the ids, the headers, the choices, the fuel. *)
Theorem C30_processor_capable : forall fuel ch cl a hdrs k a' h,
  serve_client true fuel ch cl a hdrs k = Processed a' h -> capable_here a' k = true.
Proof. intros. eapply serve_processed_capable; eauto. Qed.
Print Assumptions C30_processor_capable.

(* A request that arrives with a (non-blank) forwarded-by marker is never forwarded again:
   it is processed or refused with 508 on the node where it arrived. *)
Theorem C30_forwarded_never_reforwarded : forall consults fuel ch cl a seen k h,
  seen <> [] ->
  (serve consults (S fuel) ch cl a seen k h = Processed a h \/
   serve consults (S fuel) ch cl a seen k h = LoopRejected a h) /\
  decide_forward (a_router a) seen k <> DToPeer.
Proof.
  intros. split; [apply serve_marked; assumption|apply decide_marked_never_forwards; assumption].
Qed.
Print Assumptions C30_forwarded_never_reforwarded.

(* Whatever forwarding headers the client sends, a node whose role cannot serve the request
   never processes it locally ... *)
Theorem C30_header_cannot_force_local : forall fuel ch cl a hdrs k h,
  capable_here a k = false ->
  serve_client true fuel ch cl a hdrs k <> Processed a h /\
  decide_forward (a_router a) (seen_of_client hdrs) k <> DLocal.
Proof.
  intros fuel ch cl a hdrs k h Hc. split.
  - intros H. apply C30_processor_capable in H. congruence.
  - intros H. apply decide_local_iff in H. unfold capable_here in Hc.
    destruct (a_router a); [congruence|discriminate].
Qed.
Print Assumptions C30_header_cannot_force_local.

(* ... and on a node that can serve it the headers have no effect at all. *)
Theorem C30_header_irrelevant_when_capable : forall fuel ch cl a hdrs k,
  capable_here a k = true -> serve_client true (S fuel) ch cl a hdrs k = Processed a 0.
Proof.
  intros fuel ch cl a hdrs k Hc. unfold serve_client. rewrite serve_S. unfold endpoint_step.
  assert (H : handler_step (a_router a) (seen_of_client hdrs) k = StLocal).
  { apply handler_step_local. unfold capable_here in Hc. destruct (a_router a); auto. }
  rewrite H. reflexivity.
Qed.
Print Assumptions C30_header_irrelevant_when_capable.

(* Target selection only ever offers healthy registry entries whose role can serve the request. *)
Theorem C30_targets_capable : forall r k cs t,
  route r k = RCandidates cs -> In t cs ->
  can_serve (n_role t) k = true /\ is_healthy t = true /\ In t (r_reg r).
Proof. exact route_candidates_capable. Qed.
Print Assumptions C30_targets_capable.

(* On a cluster whose registry entries tell the truth about roles, a genuine client request
   (no marker) is served where it arrives if that node is capable, and otherwise forwarded
   exactly once to a capable peer that processes it - or refused because no healthy capable
   peer is registered.  Never a loop error, a panic, a transport failure, or a second hop. *)
Theorem C30_served_by_capable_node : forall fuel ch cl a ro k,
  wired a ro -> view_consistent cl a ->
  let o := serve true (S (S fuel)) ch cl a [] k 0 in
  (can_serve ro k = true /\ o = Processed a 0) \/
  (can_serve ro k = false /\
   ((exists a' ro', o = Processed a' 1 /\ wired a' ro' /\ can_serve ro' k = true /\ In a' cl) \/
    o = NoWriterAvail a 0 \/ o = NoReaderAvail a 0 \/ o = BadChoice a 0)).
Proof. intros. apply serve_consistent; assumption. Qed.
Print Assumptions C30_served_by_capable_node.

(* Why the obligation "every write / query / import handler consults the decision" matters: a
   handler that never performs the routing switch processes the request on ANY node, with ANY
   role.  No registered endpoint is in this class on the current tree (Obligations.v recomputes
   the class from the source on every run; 8 endpoints were, before /repo 1a7376f). *)
Theorem C30_unrouted_endpoint_refuted : forall fuel ch cl a hdrs k,
  serve_client false (S fuel) ch cl a hdrs k = Processed a 0.
Proof. reflexivity. Qed.
Print Assumptions C30_unrouted_endpoint_refuted.

(* ---- non-vacuity ---------------------------------------------------------------------------- *)

Definition ex_id (c : N) : bytes := [110; c].          (* "n0", "n1", ... *)
Definition ex_entry (i : N) (r : role) (w : wstate) (s : nstate) : node :=
  {| n_id := ex_id i; n_role := r; n_ws := w; n_state := s |}.
Definition ex_view : list node :=
  [ex_entry 48 Reader WNone SHealthy; ex_entry 49 Writer WStandby SHealthy;
   ex_entry 50 Compactor WNone SHealthy; ex_entry 51 Writer WPrimary SUnhealthy].
Definition ex_anode (i : N) (r : role) : anode :=
  {| a_id := ex_id i;
     a_router := Some {| r_local := Some (ex_entry i r WNone SHealthy); r_reg := ex_view |} |}.
Definition ex_cluster : cluster :=
  [ex_anode 48 Reader; ex_anode 49 Writer; ex_anode 50 Compactor; ex_anode 51 Writer].

(* a four-node cluster meeting every hypothesis of C30_one_hop and C30_served_by_capable_node:
   a write sent to the reader is forwarded once to the (healthy, standby) writer n1 - the
   unhealthy primary n3 is not a candidate - and processed there; a query sent to the
   compactor goes to the reader *)
Example C30_nonvacuous_forward :
  wired (ex_anode 48 Reader) Reader /\ view_consistent ex_cluster (ex_anode 48 Reader) /\
  marker_ok (ex_anode 48 Reader) /\
  serve_client true 2 [ex_id 49] ex_cluster (ex_anode 48 Reader) [] KWrite = Processed (ex_anode 49 Writer) 1 /\
  serve_client true 2 [ex_id 51] ex_cluster (ex_anode 48 Reader) [] KWrite = BadChoice (ex_anode 48 Reader) 0 /\
  serve_client true 2 [ex_id 48] ex_cluster (ex_anode 50 Compactor) [] KQuery = Processed (ex_anode 48 Reader) 1 /\
  serve_client true 2 [] ex_cluster (ex_anode 48 Reader) [[32; 120]] KWrite = LoopRejected (ex_anode 48 Reader) 0.
Proof.
  repeat split; try reflexivity.
  - exists {| r_local := Some (ex_entry 48 Reader WNone SHealthy); r_reg := ex_view |}, (ex_entry 48 Reader WNone SHealthy).
    repeat split; try reflexivity. cbv. discriminate.
  - intros r t Hr Hin. cbn in Hr. injection Hr as <-. cbn in Hin.
    destruct Hin as [<-|[<-|[<-|[<-|[]]]]].
    + exists (ex_anode 48 Reader). split; [reflexivity|].
      exists {| r_local := Some (ex_entry 48 Reader WNone SHealthy); r_reg := ex_view |}, (ex_entry 48 Reader WNone SHealthy).
      repeat split; try reflexivity. cbv. discriminate.
    + exists (ex_anode 49 Writer). split; [reflexivity|].
      exists {| r_local := Some (ex_entry 49 Writer WNone SHealthy); r_reg := ex_view |}, (ex_entry 49 Writer WNone SHealthy).
      repeat split; try reflexivity. cbv. discriminate.
    + exists (ex_anode 50 Compactor). split; [reflexivity|].
      exists {| r_local := Some (ex_entry 50 Compactor WNone SHealthy); r_reg := ex_view |}, (ex_entry 50 Compactor WNone SHealthy).
      repeat split; try reflexivity. cbv. discriminate.
    + exists (ex_anode 51 Writer). split; [reflexivity|].
      exists {| r_local := Some (ex_entry 51 Writer WNone SHealthy); r_reg := ex_view |}, (ex_entry 51 Writer WNone SHealthy).
      repeat split; try reflexivity. cbv. discriminate.
  - intros r me Hr Hl. cbn in Hr. injection Hr as <-. cbn in Hl. injection Hl as <-. cbv. discriminate.
Qed.

(* the excluded class of C30_unrouted_endpoint_refuted is harmful: a reader processes a write,
   a compactor processes a query *)
Example C30_unrouted_witness :
  capable_here (ex_anode 48 Reader) KWrite = false /\
  serve_client false 2 [] ex_cluster (ex_anode 48 Reader) [] KWrite = Processed (ex_anode 48 Reader) 0 /\
  capable_here (ex_anode 50 Compactor) KQuery = false /\
  serve_client false 2 [] ex_cluster (ex_anode 50 Compactor) [] KQuery = Processed (ex_anode 50 Compactor) 0.
Proof. repeat split; reflexivity. Qed.

(* capability is a function of the role only: a writer in STANDBY (or PRIMARY) writer state serves
   a write locally with or without a marker - it is the target a reader picks when no healthy
   primary is registered, so it must not answer 508 to the forwarded request *)
Example C30_standby_writer_serves :
  let sb := {| a_id := ex_id 49;
               a_router := Some {| r_local := Some (ex_entry 49 Writer WStandby SHealthy); r_reg := ex_view |} |} in
  capable_here sb KWrite = true /\
  serve_client true 2 [] ex_cluster sb [] KWrite = Processed sb 0 /\
  serve_client true 2 [] ex_cluster sb [ex_id 48] KWrite = Processed sb 0 /\
  serve true 2 [] ex_cluster sb (seen_of_marker (ex_id 48)) KWrite 1 = Processed sb 1.
Proof. repeat split; reflexivity. Qed.

(* the hypothesis of C30_one_hop is needed: two nodes with blank ids (" " and tab) whose
   registries wrongly list each other as writers bounce a write until the fuel runs out *)
Definition blank_node (id other : bytes) : anode :=
  {| a_id := id;
     a_router := Some {| r_local := Some {| n_id := id; n_role := Reader; n_ws := WNone; n_state := SHealthy |};
                         r_reg := [{| n_id := other; n_role := Writer; n_ws := WNone; n_state := SHealthy |}] |} |}.
Example C30_blank_marker_loops :
  let a := blank_node [32] [9] in let b := blank_node [9] [32] in
  ~ marker_ok a /\
  serve_client true 6 [[9]; [32]; [9]; [32]; [9]; [32]] [a; b] a [] KWrite = OutOfFuel a 6.
Proof.
  split; [|reflexivity].
  intros H. eapply H; reflexivity.
Qed.
