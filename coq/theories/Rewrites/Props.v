(* C17 - Performance rewrites do not change query results.
   Only property statements live here; proofs are in Proofs.v.  The definitions the statements
   are about (Model.v) are the ones the correspondence evaluates against the Go rewrite
   functions and a real DuckDB on every run. *)
From Coq Require Import List ZArith NArith Bool String Lia.
From Arc Require Import Rewrites.Model Rewrites.Proofs.
Import ListNotations.
Open Scope Z_scope.

(* ------------------------------------------------------------------------------------ *)
(* time_bucket / date_trunc -> epoch arithmetic                                          *)
(* ------------------------------------------------------------------------------------ *)

(* 2-argument time_bucket: for EVERY amount, unit and timestamp the rewritten expression has
   DuckDB's value, provided (1) the width divides the gap between DuckDB's origin (Monday
   2000-01-03) and the Unix epoch, (2) the timestamp is not before 1970 (`//` truncates toward
   zero), (3) its sub-second part is below half a second (`::BIGINT` rounds to nearest).
   (n * unit < 2^63: the Go multiplication does not wrap.) *)
Theorem C17_time_bucket_eq : forall n u t,
  u <> UMonth -> 0 < n -> n * unit_seconds u < 2 ^ 63 ->
  default_origin_s mod (n * unit_seconds u) = 0 ->
  0 <= t -> subsecond t < 500000 ->
  rewritten_value (TB2 n u) t = eval_orig (TB2 n u) t.
Proof. exact time_bucket2_eq. Qed.
Print Assumptions C17_time_bucket_eq.

(* 3-argument form: the origin is the same on both sides when it has no fractional second;
   then only rounding and truncation remain. *)
Theorem C17_time_bucket_origin_eq : forall n u o t,
  u <> UMonth -> 0 < n -> n * unit_seconds u < 2 ^ 63 ->
  o mod MICROS = 0 -> o <= t -> subsecond t < 500000 ->
  rewritten_value (TB3 n u o) t = eval_orig (TB3 n u o) t.
Proof. exact time_bucket3_eq. Qed.
Print Assumptions C17_time_bucket_origin_eq.

Theorem C17_date_trunc_eq : forall u t,
  u = USecond \/ u = UMinute \/ u = UHour \/ u = UDay ->
  0 <= t -> subsecond t < 500000 ->
  rewritten_value (DT u) t = eval_orig (DT u) t.
Proof. exact date_trunc_eq. Qed.
Print Assumptions C17_date_trunc_eq.

(* month widths are left to DuckDB (the emitted text is the original text) *)
Theorem C17_month_unrewritten : forall n o,
  rewrite_texpr (TB2 n UMonth) = EUnch /\ rewrite_texpr (TB3 n UMonth o) = EUnch /\ rewrite_texpr (DT UMonth) = EUnch.
Proof. exact month_unrewritten. Qed.
Print Assumptions C17_month_unrewritten.

(* the third hypothesis, exactly: epoch(t)::BIGINT is floor(t / 1e6) iff the sub-second part is
   below .5 s, or equal to .5 s with an even second (round half to even) *)
Theorem C17_rounding_exact : forall t,
  epoch_bigint t = t / MICROS <->
  (subsecond t < 500000 \/ (subsecond t = 500000 /\ Z.even (t / MICROS) = true)).
Proof. exact rounds_down_iff. Qed.
Print Assumptions C17_rounding_exact.

(* Dropping hypothesis (1): the rewrite is wrong on EVERY row. *)
Theorem C17_origin_class_refuted : forall n u t,
  u <> UMonth -> 0 < n -> n * unit_seconds u < 2 ^ 63 ->
  default_origin_s mod (n * unit_seconds u) <> 0 ->
  rewritten_value (TB2 n u) t <> eval_orig (TB2 n u) t.
Proof. exact origin_class_refuted. Qed.
Print Assumptions C17_origin_class_refuted.

(* ... in particular for every number of weeks (Monday vs Thursday buckets) ... *)
Theorem C17_week_refuted : forall n t, 0 < n -> n * 604800 < 2 ^ 63 ->
  rewritten_value (TB2 n UWeek) t <> eval_orig (TB2 n UWeek) t.
Proof. exact week_refuted. Qed.
Print Assumptions C17_week_refuted.

(* ... and for date_trunc('week', ts). *)
Theorem C17_date_trunc_week_refuted : forall t, rewritten_value (DT UWeek) t <> eval_orig (DT UWeek) t.
Proof. exact date_trunc_week_refuted. Qed.
Print Assumptions C17_date_trunc_week_refuted.

(* An origin with a fractional second (Go's time.Parse accepts one in every layout) is no longer
   rewritten since 10b4db8: the call is left to DuckDB, so its value is DuckDB's on every row. *)
Theorem C17_origin_fraction_unrewritten : forall n u o t,
  o mod MICROS <> 0 ->
  rewrite_texpr (TB3 n u o) = EUnch /\ rewritten_value (TB3 n u o) t = eval_orig (TB3 n u o) t.
Proof.
  intros n u o t H. pose proof (origin_fraction_unrewritten n u o H) as E.
  split; [exact E|apply unrewritten_eq; exact E].
Qed.
Print Assumptions C17_origin_fraction_unrewritten.

(* Why the guard is needed (regression witness of the fixed finding): the epoch arithmetic around
   the truncated origin, which the code emitted before, is wrong on EVERY row. *)
Theorem C17_origin_fraction_guard_needed : forall n u o t,
  u <> UMonth -> 0 < n -> n * unit_seconds u < 2 ^ 63 -> o mod MICROS <> 0 ->
  eval_emitted (E3 (o / MICROS) (o / MICROS) (n * unit_seconds u) (n * unit_seconds u)) (TB3 n u o) t
  <> eval_orig (TB3 n u o) t.
Proof. exact origin_fraction_would_differ. Qed.
Print Assumptions C17_origin_fraction_guard_needed.

(* Dropping hypothesis (3): 2024-01-10 00:59:59.6, date_trunc('hour'): DuckDB 00:00, rewrite 01:00;
   every other hypothesis holds. *)
Theorem C17_subsecond_refuted :
  exists t, 0 <= t /\ 500000 <= subsecond t /\
            eval_orig (DT UHour) t = Some 1704844800000000 /\
            rewritten_value (DT UHour) t = Some 1704848400000000.
Proof. exists 1704848399600000. vm_compute. repeat split; intro; discriminate. Qed.
Print Assumptions C17_subsecond_refuted.

(* Dropping hypothesis (2): 1969-12-31 23:30:00, 1-hour buckets: DuckDB 23:00, rewrite 1970-01-01 00:00. *)
Theorem C17_pre_epoch_refuted :
  exists t, t < 0 /\ subsecond t < 500000 /\ default_origin_s mod (1 * unit_seconds UHour) = 0 /\
            eval_orig (TB2 1 UHour) t = Some (-3600000000) /\
            rewritten_value (TB2 1 UHour) t = Some 0.
Proof. exists (-1800000000). vm_compute. repeat split; reflexivity. Qed.
Print Assumptions C17_pre_epoch_refuted.

(* Same for the 3-argument form with a timestamp before the origin (2024-01-01 00:30). *)
Theorem C17_before_origin_refuted :
  exists o t, o mod MICROS = 0 /\ 0 <= t < o /\ subsecond t < 500000 /\
              eval_orig (TB3 1 UHour o) t <> rewritten_value (TB3 1 UHour o) t.
Proof. exists 1704069000000000, 1704067200000000. vm_compute. repeat split; try reflexivity; intro; discriminate. Qed.
Print Assumptions C17_before_origin_refuted.

(* non-vacuity of the guarded theorems: concrete instances meeting every hypothesis, with
   non-trivial values (not on a bucket boundary) *)
Example C17_time_bucket_eq_nonvacuous :
  UHour <> UMonth /\ 0 < 4 /\ 4 * unit_seconds UHour < 2 ^ 63 /\ default_origin_s mod (4 * unit_seconds UHour) = 0 /\
  0 <= 1704848399400000 /\ subsecond 1704848399400000 < 500000 /\
  rewritten_value (TB2 4 UHour) 1704848399400000 = Some 1704844800000000.
Proof. vm_compute. repeat split; try reflexivity; intro; discriminate. Qed.

Example C17_time_bucket_origin_eq_nonvacuous :
  1704069000000000 mod MICROS = 0 /\ 1704069000000000 <= 1704848399400000 /\
  rewritten_value (TB3 7 UHour 1704069000000000) 1704848399400000 = Some 1704825000000000 /\
  eval_orig (TB3 7 UHour 1704069000000000) 1704848399400000 = Some 1704825000000000.
Proof. vm_compute. repeat split; try reflexivity; intro; discriminate. Qed.

Example C17_origin_class_nonempty :   (* 7 hours, 7 seconds, 64 minutes, 16 hours do not divide the gap *)
  default_origin_s mod (7 * 3600) <> 0 /\ default_origin_s mod 7 <> 0 /\
  default_origin_s mod (64 * 60) <> 0 /\ default_origin_s mod (16 * 3600) <> 0.
Proof. vm_compute. repeat split; intro; discriminate. Qed.

(* ------------------------------------------------------------------------------------ *)
(* URL-domain extraction                                                                 *)
(* ------------------------------------------------------------------------------------ *)

(* REGEXP_REPLACE(col, '^https?://(?:www\.)?([^/]+)/.*$', '\1'): on EVERY well-formed URL
   scheme://[www.]host/path (host non-empty without '/', path without newline) the CASE
   expression returns what the regular expression returns, namely the host. *)
Theorem C17_url_canonical_replace_eq : forall sch w host path,
  (sch = B "http://" \/ sch = B "https://") ->
  (w = B "www." \/ (w = [] /\ prefixb (B "www.") host = false)) ->
  host <> [] -> ~ In 47%N host -> ~ In 10%N path ->
  let s := sch ++ w ++ host ++ 47%N :: path in
  re_replace1 canon_replace_re s = url_case s /\ url_case s = host.
Proof. exact url_canonical_replace_eq. Qed.
Print Assumptions C17_url_canonical_replace_eq.

(* REGEXP_EXTRACT(col, '^https?://(?:www\.)?([^/]+)', 1): same, the URL may end after the host *)
Theorem C17_url_canonical_extract_eq : forall sch w host tail,
  (sch = B "http://" \/ sch = B "https://") ->
  (w = B "www." \/ (w = [] /\ prefixb (B "www.") host = false)) ->
  host <> [] -> ~ In 47%N host ->
  match tail with [] => True | y :: _ => y = 47%N end ->
  let s := sch ++ w ++ host ++ tail in
  re_extract1 canon_extract_re s = url_case s /\ url_case s = host.
Proof. exact url_canonical_extract_eq. Qed.
Print Assumptions C17_url_canonical_extract_eq.

(* Outside the well-formed class: for ANY pattern, every string that the pattern does not match
   and that contains '/' is changed by the rewrite (regexp_replace returns its input, the CASE
   expression never returns a '/'). *)
Theorem C17_url_nonmatching_refuted : forall r s,
  rsearch r s = None -> In 47%N s -> re_replace1 r s <> url_case s.
Proof. exact url_nonmatching_refuted. Qed.
Print Assumptions C17_url_nonmatching_refuted.

Example C17_url_nonmatching_witness :
  rsearch canon_replace_re (B "a/b") = None /\ In 47%N (B "a/b") /\
  re_replace1 canon_replace_re (B "a/b") = B "a/b" /\ url_case (B "a/b") = B "a" /\
  re_extract1 canon_extract_re (B "a/b") = [] .
Proof. vm_compute. repeat split; try reflexivity. right; left; reflexivity. Qed.

(* The trigger is "the pattern text contains https and [^/]": '^https?://([^/]+)' (no www group)
   is rewritten to the same CASE although its value differs on a matching URL. *)
Theorem C17_url_pattern_refuted :
  url_trigger (B "^https?://([^/]+)") = true /\
  re_extract1 nowww_extract_re (B "https://www.x.com/p") = B "www.x.com" /\
  url_case (B "https://www.x.com/p") = B "x.com".
Proof. vm_compute. repeat split; reflexivity. Qed.
Print Assumptions C17_url_pattern_refuted.

(* Even the canonical pattern differs when nothing follows "www.": the regular expression
   backtracks and captures "www.", the CASE strips it. *)
Theorem C17_url_empty_host_refuted :
  re_replace1 canon_replace_re (B "http://www./x") = B "www." /\ url_case (B "http://www./x") = [] /\
  re_extract1 canon_extract_re (B "http://www.") = B "www." /\ url_case (B "http://www.") = [].
Proof. vm_compute. repeat split; reflexivity. Qed.
Print Assumptions C17_url_empty_host_refuted.

Example C17_url_canonical_nonvacuous :
  let s := B "https://" ++ B "www." ++ B "example.com" ++ 47%N :: B "a/b?c=1" in
  re_replace1 canon_replace_re s = B "example.com" /\ url_case s = B "example.com" /\
  re_extract1 canon_extract_re (B "http://sub.d.org") = B "sub.d.org" /\ url_case (B "http://sub.d.org") = B "sub.d.org".
Proof. vm_compute. repeat split; reflexivity. Qed.

(* ------------------------------------------------------------------------------------ *)
(* LIKE / empty-string predicate reordering                                              *)
(* ------------------------------------------------------------------------------------ *)

(* OptimizeLikePatterns (since e6f4be8: the trailing empty check is not moved across the word OR,
   and `col <> ''` is not recognised inside a literal that starts with a quote) keeps the
   three-valued result of EVERY WHERE clause - any mix of AND / OR / NOT / parentheses over the
   five atom kinds - on EVERY row, hence the filter decision. *)
Theorem C17_like_sound : forall r cl tail wrap,
  eval_clause r (optimize cl tail wrap) = eval_clause r cl /\ keeps r (optimize cl tail wrap) = keeps r cl.
Proof. intros. split; [apply optimize_sound|apply keeps_sound]. Qed.
Print Assumptions C17_like_sound.

(* both reorderings separately *)
Theorem C17_like_opt1_sound : forall r cl, eval_clause r (opt1 cl) = eval_clause r cl.
Proof. exact opt1_sound. Qed.
Print Assumptions C17_like_opt1_sound.

Theorem C17_like_opt2_sound : forall r cl, eval_clause r (opt2 cl) = eval_clause r cl.
Proof. exact opt2_sound. Qed.
Print Assumptions C17_like_opt2_sound.

(* regression witnesses of the two fixed findings: the clauses that used to be rewritten wrongly
   are now left alone (OR) resp. not matched (literal starting with a quote) *)
Definition like_or_clause : clause :=
  [[{| f_negs := 0; f_body := FAtom (ALike 0 "x") |}];
   [{| f_negs := 0; f_body := FAtom (AEq 1 "1") |}; {| f_negs := 0; f_body := FAtom (ANonEmpty 2) |}]].
Definition like_or_row : row := [Some "x"%string; Some "0"%string; Some ""%string; None; None].
Definition like_quote_clause : clause :=
  [[{| f_negs := 0; f_body := FAtom (ALike 0 "p") |}; {| f_negs := 0; f_body := FAtom (ANe 2 "'x") |}]].
Definition like_quote_row : row := [Some "p"%string; None; Some "z"%string; None; None].

Example C17_like_regression_witnesses :
  print_query like_or_clause 0 0 = B "SELECT id FROM r WHERE a LIKE 'x' OR b = '1' AND c <> ''" /\
  optimize like_or_clause 0 0 = like_or_clause /\ keeps like_or_row like_or_clause = true /\
  print_query like_quote_clause 0 0 = B "SELECT id FROM r WHERE a LIKE 'p' AND c <> '''x'" /\
  optimize like_quote_clause 0 0 = like_quote_clause /\ keeps like_quote_row like_quote_clause = true.
Proof. vm_compute. repeat split; reflexivity. Qed.

Example C17_like_sound_nonvacuous :     (* clauses that ARE reordered: an AND chain with a negated OR tree, on a row with a NULL *)
  let ch := [{| f_negs := 0; f_body := FAtom (ALike 0 "%x%") |};
             {| f_negs := 1; f_body := FAtom (AIsNull 3) |};
             {| f_negs := 0; f_body := FAtom (ANonEmpty 2) |}] in
  print_query (optimize [ch] 1 0) 1 0 = B "SELECT id FROM r WHERE c <> '' AND a LIKE '%x%' AND NOT d IS NULL ORDER BY id" /\
  eval_clause [Some "axc"%string; None; None; Some "z"%string; None] [ch] = None.
Proof. vm_compute. repeat split; reflexivity. Qed.

Example C17_date_trunc_eq_nonvacuous :
  0 <= 1704848399400000 /\ subsecond 1704848399400000 < 500000 /\
  rewritten_value (DT UDay) 1704848399400000 = Some 1704844800000000 /\
  eval_orig (DT UDay) 1704848399400000 = Some 1704844800000000.
Proof. vm_compute. repeat split; try reflexivity; intro; discriminate. Qed.

(* groups and wrapped statements: the trailing check stays inside NOT ( ... ) and inside a derived
   table, where it is followed by ')' and not by a clause terminator *)
Example C17_like_group_untouched :
  let g := {| f_negs := 1; f_body := FGroup false [{| g_negs := 0; g_atom := ALike 0 "%x%" |}; {| g_negs := 0; g_atom := ANonEmpty 2 |}] |} in
  print_query [[g]] 0 0 = B "SELECT id FROM r WHERE NOT (a LIKE '%x%' AND c <> '')" /\
  optimize [[g]] 0 0 = [[g]] /\
  print_query (optimize [[{| f_negs := 0; f_body := FAtom (AEq 1 "1") |}; {| f_negs := 0; f_body := FAtom (ALike 0 "x%") |}; {| f_negs := 0; f_body := FAtom (ANonEmpty 2) |}]] 1 1) 1 1
    = B "SELECT id FROM (SELECT * FROM r WHERE b = '1' AND a LIKE 'x%' AND c <> '') t ORDER BY id".
Proof. vm_compute. repeat split; reflexivity. Qed.
