(* C17 - proofs about the rewrite model (Model.v). *)
From Coq Require Import List ZArith NArith Bool String Ascii Lia ZifyBool.
From Arc Require Import Rewrites.Model.
Import ListNotations.
Open Scope Z_scope.

(* ==================================================================================== *)
(* 1. time_bucket / date_trunc                                                           *)
(* ==================================================================================== *)

Lemma wrap64_small : forall x, 0 <= x < 2 ^ 63 -> wrap64 x = x.
Proof.
  intros x H. unfold wrap64.
  replace ((x + 2 ^ 63) mod 2 ^ 64) with (x + 2 ^ 63); [lia|].
  symmetry. apply Z.mod_small. lia.
Qed.

Lemma interval_small : forall n u, 0 <= n -> n * unit_seconds u < 2 ^ 63 -> u <> UMonth ->
  interval_to_seconds n u = n * unit_seconds u.
Proof.
  intros n u Hn Hb Hu. unfold interval_to_seconds.
  assert (1 <= unit_seconds u) by (destruct u; cbn; try lia; congruence).
  assert (n < 2 ^ 63) by nia.
  destruct (2 ^ 63 <=? n) eqn:E; [lia|].
  apply wrap64_small. nia.
Qed.

Lemma unit_seconds_pos : forall u, u <> UMonth -> 1 <= unit_seconds u.
Proof. destruct u; cbn; try lia; congruence. Qed.

Lemma rounds_down_subsecond : forall t, subsecond t < 500000 -> epoch_bigint t = t / MICROS.
Proof.
  intros t H. unfold epoch_bigint, round_half_even, subsecond, MICROS in *.
  destruct (2 * (t mod 1000000) <? 1000000) eqn:E; [reflexivity|lia].
Qed.

(* the exact condition under which ::BIGINT does not round up *)
Lemma rounds_down_iff : forall t,
  epoch_bigint t = t / MICROS <->
  (subsecond t < 500000 \/ (subsecond t = 500000 /\ Z.even (t / MICROS) = true)).
Proof.
  intros t. unfold epoch_bigint, round_half_even, subsecond, MICROS.
  destruct (2 * (t mod 1000000) <? 1000000) eqn:E1.
  - split; [intros _; left; lia|reflexivity].
  - destruct (1000000 <? 2 * (t mod 1000000)) eqn:E2.
    + split; [lia|]. intros [H|[H _]]; lia.
    + destruct (Z.even (t / 1000000)) eqn:E3.
      * split; [intros _; right; split; [lia|reflexivity]|reflexivity].
      * split; [lia|]. intros [H|[_ H]]; [lia|discriminate].
Qed.

Lemma quot_div_nonneg : forall a b, 0 <= a -> 0 < b -> Z.quot a b = a / b.
Proof. intros. apply Z.quot_div_nonneg; lia. Qed.

Lemma div_div_M : forall t s, 0 < s -> t / (s * MICROS) = t / MICROS / s.
Proof.
  intros t s Hs. rewrite (Z.mul_comm s MICROS). symmetry. apply Z.div_div; unfold MICROS; lia.
Qed.

(* value of the 2-argument rewrite when nothing goes wrong *)
Lemma e2_value : forall s t, 0 < s -> 0 <= t -> subsecond t < 500000 ->
  to_timestamp (idiv (epoch_bigint t) s * s) = t / (s * MICROS) * (s * MICROS).
Proof.
  intros s t Hs Ht Hsub. unfold to_timestamp, idiv.
  rewrite rounds_down_subsecond by assumption.
  assert (0 <= t / MICROS) by (apply Z.div_pos; unfold MICROS; lia).
  rewrite quot_div_nonneg by lia. rewrite div_div_M by lia. ring.
Qed.

Lemma bucket_origin_multiple : forall w t k, 0 < w -> time_bucket w t (k * w) = t / w * w.
Proof.
  intros w t k Hw. unfold time_bucket.
  replace (t - k * w) with (t + (- k) * w) by ring.
  rewrite Z.div_add by lia. ring.
Qed.

Lemma time_bucket2_eq : forall n u t,
  u <> UMonth -> 0 < n -> n * unit_seconds u < 2 ^ 63 ->
  default_origin_s mod (n * unit_seconds u) = 0 ->
  0 <= t -> subsecond t < 500000 ->
  rewritten_value (TB2 n u) t = eval_orig (TB2 n u) t.
Proof.
  intros n u t Hu Hn Hb Hdiv Ht Hsub.
  pose proof (unit_seconds_pos u Hu) as Hus.
  assert (Hs : 0 < n * unit_seconds u) by nia.
  unfold rewritten_value, rewrite_texpr. rewrite interval_small by (assumption || lia).
  destruct (n * unit_seconds u =? 0) eqn:E; [lia|].
  cbn [eval_emitted eval_orig].
  replace (match u with UMonth => None | _ => Some (time_bucket (n * unit_seconds u * MICROS) t (default_origin_s * MICROS)) end)
    with (Some (time_bucket (n * unit_seconds u * MICROS) t (default_origin_s * MICROS))) by (destruct u; congruence).
  f_equal. rewrite e2_value by assumption.
  apply Z.mod_divide in Hdiv; [|lia]. destruct Hdiv as [k Hk].
  replace (default_origin_s * MICROS) with (k * (n * unit_seconds u * MICROS)) by (rewrite Hk; ring).
  rewrite bucket_origin_multiple; [reflexivity|unfold MICROS; lia].
Qed.

Lemma time_bucket3_eq : forall n u o t,
  u <> UMonth -> 0 < n -> n * unit_seconds u < 2 ^ 63 ->
  o mod MICROS = 0 -> o <= t -> subsecond t < 500000 ->
  rewritten_value (TB3 n u o) t = eval_orig (TB3 n u o) t.
Proof.
  intros n u o t Hu Hn Hb Ho Hot Hsub.
  pose proof (unit_seconds_pos u Hu) as Hus.
  set (s := n * unit_seconds u) in *.
  assert (Hs : 0 < s) by (unfold s; nia).
  unfold rewritten_value, rewrite_texpr. fold s. rewrite interval_small by (assumption || lia). fold s.
  replace (o mod MICROS =? 0) with true by (symmetry; apply Z.eqb_eq; exact Ho). cbn [negb].
  destruct (s =? 0) eqn:E; [lia|].
  cbn [eval_emitted eval_orig]. fold s.
  replace (match u with UMonth => None | _ => Some (time_bucket (s * MICROS) t o) end)
    with (Some (time_bucket (s * MICROS) t o)) by (destruct u; congruence).
  f_equal. unfold to_timestamp, idiv, time_bucket.
  rewrite rounds_down_subsecond by assumption.
  apply Z.mod_divide in Ho; [|unfold MICROS; lia]. destruct Ho as [os Hos]. subst o.
  rewrite Z.div_mul by (unfold MICROS; lia).
  assert (Hle : os <= t / MICROS) by (apply Z.div_le_lower_bound; unfold MICROS in *; lia).
  rewrite quot_div_nonneg by lia.
  rewrite div_div_M by lia.
  replace (t - os * MICROS) with (t + (- os) * MICROS) by ring.
  rewrite Z.div_add by (unfold MICROS; lia).
  replace (t / MICROS + - os) with (t / MICROS - os) by ring. ring.
Qed.

Definition fixed_unit (u : tunit) : Prop := u = USecond \/ u = UMinute \/ u = UHour \/ u = UDay.

Lemma date_trunc_eq : forall u t, fixed_unit u -> 0 <= t -> subsecond t < 500000 ->
  rewritten_value (DT u) t = eval_orig (DT u) t.
Proof.
  intros u t Hu Ht Hsub.
  assert (Hne : u <> UMonth) by (destruct Hu as [H|[H|[H|H]]]; subst; discriminate).
  pose proof (unit_seconds_pos u Hne) as Hus.
  assert (Hb : 1 * unit_seconds u < 2 ^ 63) by (destruct Hu as [H|[H|[H|H]]]; subst; cbn; lia).
  unfold rewritten_value, rewrite_texpr. rewrite interval_small by (assumption || lia).
  rewrite Z.mul_1_l.
  destruct (unit_seconds u =? 0) eqn:E; [lia|].
  cbn [eval_emitted eval_orig]. rewrite e2_value by (assumption || lia).
  destruct Hu as [H|[H|[H|H]]]; subst; reflexivity.
Qed.

Lemma unrewritten_eq : forall e t, rewrite_texpr e = EUnch -> rewritten_value e t = eval_orig e t.
Proof. intros e t H. unfold rewritten_value. rewrite H. reflexivity. Qed.

Lemma month_unrewritten : forall n o, rewrite_texpr (TB2 n UMonth) = EUnch /\ rewrite_texpr (TB3 n UMonth o) = EUnch
                                      /\ rewrite_texpr (DT UMonth) = EUnch.
Proof.
  intros n o. unfold rewrite_texpr, interval_to_seconds. cbn [unit_seconds].
  rewrite Z.mul_0_r. destruct (2 ^ 63 <=? n); repeat split; try reflexivity;
    destruct (negb (o mod MICROS =? 0)); reflexivity.
Qed.

Lemma some_inj : forall (x y : Z), Some x = Some y -> x = y.
Proof. intros x y H. exact (f_equal (fun o => match o with Some v => v | None => x end) H). Qed.

(* ---- refutations that hold for EVERY timestamp ---- *)

Lemma mod_mul_M : forall a s, 0 < s -> (a * MICROS) mod (s * MICROS) = (a mod s) * MICROS.
Proof. intros. apply Z.mul_mod_distr_r; unfold MICROS; lia. Qed.

(* a 2-argument bucket whose width does not divide the origin gap is different on every row *)
Lemma origin_class_refuted : forall n u t,
  u <> UMonth -> 0 < n -> n * unit_seconds u < 2 ^ 63 ->
  default_origin_s mod (n * unit_seconds u) <> 0 ->
  rewritten_value (TB2 n u) t <> eval_orig (TB2 n u) t.
Proof.
  intros n u t Hu Hn Hb Hnd Heq.
  pose proof (unit_seconds_pos u Hu) as Hus.
  set (s := n * unit_seconds u) in *.
  assert (Hs : 0 < s) by (unfold s; nia).
  unfold rewritten_value, rewrite_texpr in Heq. fold s in Heq.
  rewrite interval_small in Heq by (assumption || lia). fold s in Heq.
  destruct (s =? 0) eqn:E; [lia|].
  cbn [eval_emitted eval_orig] in Heq. fold s in Heq.
  replace (match u with UMonth => None | _ => Some (time_bucket (s * MICROS) t (default_origin_s * MICROS)) end)
    with (Some (time_bucket (s * MICROS) t (default_origin_s * MICROS))) in Heq by (destruct u; congruence).
  apply some_inj in Heq. unfold to_timestamp, time_bucket in Heq.
  set (q := idiv (epoch_bigint t) s) in *.
  set (k := (t - default_origin_s * MICROS) / (s * MICROS)) in *.
  assert (Hm : (default_origin_s * MICROS) mod (s * MICROS) = 0).
  { replace (default_origin_s * MICROS) with ((q - k) * (s * MICROS)) by lia.
    apply Z.mod_mul. unfold MICROS; lia. }
  rewrite mod_mul_M in Hm by lia. unfold MICROS in Hm. lia.
Qed.

Lemma week_not_dividing : forall n, 0 < n -> default_origin_s mod (n * 604800) <> 0.
Proof.
  intros n Hn H. apply Z.mod_divide in H; [|lia]. destruct H as [k Hk].
  unfold default_origin_s in Hk.
  remember (k * n * 86400) as y eqn:Hy.
  assert (946857600 = 7 * y) by lia. lia.
Qed.

Lemma week_refuted : forall n t, 0 < n -> n * 604800 < 2 ^ 63 ->
  rewritten_value (TB2 n UWeek) t <> eval_orig (TB2 n UWeek) t.
Proof.
  intros n t Hn Hb. apply origin_class_refuted; try assumption; try discriminate.
  apply week_not_dividing; assumption.
Qed.

Lemma date_trunc_week_refuted : forall t, rewritten_value (DT UWeek) t <> eval_orig (DT UWeek) t.
Proof.
  intros t H.
  apply (week_refuted 1 t); [lia|lia|].
  exact H.
Qed.

(* an origin with a fractional second is no longer rewritten (originTime.Nanosecond() != 0) *)
Lemma origin_fraction_unrewritten : forall n u o, o mod MICROS <> 0 -> rewrite_texpr (TB3 n u o) = EUnch.
Proof.
  intros n u o H. unfold rewrite_texpr.
  destruct (o mod MICROS =? 0) eqn:E; [apply Z.eqb_eq in E; contradiction|]. reflexivity.
Qed.

(* what the old code computed for such an origin: E3 with the truncated origin - wrong on every row *)
Lemma origin_fraction_would_differ : forall n u o t,
  u <> UMonth -> 0 < n -> n * unit_seconds u < 2 ^ 63 -> o mod MICROS <> 0 ->
  eval_emitted (E3 (o / MICROS) (o / MICROS) (n * unit_seconds u) (n * unit_seconds u)) (TB3 n u o) t <> eval_orig (TB3 n u o) t.
Proof.
  intros n u o t Hu Hn Hb Hfr Heq.
  pose proof (unit_seconds_pos u Hu) as Hus.
  set (s := n * unit_seconds u) in *.
  assert (Hs : 0 < s) by (unfold s; nia).
  cbn [eval_emitted eval_orig] in Heq. fold s in Heq.
  replace (match u with UMonth => None | _ => Some (time_bucket (s * MICROS) t o) end)
    with (Some (time_bucket (s * MICROS) t o)) in Heq by (destruct u; congruence).
  apply some_inj in Heq. unfold to_timestamp, time_bucket in Heq.
  set (q := idiv (epoch_bigint t - o / MICROS) s) in *.
  set (k := (t - o) / (s * MICROS)) in *.
  assert (Hmod : 0 < o mod MICROS < MICROS) by (pose proof (Z.mod_pos_bound o MICROS); unfold MICROS in *; lia).
  assert (Hdec : o = MICROS * (o / MICROS) + o mod MICROS) by (apply Z.div_mod; unfold MICROS; lia).
  assert (Hk : o mod MICROS = (q - k) * s * MICROS) by nia.
  assert (q - k <= 0 \/ 1 <= q - k) by lia.
  unfold MICROS in *. nia.
Qed.

(* ==================================================================================== *)
(* 2. URL-domain CASE expression vs. the regular expression                              *)
(* ==================================================================================== *)

Lemma prefixb_app : forall l s, prefixb l (l ++ s) = true.
Proof. induction l; intros; cbn; [reflexivity|]. rewrite N.eqb_refl. apply IHl. Qed.

Lemma prefixb_app_false : forall l h c p, prefixb l h = false -> ~ In c l -> prefixb l (h ++ c :: p) = false.
Proof.
  induction l as [|x l IH]; intros h c p Hf Hn; [discriminate|].
  destruct h as [|y h]; cbn in *.
  - assert (N.eqb x c = false) by (apply N.eqb_neq; intro; subst; apply Hn; left; reflexivity).
    rewrite H. reflexivity.
  - destruct (N.eqb x y); [|reflexivity]. cbn in *. apply IH; [assumption|]. intro; apply Hn; right; assumption.
Qed.

Lemma take_until_app : forall c h r, ~ In c h -> take_until c (h ++ c :: r) = h.
Proof.
  induction h as [|x h IH]; intros r Hn; cbn.
  - rewrite N.eqb_refl. reflexivity.
  - assert (N.eqb x c = false) by (apply N.eqb_neq; intro; subst; apply Hn; left; reflexivity).
    rewrite H. f_equal. apply IH. intro; apply Hn; right; assumption.
Qed.

Lemma take_until_all : forall c h, ~ In c h -> take_until c h = h.
Proof.
  induction h as [|x h IH]; intros Hn; cbn; [reflexivity|].
  assert (N.eqb x c = false) by (apply N.eqb_neq; intro; subst; apply Hn; left; reflexivity).
  rewrite H. f_equal. apply IH. intro; apply Hn; right; assumption.
Qed.

Lemma take_until_notin : forall c s, ~ In c (take_until c s).
Proof.
  induction s as [|x s IH]; cbn; [tauto|].
  destruct (N.eqb x c) eqn:E; cbn; [tauto|].
  intros [H|H]; [apply N.eqb_neq in E; congruence|tauto].
Qed.

(* ---- LIKE with a literal prefix pattern ---- *)

Definition plainc (c : N) : bool := negb (N.eqb c 37) && negb (N.eqb c 95).

Lemma like_pct : forall p s,
  like (37%N :: p) s = like p s || match s with [] => false | _ :: s' => like (37%N :: p) s' end.
Proof. intros p s. destruct s; reflexivity. Qed.

Lemma like_pct_nil : forall s, like [37%N] s = true.
Proof.
  induction s as [|x s IH]; [reflexivity|].
  rewrite like_pct. rewrite IH. apply orb_true_r.
Qed.

Lemma like_char : forall c p s, plainc c = true ->
  like (c :: p) s = match s with [] => false | x :: s' => N.eqb c x && like p s' end.
Proof.
  intros c p s H. unfold plainc in H. apply andb_true_iff in H. destruct H as [H1 H2].
  apply negb_true_iff in H1. apply negb_true_iff in H2.
  destruct s; cbn [like]; rewrite H1, H2; reflexivity.
Qed.

Lemma like_prefix : forall l s, forallb plainc l = true -> like (l ++ [37%N]) s = prefixb l s.
Proof.
  induction l as [|c l IH]; intros s H.
  - cbn [app prefixb]. apply like_pct_nil.
  - cbn [forallb] in H. apply andb_true_iff in H. destruct H as [Hc Hl].
    cbn [app]. rewrite like_char by assumption.
    destruct s as [|x s]; cbn [prefixb]; [reflexivity|]. rewrite IH by assumption. reflexivity.
Qed.

Definition p_https_www : bytes := Eval vm_compute in B "https://www.".
Definition p_http_www : bytes := Eval vm_compute in B "http://www.".
Definition p_https : bytes := Eval vm_compute in B "https://".
Definition p_http : bytes := Eval vm_compute in B "http://".
Definition p_www : bytes := Eval vm_compute in B "www.".

Lemma url_case_spec : forall s,
  url_case s =
  if prefixb p_https_www s then take_until 47 (skipn 12 s)
  else if prefixb p_http_www s then take_until 47 (skipn 11 s)
  else if prefixb p_https s then take_until 47 (skipn 8 s)
  else if prefixb p_http s then take_until 47 (skipn 7 s)
  else take_until 47 s.
Proof.
  intros s. unfold url_case, split_part1, substr_from.
  change (B "https://www.%") with (p_https_www ++ [37%N]).
  change (B "http://www.%") with (p_http_www ++ [37%N]).
  change (B "https://%") with (p_https ++ [37%N]).
  change (B "http://%") with (p_http ++ [37%N]).
  rewrite !like_prefix by reflexivity. reflexivity.
Qed.

(* the CASE expression never returns a string containing '/' *)
Lemma url_case_no_slash : forall s, ~ In 47%N (url_case s).
Proof.
  intros s. rewrite url_case_spec.
  repeat match goal with |- context [if ?b then _ else _] => destruct b end; apply take_until_notin.
Qed.

Lemma url_case_https_www : forall rest, url_case (p_https_www ++ rest) = take_until 47 rest.
Proof. intros. rewrite url_case_spec. reflexivity. Qed.

Lemma url_case_http_www : forall rest, url_case (p_http_www ++ rest) = take_until 47 rest.
Proof. intros. rewrite url_case_spec. reflexivity. Qed.

Lemma url_case_https : forall rest, prefixb p_www rest = false -> url_case (p_https ++ rest) = take_until 47 rest.
Proof.
  intros rest H. rewrite url_case_spec.
  change (prefixb p_https_www (p_https ++ rest)) with (prefixb p_www rest). rewrite H. reflexivity.
Qed.

Lemma url_case_http : forall rest, prefixb p_www rest = false -> url_case (p_http ++ rest) = take_until 47 rest.
Proof.
  intros rest H. rewrite url_case_spec.
  change (prefixb p_https_www (p_http ++ rest)) with false.
  change (prefixb p_http_www (p_http ++ rest)) with (prefixb p_www rest). rewrite H. reflexivity.
Qed.

(* ---- the matcher ---- *)

Lemma rmatch_lit : forall l i s c k, rmatch (RLit l) i (l ++ s) c k = k (i + List.length l)%nat s c.
Proof.
  induction l as [|x l IH]; intros i s c k.
  - cbn. rewrite Nat.add_0_r. reflexivity.
  - cbn [RLit app rmatch]. rewrite N.eqb_refl. rewrite IH. cbn [List.length]. f_equal. lia.
Qed.

Lemma rmatch_lit_fail : forall l i s c k, prefixb l s = false -> rmatch (RLit l) i s c k = None.
Proof.
  induction l as [|x l IH]; intros i s c k H; [discriminate|].
  cbn [RLit rmatch]. destruct s as [|y s]; [reflexivity|].
  cbn [prefixb] in H. destruct (N.eqb x y); [|reflexivity]. cbn in H. apply IH. assumption.
Qed.

Lemma star_loop_greedy : forall (step : nat -> bytes -> caps -> mcont -> mres) (p : N -> bool),
  (forall i s c k, step i s c k = match s with y :: s' => if p y then k (S i) s' c else None | [] => None end) ->
  forall h s' n i c k x,
    forallb p h = true ->
    match s' with [] => True | y :: _ => p y = false end ->
    (List.length (h ++ s') <= n)%nat ->
    k (i + List.length h)%nat s' c = Some x ->
    star_loop step k n i (h ++ s') c = Some x.
Proof.
  intros step p Hstep. induction h as [|a h IH]; intros s' n i c k x Hall Hstop Hn Hk.
  - cbn [app List.length] in *. rewrite Nat.add_0_r in Hk.
    destruct n as [|n]; [exact Hk|]. cbn [star_loop]. rewrite Hstep.
    destruct s' as [|y s'']; [rewrite Hk; reflexivity|]. rewrite Hstop. rewrite Hk. reflexivity.
  - cbn [forallb] in Hall. apply andb_true_iff in Hall. destruct Hall as [Ha Hall].
    cbn [app List.length] in Hn. destruct n as [|n]; [lia|].
    cbn [star_loop app]. rewrite Hstep. rewrite Ha.
    assert (Hlt : Nat.ltb (List.length (h ++ s')) (List.length (a :: h ++ s')) = true)
      by (apply Nat.ltb_lt; cbn [List.length]; lia).
    rewrite Hlt. rewrite (IH s' n (S i) c k x); [reflexivity|assumption|assumption|lia|].
    cbn [List.length] in Hk. rewrite <- Hk. f_equal. lia.
Qed.

Definition noslash_p (y : N) : bool := xorb true (in_ranges y [(47, 47)%N]).
Definition any_p (y : N) : bool := negb (N.eqb y 10).

Lemma noslash_step : forall i s c k,
  rmatch noslash i s c k = match s with y :: s' => if noslash_p y then k (S i) s' c else None | [] => None end.
Proof. reflexivity. Qed.

Lemma any_step : forall i s c k,
  rmatch RAny i s c k = match s with y :: s' => if any_p y then k (S i) s' c else None | [] => None end.
Proof. intros. destruct s as [|y s]; [reflexivity|]. cbn [rmatch]. unfold any_p. destruct (N.eqb y 10); reflexivity. Qed.

Lemma noslash_p_forall : forall h, ~ In 47%N h -> forallb noslash_p h = true.
Proof.
  induction h as [|x h IH]; intros H; [reflexivity|]. cbn [forallb].
  rewrite IH by (intro; apply H; right; assumption). rewrite andb_true_r.
  unfold noslash_p, in_ranges. cbn [existsb fst snd]. rewrite orb_false_r.
  assert (x <> 47%N) by (intro; subst; apply H; left; reflexivity).
  destruct (N.leb 47 x) eqn:E1; destruct (N.leb x 47) eqn:E2; try reflexivity.
  apply N.leb_le in E1. apply N.leb_le in E2. lia.
Qed.

Lemma any_p_forall : forall h, ~ In 10%N h -> forallb any_p h = true.
Proof.
  induction h as [|x h IH]; intros H; [reflexivity|]. cbn [forallb].
  rewrite IH by (intro; apply H; right; assumption). rewrite andb_true_r.
  unfold any_p. apply negb_true_iff. apply N.eqb_neq. intro; subst; apply H; left; reflexivity.
Qed.

Lemma rmatch_star : forall a i s c k, rmatch (RStar a) i s c k = star_loop (rmatch a) k (List.length s) i s c.
Proof. reflexivity. Qed.

(* [^/]+ on host ++ tail where tail is empty or starts with '/' *)
Lemma plus_noslash : forall host tail i c k x,
  host <> [] -> ~ In 47%N host ->
  match tail with [] => True | y :: _ => y = 47%N end ->
  k (i + List.length host)%nat tail c = Some x ->
  rmatch (RPlus noslash) i (host ++ tail) c k = Some x.
Proof.
  intros host tail i c k x Hne Hns Htail Hk.
  destruct host as [|a h]; [congruence|].
  unfold RPlus. cbn [rmatch]. fold noslash. rewrite noslash_step. cbn [app].
  pose proof (noslash_p_forall (a :: h) Hns) as Hall. cbn [forallb] in Hall.
  apply andb_true_iff in Hall. destruct Hall as [Ha Hall]. rewrite Ha.
  change (star_loop (rmatch noslash) k (List.length (h ++ tail)) (S i) (h ++ tail) c = Some x).
  apply (star_loop_greedy (rmatch noslash) noslash_p noslash_step); try assumption.
  - destruct tail as [|y t]; [exact I|]. subst y. reflexivity.
  - lia.
  - rewrite <- Hk. cbn [List.length]. f_equal. lia.
Qed.

(* .* on a path without newline, up to the end of the subject *)
Lemma star_any_all : forall path i c k x,
  ~ In 10%N path -> k (i + List.length path)%nat [] c = Some x ->
  rmatch (RStar RAny) i path c k = Some x.
Proof.
  intros path i c k x Hnl Hk. rewrite rmatch_star.
  pose proof (star_loop_greedy (rmatch RAny) any_p any_step path [] (List.length path) i c k x) as H.
  rewrite app_nil_r in H. apply H; try assumption.
  - apply any_p_forall; assumption.
  - exact I.
  - lia.
Qed.

Definition kfinal : mcont := fun i' _ c' => Some (i', c').

(* scheme: http:// and https:// *)
Lemma scheme_http : forall R i rest c k,
  rmatch (RSeq scheme_re R) i (p_http ++ rest) c k = rmatch R (i + 7)%nat rest c k.
Proof.
  intros. unfold scheme_re. change (B "http") with [104; 116; 116; 112]%N. change (B "://") with [58; 47; 47]%N.
  unfold p_http. cbn. replace (S (S (S (S (S (S (S i))))))) with (i + 7)%nat by lia. reflexivity.
Qed.

Lemma scheme_https : forall R i rest c k x,
  rmatch R (i + 8)%nat rest c k = Some x ->
  rmatch (RSeq scheme_re R) i (p_https ++ rest) c k = Some x.
Proof.
  intros R i rest c k x H. unfold scheme_re. change (B "http") with [104; 116; 116; 112]%N. change (B "://") with [58; 47; 47]%N.
  unfold p_https. cbn. replace (S (S (S (S (S (S (S (S i)))))))) with (i + 8)%nat by lia. rewrite H. reflexivity.
Qed.

Definition www_opt : re := ROpt (RLit (B "www.")).

Lemma www_yes : forall R i rest c k x,
  rmatch R (i + 4)%nat rest c k = Some x ->
  rmatch (RSeq www_opt R) i (p_www ++ rest) c k = Some x.
Proof.
  intros R i rest c k x H. unfold www_opt, ROpt. cbn [rmatch].
  change (B "www.") with p_www. rewrite rmatch_lit. change (List.length p_www) with 4%nat. rewrite H. reflexivity.
Qed.

Lemma www_no : forall R i rest c k,
  prefixb p_www rest = false ->
  rmatch (RSeq www_opt R) i rest c k = rmatch R i rest c k.
Proof.
  intros R i rest c k H. unfold www_opt, ROpt. cbn [rmatch].
  change (B "www.") with p_www. rewrite rmatch_lit_fail by assumption. reflexivity.
Qed.

(* ([^/]+)/.*$ *)
Definition tail_replace : re := RSeq (RGroup 1 (RPlus noslash)) (RSeq (RChar 47) (RSeq (RStar RAny) REol)).

Lemma tail_replace_match : forall host path i c,
  host <> [] -> ~ In 47%N host -> ~ In 10%N path ->
  rmatch tail_replace i (host ++ 47%N :: path) c kfinal =
  Some ((i + List.length host + 1 + List.length path)%nat, (1%nat, host) :: c).
Proof.
  intros host path i c Hne Hns Hnl. unfold tail_replace. cbn [rmatch].
  apply plus_noslash; try assumption; [reflexivity|].
  rewrite N.eqb_refl.
  apply star_any_all; [assumption|]. cbn [rmatch]. unfold kfinal. f_equal. f_equal.
  - lia.
  - f_equal. f_equal. replace (i + List.length host - i)%nat with (List.length host) by lia.
    rewrite firstn_app. rewrite Nat.sub_diag. cbn [firstn]. rewrite app_nil_r. apply firstn_all.
Qed.

Definition tail_extract : re := RGroup 1 (RPlus noslash).

Lemma tail_extract_match : forall host tail i c,
  host <> [] -> ~ In 47%N host -> match tail with [] => True | y :: _ => y = 47%N end ->
  rmatch tail_extract i (host ++ tail) c kfinal = Some ((i + List.length host)%nat, (1%nat, host) :: c).
Proof.
  intros host tail i c Hne Hns Htail. unfold tail_extract. cbn [rmatch].
  apply plus_noslash; try assumption. unfold kfinal. f_equal. f_equal. f_equal. f_equal.
  replace (i + List.length host - i)%nat with (List.length host) by lia.
  rewrite firstn_app. rewrite Nat.sub_diag. cbn [firstn]. rewrite app_nil_r. apply firstn_all.
Qed.

Lemma canon_replace_unfold : canon_replace_re = RSeq RBol (RSeq scheme_re (RSeq www_opt tail_replace)).
Proof. reflexivity. Qed.
Lemma canon_extract_unfold : canon_extract_re = RSeq RBol (RSeq scheme_re (RSeq www_opt tail_extract)).
Proof. reflexivity. Qed.

Lemma rsearch_hit : forall r s e c, rmatch_here r 0 s = Some (e, c) -> rsearch r s = Some (0%nat, e, c).
Proof. intros r s e c H. unfold rsearch. destruct s; cbn [rsearch_from]; rewrite H; reflexivity. Qed.

Lemma bol_0 : forall R s c k, rmatch (RSeq RBol R) 0 s c k = rmatch R 0 s c k.
Proof. reflexivity. Qed.

(* a well-formed URL, decomposed *)
Definition wf_scheme (sch : bytes) : Prop := sch = p_http \/ sch = p_https.
Definition wf_www (w host : bytes) : Prop := w = p_www \/ (w = [] /\ prefixb p_www host = false).

Lemma www_not_slash : ~ In 47%N p_www.
Proof. unfold p_www. cbn. intros [H|[H|[H|[H|H]]]]; try discriminate; assumption. Qed.

Lemma canon_replace_here : forall sch w host path,
  wf_scheme sch -> wf_www w host -> host <> [] -> ~ In 47%N host -> ~ In 10%N path ->
  exists e, rmatch_here canon_replace_re 0 (sch ++ w ++ host ++ 47%N :: path) = Some (e, [(1%nat, host)])
            /\ e = List.length (sch ++ w ++ host ++ 47%N :: path).
Proof.
  intros sch w host path Hs Hw Hne Hns Hnl.
  unfold rmatch_here. rewrite canon_replace_unfold, bol_0. fold kfinal.
  destruct Hs as [Hs|Hs]; destruct Hw as [Hw|[Hw Hp]]; subst sch w.
  - rewrite scheme_http. eexists. split.
    + apply www_yes. apply tail_replace_match; assumption.
    + rewrite !app_length. cbn [List.length]. change (List.length p_http) with 7%nat. change (List.length p_www) with 4%nat. lia.
  - rewrite scheme_http. cbn [app]. rewrite www_no by (apply prefixb_app_false; [assumption|apply www_not_slash]).
    eexists. split; [apply tail_replace_match; assumption|].
    rewrite !app_length. cbn [List.length]. change (List.length p_http) with 7%nat. lia.
  - eexists. split.
    + apply scheme_https. apply www_yes. apply tail_replace_match; assumption.
    + rewrite !app_length. cbn [List.length]. change (List.length p_https) with 8%nat. change (List.length p_www) with 4%nat. lia.
  - cbn [app]. eexists. split.
    + apply scheme_https. rewrite www_no by (apply prefixb_app_false; [assumption|apply www_not_slash]).
      apply tail_replace_match; assumption.
    + rewrite !app_length. cbn [List.length]. change (List.length p_https) with 8%nat. lia.
Qed.

Lemma url_case_wf : forall sch w host tail,
  wf_scheme sch -> wf_www w host -> ~ In 47%N host ->
  match tail with [] => True | y :: _ => y = 47%N end ->
  url_case (sch ++ w ++ host ++ tail) = host.
Proof.
  intros sch w host tail Hs Hw Hns Htail.
  assert (Htu : take_until 47 (host ++ tail) = host).
  { destruct tail as [|y t]; [rewrite app_nil_r; apply take_until_all; assumption|].
    subst y. apply take_until_app; assumption. }
  assert (Hpf : w = [] -> prefixb p_www host = false -> prefixb p_www (host ++ tail) = false).
  { intros _ Hp. destruct tail as [|y t]; [rewrite app_nil_r; assumption|].
    subst y. apply prefixb_app_false; [assumption|apply www_not_slash]. }
  destruct Hs as [Hs|Hs]; destruct Hw as [Hw|[Hw Hp]]; subst sch w.
  - change (p_http ++ p_www ++ host ++ tail) with (p_http_www ++ host ++ tail).
    rewrite url_case_http_www. assumption.
  - cbn [app]. rewrite url_case_http by (apply Hpf; [reflexivity|assumption]). assumption.
  - change (p_https ++ p_www ++ host ++ tail) with (p_https_www ++ host ++ tail).
    rewrite url_case_https_www. assumption.
  - cbn [app]. rewrite url_case_https by (apply Hpf; [reflexivity|assumption]). assumption.
Qed.

Lemma url_canonical_replace_eq : forall sch w host path,
  wf_scheme sch -> wf_www w host -> host <> [] -> ~ In 47%N host -> ~ In 10%N path ->
  let s := sch ++ w ++ host ++ 47%N :: path in
  re_replace1 canon_replace_re s = url_case s /\ url_case s = host.
Proof.
  intros sch w host path Hs Hw Hne Hns Hnl s.
  destruct (canon_replace_here sch w host path Hs Hw Hne Hns Hnl) as [e [He Hlen]].
  assert (Hc : url_case s = host) by (apply url_case_wf; try assumption; reflexivity).
  split; [|exact Hc]. rewrite Hc.
  unfold re_replace1. fold s in He. rewrite (rsearch_hit _ _ _ _ He).
  cbn [firstn app group1 cap_get Nat.eqb]. fold s in Hlen. rewrite Hlen.
  rewrite skipn_all. apply app_nil_r.
Qed.

Lemma canon_extract_here : forall sch w host tail,
  wf_scheme sch -> wf_www w host -> host <> [] -> ~ In 47%N host ->
  match tail with [] => True | y :: _ => y = 47%N end ->
  exists e, rmatch_here canon_extract_re 0 (sch ++ w ++ host ++ tail) = Some (e, [(1%nat, host)]).
Proof.
  intros sch w host tail Hs Hw Hne Hns Htail.
  assert (Hpf : prefixb p_www host = false -> prefixb p_www (host ++ tail) = false).
  { intros Hp. destruct tail as [|y t]; [rewrite app_nil_r; assumption|].
    subst y. apply prefixb_app_false; [assumption|apply www_not_slash]. }
  unfold rmatch_here. rewrite canon_extract_unfold, bol_0. fold kfinal.
  destruct Hs as [Hs|Hs]; destruct Hw as [Hw|[Hw Hp]]; subst sch w.
  - rewrite scheme_http. eexists. apply www_yes. apply tail_extract_match; assumption.
  - rewrite scheme_http. cbn [app]. rewrite www_no by (apply Hpf; assumption).
    eexists. apply tail_extract_match; assumption.
  - eexists. apply scheme_https. apply www_yes. apply tail_extract_match; assumption.
  - cbn [app]. eexists. apply scheme_https. rewrite www_no by (apply Hpf; assumption).
    apply tail_extract_match; assumption.
Qed.

Lemma url_canonical_extract_eq : forall sch w host tail,
  wf_scheme sch -> wf_www w host -> host <> [] -> ~ In 47%N host ->
  match tail with [] => True | y :: _ => y = 47%N end ->
  let s := sch ++ w ++ host ++ tail in
  re_extract1 canon_extract_re s = url_case s /\ url_case s = host.
Proof.
  intros sch w host tail Hs Hw Hne Hns Htail s.
  destruct (canon_extract_here sch w host tail Hs Hw Hne Hns Htail) as [e He].
  assert (Hc : url_case s = host) by (apply url_case_wf; assumption).
  split; [|exact Hc]. rewrite Hc.
  unfold re_extract1. fold s in He. rewrite (rsearch_hit _ _ _ _ He). reflexivity.
Qed.

(* every string the pattern does not match and that contains '/' is changed by the rewrite *)
Lemma url_nonmatching_refuted : forall r s,
  rsearch r s = None -> In 47%N s -> re_replace1 r s <> url_case s.
Proof.
  intros r s Hno Hin Heq. unfold re_replace1 in Heq. rewrite Hno in Heq.
  apply (url_case_no_slash s). rewrite <- Heq. assumption.
Qed.

(* ==================================================================================== *)
(* 3. LIKE / empty-string predicate reordering                                           *)
(* ==================================================================================== *)

Lemma and3_comm : forall a b, and3 a b = and3 b a.
Proof. intros [[|]|] [[|]|]; reflexivity. Qed.
Lemma and3_assoc : forall a b c, and3 a (and3 b c) = and3 (and3 a b) c.
Proof. intros [[|]|] [[|]|] [[|]|]; reflexivity. Qed.
Lemma and3_true_r : forall a, and3 a (Some true) = a.
Proof. intros [[|]|]; reflexivity. Qed.
Lemma and3_true_l : forall a, and3 (Some true) a = a.
Proof. intros [[|]|]; reflexivity. Qed.

Lemma eval_chain_app : forall r a b, eval_chain r (a ++ b) = and3 (eval_chain r a) (eval_chain r b).
Proof.
  intros r a b. induction a as [|f a IH].
  - cbn [app]. change (eval_chain r []) with (Some true). rewrite and3_true_l. reflexivity.
  - change (eval_chain r ((f :: a) ++ b)) with (and3 (eval_factor r f) (eval_chain r (a ++ b))).
    change (eval_chain r (f :: a)) with (and3 (eval_factor r f) (eval_chain r a)).
    rewrite IH. apply and3_assoc.
Qed.

Lemma split_last_spec : forall A (l : list A) a x, split_last l = Some (a, x) -> l = a ++ [x].
Proof.
  intros A l a x H. unfold split_last in H. destruct (rev l) as [|y r] eqn:E; [discriminate|].
  injection H as H1 H2. subst.
  rewrite <- (rev_involutive l). rewrite E. reflexivity.
Qed.

Lemma opt1_sound : forall r cl, eval_clause r (opt1 cl) = eval_clause r cl.
Proof.
  intros r cl. unfold opt1.
  destruct cl as [|ch chains]; [reflexivity|].
  destruct ch as [|f1 [|f2 rest]]; try reflexivity.
  destruct (is_plain_like f1 && is_plain_nonempty f2); [|reflexivity].
  unfold eval_clause. cbn [fold_right]. f_equal.
  unfold eval_chain. cbn [fold_right].
  rewrite !and3_assoc. f_equal. apply and3_comm.
Qed.

(* the text of two chains joined by OR contains the word OR *)
Lemma word_or_from_sep : forall x prev y, word_or_from prev (x ++ B " OR " ++ y) = true.
Proof.
  induction x as [|c x IH]; intros prev y.
  - change (B " OR ") with [32; 79; 82; 32]%N. cbn [app word_or_from].
    change (is_O 32) with false. rewrite andb_false_r. cbn [orb].
    change (is_word 32) with false. cbn [negb andb].
    change (is_O 79) with true. change (is_R 82) with true. change (is_word 32) with false. reflexivity.
  - cbn [app word_or_from]. rewrite IH. apply orb_true_r.
Qed.

Lemma print_clause_cons2 : forall ch c2 cl,
  print_clause (ch :: c2 :: cl) = print_chain ch ++ B " OR " ++ print_clause (c2 :: cl).
Proof. reflexivity. Qed.

Lemma word_or_multi : forall c1 cs init, word_or (print_clause ((c1 :: cs) ++ [init])) = true.
Proof.
  intros c1 cs init. cbn [app].
  destruct (cs ++ [init]) as [|c2 rest] eqn:E; [destruct cs; discriminate|].
  rewrite print_clause_cons2. apply word_or_from_sep.
Qed.

Lemma opt2_sound : forall r cl, eval_clause r (opt2 cl) = eval_clause r cl.
Proof.
  intros r cl. unfold opt2.
  destruct (split_last cl) as [[chains lastch]|] eqn:E1; [|reflexivity].
  destruct (split_last lastch) as [[init f]|] eqn:E2; [|reflexivity].
  destruct init as [|g init]; [reflexivity|].
  destruct chains as [|c1 cs].
  - (* a single chain: the trailing check moves to the front of that chain *)
    match goal with |- context [if ?b then _ else _] => destruct b end; [|reflexivity].
    apply split_last_spec in E1. apply split_last_spec in E2. cbn [app] in E1. subst cl lastch.
    unfold eval_clause. cbn [fold_right]. f_equal.
    rewrite eval_chain_app.
    change (eval_chain r (f :: g :: init)) with (and3 (eval_factor r f) (eval_chain r (g :: init))).
    change (eval_chain r [f]) with (and3 (eval_factor r f) (Some true)).
    rewrite and3_true_r. apply and3_comm.
  - (* several chains: the text before the check contains " OR " and the guard leaves it alone *)
    rewrite word_or_multi. cbn [negb]. rewrite andb_false_r. cbn [andb]. reflexivity.
Qed.

(* OptimizeLikePatterns keeps the Kleene value of EVERY clause on every row *)
Lemma optimize_sound : forall r cl tail wrap, eval_clause r (optimize cl tail wrap) = eval_clause r cl.
Proof.
  intros r cl tail wrap. unfold optimize.
  destruct (containsb (B "LIKE") (upperb (print_query cl tail wrap))); [|reflexivity].
  destruct wrap; [rewrite opt2_sound|]; apply opt1_sound.
Qed.

Lemma keeps_sound : forall r cl tail wrap, keeps r (optimize cl tail wrap) = keeps r cl.
Proof. intros. unfold keeps. rewrite optimize_sound. reflexivity. Qed.
