(* C17 - obligations over the parameters regenerated from the current Go source on every run
   (coq/gen/Params_Rewrites.v, written by tools/props/C17.py). *)
From Coq Require Import List ZArith Bool String.
From Arc Require Import Rewrites.Model.
From ArcGen Require Import Params_Rewrites.
Import ListNotations.

(* None of the layouts parseTimeBucketOrigin tries accepts a numeric UTC offset: an origin literal
   such as '2024-01-01 00:00:00+05:30' fails to parse and the call is left to DuckDB - which the
   model states as  rewrite_texpr (TB3Off ..) = EUnch.  (DuckDB's TIMESTAMP literal ignores the
   offset; baking the UTC instant into the epoch arithmetic would shift every bucket.) *)
Theorem C17_origin_layouts_unzoned : forallb (fun l => negb (layout_has_zone l)) origin_layouts = true.
Proof. vm_compute. reflexivity. Qed.

Theorem C17_offset_origin_unrewritten : forall n u o off t,
  rewrite_texpr (TB3Off n u o off) = EUnch /\ rewritten_value (TB3Off n u o off) t = eval_orig (TB3Off n u o off) t.
Proof. intros. split; reflexivity. Qed.

(* The regular expressions that decide WHAT is rewritten, re-extracted from the source on every
   run.  The model was written for exactly these: the admitted interval-amount language is
   digits followed by optional blanks ((\d+)\s*, no fraction, no sign, no leading blank), the unit
   alternation is the one below, the trailing empty check must be followed by GROUP / ORDER /
   LIMIT / end of text (not by a closing parenthesis), the first reordering by a non-quote. *)
Open Scope string_scope.

Theorem C17_amount_language_and_terminators :
  rx_patternTimeBucket2Args_amount = "(\d+)\s*" /\ rx_patternTimeBucket3Args_amount = "(\d+)\s*" /\
  rx_patternTimeBucket2Args_units = "second|seconds|minute|minutes|hour|hours|day|days|week|weeks|month|months" /\
  rx_patternTimeBucket3Args_units = rx_patternTimeBucket2Args_units /\
  rx_patternEndEmptyCheck_after_check = "(\s*(?:GROUP|ORDER|LIMIT|$))" /\
  rx_patternEmptyCheckAfterLike_after_check = "([^']|$)" /\
  rx_patternTopLevelOr = "(?i)\bOR\b".
Proof. repeat split; reflexivity. Qed.

Theorem C17_regex_sources_pinned :
  rx_patternTimeBucket2Args = "(?i)\btime_bucket\s*\(\s*(?:INTERVAL\s*)?'(\d+)\s*(second|seconds|minute|minutes|hour|hours|day|days|week|weeks|month|months)'\s*,\s*([^,)]+)\)" /\
  rx_patternTimeBucket3Args = "(?i)\btime_bucket\s*\(\s*(?:INTERVAL\s*)?'(\d+)\s*(second|seconds|minute|minutes|hour|hours|day|days|week|weeks|month|months)'\s*,\s*([^,]+)\s*,\s*(?:TIMESTAMP\s*)?'([^']+)'\s*\)" /\
  rx_patternDateTrunc = "(?i)\bdate_trunc\s*\(\s*'(second|minute|hour|day|week|month)'\s*,\s*([^)]+)\)" /\
  rx_patternEmptyCheckAfterLike = "(?i)(WHERE\s+)(\w+\s+(?:NOT\s+)?LIKE\s+'[^']+')(\s+AND\s+)(\w+\s*<>\s*'')([^']|$)" /\
  rx_patternEndEmptyCheck = "(?i)(WHERE\s+)(.*?)(\s+AND\s+)(\w+\s*<>\s*'')(\s*(?:GROUP|ORDER|LIMIT|$))".
Proof. repeat split; reflexivity. Qed.
