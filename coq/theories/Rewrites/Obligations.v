(* C17 - obligations over the parameters regenerated from the current Go source on every run
   (coq/gen/Params_Rewrites.v, written by tools/props/C17.py). *)
From Coq Require Import List ZArith Bool String.
From Arc Require Import Rewrites.Model.
From ArcGen Require Import Params_Rewrites.
Import ListNotations.

(* None of the layouts parseTimeBucketOrigin tries accepts a numeric UTC offset: an origin literal
   such as '2024-01-01 00:00:00+05:30' fails to parse and the call is left to DuckDB - which the
   model states as  rewrite_texpr (TB3Off ..) = EUnch.  (DuckDB's TIMESTAMP literal ignores the
   offset; baking the UTC instant into the epoch arithmetic would shift every bucket.) *)
Theorem C17_origin_layouts_unzoned : forallb (fun l => negb (layout_has_zone l)) origin_layouts = true.
Proof. vm_compute. reflexivity. Qed.

Theorem C17_offset_origin_unrewritten : forall n u o off t,
  rewrite_texpr (TB3Off n u o off) = EUnch /\ rewritten_value (TB3Off n u o off) t = eval_orig (TB3Off n u o off) t.
Proof. intros. split; reflexivity. Qed.
